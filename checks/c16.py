"""C16 -- log-sink zip batching: every record exactly once, in order, decodably; packs immutable; flushed when due;
built-in defaults in force (DESIGN 3/C16).
(M) MC_ZipSender: the design -- one action per step of the goroutine that owns the buffer (select, timed wait, encode+count,
    decide, hand-over, reset, drain, return), producers, SendDirect, configuration updates, the two halves of the stop
    request, a client that keeps or consumes each pack; memory modelled as regions so that a pack can be a VIEW of the
    reusable buffer -- satisfies ExactlyOnceInOrder, CountMatches, Decodable, ZipIff, DefaultsInForce,
    HandedOverIsImmutable and FlushWhenDue for ALL interleavings of the small programs.  The implementation as found is
    refuted three times by TLC: Records = buffer.Bytes() (worker path and SendDirect) breaks HandedOverIsImmutable,
    flush-and-return on stop breaks ExactlyOnceInOrder, creation from zero-valued options breaks DefaultsInForce.
(A) Trace_ZipSender: fresh real senders (verif constructor, explicit settings or none) with a recording TcpClient that
    consumes or retains; every step of the worker is reported by the verif hooks and every pack is read at hand-over
    and, when retained, again later.  TLC replays the events through the specification's own actions.
(B) the hooks double as scheduler gates: the worker is stepped hook by hook, so the schedules of TLC's counterexamples
    (gen cex) and random interleavings with producers, SendDirect, configuration updates and stop are imposed
    deterministically (first trace); free-running concurrent runs form the second trace.
    Real time is part of the property at one place only (a batch nobody adds to is flushed when the waiting time in
    force has passed on the idle queue): the harness's reference clock logs a Tick for every full period the released
    worker has not answered, and the specification does not let time pass beyond IdleSlack periods inside one wait.
    Senders are also created through the public GetInstance (one child process each) with every kind of context option
    and stopped through every function that stops them; records the pack layer cannot encode are mixed in.
    gen stopmix makes the stop request while buffer AND queue hold records (the emitted order must continue); a timed
    wait that begins with a record queued must return it (also with a waiting time of 0 or below); a process taken
    down by the sender's worker is a recorded event (Crash) that no action of the specification matches."""
import json, os
import vf

QUICK = ["MC_ZipSender.cfg", "MC_ZipSender_direct.cfg", "MC_ZipSender_mixed.cfg", "MC_ZipSender_reconf.cfg"]
THOROUGH = ["MC_ZipSender_thorough.cfg", "MC_ZipSender_thorough_direct.cfg", "MC_ZipSender_thorough_mixed.cfg",
            "MC_ZipSender_thorough_reconf.cfg"]
ASIS = [("MC_ZipSender_asis_alias.cfg", "HandedOverIsImmutable"), ("MC_ZipSender_asis_dalias.cfg", "HandedOverIsImmutable"),
        ("MC_ZipSender_asis_abandon.cfg", "ExactlyOnceInOrder"), ("MC_ZipSender_asis_zeroed.cfg", "DefaultsInForce")]


def tick_selftest(run, out, meta):
    """binding of the reference clock: a worker's idle wait padded with IdleSlack Ticks is still accepted, with one
    more it is refused"""
    slack = int([l for l in open(os.path.join(run.specdir, "Trace_ZipSender.cfg")).read().splitlines() if "IdleSlack" in l][0].split("=")[1])
    for job in meta.get("jobs", []):
        hists = vf.split_histories(open(os.path.join(out, job["trace"])).read().splitlines())
        for h in hists:
            if json.loads(h[0]).get("gen") != "reconf":
                continue
            for i in range(2, len(h)):
                e, b = json.loads(h[i]), json.loads(h[i - 1])
                if e.get("ev") == "Idle" and b.get("ev") == "Poll" and e["st"]["obs"]["maxWait"] > 0:
                    tick = json.dumps({"ev": "Tick", "p": max(20, e["st"]["obs"]["maxWait"])}, separators=(",", ":"))
                    res = {}
                    for n in (slack, slack + 1):
                        p = os.path.join(out, "_selftest_ticks_%d.ndjson" % n)
                        open(p, "w").write("\n".join(h[:i] + [tick] * n + h[i:]) + "\n")
                        st = run.trace_states
                        acc, hwm, nn, r = run.validate_file(job["spec"], p)
                        run.trace_states = st
                        res[n] = acc
                    run.selftests["Trace_ZipSender:reference_clock"] = {"ticks_within_slack_accepted": res[slack], "one_more_rejected": not res[slack + 1]}
                    if not res[slack] or res[slack + 1]:
                        raise vf.MachineryError("binding self-test of the reference clock failed: %s" % res)
                    vf.log("SELFTEST Trace_ZipSender reference clock %s" % run.selftests["Trace_ZipSender:reference_clock"])
                    return
    raise vf.MachineryError("self-test found no idle wait in a history of gen reconf")


def order_selftest(run, out, meta):
    """binding of the order behind a stop request: in a history of gen stopmix with two hand-overs after the request, the
    two recorded hand-overs exchanged (newer records first) are refused"""
    for job in meta.get("jobs", []):
        for h in vf.split_histories(open(os.path.join(out, job["trace"])).read().splitlines()):
            if json.loads(h[0]).get("gen") != "stopmix":
                continue
            evs = [json.loads(x).get("ev") for x in h]
            if "StopRet" not in evs:
                continue
            sends = [i for i in range(evs.index("StopRet"), len(h)) if evs[i] == "Send"]
            if len(sends) < 2 or h[sends[0]] == h[sends[1]]:
                continue
            hh = list(h)
            hh[sends[0]], hh[sends[1]] = h[sends[1]], h[sends[0]]
            p = os.path.join(out, "_selftest_order.ndjson")
            open(p, "w").write("\n".join(hh) + "\n")
            n0 = run.trace_states
            acc, hwm, nn, r = run.validate_file(job["spec"], p)
            run.trace_states = n0
            run.selftests["Trace_ZipSender:order_behind_stop"] = {"exchanged_hand_overs_rejected": not acc, "at_event": hwm, "first_exchanged": sends[0] + 1}
            if acc or hwm != sends[0] + 1:
                raise vf.MachineryError("binding self-test of the order behind a stop request failed: accepted=%s hwm=%s" % (acc, hwm))
            vf.log("SELFTEST Trace_ZipSender order behind stop %s" % run.selftests["Trace_ZipSender:order_behind_stop"])
            return
    raise vf.MachineryError("self-test found no history of gen stopmix with two hand-overs behind the stop request")


def progress_selftest(run, out, meta):
    """binding of 'a wait that begins with a record queued returns it': a recorded Take behind a Poll that saw a
    non-empty queue (no producer running) is replaced by an expiry of the wait -> refused at that event; the same
    expiry reported while a producer may be running (no qlen) is a step of the specification"""
    for job in meta.get("jobs", []):
        for h in vf.split_histories(open(os.path.join(out, job["trace"])).read().splitlines()):
            if json.loads(h[0]).get("gen") not in ("stopmix", "gated"):
                continue
            for i in range(2, len(h)):
                e, b = json.loads(h[i]), json.loads(h[i - 1])
                if e.get("ev") == "Take" and b.get("ev") == "Poll" and b["st"].get("qlen", 0) > 0:
                    res = {}
                    for tag, keep in (("sure", True), ("racing", False)):
                        st = dict(b["st"])
                        if not keep:
                            del st["qlen"]
                        idle = json.dumps({"ev": "Idle", "st": st}, separators=(",", ":"))
                        p = os.path.join(out, "_selftest_idle_%s.ndjson" % tag)
                        open(p, "w").write("\n".join(h[:i] + [idle]) + "\n")
                        n0 = run.trace_states
                        acc, hwm, nn, r = run.validate_file(job["spec"], p)
                        run.trace_states = n0
                        res[tag] = (acc, hwm == i + 1)
                    ok = (not res["sure"][0]) and res["sure"][1] and res["racing"][0]
                    run.selftests["Trace_ZipSender:queued_record_is_taken"] = {
                        "expiry_with_record_queued_rejected_at_that_event": (not res["sure"][0]) and res["sure"][1],
                        "same_expiry_while_a_producer_may_run_accepted": res["racing"][0]}
                    if not ok:
                        raise vf.MachineryError("binding self-test of the worker's progress failed: %s" % res)
                    vf.log("SELFTEST Trace_ZipSender progress %s" % run.selftests["Trace_ZipSender:queued_record_is_taken"])
                    return
    raise vf.MachineryError("self-test found no Poll with a record queued followed by Take")


def body(run):
    th = run.thorough()
    w = run.pick(4, 16)
    never = None
    for cfg in (THOROUGH if th else QUICK):
        run.mc("MC_ZipSender", cfg=cfg, workers=w, coverage=True, heap=run.pick("3g", "8g"))   # (capped: other JVMs share the box)
        zero = set(run.mc_runs[-1].get("actions_never_taken") or [])
        never = zero if never is None else (never & zero)
    run.extra["actions_never_taken_in_any_configuration"] = sorted(never or [])
    if never:
        raise vf.MachineryError("vacuity: actions never taken in any model-checking configuration: %s" % sorted(never))
    for cfg, inv in ASIS:
        run.mc("MC_ZipSender", cfg=cfg, expect_violation=inv, workers=2, heap="2g")

    out, meta = run.drive("c16", timeout=run.pick(600, 2400))
    run.absorb(meta)
    jobs = meta.get("jobs", [])
    gate = dict(meta, jobs=[j for j in jobs if j["trace"].startswith("c16_gate")])
    free = dict(meta, jobs=[j for j in jobs if j["trace"].startswith("c16_free")])
    run.validate(out, gate)          # imposed schedules: reproducible by construction
    try:
        run.validate(out, free)
    except vf.MachineryError as ex:
        # a rejected free-running history need not reproduce; it does not take away a confirmed verdict
        if not run.violations:
            raise
        vf.log("note: %s" % str(ex)[:300])
    if run.violations:
        vf.log("binding self-test skipped: the verdict pass already rejected real-code behaviour")
    else:
        run.selftest(out, gate, gen="self", field="n")
        run.selftest(out, gate, gen="cex", field="raw")
        run.selftest(out, gate, gen="defaults", field="given")
        run.selftest(out, gate, gen="api", field="via")
        order_selftest(run, out, gate)
        progress_selftest(run, out, gate)
        tick_selftest(run, out, gate)
    run.assumptions += [
        "a record's encoding is what the pack layer writes for it (pack.WritePack on an identical twin, computed by the harness "
        "before the record is handed over); the layout of a LogSinkPack itself is not this property's subject",
        "at hand-over the harness reads RecordCount, Status and Records, gunzips Records with compress/gzip when Status = 1 (the "
        "gzip bytes themselves are not specified; that they decompress to the payload is), and runs golib's own "
        "decompression and ZipPack.GetRecords on them: TLC compares count, status, payload bytes and the decoded [line, time, content length] list",
        "record times are virtual, >= 1 (0 is the implementation's 'no first record yet' marker) and below 2^30; the worker's "
        "timed wait on the queue is real (<= 15 ms wherever the harness lets it expire)",
        "the only judgement about real time: after releasing the held worker into its timed wait with a waiting time w in force "
        "(w <= 0: a wait of no length), the harness sleeps full periods of max(w, 20 ms) and logs a Tick after each one the worker has not answered; the "
        "specification refuses the 61st Tick inside one wait (a wait that outlasts 60 periods >= 1.2 s of a waiting time <= 12 ms; "
        "observed on the unchanged code under a load average above 100: at most 4).  The clock runs in the same process as the "
        "worker: load delays both, a starved process stops the clock too -- load can only lose detection",
        "a record the pack layer cannot encode (pack.WritePack panics on an identical twin: no tag map, nil pointer) must leave no "
        "trace: nothing written, nothing counted; SendDirect may skip it or give up there with the panic reaching its caller "
        "(what golib does: the packs handed over before are whole, the rest of the argument counts as never accepted)",
        "senders of gen api are created by the public GetInstance in a child process each (the instance is process-wide); the child's "
        "events are copied into the parent's trace unchanged; a worker that misses the stop request is ended afterwards through "
        "StopForVerif (the missed request is already in the log)",
        "event order = order of appends to one mutex-protected log: producer events before the call, worker events after the "
        "step, the stop request around cancel(); the branch of the worker's select must be right for some stop state between its "
        "previous event and this one; a full queue's refusal is only exercised while the worker is held at a hook",
        "a flush earlier than required is allowed (the property is one-sided: due => flushed); the decision after an append is "
        "taken with the settings in force at that moment",
        "a refused Add (queue full) was never accepted: the record must not appear anywhere; no record is handed over after the "
        "stop request; ApplyConfig is only called while the worker is held or absent (golib does not synchronise it)",
        "a worker that does not reach its next hook within 120 s is a harness failure (exit 2), never a violation",
        "a timed wait of the worker that begins with a record queued must return a record, whatever the waiting time in force (0 and "
        "negative included); judged only where no producer can be running (the worker was released by the harness, which makes all "
        "Add calls itself and had none in flight: the event then carries qlen); elsewhere a record logged as added may not have been put yet",
        "every history runs in a child process of the driver (chunks of up to 60; gen api one each); the child writes each event to disk "
        "at once.  A child that dies of a Go panic / fatal error in a goroutine the sender started, with golib code innermost, is recorded as "
        "event Crash behind what it had written (no action of the specification: the history is refused) and the run goes on behind that "
        "history; any other death of a child is a harness failure (exit 2)",
        "the private state projected at every worker step (buffer length, counter, first time, settings, queue length) is read "
        "by the goroutine that owns it, through the verif hook",
    ]
