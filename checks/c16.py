"""C16 -- log-sink zip batching: every record exactly once, in order, decodably; packs immutable; flushed when due;
built-in defaults in force (DESIGN 3/C16).
(M) MC_ZipSender: the design -- one action per step of the goroutine that owns the buffer (select, timed wait, encode+count,
    decide, hand-over, reset, drain, return), producers, SendDirect, configuration updates, the two halves of the stop
    request, a client that keeps or consumes each pack; memory modelled as regions so that a pack can be a VIEW of the
    reusable buffer -- satisfies ExactlyOnceInOrder, CountMatches, Decodable, ZipIff, DefaultsInForce,
    HandedOverIsImmutable and FlushWhenDue for ALL interleavings of the small programs.  The implementation as found is
    refuted three times by TLC: Records = buffer.Bytes() (worker path and SendDirect) breaks HandedOverIsImmutable,
    flush-and-return on stop breaks ExactlyOnceInOrder, creation from zero-valued options breaks DefaultsInForce.
(A) Trace_ZipSender: fresh real senders (verif constructor, explicit settings or none) with a recording TcpClient that
    consumes or retains; every step of the worker is reported by the verif hooks and every pack is read at hand-over
    and, when retained, again later.  TLC replays the events through the specification's own actions.
(B) the hooks double as scheduler gates: the worker is stepped hook by hook, so the schedules of TLC's counterexamples
    (gen cex) and random interleavings with producers, SendDirect, configuration updates and stop are imposed
    deterministically (first trace); free-running concurrent runs form the second trace.
    Real time is part of the property at one place only (a batch nobody adds to is flushed when the waiting time in
    force has passed on the idle queue): the harness's reference clock logs a Tick for every full period the released
    worker has not answered, and the specification does not let time pass beyond IdleSlack periods inside one wait.
    Senders are also created through the public GetInstance (one child process each) with every kind of context option
    and stopped through every function that stops them; records the pack layer cannot encode are mixed in."""
import json, os
import vf

QUICK = ["MC_ZipSender.cfg", "MC_ZipSender_direct.cfg", "MC_ZipSender_mixed.cfg", "MC_ZipSender_reconf.cfg"]
THOROUGH = ["MC_ZipSender_thorough.cfg", "MC_ZipSender_thorough_direct.cfg", "MC_ZipSender_thorough_mixed.cfg",
            "MC_ZipSender_thorough_reconf.cfg"]
ASIS = [("MC_ZipSender_asis_alias.cfg", "HandedOverIsImmutable"), ("MC_ZipSender_asis_dalias.cfg", "HandedOverIsImmutable"),
        ("MC_ZipSender_asis_abandon.cfg", "ExactlyOnceInOrder"), ("MC_ZipSender_asis_zeroed.cfg", "DefaultsInForce")]


def tick_selftest(run, out, meta):
    """binding of the reference clock: a worker's idle wait padded with IdleSlack Ticks is still accepted, with one
    more it is refused"""
    slack = int([l for l in open(os.path.join(run.specdir, "Trace_ZipSender.cfg")).read().splitlines() if "IdleSlack" in l][0].split("=")[1])
    for job in meta.get("jobs", []):
        hists = vf.split_histories(open(os.path.join(out, job["trace"])).read().splitlines())
        for h in hists:
            if json.loads(h[0]).get("gen") != "reconf":
                continue
            for i in range(2, len(h)):
                e, b = json.loads(h[i]), json.loads(h[i - 1])
                if e.get("ev") == "Idle" and b.get("ev") == "Poll" and e["st"]["obs"]["maxWait"] > 0:
                    tick = json.dumps({"ev": "Tick", "p": max(20, e["st"]["obs"]["maxWait"])}, separators=(",", ":"))
                    res = {}
                    for n in (slack, slack + 1):
                        p = os.path.join(out, "_selftest_ticks_%d.ndjson" % n)
                        open(p, "w").write("\n".join(h[:i] + [tick] * n + h[i:]) + "\n")
                        st = run.trace_states
                        acc, hwm, nn, r = run.validate_file(job["spec"], p)
                        run.trace_states = st
                        res[n] = acc
                    run.selftests["Trace_ZipSender:reference_clock"] = {"ticks_within_slack_accepted": res[slack], "one_more_rejected": not res[slack + 1]}
                    if not res[slack] or res[slack + 1]:
                        raise vf.MachineryError("binding self-test of the reference clock failed: %s" % res)
                    vf.log("SELFTEST Trace_ZipSender reference clock %s" % run.selftests["Trace_ZipSender:reference_clock"])
                    return
    raise vf.MachineryError("self-test found no idle wait in a history of gen reconf")


def body(run):
    th = run.thorough()
    w = run.pick(4, 16)
    never = None
    for cfg in (THOROUGH if th else QUICK):
        run.mc("MC_ZipSender", cfg=cfg, workers=w, coverage=True)
        zero = set(run.mc_runs[-1].get("actions_never_taken") or [])
        never = zero if never is None else (never & zero)
    run.extra["actions_never_taken_in_any_configuration"] = sorted(never or [])
    if never:
        raise vf.MachineryError("vacuity: actions never taken in any model-checking configuration: %s" % sorted(never))
    for cfg, inv in ASIS:
        run.mc("MC_ZipSender", cfg=cfg, expect_violation=inv, workers=2)

    out, meta = run.drive("c16", timeout=run.pick(600, 2400))
    run.absorb(meta)
    jobs = meta.get("jobs", [])
    gate = dict(meta, jobs=[j for j in jobs if j["trace"].startswith("c16_gate")])
    free = dict(meta, jobs=[j for j in jobs if j["trace"].startswith("c16_free")])
    run.validate(out, gate)          # imposed schedules: reproducible by construction
    try:
        run.validate(out, free)
    except vf.MachineryError as ex:
        # a rejected free-running history need not reproduce; it does not take away a confirmed verdict
        if not run.violations:
            raise
        vf.log("note: %s" % str(ex)[:300])
    if run.violations:
        vf.log("binding self-test skipped: the verdict pass already rejected real-code behaviour")
    else:
        run.selftest(out, gate, gen="self", field="n")
        run.selftest(out, gate, gen="cex", field="raw")
        run.selftest(out, gate, gen="defaults", field="given")
        run.selftest(out, gate, gen="api", field="via")
        tick_selftest(run, out, gate)
    run.assumptions += [
        "a record's encoding is what the pack layer writes for it (pack.WritePack on an identical twin, computed by the harness "
        "before the record is handed over); the layout of a LogSinkPack itself is not this property's subject",
        "at hand-over the harness reads RecordCount, Status and Records, gunzips Records with compress/gzip when Status = 1 (the "
        "gzip bytes themselves are not specified; that they decompress to the payload is), and runs golib's own "
        "decompression and ZipPack.GetRecords on them: TLC compares count, status, payload bytes and the decoded [line, time, content length] list",
        "record times are virtual, >= 1 (0 is the implementation's 'no first record yet' marker) and below 2^30; the worker's "
        "timed wait on the queue is real (<= 15 ms wherever the harness lets it expire)",
        "the only judgement about real time: after releasing the held worker into its timed wait with a waiting time w > 0 in force, "
        "the harness sleeps full periods of max(w, 20 ms) and logs a Tick after each one the worker has not answered; the "
        "specification refuses the 61st Tick inside one wait (a wait that outlasts 60 periods >= 1.2 s of a waiting time <= 12 ms; "
        "observed on the unchanged code under a load average above 100: at most 4).  The clock runs in the same process as the "
        "worker: load delays both, a starved process stops the clock too -- load can only lose detection",
        "a record the pack layer cannot encode (pack.WritePack panics on an identical twin: no tag map, nil pointer) must leave no "
        "trace: nothing written, nothing counted; SendDirect may skip it or give up there with the panic reaching its caller "
        "(what golib does: the packs handed over before are whole, the rest of the argument counts as never accepted)",
        "senders of gen api are created by the public GetInstance in a child process each (the instance is process-wide); the child's "
        "events are copied into the parent's trace unchanged; a worker that misses the stop request is ended afterwards through "
        "StopForVerif (the missed request is already in the log)",
        "event order = order of appends to one mutex-protected log: producer events before the call, worker events after the "
        "step, the stop request around cancel(); the branch of the worker's select must be right for some stop state between its "
        "previous event and this one; a full queue's refusal is only exercised while the worker is held at a hook",
        "a flush earlier than required is allowed (the property is one-sided: due => flushed); the decision after an append is "
        "taken with the settings in force at that moment",
        "a refused Add (queue full) was never accepted: the record must not appear anywhere; no record is handed over after the "
        "stop request; ApplyConfig is only called while the worker is held or absent (golib does not synchronise it)",
        "a worker that does not reach its next hook within 120 s is a harness failure (exit 2), never a violation",
        "the private state projected at every worker step (buffer length, counter, first time, settings, queue length) is read "
        "by the goroutine that owns it, through the verif hook",
    ]
