"""C05 -- the bytes on the wire conform to the collector layout (DESIGN 3/C05).
(M) MC_PackWire: the reference layout itself (spec/PackWire.tla: frame, common header in both forms, bodies of the
    eight named packs) is explored for a small world -- every pack type x header form x every optional section
    absent/present x 0/1/2 entries: a reader that knows only the layout restores every field with exact consumption,
    a message decodes the same whatever follows it, no proper prefix decodes, the marker decides the header form,
    the tag hash covers exactly the tag section, a second write is byte-identical, and the collector splits a stream
    of frames by the length field alone.
(A) Trace_PackWire: the real writers.  Every pack is built through golib's constructors / setters from drawn values,
    written by pack.ToBytesPack (twice) or sent through a real OneWayTcpClient to a loopback peer owned by the
    harness; TLC requires the bytes to equal the reference encoding of the projected fields exactly.
(B) gen "enum": the same small world built with the real constructors and written by the real writers."""
import vf


def body(run):
    th = run.thorough()
    w = run.pick(4, 16)
    run.mc("MC_PackWire", cfg="MC_PackWire_thorough.cfg" if th else "MC_PackWire.cfg", workers=w, coverage=not th)
    if run.mc_runs[-1].get("actions_never_taken"):
        raise vf.MachineryError("MC_PackWire: actions never taken: %s" % run.mc_runs[-1]["actions_never_taken"])
    run.mc("MC_PackWire", cfg="MC_PackWire_stream_thorough.cfg" if th else "MC_PackWire_stream.cfg", workers=w)
    out, meta = run.drive("c05")
    run.absorb(meta)
    run.validate(out, meta)
    # Enc events are independent of each other (the writer is a function of the pack): removing one is not an error
    run.selftest(out, meta, gen="retag", field="bytes", removed=False)
    run.selftest(out, meta, gen="frame", field="bytes", remove_match={"ev": "Recv"})
    run.assumptions += [
        "a pack is projected from the values the generator drew (encoding/binary, math.Float32bits only), never read back through golib; exceptions: TagCountPack.GetTagHash / LogSinkPack.TagHash are read with the public getter / field (information only for tag-count: the specification derives the hash from the tags)",
        "the received frame is taken off the TCP stream by the harness the way a collector does (22 header bytes, then as many bytes as the 4-byte length field says) with the standard library; bytes behind the last frame are read until end of stream after the client closed",
        "the layout is written from the field list of the property statement, the pack-type constants and the Java-derived section structure (presence bytes, version byte 9 of the meter sections, version 2 of the unknown-caller section, the retired per-kind meter count 0) that golib's reader and its comments document; for the caller-POID section of the counter pack (decimal count, then pcode, oid, time, count, error, actx as decimals, no version byte, no per-entry array) golib's WRITER is the only source: golib's reader expects an extra array per entry (a C03 finding), and which of the two the Java collector implements cannot be decided from this repository",
        "limits of the layout respected by the generators: counts that travel in one byte (event attributes incl. the reserved keys, the two short arrays of the counter pack) stay <= 255; hit-map cells beyond 16 bits keep their low half (the layout has 16 bits per cell); event attribute values are strings; Tags of tag-count / log-sink packs are never nil",
        "the connection-pool maps of the counter pack are hash tables: their entries are compared as a bag (order taken from the wire) in ToBytesPack events, and have at most one entry in packs that go through the TCP client",
        "tag-count packs: tags are changed through PutTag only (direct mutation of the exported Tags map after a first write is not generated)",
    ]
