"""C05 -- the bytes on the wire conform to the collector layout (DESIGN 3/C05).
(M) MC_PackWire: the reference layout itself (spec/PackWire.tla: frame, common header in both forms, bodies of the
    eight named packs) is explored for a small world -- every pack type x header form x every optional section
    absent/present x 0/1/2 entries: a reader that knows only the layout restores every field with exact consumption,
    a message decodes the same whatever follows it, no proper prefix decodes, the marker decides the header form,
    the tag hash covers exactly the tag section, a second write is byte-identical, and the collector splits a stream
    of frames by the length field alone.
(A) Trace_PackWire: the real writers.  Every pack is built through golib's constructors / setters from drawn values,
    written by pack.ToBytesPack (twice) or sent through a real OneWayTcpClient to a loopback peer owned by the
    harness; TLC requires the bytes to equal the reference encoding of the projected fields exactly.
(B) gen "enum": the same small world built with the real constructors and written by the real writers.
(O) the pack OBJECT between writes (spec/PackObj.tla): a pack is written more than once in its life and changed in
    between; every write must be the reference encoding of the content of THAT moment.  MC_PackObj explores the object
    machine (New / every kind of mutation / Write, every order up to a depth) on the design: a tag hash the library is
    responsible for is void or the hash of the current tags, every write decodes by the layout alone to the current
    content.  Trace_PackObj: real packs are built, changed through every public mutator / exported field of the eight
    types and written 2..8 times (gens hashenum, retag, mut); the harness reports only the calls and their arguments,
    the content at each write is derived by the specification.
(H) the encoder OUTPUT while the caller holds it (spec/PackOut.tla): what ToBytesPack returned / what ToByteArray of a
    caller-owned output shows after WritePack is kept uncopied; further encoder calls follow (same pack, other packs,
    other outputs, the reader, several goroutines at once) and every kept slice is looked at again: it must still be
    the reference bytes (law HeldStable; outputs are append-only).  MC_PackOut explores the law on the design for a
    buffer per call, a recycled buffer handed out as a copy (both keep it) and a recycled buffer handed out as it is
    (refuted)."""
from concurrent.futures import ThreadPoolExecutor

import vf


def body(run):
    th = run.thorough()
    w = run.pick(4, 16)

    # the design-level runs do not depend on the driver: they run beside it (one TLC at a time)
    def design():
        run.mc("MC_PackWire", cfg="MC_PackWire_thorough.cfg" if th else "MC_PackWire.cfg", workers=w, coverage=not th)
        if run.mc_runs[-1].get("actions_never_taken"):
            raise vf.MachineryError("MC_PackWire: actions never taken: %s" % run.mc_runs[-1]["actions_never_taken"])
        run.mc("MC_PackWire", cfg="MC_PackWire_stream_thorough.cfg" if th else "MC_PackWire_stream.cfg", workers=w)
        run.mc("MC_PackObj", cfg="MC_PackObj_thorough.cfg" if th else "MC_PackObj.cfg", workers=w)
        run.mc("MC_PackObj", cfg="MC_PackObj_content_thorough.cfg" if th else "MC_PackObj_content.cfg", workers=w)
        # the outputs while the caller holds them: a buffer per call and a recycled buffer handed out as a copy keep
        # HeldStable; a recycled buffer handed out as it is does not
        run.mc("MC_PackOut", cfg="MC_PackOut.cfg", workers=w)
        run.mc("MC_PackOut", cfg="MC_PackOut_copy.cfg", workers=w)
        run.mc("MC_PackOut", cfg="MC_PackOut_alias.cfg", expect_violation="HeldStable", workers=2)

    pool = ThreadPoolExecutor(max_workers=1)
    mcs = pool.submit(design)
    try:
        traces(run)
    finally:
        pool.shutdown(wait=True)
    mcs.result()          # a failure of the design runs is raised here


def traces(run):
    out, meta = run.drive("c05")
    run.absorb(meta)
    run.validate(out, meta)
    # Enc events are independent of each other (the writer is a function of the pack): removing one is not an error
    run.selftest(out, meta, gen="rand", field="bytes", removed=False)
    # object histories: a corrupted write and a call that is not reported (the content moves on without the specification)
    run.selftest(out, meta, gen="retag", spec="Trace_PackObj", field="bytes", remove_match={"ev": "Mut"})
    run.selftest(out, meta, gen="frame", field="bytes", remove_match={"ev": "Recv"})
    # held outputs: a second look that shows other bytes, and a call whose output is not reported (the views shift)
    run.selftest(out, meta, gen="hold", spec="Trace_PackOut", field="v", remove_match={"ev": "ToBytes"})
    run.assumptions += [
        "a pack is projected from the values the generator drew (encoding/binary, math.Float32bits only), never read back through golib; exceptions: TagCountPack.GetTagHash / LogSinkPack.TagHash are read with the public getter / field (information only for tag-count: the specification derives the hash from the tags)",
        "the received frame is taken off the TCP stream by the harness the way a collector does (22 header bytes, then as many bytes as the 4-byte length field says) with the standard library; bytes behind the last frame are read until end of stream after the client closed",
        "the layout is written from the field list of the property statement, the pack-type constants and the Java-derived section structure (presence bytes, version byte 9 of the meter sections, version 2 of the unknown-caller section, the retired per-kind meter count 0) that golib's reader and its comments document; for the caller-POID section of the counter pack (decimal count, then pcode, oid, time, count, error, actx as decimals, no version byte, no per-entry array) golib's WRITER is the only source: golib's reader expects an extra array per entry (a C03 finding), and which of the two the Java collector implements cannot be decided from this repository",
        "limits of the layout respected by the generators: counts that travel in one byte (event attributes incl. the reserved keys, the two short arrays of the counter pack) stay <= 255; hit-map cells beyond 16 bits keep their low half (the layout has 16 bits per cell); event attribute values are strings; Tags of tag-count / log-sink packs are never nil",
        "the connection-pool maps of the counter pack are hash tables: their entries are compared as a bag (order taken from the wire) in ToBytesPack events, and have at most one entry in packs that go through the TCP client",
        "tag-count packs: the exported Tags map is assigned / edited directly only while no tag hash is cached (before the first write with tags, or right after PutTag); afterwards tags are changed through PutTag only -- the private hash cannot follow an edit of the exported map, and the pack offers no call to void it",
        "log-sink packs: the tag hash is an exported field: a caller who assigns it or edits the exported tag map under a cached hash owns the result (the hash is then sent as it is); every LIBRARY call that changes the tags must void it (specified in PackObj!Transfer / checked by MC_PackObj HashOwned)",
        "object histories: arguments of the calls are reported from the drawn values (standard library only); after SetUuid the generated id is read from the exported Uuid field; whether a tag-count hash is cached is asked through the public getter only to steer the generator; ParamPack.Clear is never called (it recurses without end -- candidate-defects.md; a stack overflow cannot be recovered by the harness); HitMapPack1.Add is called with non-negative times only; SetContentBytes gets well-formed version-1 blobs, other versions, empty and nil (a truncated version-1 blob leaves a half-applied pack behind and is outside the layout property)",
        "held outputs (gen hold): the harness keeps the returned slices and never writes into them; a second look is a copy taken at that moment with the standard library; goroutines that encode at once work on packs of their own (a pack object is not shared between goroutines); counter packs in these histories carry at most one entry per pool map",
        "Reread (pack.ToPack of the bytes just written, then the history continues on the decoded object) is used for the kinds whose reader restores the content as it is (tag-count, log-sink, text, parameter, zip); the readers of event / hit-map / counter normalise or drop content (C03) and are not used to continue a history",
    ]
