"""C17 -- file logger: whole lines in order, right file name, rotation, suppression only inside the interval,
exact retention, honest Read (DESIGN 3/C17).
(M) MC_FileLogger: the repaired design (a rotation opens the new day's file and points the output at it BEFORE the
    old file is closed) satisfies LinesWholeInOrder, FileNameRight, RotatesAfterCycle, SuppressedOnlyWithin,
    RetentionExact, ReadHonest, SurvivorsSurvive and OldRemoved for every interleaving of log calls of three families
    with the two halves of the periodic cycle and the three banner lines, clock advances over midnight and over the
    retention period, a settings change, an external writer creating a look-alike file, and Read windows over a
    10-byte file.  The design golib HAD (close, then open) is refuted by TLC on LinesWholeInOrder: sensitivity of the
    model, the code no longer has it.
(A) Trace_FileLogger: recorded histories of the real FileLogger (verif constructor without the background
    goroutine, RunCycleForVerif, frozen virtual clock): after every action the listing of <home>/logs and the bytes
    every file gained.  TLC's schedule "Log between the two halves of a rotation" is imposed with the
    `rotate.closed` gate; bursts of 8 goroutines are listed in the order the file itself gives them.
    Second trace (c17_env): several loggers of one home that take turns (two of them on the same file), an external
    appender, bursts of two loggers and an external writer on one file, environment faults between the actions
    (file removed / cut short / appended to, logs/ removed, moved away, replaced by a regular file) followed by the
    cycles that must bring the logger back, Read windows at every byte offset of content that is not ASCII."""
import copy, json, os, re, threading
import vf


def sensitivity(run):
    r = run.tlc("MC_FileLogger", cfg="MC_FileLogger_asis.cfg", workers=2, timeout=900)
    hit = re.search(r"Invariant (\w+) is violated", r["out"])
    if r["clean"] or not hit or hit.group(1) != "LinesWholeInOrder":
        raise vf.MachineryError("the model does not refute LinesWholeInOrder for the close-then-open design:\n" + vf.tail(r["out"]))
    run.extra["model_sensitivity_former_design_refuted"] = dict(cfg="MC_FileLogger_asis.cfg", design="close the old file, then open the new one",
                                                              refuted="LinesWholeInOrder", states=r.get("distinct"), wall_s=r["wall"])
    vf.log("MC-SENS MC_FileLogger_asis.cfg refutes LinesWholeInOrder (line logged between close and reopen is lost)")


def _names(obs):
    return {bytes(x["n"]).decode("utf8", "replace"): x for x in obs["files"]}


_PENDING = []


def _judge(run, outdir, spec, tag, events, expect_accept):
    """queue one judgement of a changed history; _judge_all runs them (a few TLCs side by side) and fails on the first
    verdict that is not the expected one"""
    p = os.path.join(outdir, "_selftest_%s.ndjson" % tag)
    open(p, "w").write("\n".join(json.dumps(e, separators=(",", ":")) for e in events) + "\n")
    _PENDING.append((spec, tag, p, expect_accept))
    return True


def _judge_all(run):
    from concurrent.futures import ThreadPoolExecutor
    st = run.trace_states
    jobs, _PENDING[:] = list(_PENDING), []

    def one(j):
        spec, tag, p, expect = j
        try:
            acc, hwm, n, r = run.validate_file(spec, p)
        except vf.MachineryError as ex:
            return ex
        if acc != expect:
            return vf.MachineryError("binding self-test %s: expected the trace specification to %s the history, it did the opposite (stopped at line %d of %d)"
                                     % (tag, "accept" if expect else "reject", hwm, n))
        return None
    with ThreadPoolExecutor(max_workers=4) as pool:
        results = list(pool.map(one, jobs))
    run.trace_states = st
    for r in results:
        if r is not None:
            raise r


def property_selftests(run, outdir, meta):
    """Property-specific binding demonstration on prefixes of accepted histories: the unchanged prefix must be
    accepted and each of these single changes of what was observed must be rejected:
      retention: an expired own file reported as still there / a look-alike survivor reported as gone;
      Read: one byte of the returned text changed / the reported offset moved by one / an answer turned into nil;
      Read names: "no answer" for ../logs<something>/<file> (a sibling directory that exists) turned into the honest
        window of that file / one byte of an answer given through a symbolic link changed (and: that answer withheld
        must be ACCEPTED -- the statement does not decide it);
      suppression: a line written exactly one interval after the last line of its id reported as not written;
      options: a line of an id-carrying entry point, logged while lines are also printed to standard output, reported
        as not in the file;
      fallback places: "no answer" for a well-known name that is not in logs/ turned into the bytes of the decoy of
        that name in the directory ProgramData points to (or below the working directory)."""
    hists = []
    for job in [j for j in meta.get("jobs", []) if j["spec"] == "Trace_FileLogger"]:
        hists += vf.split_histories(open(os.path.join(outdir, job["trace"])).read().splitlines())
    spec = "Trace_FileLogger"
    res = {}

    def of(gen):
        for h in hists:
            ev = [json.loads(x) for x in h]
            if ev[0].get("gen") == gen:
                yield ev

    # ---- retention
    for ev in of("retain"):
        prev = None
        for i, e in enumerate(ev):
            if "obs" not in e:
                continue
            cur = _names(e["obs"])
            if e["ev"] == "CycleA" and prev is not None and set(prev) - set(cur):
                gone = sorted(set(prev) - set(cur))
                surv = sorted(n for n in cur if n.endswith("-database.log") or n.endswith("-notadate.log") or n.endswith("20001340.log"))
                if not surv:
                    break
                pre = ev[:i + 1]
                _judge(run, outdir, spec, "retain_prefix", pre, True)
                a = copy.deepcopy(pre)
                back = dict(prev[gone[0]], add=[], whole=False)
                a[-1]["obs"]["files"].append(back)
                res["expired_file_reported_kept_rejected"] = _judge(run, outdir, spec, "retain_kept", a, False)
                b = copy.deepcopy(pre)
                b[-1]["obs"]["files"] = [x for x in b[-1]["obs"]["files"] if bytes(x["n"]).decode("utf8", "replace") != surv[0]]
                res["survivor_reported_deleted_rejected"] = _judge(run, outdir, spec, "retain_extra", b, False)
                res["retention_example"] = dict(expired=gone[0], survivor=surv[0])
                break
            prev = cur
        if "survivor_reported_deleted_rejected" in res:
            break
    # ---- Read
    for ev in of("read"):
        for i, e in enumerate(ev):
            if e["ev"] == "Read" and not e["res"]["nil"] and len(e["res"]["text"]) >= 2:
                pre = ev[:i + 1]
                _judge(run, outdir, spec, "read_prefix", pre, True)
                a = copy.deepcopy(pre)
                a[-1]["res"]["text"][-1] = (a[-1]["res"]["text"][-1] + 1) % 256
                res["read_text_byte_changed_rejected"] = _judge(run, outdir, spec, "read_text", a, False)
                b = copy.deepcopy(pre)
                b[-1]["res"]["before"] += 1
                res["read_offset_moved_rejected"] = _judge(run, outdir, spec, "read_before", b, False)
                c = copy.deepcopy(pre)
                c[-1]["res"] = {"nil": True}
                res["read_answer_turned_nil_rejected"] = _judge(run, outdir, spec, "read_nil", c, False)
                break
        if "read_answer_turned_nil_rejected" in res:
            break
    # ---- Read names: a sibling of logs/ whose name begins with "logs"; a symbolic link.  (The unchanged prefixes
    #      were accepted by the verdict pass; the shortest suitable prefix is taken.)
    def quiet(e):
        return all(not x["add"] for x in e["obs"]["files"])
    sib, lnk = None, None
    for ev in of("read"):
        for i, e in enumerate(ev):
            if e["ev"] != "Read" or not quiet(e):
                continue
            f = bytes(e["file"]).decode("utf8", "replace")
            if e["res"]["nil"] and e["len"] >= 1 and f.startswith("../logs") and (sib is None or i < sib[0]):
                there = [x for x in e["obs"]["out"] if f == "../" + bytes(x["n"]).decode("utf8", "replace") and x["data"]]
                if there:
                    sib = (i, ev, f, there[0]["data"][:e["len"]])
            if not e["res"]["nil"] and f.startswith("ln-file") and len(e["res"]["text"]) >= 1 and (lnk is None or i < lnk[0]):
                lnk = (i, ev, f)
    if sib:
        i, ev, f, data = sib
        a = copy.deepcopy(ev[:i + 1])
        a[-1]["res"] = {"nil": False, "before": 0, "next": -1, "text": data}
        res["answer_from_sibling_directory_of_logs_rejected"] = _judge(run, outdir, spec, "sibling_served", a, False)
        res["res_sibling"] = f
    if lnk:
        i, ev, f = lnk
        a = copy.deepcopy(ev[:i + 1])
        a[-1]["res"]["text"][0] = (a[-1]["res"]["text"][0] + 1) % 256
        res["answer_through_symbolic_link_byte_changed_rejected"] = _judge(run, outdir, spec, "link_text", a, False)
        b = copy.deepcopy(ev[:i + 1])
        b[-1]["res"] = {"nil": True}
        res["answer_through_symbolic_link_withheld_accepted"] = _judge(run, outdir, spec, "link_nil", b, True)
        res["res_link"] = f
    # ---- suppression
    for ev in of("supp"):
        for i, e in enumerate(ev):
            # "delta": same id as an emitted line, exactly one interval later -- the first moment suppression is forbidden
            if e["ev"] != "Log" or e["kind"] != "P" or not bytes(e["s"]).startswith(b"delta"):
                continue
            adds = [x for x in e["obs"]["files"] if x["add"] and not x["whole"]]
            if len(adds) != 1:
                continue
            pre = ev[:i + 1]
            _judge(run, outdir, spec, "supp_prefix", pre, True)
            a = copy.deepcopy(pre)
            for x in a[-1]["obs"]["files"]:
                if x["add"] and not x["whole"]:
                    x["size"] -= len(x["add"])
                    x["add"] = []
            res["line_one_interval_after_its_id_reported_suppressed_rejected"] = _judge(run, outdir, spec, "supp_first", a, False)
            break
        if "line_one_interval_after_its_id_reported_suppressed_rejected" in res:
            break
    # ---- options: lines also go to standard output; a Println/Printf line reported as missing from the file
    for ev in of("opts"):
        so = False
        for i, e in enumerate(ev):
            if e["ev"] in ("Open", "Conf"):
                so = e["so"]
            if not (so and e["ev"] == "Log" and e["kind"] == "P" and bytes(e["s"]).find(b"unique") >= 0):
                continue
            adds = [x for x in e["obs"]["files"] if x["add"] and not x["whole"]]
            if len(adds) != 1:
                continue
            a = copy.deepcopy(ev[:i + 1])
            for x in a[-1]["obs"]["files"]:
                if x["add"] and not x["whole"]:
                    x["size"] -= len(x["add"])
                    x["add"] = []
            res["id_line_missing_from_the_file_while_stdout_is_on_rejected"] = _judge(run, outdir, spec, "opts_stdout", a, False)
            break
        if "id_line_missing_from_the_file_while_stdout_is_on_rejected" in res:
            break
    # ---- fallback places: a well-known name that is not in logs/ answered from the decoy elsewhere
    for ev in of("read"):
        for i, e in enumerate(ev):
            if e["ev"] != "Read" or not e["res"]["nil"] or e["len"] < 1 or e["end"] != -1 or not quiet(e):
                continue
            f = bytes(e["file"]).decode("utf8", "replace")
            there = [x for x in e["obs"]["out"] if bytes(x["n"]).decode("utf8", "replace").endswith("/WhaTap/" + f) and x["data"]]
            if "/" in f or not there:
                continue
            a = copy.deepcopy(ev[:i + 1])
            d = there[0]["data"]
            n = min(len(d), e["len"])
            a[-1]["res"] = {"nil": False, "before": len(d) - n, "next": -1, "text": d[len(d) - n:]}
            res["answer_from_a_fallback_place_outside_logs_rejected"] = _judge(run, outdir, spec, "decoy_served", a, False)
            res["res_decoy"] = f
            break
        if "answer_from_a_fallback_place_outside_logs_rejected" in res:
            break
    # ---- Read over content that is not ASCII: the window begins inside a character; the same answer with the
    #      leading continuation bytes dropped (a "cleaned" text at the unchanged offset) must be rejected
    for ev in of("readmb"):
        for i, e in enumerate(ev):
            if e["ev"] == "Read" and not e["res"]["nil"] and 0x80 <= e["res"]["text"][0] <= 0xbf and any(not 0x80 <= c <= 0xbf for c in e["res"]["text"]):
                a = copy.deepcopy(ev[:i + 1])
                t = a[-1]["res"]["text"]
                while t and 0x80 <= t[0] <= 0xbf:
                    t.pop(0)
                res["read_text_cleaned_of_a_cut_character_rejected"] = _judge(run, outdir, spec, "read_mb", a, False)
                break
        if "read_text_cleaned_of_a_cut_character_rejected" in res:
            break
    # ---- faults: the rotation after logs/ was removed made the directory and the file of the day again; the same
    #      cycle reported as having made nothing must be rejected
    for ev in of("fault"):
        gone_at = None
        for i, e in enumerate(ev):
            if e["ev"] == "ExtRmLogs":
                gone_at = i
            if e["ev"] in ("Ext", "ExtDir", "ExtBlock"):
                gone_at = None
            if gone_at is not None and e["ev"] == "Read" and e["obs"]["logs"] != "none":
                gone_at = None
            if gone_at is not None and e["ev"] == "CycleA" and e["obs"]["logs"] == "dir" and any(x["add"] for x in e["obs"]["files"]) \
                    and i + 1 < len(ev) and ev[i + 1]["ev"] == "CycleB":
                pre = ev[:i + 2]
                _judge(run, outdir, spec, "fault_prefix", pre, True)
                a = copy.deepcopy(pre)
                for x in a[-2:]:   # both halves of the cycle saw nothing made (the second one: no output file)
                    x["obs"]["files"], x["obs"]["logs"] = [], "none"
                a[-1]["cur"] = [0]
                res["rotation_that_did_not_make_logs_again_rejected"] = _judge(run, outdir, spec, "fault_nomkdir", a, False)
                break
        if "rotation_that_did_not_make_logs_again_rejected" in res:
            break
    # ---- two handles on one file: a line of the second logger reported as written over the end of the file
    #      (the file did not grow by it) must be rejected
    for ev in of("duo"):
        seen_switch = False
        for i, e in enumerate(ev):
            seen_switch = seen_switch or e["ev"] == "Switch"
            if not (seen_switch and e["ev"] == "Log" and "obs" in e):
                continue
            adds = [x for x in e["obs"]["files"] if x["add"] and not x["whole"] and x["size"] > 2 * len(x["add"])]
            if len(adds) != 1:
                continue
            pre = ev[:i + 1]
            _judge(run, outdir, spec, "duo_prefix", pre, True)
            a = copy.deepcopy(pre)
            for x in a[-1]["obs"]["files"]:
                if x["add"] and not x["whole"]:
                    x["size"] -= len(x["add"])
            res["line_written_over_another_writers_bytes_rejected"] = _judge(run, outdir, spec, "duo_over", a, False)
            break
        if "line_written_over_another_writers_bytes_rejected" in res:
            break
    _judge_all(run)
    need = ["id_line_missing_from_the_file_while_stdout_is_on_rejected", "answer_from_a_fallback_place_outside_logs_rejected",
            "read_text_cleaned_of_a_cut_character_rejected", "rotation_that_did_not_make_logs_again_rejected",
            "line_written_over_another_writers_bytes_rejected",
            "expired_file_reported_kept_rejected", "survivor_reported_deleted_rejected", "read_text_byte_changed_rejected",
            "read_offset_moved_rejected", "read_answer_turned_nil_rejected", "line_one_interval_after_its_id_reported_suppressed_rejected",
            "answer_from_sibling_directory_of_logs_rejected", "answer_through_symbolic_link_byte_changed_rejected",
            "answer_through_symbolic_link_withheld_accepted"]
    missing = [k for k in need if not res.get(k)]
    if missing:
        raise vf.MachineryError("property self-tests found no suitable history for: %s" % missing)
    run.selftests["Trace_FileLogger:property"] = res
    vf.log("SELFTEST property-specific %s" % res)


# actions that belong to the as-is design only (never enabled under Design = "repaired")
ASIS_ONLY = {"LogLose"}


# actions of FileLogger.tla that at least one of the model-checking configurations must take (TLC -coverage)
SPEC_ACTIONS = ["Switch", "Advance", "ExternalFile", "ExternalAppend", "ExternalRemove", "ExternalTruncate", "ExternalRemoveLogs",
                "ExternalBlock", "ExternalUnblock", "Open", "Configure", "LogDrop", "LogSuppress", "LogEmit", "LogVanish",
                "CycleA", "BannerLine", "CycleB", "Read"]
# single lines that mark a branch of an action: the cycle that finds a regular file where logs/ should be
SPEC_MARKS = {"CycleA down": "att' = FALSE /\\ UNCHANGED logsSt", "CycleB still down": "fresh' = (cur # Closed)"}


def _taken(run, out):
    """which FileLogger actions (and marked branches) the TLC run whose output is `out` has taken: the count TLC's
    coverage gives for the action's last conjunct (its UNCHANGED clause)"""
    spec = open(os.path.join(run.specdir, "FileLogger.tla")).read().split("\n")
    cnt = {}
    for m in re.finditer(r"line (\d+), col \d+ to line \d+, col \d+ of module FileLogger: (\d+)", out):
        cnt[int(m.group(1))] = max(cnt.get(int(m.group(1)), 0), int(m.group(2)))
    got = set()
    for name in SPEC_ACTIONS:
        a = [k for k, x in enumerate(spec) if re.match(re.escape(name) + r"(\(.*\))? ==", x)][0]
        b = a
        while b + 1 < len(spec) and spec[b + 1].strip() and not re.match(r"\\\*|\(\*|[A-Za-z0-9]+(\(.*\))? ==", spec[b + 1]):
            b += 1
        u = [k for k in range(a, b + 1) if "UNCHANGED" in spec[k]][-1]
        if cnt.get(u + 1, 0) > 0:
            got.add(name)
    for name, text in SPEC_MARKS.items():
        ls = [k for k, x in enumerate(spec) if text in x]
        if len(ls) != 1:
            raise vf.MachineryError("coverage mark %r not found exactly once in FileLogger.tla" % name)
        if cnt.get(ls[0] + 1, 0) > 0:
            got.add(name)
    return got


def model_checking(run):
    """the three configurations of the design (plain / faults / two loggers) and the refuted former design"""
    th = run.thorough()
    from concurrent.futures import ThreadPoolExecutor
    never, taken = None, set()
    cfgs = (["MC_FileLogger_thorough.cfg", "MC_FileLogger_env_thorough.cfg", "MC_FileLogger_duo_thorough.cfg"] if th else
            ["MC_FileLogger.cfg", "MC_FileLogger_env.cfg", "MC_FileLogger_duo.cfg"])
    # quick: the three configurations side by side (a few workers each); thorough: the two small ones, one after
    # the other, beside the large one
    with ThreadPoolExecutor(max_workers=2 if th else 3) as pool:
        outs = list(pool.map(lambda cfg: run.mc("MC_FileLogger", cfg=cfg, coverage=True, heap="10g" if th else None,
                                                workers=run.pick(3, 10 if cfg == cfgs[0] else 4)), cfgs))
    for cfg, r in zip(cfgs, outs):
        rec = [x for x in run.mc_runs if x["cfg"] == cfg][-1]
        z = set(rec.get("actions_never_taken") or [])
        never = z if never is None else never & z
        taken |= _taken(run, r["out"])
    never -= ASIS_ONLY
    if never:
        raise vf.MachineryError("vacuity: actions never taken by any configuration of MC_FileLogger: %s" % sorted(never))
    miss = (set(SPEC_ACTIONS) | set(SPEC_MARKS)) - taken
    if miss:
        raise vf.MachineryError("vacuity: actions of FileLogger.tla never taken by any configuration of MC_FileLogger: %s" % sorted(miss))
    run.extra["model_actions_taken"] = sorted(taken)
    sensitivity(run)


def body(run):
    # the design is model-checked beside the driving and judging of the real code
    box = {}

    def bg():
        try:
            model_checking(run)
        except BaseException as ex:
            box["err"] = ex
    th_mc = threading.Thread(target=bg)
    th_mc.start()
    try:
        _real_code(run)
    finally:
        th_mc.join()
    if "err" in box:
        raise box["err"]


def _real_code(run):
    out, meta = run.drive("c17", timeout=2400)
    run.absorb(meta)
    run.validate(out, meta, max_findings=10)
    if run.violations:
        vf.log("binding self-test skipped: the verdict pass already rejected real-code behaviour")
    else:
        run.selftest(out, meta, gen="gate", field="cur")
        run.selftest(out, meta, gen="burst", field="seq")
        run.selftest(out, meta, gen="race", field="raw")
        run.selftest(out, meta, gen="duoburst", field="to")
        property_selftests(run, out, meta)
    run.assumptions += [
        "the 10 s timer is replaced by RunCycleForVerif (one cycle on demand) and the constructor runs without the background goroutine; the clock is golib's own sync-time mode with its ticker stopped (dateutil.Now() = a value the harness sets), days 2001..2099",
        "the 20-byte time stamp the Go log package puts before every line is real wall-clock time: only its format is judged; the number of millisecond digits of the banner's own time stamp is left to C19",
        "suppression is judged as permitted/forbidden (a line may be suppressed only if a line with the same id was emitted less than the interval ago on the virtual clock); the size and eviction of the 1000-entry id cache are not constrained: a repeat inside the interval that IS written (an id the logger has forgotten -- evicted, or lost by its table) is an accepted line like any other and satisfies the statement, which restricts suppression ('suppressed only within the configured interval') and does not demand it; histories with 80..1100 distinct ids (gen suppmany) look for the opposite, a line withheld without an emitted line of its id inside the interval",
        "the standard-output option (WithStdout, log_stdout_enabled) is a setting recorded in Open/Conf and carried in the specification's conf; no action of the specification depends on it, so an accepted line of any entry point must be in the file under either value; what the loggers print to the process's standard output is sent to a scratch file and not judged; PrintlnStd is called with sysout=false only (with true its contract is 'standard output instead of the file'). Constructor options not given are recorded with the documented defaults (id whatap, name boot, level warn, stdout off); WHATAP_HOME and the working directory as ways to say <home> are set by the harness for the construction / for the whole history",
        "fallback places: in Read-focused and some random histories files with well-known names (dotnet-profiler.log, whatap-hook.log, whatap-boot.log, whatap.conf, an own dated name, r10, missing.log) lie in a directory that ProgramData, PROGRAMDATA, ALLUSERSPROFILE, APPDATA, LOCALAPPDATA, WHATAP_HOME, WHATAP_LOG_HOME point to (each set or unset per history), in the working directory, below both in WhaTap/ and logs/, and in <home>; they are files outside logs/ like the others (must never change, never be served). Other variables (HOME, TMPDIR, PWD) are left alone. GetLogFiles is called only to obtain names for Read; its answer is not judged (a panic of it is ignored)",
        "when retention runs is not part of the property: it must have run once more than 60 s of virtual time have passed since it last ran and a cycle runs; it may run earlier",
        "names the statement does not decide may or may not be removed by retention: own prefix and '-<8 digits>.' before the last dot with year 0000 or an extension other than .log",
        "Read: whether an answer is given is pinned for plain file names of logs/ that are no symbolic links; for other names (slashes, dot segments) the answer may be nil or come from the file the name lexically resolves to inside logs/ (resolution as a path join does it); a name that lexically leaves logs/ must get no answer, whatever exists there; where the window lies is judged by ReadHonest only (contiguous slice at the reported offset, at most the requested length); `next` is not judged",
        "Read through symbolic links of logs/ (a linked file, a path through a linked directory): the statement speaks of paths, so whether such a name is served is left open; an answer must be an honest window of the file the path really leads to (the harness records where each link leads with filepath.EvalSymlinks). What lies above <home> is unknown to the specification: names that leave <home> and come back, the absolute path of a file inside logs/ and '..' after a linked segment are not generated",
        "concurrent bursts: the order of calls is the order of their lines in the files (each line carries goroutine and sequence number); calls that left no line are placed before the goroutine's next visible line; no wall-clock ordering across goroutines; a burst history that is rejected but does not reproduce is a machinery failure, not a violation",
        "several loggers in one home: the harness makes them take turns (a Switch event names the logger the following events belong to; never inside a cycle); in a concurrent burst of two loggers on one file the calls are listed in the order the file gives them, with a Switch before a line of the other logger; lines of the external writer of a burst are ExtAppend events (data = the line as found)",
        "environment faults are modelled as the code stands, not judged: a logger whose output file or whose logs directory was taken away (removed, moved, removed by another logger's retention) keeps its handle on the removed file and its lines are lost with it (LogVanish is enabled for a detached logger only) until the next cycle that finds the date or the rotation flag changed (or no handle): that cycle must make logs/ again if it is missing and open the file of the day; while a regular file stands where logs/ should be the open fails, the logger is down (no output file) and every later cycle retries; Read may make a missing logs/ (accepted either way). A read-only <home> is not generated (the harness runs as root, permissions do not bind it); removing <home> itself is not generated (the files beside logs/ that must never change would go with it)",
        "every regular file of the temporary tree outside <home>/logs (in <home>, in its sub-directories named like logs/, beside <home>) is listed after every action and must never change; symbolic links are generated inside logs/ only, never with the name of an own log file, and their targets never change (a link seen to lead elsewhere than before is a machinery failure)",
    ]
