"""C17 -- file logger: whole lines in order, right file name, rotation, suppression only inside the interval,
exact retention, honest Read (DESIGN 3/C17).
(M) MC_FileLogger: the repaired design (a rotation opens the new day's file and points the output at it BEFORE the
    old file is closed) satisfies LinesWholeInOrder, FileNameRight, RotatesAfterCycle, SuppressedOnlyWithin,
    RetentionExact, ReadHonest, SurvivorsSurvive and OldRemoved for every interleaving of log calls of three families
    with the two halves of the periodic cycle and the three banner lines, clock advances over midnight and over the
    retention period, a settings change, an external writer creating a look-alike file, and Read windows over a
    10-byte file.  The design golib HAD (close, then open) is refuted by TLC on LinesWholeInOrder: sensitivity of the
    model, the code no longer has it.
(A) Trace_FileLogger: recorded histories of the real FileLogger (verif constructor without the background
    goroutine, RunCycleForVerif, frozen virtual clock): after every action the listing of <home>/logs and the bytes
    every file gained.  TLC's schedule "Log between the two halves of a rotation" is imposed with the
    `rotate.closed` gate; bursts of 8 goroutines are listed in the order the file itself gives them."""
import re
import vf


def sensitivity(run):
    r = run.tlc("MC_FileLogger", cfg="MC_FileLogger_asis.cfg", workers=2, timeout=900)
    hit = re.search(r"Invariant (\w+) is violated", r["out"])
    if r["clean"] or not hit or hit.group(1) != "LinesWholeInOrder":
        raise vf.MachineryError("the model does not refute LinesWholeInOrder for the close-then-open design:\n" + vf.tail(r["out"]))
    run.extra["model_sensitivity_former_design_refuted"] = dict(cfg="MC_FileLogger_asis.cfg", design="close the old file, then open the new one",
                                                              refuted="LinesWholeInOrder", states=r.get("distinct"), wall_s=r["wall"])
    vf.log("MC-SENS MC_FileLogger_asis.cfg refutes LinesWholeInOrder (line logged between close and reopen is lost)")


# actions that belong to the as-is design only (never enabled under Design = "repaired")
ASIS_ONLY = {"LogLose"}


def body(run):
    th = run.thorough()
    run.mc("MC_FileLogger", cfg="MC_FileLogger_thorough.cfg" if th else "MC_FileLogger.cfg", workers=run.pick(4, 16), coverage=True)
    never = set(run.mc_runs[-1].get("actions_never_taken") or []) - ASIS_ONLY
    if never:
        raise vf.MachineryError("vacuity: actions never taken by MC_FileLogger: %s" % sorted(never))
    sensitivity(run)

    out, meta = run.drive("c17", timeout=2400)
    run.absorb(meta)
    run.validate(out, meta, max_findings=10)
    if run.violations:
        vf.log("binding self-test skipped: the verdict pass already rejected real-code behaviour")
    else:
        run.selftest(out, meta, gen="gate", field="cur")
        run.selftest(out, meta, gen="retain", field="keep")
        run.selftest(out, meta, gen="read", field="res", removed=False)
        run.selftest(out, meta, gen="burst", field="seq")
    run.assumptions += [
        "the 10 s timer is replaced by RunCycleForVerif (one cycle on demand) and the constructor runs without the background goroutine; the clock is golib's own sync-time mode with its ticker stopped (dateutil.Now() = a value the harness sets), days 2001..2099",
        "the 20-byte time stamp the Go log package puts before every line is real wall-clock time: only its format is judged; the number of millisecond digits of the banner's own time stamp is left to C19",
        "suppression is judged as permitted/forbidden (a line may be suppressed only if a line with the same id was emitted less than the interval ago on the virtual clock); the size and eviction of the 1000-entry id cache are not constrained",
        "when retention runs is not part of the property: it must have run once more than 60 s of virtual time have passed since it last ran and a cycle runs; it may run earlier",
        "names the statement does not decide may or may not be removed by retention: own prefix and '-<8 digits>.' before the last dot with year 0000 or an extension other than .log",
        "Read: whether an answer is given is pinned for plain file names of logs/; for other names (slashes, dot segments) the answer may be nil or come from the file the name lexically resolves to inside logs/; where the window lies is judged by ReadHonest only (contiguous slice at the reported offset, at most the requested length); `next` is not judged",
        "concurrent bursts: the order of calls is the order of their lines in the files (each line carries goroutine and sequence number); calls that left no line are placed before the goroutine's next visible line; no wall-clock ordering across goroutines; a burst history that is rejected but does not reproduce is a machinery failure, not a violation",
        "files of <home> outside logs/ are listed after every action and must never change; symbolic links are not generated",
    ]
