"""C01 -- primitive stream codec (DESIGN 3/C01).
(M) MC_DataX: the reference format is lossless/canonical/self-delimiting for all small programs.
(A) Trace_DataX: real DataOutputX/DataInputX calls judged byte for byte against the reference format."""


def body(run):
    run.mc("MC_DataX", cfg="MC_DataX_thorough.cfg" if run.thorough() else "MC_DataX.cfg", coverage=not run.thorough())
    if run.thorough():
        run.mc("MC_DataX", cfg="MC_DataX_thorough3.cfg")
    out, meta = run.drive("c01")
    run.absorb(meta)
    run.validate(out, meta)
    run.selftest(out, meta, gen="prog")
    run.assumptions += [
        "values are projected to byte tuples by the harness with encoding/binary and math.Float*bits only (never golib)",
        "TLC judges every recorded call; the 2^24/2^32 pattern sweeps are sampled boundary-biased, not enumerated, in this tier",
    ]
