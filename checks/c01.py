"""C01 -- primitive stream codec (DESIGN 3/C01).
(M) MC_DataX: the reference format is lossless/canonical/self-delimiting for all small programs.
    MC_DataXKeep: results once read are values (never changed by later reads or by later writes to the output the
    reader was opened over), the reader's view is apart from late writes, the output accounts for all of its bytes.
    MC_DataXNet: the reader over a connection -- however the transport cuts the bytes into pieces, the elements are
    assembled as written and exactly their bytes leave the transport; the design that restarts its window after a short
    piece is refuted.
(A) Trace_DataX: real DataOutputX/DataInputX calls judged byte for byte against the reference format; every result
    that is a reference (slice, string, array) is kept by the harness and looked at again after later calls; the same
    kind of programs read back through NewDataInputNet over a connection of the harness that cuts the bytes (all at once,
    per element, per byte, inside every element, at the edges of every element, random): every Read call of the reader on
    the connection and the bytes handed over are judged (Recv, R.taken)."""
from concurrent.futures import ThreadPoolExecutor


def body(run):
    th = run.thorough()

    # the design-level runs do not depend on the driver: they run beside it (two chains)
    heap = "8g" if th else None      # (an explicit, moderate heap: TLC's default of a quarter of the RAM makes the JVM the
                                     #  first victim of the kernel's OOM killer on a machine that is shared)

    def design():
        run.mc("MC_DataX", cfg="MC_DataX_thorough.cfg" if th else "MC_DataX.cfg", coverage=not th, workers=run.pick(4, 16), heap=heap)
        if th:
            run.mc("MC_DataX", cfg="MC_DataX_thorough3.cfg", heap=heap)

    def design_keep():
        run.mc("MC_DataXKeep", cfg="MC_DataXKeep_thorough.cfg" if th else "MC_DataXKeep.cfg", workers=run.pick(4, 16), heap=heap)
        run.mc("MC_DataXNet", cfg="MC_DataXNet_restart.cfg", expect_violation="Assembled", workers=2, heap=heap)
        run.mc("MC_DataXNet", cfg="MC_DataXNet_thorough.cfg" if th else "MC_DataXNet.cfg", workers=run.pick(4, 16), heap=heap)

    pool = ThreadPoolExecutor(max_workers=2)
    mcs = [pool.submit(design), pool.submit(design_keep)]
    try:
        out, meta = run.drive("c01")
        run.absorb(meta)
        if th:
            # the design runs (65536-byte buffers in the states of MC_DataX_thorough) run beside the driver, which needs
            # little memory, and are over before the trace validators (one JVM per trace file) start
            for f in mcs:
                f.result()
        run.validate(out, meta, max_findings=3)     # per trace file (five files): enough to show a defect, triage stays short
        run.selftest(out, meta, gen="prog")
        # a kept result that changed must be rejected (the Again observation is judged, not decoration)
        run.selftest(out, meta, gen="keep", field="kept", removed=False)
        # over a connection: a byte more handed over than the element has, or a Read call not accounted for, is rejected
        run.selftest(out, meta, gen="net", field="taken", remove_match={"ev": "Recv"})
    finally:
        pool.shutdown(wait=True)
    for f in mcs:
        f.result()        # a failure of the design runs is raised here
    run.assumptions += [
        "values are projected to byte tuples by the harness with encoding/binary and math.Float*bits only (never golib)",
        "TLC judges every recorded call; the 2^24/2^32 pattern sweeps are sampled boundary-biased, not enumerated, in this tier",
        "a kept result is re-projected from the very object the read returned (slice, string, array), never from a copy; the copy logged with the read itself is taken before any further call",
        "the connection of the net histories is the harness's own net.Conn (synchronous; segments kept across Read calls as TCP and net.Pipe do; never 0 bytes without an error, never data together with an error): what it delivered is logged and compared with the stream (Recv.data)",
        "lengths that need the third byte of a 32-bit length cell (>= 2^24 bytes, blob / int-length bytes) are not driven: one such value is beyond what a trace line can carry",
    ]
