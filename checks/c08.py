"""C08 -- profile steps, service records and transaction records as self-delimiting streams (DESIGN 3/C08).
(M) MC_Profile: for every stream of <= MaxLen items over the candidate sets (three step kinds of variable length, the
    flag-selected SqlStep_3 body, every combination of the optional groups of a transaction record, the service
    records) the reference format of spec/Profile.tla reads back equal and in order, each read advancing the cursor by
    exactly the item's own length; optional sections restored exactly when present; TxNormalize; the reader golib had
    for message steps (always expects attributes) is refuted by NoStuck (named deviation).
(A) Trace_Profile: real WriteStep / ToBytesStep / ReadStep, service.ToBytes / ToObject, TxRecord.Write / Read and the
    packs that carry a profile, on generated streams; the fields demanded back = the set derived from the real writer
    joined with the fields the reference format carries at the item's content (Profile!Demanded).  Generator `retain`:
    several streams encoded before any is decoded, every output the code handed back (DataOutputX, the slice of
    ToBytesStep / TxRecord.ToBytes, the pack of SetProfile) kept and looked at again later (Keep / Peek / Again).
    One TLC pass with Strict = TRUE (law + transcribed reference format: accepted there => accepted by the law alone);
    a trace rejected there is re-judged with Strict = FALSE (the verdict, with triage); rejected by the strict pass
    alone = stale transcription: exit 2 (spec_drift), never a violation."""
import json, os
import vf


def judge(run, out, meta):
    """strict pass over every trace file (in parallel, one TLC each); whatever it rejects is re-judged by the law alone"""
    from concurrent.futures import ThreadPoolExecutor
    jobs = [j for j in meta.get("jobs", []) if open(os.path.join(out, j["trace"])).read(1)]
    st = run.trace_states

    def strict(job):
        try:
            return run.validate_file(job["spec"], os.path.join(out, job["trace"]), cfg="Trace_Profile_drift.cfg")
        except vf.MachineryError as ex:
            return ex
    # (the thorough tier's files are large: two at a time, beside the design-level run)
    with ThreadPoolExecutor(max_workers=max(1, min(run.pick(4, 2), len(jobs)))) as pool:
        first = list(pool.map(strict, jobs))
    strict_only, redo = [], []
    run.trace_states = st       # the states of a rejected strict pass do not count: the law pass judges that file again
    for job, res in zip(jobs, first):
        if isinstance(res, vf.MachineryError):
            raise res
        acc, hwm, n, r = res
        if acc:
            run.trace_states += r.get("distinct", 0)
            text = open(os.path.join(out, job["trace"])).read()
            nh = sum(1 for x in text.splitlines() if vf.is_reset(x))
            run.histories += nh
            run.events += job.get("events", 0)
            run.trace_runs.append(dict(trace=job["trace"], spec=job["spec"], cfg="Trace_Profile_drift.cfg (Strict = TRUE: the law and the transcribed format)",
                                       events=job.get("events", 0), histories=nh, rejected_histories=0))
            vf.log("TRACE %-24s %-20s events=%d histories=%d rejected=0 (strict pass: law + transcribed format)" % (job["trace"], job["spec"], job.get("events", 0), nh))
        else:
            redo.append((job, hwm, n))
    for job, hwm, n in redo:
        lines = open(os.path.join(out, job["trace"])).read().splitlines()
        line = lines[hwm - 1] if 0 < hwm <= n else ""
        vf.log("strict pass rejected %s at line %d; judging the law alone (Strict = FALSE)" % (job["trace"], hwm))
        before = len(run.violations)
        run.validate(out, dict(meta, jobs=[job]))
        if len(run.violations) == before:
            strict_only.append((job["trace"], hwm, line))
    if run.violations:
        vf.log("drift check skipped: the verdict pass rejected real-code behaviour")
        return
    if strict_only:
        trace, hwm, line = strict_only[0]
        try:
            e = json.loads(line)
            what = {k: e.get(k) for k in ("ev", "fam", "kind", "tag", "carried") if k in e}
        except Exception:
            what = line[:300]
        run.extra["spec_drift"] = dict(trace=trace, line=hwm, event=what)
        raise vf.MachineryError(
            "spec_drift: the real code satisfies the law of C08 on %s but line %d does not match the reference format / registry "
            "TRANSCRIBED in spec/Profile.tla (stale spec, not a violation): %s" % (trace, hwm, json.dumps(what)[:600]))
    run.extra["spec_drift"] = None


def first_history(out, meta, gen, having=()):
    """the first history of generator gen that has an event of each of the kinds `having`"""
    for job in meta.get("jobs", []):
        lines = open(os.path.join(out, job["trace"])).read().splitlines()
        for h in vf.split_histories(lines):
            if json.loads(h[0]).get("gen") != gen:
                continue
            if all(any(k in x[:4000] for x in h[1:]) for k in having):
                return job, h
    raise vf.MachineryError("self-test found no history of gen %s with %s" % (gen, list(having)))


def binding_selftest(run, out, meta):
    """Binding demonstration for the kept outputs and for the objects: each altered history must be rejected (where a
    line is given: exactly there).
    retain : a Peek that finds other bytes than were handed back; an Again that finds another object than was handed
             back; the first Keep missing.
    rewrite: a change of the object that is not reported (the object moves on without the specification: the next W is
             not the content the specification holds for it); a W that names another object than was written.
    reuse  : a read ON a held object that leaves the cursor elsewhere; a missing Another."""
    from concurrent.futures import ThreadPoolExecutor
    variants = []   # (group, tag, job, lines, must be rejected exactly at line or None)

    def first(h, pred):
        i = next((i for i in range(1, len(h)) if pred(json.loads(h[i]))), None)
        if i is None:
            raise vf.MachineryError("self-test: history of gen %s has no event to alter" % json.loads(h[0]).get("gen"))
        return i, json.loads(h[i])
    dump = lambda e: json.dumps(e, separators=(",", ":"))

    job, h = first_history(out, meta, "retain", ('"ev":"Peek"', '"ev":"Again"'))
    i, e = first(h, lambda e: e.get("ev") == "Peek" and e.get("bytes"))
    e["bytes"] = e["bytes"][:-1] + [(e["bytes"][-1] + 1) % 256]
    variants.append(("retain", "peek_other_bytes", job, h[:i] + [dump(e)] + h[i + 1:], i + 1))
    i, e = first(h, lambda e: e.get("ev") == "Again" and e.get("r"))
    f = next(k for k in sorted(e["r"]) if e["r"][k]["k"] == "i")
    e["r"][f]["v"] = e["r"][f]["v"][:-1] + [(e["r"][f]["v"][-1] + 1) % 256]
    variants.append(("retain", "again_other_object", job, h[:i] + [dump(e)] + h[i + 1:], i + 1))
    i, e = first(h, lambda e: e.get("ev") == "Keep")
    variants.append(("retain", "removed_keep", job, h[:i] + h[i + 1:], None))

    job, h = first_history(out, meta, "rewrite", ('"ev":"Mut"',))
    i, e = first(h, lambda e: e.get("ev") == "Mut")
    variants.append(("rewrite", "unreported_change", job, h[:i] + h[i + 1:], i + 1))      # the W that follows it
    i, e = first(h, lambda e: e.get("ev") == "W" and e.get("o") == 1)
    e["o"] = 2
    variants.append(("rewrite", "write_of_another_object", job, h[:i] + [dump(e)] + h[i + 1:], i + 1))

    job, h = first_history(out, meta, "reuse", ('"into":', '"ev":"Another"'))
    i, e = first(h, lambda e: e.get("ev") in ("R", "RO") and e.get("into"))
    if e["ev"] == "R":
        e["cur"] += 1
    else:
        e["into"] = 0
    variants.append(("reuse", "read_into_other_cursor", job, h[:i] + [dump(e)] + h[i + 1:], i + 1))
    i, e = first(h, lambda e: e.get("ev") == "Another")
    variants.append(("reuse", "removed_another", job, h[:i] + h[i + 1:], None))

    def one(v):
        group, tag, job, hh, at = v
        p = os.path.join(out, "_selftest_%s_%s.ndjson" % (group, tag))
        open(p, "w").write("\n".join(hh) + "\n")
        return run.validate_file(job["spec"], p)
    st = run.trace_states
    with ThreadPoolExecutor(max_workers=4) as pool:
        got = list(pool.map(one, variants))
    run.trace_states = st
    res = {}
    for (group, tag, job, hh, at), (acc, hwm, n, r) in zip(variants, got):
        res.setdefault(job["spec"] + ":" + group, {})[tag + "_rejected"] = (not acc) and (at is None or hwm == at)
    for k, v in res.items():
        run.selftests[k] = v
        vf.log("SELFTEST %s %s" % (k, v))
    if not all(all(v.values()) for v in res.values()):
        raise vf.MachineryError("binding self-test failed: %s" % res)


def body(run):
    from concurrent.futures import ThreadPoolExecutor
    th = run.thorough()
    w = run.pick(4, 16)

    # the design-level runs do not depend on the driver: they run beside it (one TLC at a time)
    def design():
        run.mc("MC_Profile", cfg="MC_Profile_thorough.cfg" if th else "MC_Profile.cfg", workers=w)
        run.mc("MC_Profile", cfg="MC_Profile_abstract3.cfg", workers=w)
        run.mc("MC_Profile", cfg="MC_Profile_records_thorough.cfg" if th else "MC_Profile_records.cfg", workers=w)
        run.mc("MC_Profile", cfg="MC_Profile_asis_attr.cfg", expect_violation="NoStuck", workers=1)
        run.mc("MC_Profile", cfg="MC_Profile_kept_thorough.cfg" if th else "MC_Profile_kept.cfg", workers=w)
        run.mc("MC_Profile", cfg="MC_Profile_asis_pool.cfg", expect_violation="KeptIntact", workers=1)
        # the objects: written, changed, written again; readers called on objects that hold something
        run.mc("MC_ProfileObj", cfg="MC_ProfileObj_thorough.cfg" if th else "MC_ProfileObj.cfg", workers=w)
        run.mc("MC_ProfileObj", cfg="MC_ProfileObj_asis_cache.cfg", expect_violation="ReadBack", workers=1)
        run.mc("MC_ProfileObj", cfg="MC_ProfileObj_asis_keeps.cfg", expect_violation="ReadBack", workers=1)

    pool = ThreadPoolExecutor(max_workers=1)
    mcs = pool.submit(design)
    try:
        traces(run)
    finally:
        pool.shutdown(wait=True)
    mcs.result()          # a failure of the design runs is raised here


def traces(run):
    out, meta = run.drive("c08")
    run.absorb(meta)
    judge(run, out, meta)
    run.selftest(out, meta, gen="rand", field="cur")
    run.selftest(out, meta, gen="txopt", field="cur")
    run.selftest(out, meta, gen="registry", field="n")
    if not run.violations:
        binding_selftest(run, out, meta)
    run.assumptions += [
        "field values are projected by reflection and encoding/binary only (attribute / custom-field maps: the written side from the generator's shape, the read side through the map's public enumeration); the cursor is length - DataInputX.Available()",
        "the carried set of an item is derived from the real writer by changing one field at a time at that item's own field values; the law demands it back together with every field the reference format of spec/Profile.tla carries at that content (Demanded: the optional sections named by the property are the only conditional ones), the fields of every optional section whenever the section's presence condition (spec operators) holds, and their defaults when it does not",
        "AbstractStep.Drop / AbstractStep.Opt and the shadowed AbstractService.Mtid/Mdepth/Mcaller of WasService are not on the wire by design (no writer byte depends on them): they are not demanded back",
        "custom fields: at most 255 entries (one count byte); nil and an empty table are the same record; attribute maps: present-but-empty is different from absent",
        "SqlStep_3 is not a step.Step (IsTrue/SetTrue take a byte) and reports SqlStepX's tag: it cannot be passed to WriteStep; its body writer/reader pair is driven bare (family `bare`, no tag byte)",
        "carriers: ErrorSnapPack1 through pack.ToBytesPack/ToPack; ProfileStepSplitPack through its own Write/Read (the pack factory of lang/pack does not know it); ProfilePack through ToPack when that works, else by taking the steps blob out with the documented layout (extra.profilepack_read_bypassed counts those; lang/pack is C03's)",
        "ReadStep on a tag the factory does not know (nil step) is outside this property (C04)",
    ]
