"""C08 -- profile steps, service records and transaction records as self-delimiting streams (DESIGN 3/C08).
(M) MC_Profile: for every stream of <= MaxLen items over the candidate sets (three step kinds of variable length, the
    flag-selected SqlStep_3 body, every combination of the optional groups of a transaction record, the service
    records) the reference format of spec/Profile.tla reads back equal and in order, each read advancing the cursor by
    exactly the item's own length; optional sections restored exactly when present; TxNormalize; the reader golib had
    for message steps (always expects attributes) is refuted by NoStuck (named deviation).
(A) Trace_Profile: real WriteStep / ToBytesStep / ReadStep, service.ToBytes / ToObject, TxRecord.Write / Read and the
    packs that carry a profile, on generated streams; carried set derived from the real writer.  Generator `retain`:
    several streams encoded before any is decoded, every output the code handed back (DataOutputX, the slice of
    ToBytesStep / TxRecord.ToBytes, the pack of SetProfile) kept and looked at again later (Keep / Peek / Again).
    One TLC pass with Strict = TRUE (law + transcribed reference format: accepted there => accepted by the law alone);
    a trace rejected there is re-judged with Strict = FALSE (the verdict, with triage); rejected by the strict pass
    alone = stale transcription: exit 2 (spec_drift), never a violation."""
import json, os
import vf


def judge(run, out, meta):
    strict_only = []
    for job in meta.get("jobs", []):
        p = os.path.join(out, job["trace"])
        text = open(p).read()
        if not text.strip():
            continue
        st = run.trace_states
        acc, hwm, n, r = run.validate_file(job["spec"], p, cfg="Trace_Profile_drift.cfg")
        if acc:
            nh = sum(1 for x in text.splitlines() if vf.is_reset(x))
            run.histories += nh
            run.events += job.get("events", 0)
            run.trace_runs.append(dict(trace=job["trace"], spec=job["spec"], cfg="Trace_Profile_drift.cfg (Strict = TRUE: the law and the transcribed format)",
                                       events=job.get("events", 0), histories=nh, rejected_histories=0))
            vf.log("TRACE %-24s %-20s events=%d histories=%d rejected=0 (strict pass: law + transcribed format)" % (job["trace"], job["spec"], job.get("events", 0), nh))
            continue
        run.trace_states = st
        line = text.splitlines()[hwm - 1] if 0 < hwm <= n else ""
        vf.log("strict pass rejected %s at line %d; judging the law alone (Strict = FALSE)" % (job["trace"], hwm))
        before = len(run.violations)
        run.validate(out, dict(meta, jobs=[job]))
        if len(run.violations) == before:
            strict_only.append((job["trace"], hwm, line))
    if run.violations:
        vf.log("drift check skipped: the verdict pass rejected real-code behaviour")
        return
    if strict_only:
        trace, hwm, line = strict_only[0]
        try:
            e = json.loads(line)
            what = {k: e.get(k) for k in ("ev", "fam", "kind", "tag", "carried") if k in e}
        except Exception:
            what = line[:300]
        run.extra["spec_drift"] = dict(trace=trace, line=hwm, event=what)
        raise vf.MachineryError(
            "spec_drift: the real code satisfies the law of C08 on %s but line %d does not match the reference format / registry "
            "TRANSCRIBED in spec/Profile.tla (stale spec, not a violation): %s" % (trace, hwm, json.dumps(what)[:600]))
    run.extra["spec_drift"] = None


def peek_selftest(run, out, meta):
    """Binding demonstration for the kept outputs: a Peek that finds other bytes than were handed back, an Again that
    finds another object than was handed back, and a history whose first Keep is missing must be rejected (the first
    two exactly at the altered event)."""
    from concurrent.futures import ThreadPoolExecutor
    for job in meta.get("jobs", []):
        lines = open(os.path.join(out, job["trace"])).read().splitlines()
        cand = [h for h in vf.split_histories(lines) if json.loads(h[0]).get("gen") == "retain"]
        if not cand:
            continue
        h = cand[0]
        variants = []
        for tag, ev, field in (("peek_other_bytes", "Peek", "bytes"), ("again_other_object", "Again", "r"), ("removed_keep", "Keep", "h")):
            i = next((i for i in range(1, len(h)) if json.loads(h[i]).get("ev") == ev and json.loads(h[i]).get(field)), None)
            if i is None:
                raise vf.MachineryError("self-test: no %s event in the first history of gen retain" % ev)
            e = json.loads(h[i])
            if ev == "Peek":
                e["bytes"] = e["bytes"][:-1] + [(e["bytes"][-1] + 1) % 256]
            elif ev == "Again":
                f = next(k for k in sorted(e["r"]) if e["r"][k]["k"] == "i")
                e["r"][f]["v"] = e["r"][f]["v"][:-1] + [(e["r"][f]["v"][-1] + 1) % 256]
            hh = h[:i] + ([json.dumps(e, separators=(",", ":"))] if ev != "Keep" else []) + h[i + 1:]
            p = os.path.join(out, "_selftest_%s.ndjson" % tag)
            open(p, "w").write("\n".join(hh) + "\n")
            variants.append((tag, p, i + 1 if ev != "Keep" else None))
        st = run.trace_states
        with ThreadPoolExecutor(max_workers=3) as pool:
            got = list(pool.map(lambda v: run.validate_file(job["spec"], v[1]), variants))
        run.trace_states = st
        res = {}
        for (tag, p, at), (acc, hwm, n, r) in zip(variants, got):
            res[tag + "_rejected"] = (not acc) and (at is None or hwm == at)
        run.selftests[job["spec"] + ":retain"] = res
        if not all(res.values()):
            raise vf.MachineryError("binding self-test failed for the kept outputs: %s" % res)
        vf.log("SELFTEST %s %s" % (job["spec"], res))
        return
    raise vf.MachineryError("self-test found no history of gen retain")


def body(run):
    th = run.thorough()
    w = run.pick(4, 16)
    run.mc("MC_Profile", cfg="MC_Profile_thorough.cfg" if th else "MC_Profile.cfg", workers=w)
    run.mc("MC_Profile", cfg="MC_Profile_abstract3.cfg", workers=w)
    run.mc("MC_Profile", cfg="MC_Profile_records_thorough.cfg" if th else "MC_Profile_records.cfg", workers=w)
    run.mc("MC_Profile", cfg="MC_Profile_asis_attr.cfg", expect_violation="NoStuck", workers=1)
    run.mc("MC_Profile", cfg="MC_Profile_kept_thorough.cfg" if th else "MC_Profile_kept.cfg", workers=w)
    run.mc("MC_Profile", cfg="MC_Profile_asis_pool.cfg", expect_violation="KeptIntact", workers=1)
    out, meta = run.drive("c08")
    run.absorb(meta)
    judge(run, out, meta)
    run.selftest(out, meta, gen="rand", field="cur")
    run.selftest(out, meta, gen="txopt", field="cur")
    run.selftest(out, meta, gen="registry", field="n")
    if not run.violations:
        peek_selftest(run, out, meta)
    run.assumptions += [
        "field values are projected by reflection and encoding/binary only (attribute / custom-field maps: the written side from the generator's shape, the read side through the map's public enumeration); the cursor is length - DataInputX.Available()",
        "the carried set of an item is derived from the real writer by changing one field at a time at that item's own field values; on top of it the law demands the fields of every optional section named by the property whenever the section's presence condition (spec operators) holds, and their defaults when it does not",
        "AbstractStep.Drop / AbstractStep.Opt and the shadowed AbstractService.Mtid/Mdepth/Mcaller of WasService are not on the wire by design (no writer byte depends on them): they are not demanded back",
        "custom fields: at most 255 entries (one count byte); nil and an empty table are the same record; attribute maps: present-but-empty is different from absent",
        "SqlStep_3 is not a step.Step (IsTrue/SetTrue take a byte) and reports SqlStepX's tag: it cannot be passed to WriteStep; its body writer/reader pair is driven bare (family `bare`, no tag byte)",
        "carriers: ErrorSnapPack1 through pack.ToBytesPack/ToPack; ProfileStepSplitPack through its own Write/Read (the pack factory of lang/pack does not know it); ProfilePack through ToPack when that works, else by taking the steps blob out with the documented layout (extra.profilepack_read_bypassed counts those; lang/pack is C03's)",
        "ReadStep on a tag the factory does not know (nil step) is outside this property (C04)",
    ]
