"""C11 -- request queues: bounded FIFO, nothing lost, duplicated or stranded (DESIGN 3/C11).
(M) MC_ReqQueue: the design (one action per critical section; Wait joins `waiting`, every put broadcasts; the
    timed get's polling loop) satisfies Fifo, Conservation, RefusalInert, ForceEvictsOldest, PerProducerOrder,
    Q1BeforeQ2, TimedGetHonest for ALL interleavings of the small programs; liveness NoLostWakeup under weak
    fairness of the woken consumer only; the same design WITHOUT the broadcast is refuted (not vacuous).
(A) Trace_ReqQueue: real RequestQueue / RequestDoubleQueue calls -- sequential histories over the whole API with
    callback arguments and sizes, and concurrent invocation/response histories whose linearization points TLC
    searches (silent Lin steps, DFS queue, high-water mark).
(B) stranded-consumer schedules: consumers observed parked in Get before each put; a Get that does not return
    is a watchdog Timeout event the specification has no action for.
(C) callback-held schedules: a Failed/Overflowed callback blocks inside the queue's critical section while every
    other operation is invoked; the invocation/response history is judged for linearizability like (A).
Elements are put as struct values, pointers and nothing-like values (nil interface, typed nil pointer, zero values);
the specification's element universe has such members (ReqQueue: VALUES, deviation NilSwallowed)."""
import vf

SAFETY = [  # (quick cfg, thorough cfg)
    ("MC_ReqQueue.cfg", "MC_ReqQueue_thorough.cfg"),
    ("MC_ReqQueue_double.cfg", "MC_ReqQueue_double_thorough.cfg"),
    ("MC_ReqQueue_timed.cfg", "MC_ReqQueue_timed_thorough.cfg"),
    ("MC_ReqQueue_admin.cfg", "MC_ReqQueue_admin_thorough.cfg"),
    # element universe with nothing-like members (nil interface value, another zero value), double queue, all three gets
    ("MC_ReqQueue_nil.cfg", "MC_ReqQueue_nil_thorough.cfg"),
]


def body(run):
    th = run.thorough()
    w = run.pick(4, 16)
    never = None
    for q, t in SAFETY:
        r = run.mc("MC_ReqQueue", cfg=t if th else q, workers=w, coverage=True)
        zero = set(run.mc_runs[-1].get("actions_never_taken") or [])
        never = zero if never is None else (never & zero)
    if never:
        raise vf.MachineryError("vacuity: actions never taken in any model-checking configuration: %s" % sorted(never))
    run.extra["actions_never_taken_in_any_configuration"] = []
    run.mc("MC_ReqQueue", cfg="MC_ReqQueue_live_thorough.cfg" if th else "MC_ReqQueue_live.cfg", workers=w)
    run.mc("MC_ReqQueue", cfg="MC_ReqQueue_nobcast.cfg", expect_violation="NoLostWakeup", workers=1)
    # the named deviation NilSwallowed (a timed get's poll reads a nil-valued element as "nothing yet") is reachable in
    # the model: "no element is ever swallowed" is refuted, so the nil configurations are not vacuous
    run.mc("MC_ReqQueue", cfg="MC_ReqQueue_nilreach.cfg", expect_violation="NoSwallowEver", workers=1)

    out, meta = run.drive("c11", timeout=2400)
    run.absorb(meta)
    run.validate(out, meta, dfs=True)
    if run.violations:
        vf.log("binding self-test skipped: the verdict pass already rejected real-code behaviour")
    else:
        run.selftest(out, meta, gen="self", dfs=True, field="size")
        run.selftest(out, meta, gen="strand", dfs=True, field="out", remove_match={"ev": "Inv", "o": "Put"})
        run.selftest(out, meta, gen="conc", dfs=True, field="ok", remove_match={"ev": "Inv"})
        run.selftest(out, meta, gen="held", dfs=True, field="ok", remove_match={"ev": "Inv"})
    run.assumptions += [
        "elements are [producer, seq] pairs put as struct values, pointers or nothing-like values ([producer, seq, tag]: nil interface, typed nil pointer, empty struct, zero int, empty string, nil slice, false); what comes out of the queue is compared as the VALUE seen (a nothing-like value carries no identity: FIFO order decides which element it is); results are projected by the harness with the Go standard library only",
        "named deviation NilSwallowed (modelled as the code behaves): GetTimeout polls with GetNoWait and reads nil as 'nothing yet': a nil interface value it draws is removed, handed to nobody, and the call polls on; a timed get is therefore logged as Inv/Ret and each poll is a silent step",
        "callback-held schedules: the callback is released when the other goroutines have returned or after a bounded wait (12-30 ms); if the other goroutine does not reach the lock in that time the overlap (and detection) is lost, the history is judged all the same",
        "the order of invocation/response events is the order of appends to one mutex-protected log (stamp before the call, stamp after the return); no wall-clock ordering across goroutines",
        "concurrent histories are validated at the level of linearizable calls (each call takes effect atomically between its invocation and response); the wait/broadcast mechanism itself is model-checked in MC_ReqQueue and bound to the code by the stranded-consumer schedules",
        "a timed get's start/end are read from the same millisecond wall clock the queue reads (time.Now().UnixMilli()), start before the call, end after the return, so `el >= T` for an empty-handed return is exact; no upper bound on any duration is asserted",
        "a call that has not returned 10 s after the last progress while elements keep being supplied is reported as stranded (Timeout)",
        "the double queue's callback fields are private and have no setter in golib: the harness installs them by reflection; 'parked in Get' is read from sync.Cond's wait list by reflection (fallback: a pause)",
        "SetCapacity is only exercised while no other call is in flight (it takes no lock: data races are C10's subject); Size/Size1/Size2 are also read concurrently (they take the lock: linearizable reads); callbacks do not re-enter the queue",
        "per-call overflow-callback arguments are compared in sequential histories; in concurrent histories the complete callback logs are compared in callback order at the end of the history, and a refused element is attributed to its own Put",
    ]
