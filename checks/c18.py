"""C18 -- file configuration tracks the file, notifies observers and writes back safely (DESIGN 3/C18).
(M) MC_FileConfig: the repaired design (stamp compared in full, map guarded by a lock, `k=` empties k, write-back
    through a temporary file and rename) satisfies EventuallyVisible, ObserversNotified, NoFatal, GettersTotal,
    MergeKeepsOthers, CommentsAndOrderSurvive, WriteReadBack(+Mem), AtomicOnDisk, WriteInstalls and NotifyAfterApply for
    every interleaving of external edits (within and across seconds), the reload goroutine taken apart into
    stat / parse / one map assignment at a time / notify, a getter goroutine, and one write-back taken apart into its
    system calls with a crash between any two of them.  The four designs golib HAD (second granularity, no lock,
    empty value skipped, truncate-then-write) are each refuted by TLC: that is a sensitivity test of the model, the
    code no longer has them.
(A) Trace_FileConfig: recorded histories of the real FileConfig (verif constructor without the poll goroutine,
    ReloadNowForVerif): external edits over the properties syntax, reloads, 11 getter kinds, observers, write-backs;
    getters on 8 reader goroutines of a child process racing the reloading goroutine.
    Trace_FsWrite: the system calls of the real write-back recorded with strace, AtomicOnDisk after every call."""
import os, re
import vf

ASIS = [  # (cfg, invariant TLC must refute, what golib did)
    ("MC_FileConfig_asis_sec.cfg", "EventuallyVisible", "modification time compared in whole seconds"),
    ("MC_FileConfig_asis_nolock.cfg", "NoFatal", "map shared without a lock"),
    ("MC_FileConfig_asis_empty.cfg", "EventuallyVisible", "`k=` in the file keeps the stale value"),
    ("MC_FileConfig_asis_trunc.cfg", "AtomicOnDisk", "open O_TRUNC, write, fsync, close"),
]


def sensitivity(run):
    """each former design of golib must be refuted by the model: the invariants are not vacuous"""
    res = {}
    for cfg, inv, what in ASIS:
        r = run.tlc("MC_FileConfig", cfg=cfg, workers=2, timeout=900)
        hit = re.search(r"Invariant (\w+) is violated", r["out"])
        if r["clean"] or not hit or hit.group(1) != inv:
            raise vf.MachineryError("the model does not refute %s for the design '%s' (%s):\n%s" % (inv, what, cfg, vf.tail(r["out"])))
        res[cfg] = dict(design=what, refuted=inv, states=r.get("distinct"), wall_s=r["wall"])
        vf.log("MC-SENS %-32s refutes %-18s (%s)" % (cfg, inv, what))
    run.extra["model_sensitivity_former_designs_refuted"] = res


def body(run):
    th = run.thorough()
    run.mc("MC_FileConfig", cfg="MC_FileConfig_thorough.cfg" if th else "MC_FileConfig.cfg", workers=run.pick(4, 16), coverage=not th)
    sensitivity(run)
    if not os.path.exists("/usr/bin/strace") and not any(os.path.exists(os.path.join(p, "strace")) for p in os.environ.get("PATH", "").split(":")):
        raise vf.MachineryError("strace is not installed: the write-back's system calls cannot be recorded")
    out, meta = run.drive("c18", timeout=3000)
    run.absorb(meta)
    ex = meta.get("extra") or {}
    if not ex.get("write_back_syscalls_judged"):
        raise vf.MachineryError("no system call of the write-back was recorded: AtomicOnDisk would be vacuous")
    run.validate(out, meta, max_findings=12)
    run.selftest(out, meta, gen="edit", spec="Trace_FileConfig", field="snap")
    run.selftest(out, meta, gen="wb", spec="Trace_FileConfig", field="after", removed=False)
    run.selftest(out, meta, gen="sys", spec="Trace_FsWrite", field="data")
    run.assumptions += [
        "the 3 s poll timer is replaced by ReloadNowForVerif (one poll on demand); the constructor runs without the poll goroutine; file modification times are real but set explicitly (os.Chtimes) so that several edits fall into one second",
        "two successive versions of the file differ in modification time or size (an edit that keeps both is invisible to any stat-based poller and is not generated)",
        "the file is read back into logical lines (comment | blank | key=value after unescaping) by the harness's own reader of the properties syntax; every Edit event carries the writer's and the reader's view and TLC requires them to agree",
        "keys that left the file keep their last value in memory (the property is silent); blank lines and key lines with an empty value are not compared across a write-back; the order of NEW keys appended by a write-back is free",
        "float getters are judged exactly on a 24-literal reference table (IEEE binary32 patterns) and on malformed text; other well-formed literals only have to return some float",
        "hash-set getters are judged against standard-library CRC-32 / 31*h+b folds of the tokens",
        "keys that name an environment variable, values containing ${...} expansions and files the properties parser rejects are not generated",
        "AtomicOnDisk is judged at every system-call boundary of the recorded write-back (strace, successful calls on the configuration directory); page-cache/journal behaviour below the system-call interface is not modelled",
        "concurrent getters: each observation carries the interval of reloads it overlapped (atomic counters read before and after the call); it must equal the value in one of those versions; a Go runtime abort of the child is an event without an action",
    ]
