"""C18 -- file configuration tracks the file, notifies observers and writes back safely (DESIGN 3/C18).
(M) MC_FileConfig: the repaired design (stamp compared in full, map guarded by a lock, `k=` empties k, write-back
    through a temporary file and rename) satisfies EventuallyVisible, ObserversNotified, NoFatal, GettersTotal,
    MergeKeepsOthers, CommentsAndOrderSurvive, WriteReadBack(+Mem), AtomicOnDisk, WriteInstalls and NotifyAfterApply for
    every interleaving of external edits (within and across seconds), the reload goroutine taken apart into
    stat / parse / one map assignment at a time / notify, a getter goroutine, and one write-back taken apart into its
    system calls with a crash between any two of them.  The four designs golib HAD (second granularity, no lock,
    empty value skipped, truncate-then-write) are each refuted by TLC: that is a sensitivity test of the model, the
    code no longer has them.
    A fifth design (the stamp remembered by a reload comes from a second stat AFTER the parse) is refuted too: the
    model does explore external edits between the steps of a reload.
(A) Trace_FileConfig: recorded histories of the real FileConfig (verif constructor without the poll goroutine,
    ReloadNowForVerif): external edits over the properties syntax, reloads, 11 getter kinds, observers, write-backs;
    gen ilv: the real reload (and the constructor's) taken apart at the points where it calls out -- into the parser
    after its stat, into the observers after the map assignment -- with external edits, getters and write-backs
    imposed between stat and parse, between parse and map assignment and during the notification, then polls of the
    file at rest; getters on 8 reader goroutines of a child process racing the reloading goroutine.
    The configuration file is reached as a regular file, through symbolic links (absolute, relative, same directory,
    a chain), through a symbolic link to the home directory and through a relative home path.
    Trace_FsWrite: the system calls of the real write-back recorded with strace for each of 12 layouts (those, and the
    home / configuration directory / file name taken from the environment, home "."), AtomicOnDisk -- on the entry
    the configuration path leads to through the links as they are at that instant -- after every call.
    Second strengthening (the configuration space beyond the file's lines).  Model: the observer registry is a state
    variable written at any time (ObsAdd under a new and under a taken name; ObserversNotified quantifies over the
    observers registered NOW that were registered at the last notification round), the process environment is part of
    the state (a key ABSENT from the map is answered from the variable of that name, a key the file sets -- also to the
    empty value -- from the file: VisibleThroughGetters), the file can be deleted and created again between any two
    steps (a file that disappears after it was loaded resets the map to the library's defaults in ONE critical
    section: NoTornState -- whenever the lock is free every key has its value of before or of after the reload in
    progress --, DefaultsWhenGone; the parser failing on a file that vanished after the stat: RlParseFail).  Three more
    designs are refuted (registration-ordered list that grows only with new names / map emptied and defaults filled in
    in two critical sections / environment fallback on an empty value).  Histories: Add calls before the constructor,
    between polls and inside a reload taken apart (new names, taken names, one object under two names), every
    notification records WHO was called; environment variables named like keys that are absent, present and
    present-but-empty in the file, set / changed / unset during the history; the file unlinked, renamed away or its
    symbolic link left dangling between polls and inside a reload taken apart, write-backs while it is away, a
    configuration constructed before its file exists; the 8 concurrent readers now also face polls that find the file
    gone (their observations -- every one that differs from the reader's previous one of the same key is kept -- must
    be the value of the file version or of the defaults version, never of an empty map) and an environment that names
    a key the file always sets.
Open known findings (generators steer around them only while they are listed in known-findings.json; witnesses
kf_wbsyntax, kf_wbescape): the write-back understands only `key=value` lines and writes no escapes.
Found by the second strengthening and fixed (C18-read-fatal, 61ee00b; witness kf_vanish): the library's parser terminated
the process (log.Fatal) when the file was not there -- vanished between a reload's stat and the read, or missing at
SetValues."""
import copy, json, os, re
from concurrent.futures import ThreadPoolExecutor
import vf

ASIS = [  # (cfg, invariant TLC must refute, what golib did)
    ("MC_FileConfig_asis_sec.cfg", "EventuallyVisible", "modification time compared in whole seconds"),
    ("MC_FileConfig_asis_nolock.cfg", "NoFatal", "map shared without a lock"),
    ("MC_FileConfig_asis_empty.cfg", "EventuallyVisible", "`k=` in the file keeps the stale value"),
    ("MC_FileConfig_asis_trunc.cfg", "AtomicOnDisk", "open O_TRUNC, write, fsync, close"),
    # not a former design: the variant a reload that 'remembers the version after it was loaded' would be
    ("MC_FileConfig_alt_restat.cfg", "EventuallyVisible", "stamp remembered from a second stat taken after the parse"),
    # three more designs golib never had; each stands for a region of the configuration space the model explores
    ("MC_FileConfig_alt_obslist.cfg", "ObserversNotified", "notification goes through a registration-ordered list that grows only with new names"),
    ("MC_FileConfig_alt_gonesplit.cfg", "NoTornState", "a file that disappeared: map emptied in one critical section, defaults filled in in a second one"),
    ("MC_FileConfig_alt_envempty.cfg", "VisibleThroughGetters", "environment fallback when the map's value is empty instead of when the key is absent"),
]

def sensitivity(run):
    """each former design of golib must be refuted by the model: the invariants are not vacuous"""
    res = {}
    for cfg, inv, what in ASIS:
        r = run.tlc("MC_FileConfig", cfg=cfg, workers=2, timeout=900, heap="3g")
        hit = re.search(r"Invariant (\w+) is violated", r["out"])
        if r["clean"] or not hit or hit.group(1) != inv:
            raise vf.MachineryError("the model does not refute %s for the design '%s' (%s):\n%s" % (inv, what, cfg, vf.tail(r["out"])))
        res[cfg] = dict(design=what, refuted=inv, states=r.get("distinct"), wall_s=r["wall"])
        vf.log("MC-SENS %-32s refutes %-18s (%s)" % (cfg, inv, what))
    run.extra["model_sensitivity_former_designs_refuted"] = res


def _flip(seq):
    """another byte tuple: last byte + 1, or one byte appended to an empty one"""
    return (seq[:-1] + [(seq[-1] + 1) % 256]) if seq else [120]


def _edit_inside_reload(evs):
    """an external edit that fell between the parse and the map assignment of a taken-apart reload and is the
    only reason why the NEXT poll goes on to parse: without it that poll cannot be explained"""
    for i in range(1, len(evs) - 1):
        if evs[i]["ev"] == "Edit" and evs[i - 1]["ev"] == "RlParse" and evs[i + 1]["ev"] == "RlApplied":
            k = i - 2
            while evs[k]["ev"] == "Get":
                k -= 1
            if evs[k]["ev"] != "RlStat":            # the file changed after the stat as well
                continue
            for j in range(i + 2, len(evs)):
                if evs[j]["ev"] in ("Edit", "SetValues", "Reload", "Panic"):
                    break
                if evs[j]["ev"] == "RlStat":
                    return i
    return None


def _obsadd_that_is_called(evs):
    """an Add whose observer a later notification round calls: with another object number, or without the Add, those
    calls cannot be explained"""
    for i, e in enumerate(evs):
        if e["ev"] == "ObsAdd":
            for f in evs[i + 1:]:
                if any(n.get("o") == e["id"] for n in (f.get("notes") or [])):
                    return i
    return None


def _delete_that_resets(evs):
    """the file taken away after it had been loaded, directly followed by a poll that shows the library's defaults"""
    defs = sorted(map(json.dumps, evs[0].get("libdefs") or []))
    loaded = False
    for i, e in enumerate(evs[:-1]):
        if e["ev"] in ("New", "Reload", "RlEnd") and e.get("snap"):
            loaded = True
        if e["ev"] == "Delete" and loaded and evs[i + 1]["ev"] == "Reload" and sorted(map(json.dumps, evs[i + 1].get("snap") or [])) == defs:
            return i
    return None


def _env_that_answers(evs):
    """the event (Reset or Env) that gave an environment variable the value a later getter returned for a key the map
    does not have"""
    env, src = {}, {}
    for p in evs[0].get("penv") or []:
        env[json.dumps(p[0])], src[json.dumps(p[0])] = p[1], 0
    for i, e in enumerate(evs):
        if e["ev"] == "Env":
            k = json.dumps(e["k"])
            if e["set"]:
                env[k], src[k] = e["v"], i
            else:
                env.pop(k, None)
        if e["ev"] == "Get" and e.get("g") == "Value" and e.get("ret") and env.get(json.dumps(e["k"])) == e["ret"]:
            return src[json.dumps(e["k"])]
    return None


def _corrupt_obs_id(e):
    e["id"] += 100                                # another observer object
    return e


def _corrupt_env(e):
    if e["ev"] == "Env":
        e["v"] = _flip(e["v"])
        return e
    return None


def binding_selftest(run, out, meta, gen, target, corrupt, remove_ev, pick_remove=None, pick_target=None, label=None):
    """Binding demonstration with a corruption that is decisive for this trace format (nested byte
    tuples): in the first history of `gen` that has an event `target`, (a) corrupt() changes one
    recorded observation of that event, (b) the first event `remove_ev` that is directly followed by a poll is removed; TLC must reject both."""
    hists = []
    for job in [j for j in meta["jobs"] if j["spec"] == "Trace_FileConfig"]:       # (the histories are spread over several files)
        hists += vf.split_histories(open(os.path.join(out, job["trace"])).read().splitlines())
    for h in hists:
        evs = [json.loads(x) for x in h]
        if evs[0].get("gen") != gen:
            continue
        if pick_target:
            ti = pick_target(evs)
            if ti is not None and (evs[ti]["ev"] != target or corrupt(copy.deepcopy(evs[ti])) is None):
                ti = None
        else:
            ti = next((i for i, e in enumerate(evs) if e["ev"] == target and corrupt(copy.deepcopy(e)) is not None), None)
        # an event whose effect the very next poll must show to at least one observer
        if pick_remove:
            ri = pick_remove(evs)
        else:
            ri = next((i for i, e in enumerate(evs[:-1]) if e["ev"] == remove_ev and evs[i + 1]["ev"] == "Reload" and evs[0].get("nobs", 0) > 0), None)
        if ti is None or ri is None:
            continue
        res = {}
        for tag, hh in (("corrupted_field", h[:ti] + [json.dumps(corrupt(copy.deepcopy(evs[ti])), separators=(",", ":"))] + h[ti + 1:]),
                        ("removed_event", h[:ri] + h[ri + 1:])):
            p = os.path.join(out, "_selftest18_%s_%s.ndjson" % (gen, tag))
            open(p, "w").write("\n".join(hh) + "\n")
            st = run.trace_states
            acc, hwm, n, r = run.validate_file("Trace_FileConfig", p)
            run.trace_states = st
            res[tag + "_rejected"] = not acc
        res["corrupted"] = dict(event=ti, kind=target)
        res["removed"] = dict(event=ri, kind=evs[ri]["ev"])
        run.selftests["Trace_FileConfig:" + gen + (":" + label if label else "")] = res
        if not (res["corrupted_field_rejected"] and res["removed_event_rejected"]):
            raise vf.MachineryError("binding self-test failed for Trace_FileConfig/%s: %s" % (gen, res))
        vf.log("SELFTEST Trace_FileConfig %s %s" % (gen, res))
        return
    raise vf.MachineryError("self-test found no suitable history of gen %s" % gen)


def _corrupt_snap(e):
    if not e.get("snap"):
        return None
    e["snap"][0][1] = _flip(e["snap"][0][1])      # the value the first key is reported with
    return e


def _corrupt_parsed(e):
    if not e.get("m"):
        return None
    e["m"][0][1] = _flip(e["m"][0][1])            # the value the parser returned for the first key
    return e


def _corrupt_after(e):
    for ln in e.get("after", []):
        if ln["t"] == "kv" and ln["v"]:
            ln["v"] = _flip(ln["v"])                # one byte of a value the write-back left in the file
            return e
    return None


def body(run):
    th = run.thorough()

    # the design-level runs do not depend on the driver: they run beside it (one TLC at a time)
    def design():
        # (bounded heaps: the default -- a quarter of the machine's memory per JVM -- invites the OOM killer on a shared box)
        run.mc("MC_FileConfig", cfg="MC_FileConfig_thorough.cfg" if th else "MC_FileConfig.cfg", workers=run.pick(4, 16), coverage=not th, heap=run.pick("3g", "6g"))
        # the observer registry written at any time (two names, two further observers) against edits, deletions and reloads
        run.mc("MC_FileConfig", cfg="MC_FileConfig_obs_thorough.cfg" if th else "MC_FileConfig_obs.cfg", workers=run.pick(4, 16), heap=run.pick("3g", "6g"))
        sensitivity(run)

    pool = ThreadPoolExecutor(max_workers=1)
    mcs = pool.submit(design)
    try:
        traces(run)
    finally:
        pool.shutdown(wait=True)
    mcs.result()          # a failure of the design runs is raised here


def traces(run):
    if not os.path.exists("/usr/bin/strace") and not any(os.path.exists(os.path.join(p, "strace")) for p in os.environ.get("PATH", "").split(":")):
        raise vf.MachineryError("strace is not installed: the write-back's system calls cannot be recorded")
    out, meta = run.drive("c18", timeout=3000)
    run.absorb(meta)
    ex = meta.get("extra") or {}
    if not ex.get("write_back_syscalls_judged"):
        raise vf.MachineryError("no system call of the write-back was recorded: AtomicOnDisk would be vacuous")
    lay = ex.get("write_back_layouts_judged") or {}
    if len(lay) < 12:
        raise vf.MachineryError("the write-back was recorded for %d of 12 layouts only: %s" % (len(lay), sorted(lay)))
    if not ex.get("histories_with_reference_values") or not ex.get("edits_the_parser_rejects"):
        raise vf.MachineryError("no value with a ${name} reference / no file the parser rejects was generated: the value function would be judged on literal values only")
    run.validate(out, meta, max_findings=12)
    binding_selftest(run, out, meta, "edit", "Reload", _corrupt_snap, "Edit")
    binding_selftest(run, out, meta, "wb", "SetValues", _corrupt_after, "SetValues")
    binding_selftest(run, out, meta, "ilv", "RlParse", _corrupt_parsed, "Edit", pick_remove=_edit_inside_reload)
    # the rest of the configuration space is bound too: who is registered, whether the file is there, the environment
    binding_selftest(run, out, meta, "edit", "ObsAdd", _corrupt_obs_id, "Delete", pick_target=_obsadd_that_is_called, pick_remove=_delete_that_resets, label="registry+existence")
    binding_selftest(run, out, meta, "edit", "Env", _corrupt_env, "ObsAdd", pick_target=_env_that_answers, pick_remove=_obsadd_that_is_called, label="environment")
    run.selftest(out, meta, gen="sys", spec="Trace_FsWrite", field="data")
    run.assumptions += [
        "a reload is taken apart only where it calls out (parser, observers): an edit is imposed after the stat and before the file is read, after the file was read and before anything reload does next, and after the map assignment; an edit BETWEEN two reads of the parser (a file changing while it is being read) is not imposed -- the external writer of the histories replaces the file as a whole",
        "a file the library's parser rejects (a circular ${...} reference, a `${` without `}`) is generated in gen edit only: the poll leaves the configuration as it was, tells nobody and remembers the version (ReloadAtomic, Loadable); the histories with write-backs and the reloads taken apart keep to files the parser accepts (steered by the harness's own reading of the expansion rule; the verdicts come from the specification's Expand); a foreign parser that fails for other reasons is not explored",
        "external edits do not interleave with the steps of a write-back (read, merge, write): a lost update between two writers without a lock is outside the property",
        "the layouts: configuration path = regular file | symbolic link (absolute, relative, same directory, chain of two); home = absolute | relative | '.' | symbolic link to a directory | WHATAP_HOME; WHATAP_CONFIG_HOME / WHATAP_CONFIG; AtomicOnDisk is judged on what the configuration path leads to (a write-back that replaced the link itself by the new file would satisfy it); hard links, bind mounts and dangling links are not laid out",
        "the 3 s poll timer is replaced by ReloadNowForVerif (one poll on demand); the constructor runs without the poll goroutine; file modification times are real but set explicitly (os.Chtimes) so that several edits fall into one second",
        "two successive versions of the file differ in modification time or size (an edit that keeps both is invisible to any stat-based poller and is not generated)",
        "the file is read back into logical lines (comment | blank | key=value after unescaping) by the harness's own reader of the properties syntax; every Edit event carries the writer's and the reader's view and TLC requires them to agree",
        "keys that left the file keep their last value in memory (the property is silent); blank lines and key lines with an empty value are not compared across a write-back; the order of NEW keys appended by a write-back is free",
        "float getters are judged exactly on a 24-literal reference table (IEEE binary32 patterns) and on malformed text; other well-formed literals only have to return some float",
        "hash-set getters are judged against standard-library CRC-32 / 31*h+b folds of the tokens",
        "keys that name a variable of the environment the check itself was started in are not generated (the histories set, change and unset variables of their own, named like keys that are absent, present and present-but-empty in the file, and the trace records them: event Env, Reset.penv); values with ${name} references are generated and judged by the specification's expansion rule (Expand: other keys of the file, else the environment, else nothing; nested; circular / unterminated = the file is rejected as a whole); the names references use are never the subject of an Env event and the pool of variables they name is set before the constructor runs (Reset.penv) -- a referenced variable that changes between a load and a getter is not explored (the value is fixed at load time; the property speaks of the file); values handed to SetValues contain no references",
        "a file that disappears after it was loaded resets the configuration to the library's defaults (what the public ApplyDefault() puts into an empty configuration; recorded once per history) and the observers are NOT told: that is what the code does on purpose and the property, which speaks of the file's key=value pairs, is silent about it; what is required there is that no getter sees a map that is neither the one before nor the defaults",
        "observers are added before the constructor, between polls and -- in the reloads taken apart -- after the stat and after the parse, never from inside an observer's callback (a Go map written while it is iterated may or may not show the new entry); one notification round must call, once per registered name, the observer registered under it when the round runs",
        "the file vanishing between a reload's stat and the parser's read (the parser fails, the poll ends with the map as it was, the next poll finds the file missing: events RlParseFail, RlAbort) and write-backs while the file is away (SetValuesGone: nothing is written) are imposed in-process; on a tree whose parser terminates the process there (C18-read-fatal before 61ee00b) the harness dies with it: machinery failure, and the witness kf_vanish (child process) shows the death as an event without an action",
        "AtomicOnDisk is judged at every system-call boundary of the recorded write-back (strace, successful calls on the configuration directory) and, for a write call on the inode the name refers to, additionally with the write cut after its first byte, in the middle and before its last byte; page-cache/journal behaviour below the system-call interface (e.g. a rename reaching the disk before the data when fsync is omitted) is not modelled",
        "concurrent getters: each observation carries the interval of reloads it overlapped (atomic counters read before and after the call); it must equal the value in one of those versions; a Go runtime abort of the child is an event without an action",
    ]
