"""C18 -- file configuration tracks the file, notifies observers and writes back safely (DESIGN 3/C18).
(M) MC_FileConfig: the repaired design (stamp compared in full, map guarded by a lock, `k=` empties k, write-back
    through a temporary file and rename) satisfies EventuallyVisible, ObserversNotified, NoFatal, GettersTotal,
    MergeKeepsOthers, CommentsAndOrderSurvive, WriteReadBack(+Mem), AtomicOnDisk, WriteInstalls and NotifyAfterApply for
    every interleaving of external edits (within and across seconds), the reload goroutine taken apart into
    stat / parse / one map assignment at a time / notify, a getter goroutine, and one write-back taken apart into its
    system calls with a crash between any two of them.  The four designs golib HAD (second granularity, no lock,
    empty value skipped, truncate-then-write) are each refuted by TLC: that is a sensitivity test of the model, the
    code no longer has them.
    A fifth design (the stamp remembered by a reload comes from a second stat AFTER the parse) is refuted too: the
    model does explore external edits between the steps of a reload.
(A) Trace_FileConfig: recorded histories of the real FileConfig (verif constructor without the poll goroutine,
    ReloadNowForVerif): external edits over the properties syntax, reloads, 11 getter kinds, observers, write-backs;
    gen ilv: the real reload (and the constructor's) taken apart at the points where it calls out -- into the parser
    after its stat, into the observers after the map assignment -- with external edits, getters and write-backs
    imposed between stat and parse, between parse and map assignment and during the notification, then polls of the
    file at rest; getters on 8 reader goroutines of a child process racing the reloading goroutine.
    The configuration file is reached as a regular file, through symbolic links (absolute, relative, same directory,
    a chain), through a symbolic link to the home directory and through a relative home path.
    Trace_FsWrite: the system calls of the real write-back recorded with strace for each of 12 layouts (those, and the
    home / configuration directory / file name taken from the environment, home "."), AtomicOnDisk -- on the entry
    the configuration path leads to through the links as they are at that instant -- after every call.
Open known findings (generators steer around them only while they are listed in known-findings.json; witnesses
kf_wbsyntax, kf_wbescape): the write-back understands only `key=value` lines and writes no escapes."""
import copy, json, os, re
import vf

ASIS = [  # (cfg, invariant TLC must refute, what golib did)
    ("MC_FileConfig_asis_sec.cfg", "EventuallyVisible", "modification time compared in whole seconds"),
    ("MC_FileConfig_asis_nolock.cfg", "NoFatal", "map shared without a lock"),
    ("MC_FileConfig_asis_empty.cfg", "EventuallyVisible", "`k=` in the file keeps the stale value"),
    ("MC_FileConfig_asis_trunc.cfg", "AtomicOnDisk", "open O_TRUNC, write, fsync, close"),
    # not a former design: the variant a reload that 'remembers the version after it was loaded' would be
    ("MC_FileConfig_alt_restat.cfg", "EventuallyVisible", "stamp remembered from a second stat taken after the parse"),
]


def sensitivity(run):
    """each former design of golib must be refuted by the model: the invariants are not vacuous"""
    res = {}
    for cfg, inv, what in ASIS:
        r = run.tlc("MC_FileConfig", cfg=cfg, workers=2, timeout=900)
        hit = re.search(r"Invariant (\w+) is violated", r["out"])
        if r["clean"] or not hit or hit.group(1) != inv:
            raise vf.MachineryError("the model does not refute %s for the design '%s' (%s):\n%s" % (inv, what, cfg, vf.tail(r["out"])))
        res[cfg] = dict(design=what, refuted=inv, states=r.get("distinct"), wall_s=r["wall"])
        vf.log("MC-SENS %-32s refutes %-18s (%s)" % (cfg, inv, what))
    run.extra["model_sensitivity_former_designs_refuted"] = res


def _flip(seq):
    """another byte tuple: last byte + 1, or one byte appended to an empty one"""
    return (seq[:-1] + [(seq[-1] + 1) % 256]) if seq else [120]


def _edit_inside_reload(evs):
    """an external edit that fell between the parse and the map assignment of a taken-apart reload and is the
    only reason why the NEXT poll goes on to parse: without it that poll cannot be explained"""
    for i in range(1, len(evs) - 1):
        if evs[i]["ev"] == "Edit" and evs[i - 1]["ev"] == "RlParse" and evs[i + 1]["ev"] == "RlApplied":
            k = i - 2
            while evs[k]["ev"] == "Get":
                k -= 1
            if evs[k]["ev"] != "RlStat":            # the file changed after the stat as well
                continue
            for j in range(i + 2, len(evs)):
                if evs[j]["ev"] in ("Edit", "SetValues", "Reload", "Panic"):
                    break
                if evs[j]["ev"] == "RlStat":
                    return i
    return None


def binding_selftest(run, out, meta, gen, target, corrupt, remove_ev, pick_remove=None):
    """Binding demonstration with a corruption that is decisive for this trace format (nested byte
    tuples): in the first history of `gen` that has an event `target`, (a) corrupt() changes one
    recorded observation of that event, (b) the first event `remove_ev` that is directly followed by a poll is removed; TLC must reject both."""
    job = [j for j in meta["jobs"] if j["spec"] == "Trace_FileConfig"][0]
    hists = vf.split_histories(open(os.path.join(out, job["trace"])).read().splitlines())
    for h in hists:
        evs = [json.loads(x) for x in h]
        if evs[0].get("gen") != gen:
            continue
        ti = next((i for i, e in enumerate(evs) if e["ev"] == target and corrupt(copy.deepcopy(e)) is not None), None)
        # an event whose effect the very next poll must show to at least one observer
        if pick_remove:
            ri = pick_remove(evs)
        else:
            ri = next((i for i, e in enumerate(evs[:-1]) if e["ev"] == remove_ev and evs[i + 1]["ev"] == "Reload" and evs[0].get("nobs", 0) > 0), None)
        if ti is None or ri is None:
            continue
        res = {}
        for tag, hh in (("corrupted_field", h[:ti] + [json.dumps(corrupt(copy.deepcopy(evs[ti])), separators=(",", ":"))] + h[ti + 1:]),
                        ("removed_event", h[:ri] + h[ri + 1:])):
            p = os.path.join(out, "_selftest18_%s_%s.ndjson" % (gen, tag))
            open(p, "w").write("\n".join(hh) + "\n")
            st = run.trace_states
            acc, hwm, n, r = run.validate_file("Trace_FileConfig", p)
            run.trace_states = st
            res[tag + "_rejected"] = not acc
        res["corrupted"] = dict(event=ti, kind=target)
        res["removed"] = dict(event=ri, kind=remove_ev)
        run.selftests["Trace_FileConfig:" + gen] = res
        if not (res["corrupted_field_rejected"] and res["removed_event_rejected"]):
            raise vf.MachineryError("binding self-test failed for Trace_FileConfig/%s: %s" % (gen, res))
        vf.log("SELFTEST Trace_FileConfig %s %s" % (gen, res))
        return
    raise vf.MachineryError("self-test found no suitable history of gen %s" % gen)


def _corrupt_snap(e):
    if not e.get("snap"):
        return None
    e["snap"][0][1] = _flip(e["snap"][0][1])      # the value the first key is reported with
    return e


def _corrupt_parsed(e):
    if not e.get("m"):
        return None
    e["m"][0][1] = _flip(e["m"][0][1])            # the value the parser returned for the first key
    return e


def _corrupt_after(e):
    for ln in e.get("after", []):
        if ln["t"] == "kv" and ln["v"]:
            ln["v"] = _flip(ln["v"])                # one byte of a value the write-back left in the file
            return e
    return None


def body(run):
    th = run.thorough()
    run.mc("MC_FileConfig", cfg="MC_FileConfig_thorough.cfg" if th else "MC_FileConfig.cfg", workers=run.pick(4, 16), coverage=not th)
    sensitivity(run)
    if not os.path.exists("/usr/bin/strace") and not any(os.path.exists(os.path.join(p, "strace")) for p in os.environ.get("PATH", "").split(":")):
        raise vf.MachineryError("strace is not installed: the write-back's system calls cannot be recorded")
    out, meta = run.drive("c18", timeout=3000)
    run.absorb(meta)
    ex = meta.get("extra") or {}
    if not ex.get("write_back_syscalls_judged"):
        raise vf.MachineryError("no system call of the write-back was recorded: AtomicOnDisk would be vacuous")
    lay = ex.get("write_back_layouts_judged") or {}
    if len(lay) < 12:
        raise vf.MachineryError("the write-back was recorded for %d of 12 layouts only: %s" % (len(lay), sorted(lay)))
    run.validate(out, meta, max_findings=12)
    binding_selftest(run, out, meta, "edit", "Reload", _corrupt_snap, "Edit")
    binding_selftest(run, out, meta, "wb", "SetValues", _corrupt_after, "SetValues")
    binding_selftest(run, out, meta, "ilv", "RlParse", _corrupt_parsed, "Edit", pick_remove=_edit_inside_reload)
    run.selftest(out, meta, gen="sys", spec="Trace_FsWrite", field="data")
    run.assumptions += [
        "a reload is taken apart only where it calls out (parser, observers): an edit is imposed after the stat and before the file is read, after the file was read and before anything reload does next, and after the map assignment; an edit BETWEEN two reads of the parser (a file changing while it is being read) is not imposed -- the external writer of the histories replaces the file as a whole",
        "a parser that fails (FileConfig accepts a foreign one) is not explored: the library's own parser terminates the process on a file it rejects",
        "external edits do not interleave with the steps of a write-back (read, merge, write): a lost update between two writers without a lock is outside the property",
        "the layouts: configuration path = regular file | symbolic link (absolute, relative, same directory, chain of two); home = absolute | relative | '.' | symbolic link to a directory | WHATAP_HOME; WHATAP_CONFIG_HOME / WHATAP_CONFIG; AtomicOnDisk is judged on what the configuration path leads to (a write-back that replaced the link itself by the new file would satisfy it); hard links, bind mounts and dangling links are not laid out",
        "the 3 s poll timer is replaced by ReloadNowForVerif (one poll on demand); the constructor runs without the poll goroutine; file modification times are real but set explicitly (os.Chtimes) so that several edits fall into one second",
        "two successive versions of the file differ in modification time or size (an edit that keeps both is invisible to any stat-based poller and is not generated)",
        "the file is read back into logical lines (comment | blank | key=value after unescaping) by the harness's own reader of the properties syntax; every Edit event carries the writer's and the reader's view and TLC requires them to agree",
        "keys that left the file keep their last value in memory (the property is silent); blank lines and key lines with an empty value are not compared across a write-back; the order of NEW keys appended by a write-back is free",
        "float getters are judged exactly on a 24-literal reference table (IEEE binary32 patterns) and on malformed text; other well-formed literals only have to return some float",
        "hash-set getters are judged against standard-library CRC-32 / 31*h+b folds of the tokens",
        "keys that name an environment variable, values containing ${...} expansions and files the properties parser rejects are not generated",
        "AtomicOnDisk is judged at every system-call boundary of the recorded write-back (strace, successful calls on the configuration directory) and, for a write call on the inode the name refers to, additionally with the write cut after its first byte, in the middle and before its last byte; page-cache/journal behaviour below the system-call interface (e.g. a rename reaching the disk before the data when fsync is omitted) is not modelled",
        "concurrent getters: each observation carries the interval of reloads it overlapped (atomic counters read before and after the call); it must equal the value in one of those versions; a Go runtime abort of the child is an event without an action",
    ]
