"""C18 -- file configuration tracks the file, notifies observers and writes back safely (DESIGN 3/C18).
(M) MC_FileConfig: the repaired design (stamp compared in full, map guarded by a lock, `k=` empties k, write-back
    through a temporary file and rename) satisfies EventuallyVisible, ObserversNotified, NoFatal, GettersTotal,
    MergeKeepsOthers, CommentsAndOrderSurvive, WriteReadBack(+Mem), AtomicOnDisk, WriteInstalls and NotifyAfterApply for
    every interleaving of external edits (within and across seconds), the reload goroutine taken apart into
    stat / parse / one map assignment at a time / notify, a getter goroutine, and one write-back taken apart into its
    system calls with a crash between any two of them.  The four designs golib HAD (second granularity, no lock,
    empty value skipped, truncate-then-write) are each refuted by TLC: that is a sensitivity test of the model, the
    code no longer has them.
(A) Trace_FileConfig: recorded histories of the real FileConfig (verif constructor without the poll goroutine,
    ReloadNowForVerif): external edits over the properties syntax, reloads, 11 getter kinds, observers, write-backs;
    getters on 8 reader goroutines of a child process racing the reloading goroutine.
    Trace_FsWrite: the system calls of the real write-back recorded with strace, AtomicOnDisk after every call.
Open known findings (generators steer around them only while they are listed in known-findings.json; witnesses
kf_wbsyntax, kf_wbescape): the write-back understands only `key=value` lines and writes no escapes."""
import copy, json, os, re
import vf

ASIS = [  # (cfg, invariant TLC must refute, what golib did)
    ("MC_FileConfig_asis_sec.cfg", "EventuallyVisible", "modification time compared in whole seconds"),
    ("MC_FileConfig_asis_nolock.cfg", "NoFatal", "map shared without a lock"),
    ("MC_FileConfig_asis_empty.cfg", "EventuallyVisible", "`k=` in the file keeps the stale value"),
    ("MC_FileConfig_asis_trunc.cfg", "AtomicOnDisk", "open O_TRUNC, write, fsync, close"),
]


def sensitivity(run):
    """each former design of golib must be refuted by the model: the invariants are not vacuous"""
    res = {}
    for cfg, inv, what in ASIS:
        r = run.tlc("MC_FileConfig", cfg=cfg, workers=2, timeout=900)
        hit = re.search(r"Invariant (\w+) is violated", r["out"])
        if r["clean"] or not hit or hit.group(1) != inv:
            raise vf.MachineryError("the model does not refute %s for the design '%s' (%s):\n%s" % (inv, what, cfg, vf.tail(r["out"])))
        res[cfg] = dict(design=what, refuted=inv, states=r.get("distinct"), wall_s=r["wall"])
        vf.log("MC-SENS %-32s refutes %-18s (%s)" % (cfg, inv, what))
    run.extra["model_sensitivity_former_designs_refuted"] = res


def _flip(seq):
    """another byte tuple: last byte + 1, or one byte appended to an empty one"""
    return (seq[:-1] + [(seq[-1] + 1) % 256]) if seq else [120]


def binding_selftest(run, out, meta, gen, target, corrupt, remove_ev):
    """Binding demonstration with a corruption that is decisive for this trace format (nested byte
    tuples): in the first history of `gen` that has an event `target`, (a) corrupt() changes one
    recorded observation of that event, (b) the first event `remove_ev` that is directly followed by a poll is removed; TLC must reject both."""
    job = [j for j in meta["jobs"] if j["spec"] == "Trace_FileConfig"][0]
    hists = vf.split_histories(open(os.path.join(out, job["trace"])).read().splitlines())
    for h in hists:
        evs = [json.loads(x) for x in h]
        if evs[0].get("gen") != gen:
            continue
        ti = next((i for i, e in enumerate(evs) if e["ev"] == target and corrupt(copy.deepcopy(e)) is not None), None)
        # an event whose effect the very next poll must show to at least one observer
        ri = next((i for i, e in enumerate(evs[:-1]) if e["ev"] == remove_ev and evs[i + 1]["ev"] == "Reload" and evs[0].get("nobs", 0) > 0), None)
        if ti is None or ri is None:
            continue
        res = {}
        for tag, hh in (("corrupted_field", h[:ti] + [json.dumps(corrupt(copy.deepcopy(evs[ti])), separators=(",", ":"))] + h[ti + 1:]),
                        ("removed_event", h[:ri] + h[ri + 1:])):
            p = os.path.join(out, "_selftest18_%s_%s.ndjson" % (gen, tag))
            open(p, "w").write("\n".join(hh) + "\n")
            st = run.trace_states
            acc, hwm, n, r = run.validate_file("Trace_FileConfig", p)
            run.trace_states = st
            res[tag + "_rejected"] = not acc
        res["corrupted"] = dict(event=ti, kind=target)
        res["removed"] = dict(event=ri, kind=remove_ev)
        run.selftests["Trace_FileConfig:" + gen] = res
        if not (res["corrupted_field_rejected"] and res["removed_event_rejected"]):
            raise vf.MachineryError("binding self-test failed for Trace_FileConfig/%s: %s" % (gen, res))
        vf.log("SELFTEST Trace_FileConfig %s %s" % (gen, res))
        return
    raise vf.MachineryError("self-test found no suitable history of gen %s" % gen)


def _corrupt_snap(e):
    if not e.get("snap"):
        return None
    e["snap"][0][1] = _flip(e["snap"][0][1])      # the value the first key is reported with
    return e


def _corrupt_after(e):
    for ln in e.get("after", []):
        if ln["t"] == "kv" and ln["v"]:
            ln["v"] = _flip(ln["v"])                # one byte of a value the write-back left in the file
            return e
    return None


def body(run):
    th = run.thorough()
    run.mc("MC_FileConfig", cfg="MC_FileConfig_thorough.cfg" if th else "MC_FileConfig.cfg", workers=run.pick(4, 16), coverage=not th)
    sensitivity(run)
    if not os.path.exists("/usr/bin/strace") and not any(os.path.exists(os.path.join(p, "strace")) for p in os.environ.get("PATH", "").split(":")):
        raise vf.MachineryError("strace is not installed: the write-back's system calls cannot be recorded")
    out, meta = run.drive("c18", timeout=3000)
    run.absorb(meta)
    ex = meta.get("extra") or {}
    if not ex.get("write_back_syscalls_judged"):
        raise vf.MachineryError("no system call of the write-back was recorded: AtomicOnDisk would be vacuous")
    run.validate(out, meta, max_findings=12)
    binding_selftest(run, out, meta, "edit", "Reload", _corrupt_snap, "Edit")
    binding_selftest(run, out, meta, "wb", "SetValues", _corrupt_after, "SetValues")
    run.selftest(out, meta, gen="sys", spec="Trace_FsWrite", field="data")
    run.assumptions += [
        "the 3 s poll timer is replaced by ReloadNowForVerif (one poll on demand); the constructor runs without the poll goroutine; file modification times are real but set explicitly (os.Chtimes) so that several edits fall into one second",
        "two successive versions of the file differ in modification time or size (an edit that keeps both is invisible to any stat-based poller and is not generated)",
        "the file is read back into logical lines (comment | blank | key=value after unescaping) by the harness's own reader of the properties syntax; every Edit event carries the writer's and the reader's view and TLC requires them to agree",
        "keys that left the file keep their last value in memory (the property is silent); blank lines and key lines with an empty value are not compared across a write-back; the order of NEW keys appended by a write-back is free",
        "float getters are judged exactly on a 24-literal reference table (IEEE binary32 patterns) and on malformed text; other well-formed literals only have to return some float",
        "hash-set getters are judged against standard-library CRC-32 / 31*h+b folds of the tokens",
        "keys that name an environment variable, values containing ${...} expansions and files the properties parser rejects are not generated",
        "AtomicOnDisk is judged at every system-call boundary of the recorded write-back (strace, successful calls on the configuration directory) and, for a write call on the inode the name refers to, additionally with the write cut after its first byte, in the middle and before its last byte; page-cache/journal behaviour below the system-call interface (e.g. a rename reaching the disk before the data when fsync is omitted) is not modelled",
        "concurrent getters: each observation carries the interval of reloads it overlapped (atomic counters read before and after the call); it must equal the value in one of those versions; a Go runtime abort of the child is an event without an action",
    ]
