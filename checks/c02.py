"""C02 -- tagged value codec (DESIGN 3/C02).
(M) MC_Value: the reference format (spec/Value.tla) is lossless, exactly consumed, re-encodes identically and is self-delimiting
    for every value of the small-scope enumeration (depth <= 2, containers of <= 2 items, every type code).
    MC_ValueSpine: the level-by-level judgement of deep values (ValueSpine.tla) is that same format, for every spine of <= 3 (4)
    levels.  MC_ValueObj: the value OBJECT machine (ValueObj.tla: build / every public mutator on every node / write / adopt the
    decoded object, every order up to 2 (3) calls) keeps the content a well-formed value that round-trips, and a write is the
    encoding of the content of that moment.
(B) Trace_ValueEnum: the real codec is driven through every value of that enumeration (by index; TLC checks that the harness
    built the spec's value number i) and must produce the spec's bytes and read back the spec's structure.
(A) Trace_Value: random and boundary shapes (depth <= 8, wide maps whose keys collide in the table -- modulo its size and in the
    full 32-bit hash --, 40000-item lists, length thresholds) and DEEP values: chains of 64 .. 5000 (thorough 20000) containers of
    mixed kinds with and without siblings, logged by their spine (gen deep); every counted type (the four arrays, list, map,
    int map) with its element count at and at both sides of every power of two up to the count cell's maximum (gen counts).
(O) Trace_ValueObj: one real value object is written, changed through every public mutator on itself or on a child obtained
    from it (every chain of container kinds x every level x every mutator: gen mutenum; random: gen mut), and written again;
    every write is judged against the content the calls define at that moment.  Every public READ-ONLY method (type code,
    sizes, getters, key enumeration, textual form, Write/WriteValue of a node, summary getters, Equals/CompareTo against the
    node itself / another node / a copy / a copy in the opposite order / another value) is called between the writes
    (gen lookenum: every chain x level x method; gen mut: mixed with the mutators): its result is what the content defines
    and it is an identity step -- the following writes are judged against the unchanged content, entry order included."""
from concurrent.futures import ThreadPoolExecutor


def body(run):
    th = run.thorough()

    # the design-level runs do not depend on the driver: they run beside it (one TLC at a time)
    def design():
        w = run.pick(4, 12)
        run.mc("MC_Value", cfg="MC_Value_thorough.cfg" if th else "MC_Value.cfg", coverage=False, workers=run.pick(8, 16))
        run.mc("MC_ValueSpine", cfg="MC_ValueSpine_thorough.cfg" if th else "MC_ValueSpine.cfg", workers=w)
        run.mc("MC_ValueObj", cfg="MC_ValueObj_thorough.cfg" if th else "MC_ValueObj.cfg", workers=w)

    pool = ThreadPoolExecutor(max_workers=1)
    mcs = pool.submit(design)
    try:
        traces(run, th)
    finally:
        pool.shutdown(wait=True)
    mcs.result()          # a failure of the design runs is raised here


def traces(run, th):
    out, meta = run.drive("c02")
    run.absorb(meta)
    run.validate(out, meta, timeout=3000)
    run.selftest(out, meta, gen="rand", spec="Trace_Value", field="out")
    # a deep value is judged twice from the same calls (RTd, RTs): removing one of the two events is no error
    run.selftest(out, meta, gen="deep", spec="Trace_Value", field="out", removed=False)
    run.selftest(out, meta, gen="enum", spec="Trace_ValueEnumT" if th else "Trace_ValueEnum", field="i")
    # object histories: corrupted bytes of a write, and a call that is not reported (the content moves on without the specification)
    run.selftest(out, meta, gen="mutenum", spec="Trace_ValueObj", field="out", remove_match={"ev": "Mut"})
    # a read-only call that reports something the content does not define (removing one is no error: it is an identity step)
    run.selftest(out, meta, gen="lookenum", spec="Trace_ValueObj", field="r", removed=False)
    run.assumptions += [
        "the value handed to the spec is the projection of the generator's shape (standard library only); the value read back is projected from the real object's exported fields and public getters, containers in the order their public enumeration yields",
        "arrays of more than 32767 elements and NaN-free-ness are not assumed: NaN bit patterns are part of the inputs; element counts beyond what the count fields can represent are outside the property",
        "FLOAT_SUMMARY (47) has no constructor and is treated as an unknown tag",
        "object histories: the harness reports calls and arguments only, the content at each write is derived by ValueObj.tla (Put on a present key replaces in place, PutAll = Put of every entry, NewList = Put of an empty list); Read into a container is only exercised on an empty one (what reading into a used container means is outside the property); summaries are changed through their exported fields (Add/AddCount arithmetic is not this property's)",
        "deep values are described by their spine (one record per level); up to 130 (thorough 300) levels the spine is expanded and judged by the recursive reference operators, beyond that level by level (ValueSpine.tla), which MC_ValueSpine shows to be the same format; keys with equal full hashes are chosen by search / CRC-32 suffix forgery and kept only if golib's own hash agrees (choice of inputs, never a verdict)",
    ]
