"""C02 -- tagged value codec (DESIGN 3/C02).
(M) MC_Value: the reference format (spec/Value.tla) is lossless, exactly consumed, re-encodes identically and is self-delimiting
    for every value of the small-scope enumeration (depth <= 2, containers of <= 2 items, every type code).
(B) Trace_ValueEnum: the real codec is driven through every value of that enumeration (by index; TLC checks that the harness
    built the spec's value number i) and must produce the spec's bytes and read back the spec's structure.
(A) Trace_Value: random and boundary shapes (depth <= 8 and deeper chains, wide colliding maps, 40000-item lists, length thresholds)."""


def body(run):
    run.mc("MC_Value", cfg="MC_Value_thorough.cfg" if run.thorough() else "MC_Value.cfg", coverage=False)
    out, meta = run.drive("c02")
    run.absorb(meta)
    run.validate(out, meta, timeout=3000)
    run.selftest(out, meta, gen="rand", spec="Trace_Value", field="out")
    run.selftest(out, meta, gen="enum", spec="Trace_ValueEnumT" if run.thorough() else "Trace_ValueEnum", field="i")
    run.assumptions += [
        "the value handed to the spec is the projection of the generator's shape (standard library only); the value read back is projected from the real object's exported fields and public getters, containers in the order their public enumeration yields",
        "arrays of more than 32767 elements and NaN-free-ness are not assumed: NaN bit patterns are part of the inputs; element counts beyond what the count fields can represent are outside the property",
        "FLOAT_SUMMARY (47) has no constructor and is treated as an unknown tag",
    ]
