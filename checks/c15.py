"""C15 -- hashes and identifier encodings (DESIGN 3/C15).
(M) MC_Hashes: the state machine "a process evaluates the pure functions" over a small universe of calls in every
    order and repetition (the memo only grows and holds the reference values), and the algebraic laws of the
    reference operators on probes (hexa32 Dec(Enc(n)) = n and the three documented forms around every power of 32
    and the extremes; compose/split laws on all pairs of boundary halves; IPv4 text/bytes/int mutually inverse;
    CRC-32 check value, residue, GF(2)-affinity, table derived from the polynomial; murmur variants against each
    other; byte-limb multiplication against TLC's integers and the ring laws).
(A) Trace_Hashes: the real functions on every input of the generators; TLC recomputes every returned value.
    Besides input coverage: gen conc (many goroutines on different inputs), gen alias / churn (state carried
    across calls, slices shared with the caller: Scribble / Held steps of the memo state machine).
(S) sweeps of the spaces TLC cannot enumerate against the Go transliteration of the operators, the transliteration
    bound to the spec by `ref` fields TLC compares; disagreements become one-event histories judged by TLC."""
import os, concurrent.futures as cf
import vf


def validate_parallel(run, out, meta, workers):
    """Pre-validates the driver's trace files concurrently (one TLC each, 1 worker); the files TLC accepts are
    accounted like run.validate does, the others go through run.validate (localisation, reproduction, replay)."""
    jobs = [j for j in meta.get("jobs", []) if open(os.path.join(out, j["trace"])).read(1)]

    def one(job):
        r = run.tlc(job["spec"], cfg=job["spec"] + ".cfg", workers=1, timeout=3000, env={"TRACE": os.path.join(out, job["trace"])})
        m = vf.re.search(r'<<"HWM", (\d+), "OF", (\d+)>>', r["out"])
        ok = bool(m) and int(m.group(1)) == int(m.group(2)) + 1 and r["clean"]
        return job, ok, r

    with cf.ThreadPoolExecutor(max_workers=workers) as ex:
        results = list(ex.map(one, jobs))
    rest = []
    for job, ok, r in results:
        if not ok:
            rest.append(job)
            continue
        lines = open(os.path.join(out, job["trace"])).read().splitlines()
        nhist = sum(1 for x in lines if vf.is_reset(x))
        run.trace_states += r.get("distinct", 0)
        run.histories += nhist
        run.events += job.get("events", 0)
        run.trace_runs.append(dict(trace=job["trace"], spec=job["spec"], events=job.get("events", 0), histories=nhist, rejected_histories=0, wall_s=r["wall"]))
        vf.log("TRACE %-24s %-20s events=%d histories=%d rejected=0 (%.0fs)" % (job["trace"], job["spec"], job.get("events", 0), nhist, r["wall"]))
    if rest:
        m2 = dict(meta)
        m2["jobs"] = rest
        run.validate(out, m2)


def body(run):
    # TLC's default heap (1/4 of the machine) costs more in page faults than the evaluation itself on this
    # allocation-heavy, state-light workload; every TLC of this check runs with a small heap
    os.environ["_JAVA_OPTIONS"] = "-Xmx3g"
    t = run.thorough()
    run.mc("MC_Hashes", cfg="MC_Hashes_thorough.cfg" if t else "MC_Hashes.cfg", workers=run.pick(4, 8), coverage=not t)
    run.mc("MC_Hashes", cfg="MC_Hashes_laws_thorough.cfg" if t else "MC_Hashes_laws.cfg", workers=run.pick(4, 8))
    out, meta = run.drive("c15", timeout=3000)
    run.absorb(meta)
    validate_parallel(run, out, meta, run.pick(8, 10))
    run.selftest(out, meta, gen="rand", field="arg")
    run.selftest(out, meta, gen="hexa", field="v")
    run.selftest(out, meta, gen="alias", field="before")
    run.assumptions += [
        "return values are projected to byte tuples by the harness with encoding/binary only (never golib); Go int (stringutil.HashCode) is taken as 64-bit: the platforms golib is built for",
        "TLC recomputes every value of every recorded input; the spaces it cannot enumerate (2^32 addresses, 2^32 identifiers, strings of length 3, 2^32 murmur arguments / pairs of halves) are compared with a Go transliteration of the operators, itself compared with the spec on a stratified sample (`ref`); in the quick tier the 2^32 spaces are 2^24 strided samples and the 65 536 strings of length 2 a sample of 1 024 judged by TLC (all of them by the sweep)",
        "purity is observed as: the same input evaluated four times (twice in sequence, twice from concurrently running goroutines) and again later in the history returns the same record, and the input slice is unchanged; gen conc: 8 x GOMAXPROCS goroutines work through long and short byte strings and inputs of every other family, each in an order of its own, and every distinct record any evaluation returned is judged (how many evaluations overlap is up to the scheduler: load can only lose detection); gen alias/churn: the slices golib returned and was passed are overwritten by the caller or kept and read again later (events Scribble, Held) between evaluations of the same and of other inputs, in a fresh process and after the sweeps, and more distinct addresses than a bounded cache would hold are evaluated with returns to earlier ones",
        "everywhere (sweeps included) the harness overwrites a slice golib returned as soon as it has copied it: a caller owns what it is handed",
        "named deviations pinned as today's persisted values, not reported as defects: Hash64 XORs the sign-extended table entry into a 64-bit register; Hash64v2/V2 shift the 64-bit register before selecting the two table entries; murmur32 takes the 1..3 tail bytes in the order of Bialecki's Java port (data[n-3]<<16, data[n-2]<<8, data[n-1]) and unsigned; MurmurHash(uint32) zero-extends; HashCode runs Java's recurrence over bytes in a 64-bit register",
        "outside the documented forms the property is silent and nothing is asserted: ToLong32 of upper case / other characters / overflowing numerals / multi-digit decimal text, ToBytes of fields that are not 1..3 decimal digits <= 255, ToString of slices shorter than 4 bytes",
    ]
