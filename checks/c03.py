"""C03 -- every pack type survives serialise / deserialise (DESIGN 3/C03).
(M) MC_PackCodec: a reference wire (type tag, the common header in both forms, blob pack, composite, zip and
    log-sink zip) with a reference reader is driven through PackCodec's own actions for every pack / container of a
    small world; the laws of PackCodec are the invariants.  Three refuted variants show the laws have teeth at design
    level: long-form marker 8 (collides with the length byte of a wide project code), unpacking that does not stamp
    onode, unpacking in reverse order, a reader that sign-extends an unsigned 16-bit cell (the hit-map pack of the small
    world: cells over the boundaries of the WIRE cell and beyond it).
(A) Trace_PackCodec (Strict = FALSE): the real code.  Every pack type is populated by reflection (private state
    included), written by the real writer, read back, written again; the carried set of every instance is derived
    from the real writer (one leaf changed at a time).  Containers and record-list packs are built through the public
    setters from registered items, sent over the wire and unpacked.  CreatePack for all 65536 type codes.
    Fields narrower on the wire than in the pack are filled from the domain of their WIRE cell (every boundary of it) and
    judged one-sidedly (only the written value is reduced to what the cell carries); lists and tables whose count travels
    in one byte are filled to 127..129 / 254 / 255 elements in every sixth instance; record-list packs and the composite
    pack are also built with element counts at the boundaries of their 16-bit count cell (gen counts: 127..257,
    32766..65535 elements drawn from three registered items).
(L) Objects that live on (PackCodec part 5; MC_PackLife: two live packs / containers in every interleaving, a pack
    written, changed and written again; refuted: a compressor / a writer that hand out a view of one re-used buffer
    (ZipLaw, Stable), a writer that keeps what it sent last and refreshes it only from a non-zero field
    (CarriedRestored at the second write)).  Real code: gen life (one object of every type written, changed through
    its public surface -- assignable leaves zeroed / changed, elements added / removed, public mutators -- written
    again, decoded; the laws are judged for the content at the moment of each write), gen hold (two or three packs or
    containers all written / built before the first is read back / unpacked; the writer's own slice, the records blob,
    the decoded pack and the unpacked items are looked at again after the later calls), gen minimal (per count-prefixed
    section of every type 1 / 2 / 255 elements of minimal encoding and nothing else, read from exactly the encoding;
    containers over minimal items).
(E) The decoding process is not a parameter of the property: gen env records the codec histories once more in a CHILD
    PROCESS of the harness whose environment sets every variable the repository's source reads (os.Getenv / LookupEnv
    with a literal name; today WHATAP.starttime in NewCounterPack1) to a non-default value: per type the all-zero instance
    and sparse instances (every scalar leaf zero with probability 1/2), containers / record lists over sparse and minimal
    items.  Design level: MC_PackCodec_envdefault.cfg (refuted: a reader that takes a cell from the wire only when it is
    not zero, decoding into an object whose constructor took the cell from the environment: CarriedRestored).
(drift) Trace_PackCodec_drift.cfg (Strict = TRUE): the same traces against the TRANSCRIBED tables of the spec
    (registry, per-type carried fields, header bytes, type tag): disagreement alone is a stale spec: exit 2
    (spec_drift), never a violation."""
import json, os, re
import vf


def env_names():
    """the environment variables the repository's (non-test) source reads by literal name: the child process of gen env
    sets every one of them to a non-default value"""
    names = set()
    for d, sub, files in os.walk(vf.REPO):
        sub[:] = [x for x in sub if not x.startswith(".") and x not in ("vendor", "testdata")]
        for f in files:
            if f.endswith(".go") and not f.endswith("_test.go"):
                try:
                    src = open(os.path.join(d, f), errors="replace").read()
                except OSError:
                    continue
                for m in re.finditer(r'os\.(?:Getenv|LookupEnv)\(\s*"([^"\\]+)"', src):
                    if re.fullmatch(r"[A-Za-z0-9_.\-]+", m.group(1)):
                        names.add(m.group(1))
    return sorted(names)


def pending_findings(run):
    """open findings proposed by this check (checks/entries/c03.json) that are not yet in known-findings.json:
    treated exactly like recorded ones (generators steer around them, the witness is re-judged every run)"""
    p = os.path.join(vf.VERIF, "checks", "entries", "c03.json")
    have = {k["id"] for k in run.kf}
    for k in json.load(open(p)).get("known_findings", []):
        if k["id"] not in have and k.get("status") == "open":
            run.kf.append(k)


def drift(run, out, meta):
    """second, strict pass over the traces (the long lists of gen counts and the object-life / hold / minimal histories add
    nothing to it: the same writers, the same tables); one TLC per file, in parallel"""
    from concurrent.futures import ThreadPoolExecutor
    jobs = [j for j in meta.get("jobs", []) if not j["trace"].startswith(("c03_counts", "c03_life", "c03_hold", "c03_min", "c03_env"))
            and open(os.path.join(out, j["trace"])).read(64).strip()]
    st = run.trace_states

    def one(job):
        try:
            return job, run.validate_file(job["spec"], os.path.join(out, job["trace"]), cfg="Trace_PackCodec_drift.cfg")
        except vf.MachineryError as ex:
            return job, ex
    with ThreadPoolExecutor(max_workers=max(1, min(6, vf.NCPU // 3))) as pool:
        results = list(pool.map(one, jobs))
    run.trace_states = st
    for job, res in results:
        if isinstance(res, vf.MachineryError):
            raise res
        acc, hwm, n, r = res
        if not acc:
            p = os.path.join(out, job["trace"])
            line = open(p).read().splitlines()[hwm - 1]
            try:
                e = json.loads(line)
                what = {k: e.get(k) for k in ("ev", "type", "code", "mode", "top", "carried") if k in e}
            except Exception:
                what = line[:300]
            run.extra["spec_drift"] = dict(trace=job["trace"], line=hwm, event=what)
            raise vf.MachineryError(
                "spec_drift: the real code satisfies the laws of C03 on %s but line %d does not match a table TRANSCRIBED in "
                "spec/PackCodec.tla (registry / carried fields per type / header bytes / type tag: stale spec, not a "
                "violation): %s" % (job["trace"], hwm, json.dumps(what)[:700]))
    vf.log("DRIFT all traces match the transcribed registry / carried-field / header tables")
    run.extra["spec_drift"] = None


def body(run):
    th = run.thorough()
    pending_findings(run)
    w = run.pick(4, 16)

    # the design-level runs do not depend on the driver: they run beside it (one TLC at a time)
    def design():
        run.mc("MC_PackCodec", cfg="MC_PackCodec_thorough.cfg" if th else "MC_PackCodec.cfg", workers=w)
        if th:
            run.mc("MC_PackCodec", cfg="MC_PackCodec_blobs.cfg", workers=w)
        if th:   # vacuity: every action of the model is taken (coverage instrumentation is slow on the recursive readers)
            run.mc("MC_PackCodec", cfg="MC_PackCodec_cov.cfg", workers=2, coverage=True)
            if run.mc_runs[-1].get("actions_never_taken"):
                raise vf.MachineryError("MC_PackCodec: actions never taken: %s" % run.mc_runs[-1]["actions_never_taken"])
        run.mc("MC_PackCodec", cfg="MC_PackCodec_marker8.cfg", expect_violation="CarriedRestored", workers=2)
        run.mc("MC_PackCodec", cfg="MC_PackCodec_nostamp.cfg", expect_violation="UnpackLaw", workers=2)
        run.mc("MC_PackCodec", cfg="MC_PackCodec_reverse.cfg", expect_violation="UnpackLaw", workers=2)
        run.mc("MC_PackCodec", cfg="MC_PackCodec_signedcell.cfg", expect_violation="CarriedRestored", workers=2)
        # the decoding process: a reader that leaves a zero cell to what the constructor took from the environment
        run.mc("MC_PackCodec", cfg="MC_PackCodec_envdefault.cfg", expect_violation="CarriedRestored", workers=2)
        # objects that live on (PackCodec part 5): two live packs / containers in every interleaving, write / change /
        # write again; refuted: a compressor and a writer that hand out a view of one re-used buffer, a writer that
        # keeps what it sent last and refreshes it only from a non-zero field
        run.mc("MC_PackLife", cfg="MC_PackLife_thorough.cfg" if th else "MC_PackLife.cfg", workers=w)
        if th:   # vacuity (coverage instrumentation is slow: the small configuration)
            run.mc("MC_PackLife", cfg="MC_PackLife.cfg", workers=2, coverage=True)
            if run.mc_runs[-1].get("actions_never_taken"):
                raise vf.MachineryError("MC_PackLife: actions never taken: %s" % run.mc_runs[-1]["actions_never_taken"])
        run.mc("MC_PackLife", cfg="MC_PackLife_pooled.cfg", expect_violation="ZipLaw", workers=2)
        run.mc("MC_PackLife", cfg="MC_PackLife_pooled_bytes.cfg", expect_violation="Stable", workers=2)
        run.mc("MC_PackLife", cfg="MC_PackLife_stale.cfg", expect_violation="CarriedRestored", workers=2)

    from concurrent.futures import ThreadPoolExecutor
    pool = ThreadPoolExecutor(max_workers=1)
    mcs = pool.submit(design)
    try:
        out, meta = run.drive("c03", args={"envnames": "+".join(env_names())})
        run.absorb(meta)
        run.validate(out, meta)
        run.selftest(out, meta, gen="codec", field="consumed")
        run.selftest(out, meta, gen="lszip", field="status")
        run.selftest(out, meta, gen="recs", field="items")
        run.selftest(out, meta, gen="counts", field="outi")
        run.selftest(out, meta, gen="life", field="again")
        run.selftest(out, meta, gen="hold", field="same")
        run.selftest(out, meta, gen="minimal", field="consumed")
        run.selftest(out, meta, gen="env", field="consumed")
        if run.violations:
            vf.log("drift check skipped: the verdict pass already rejected real-code behaviour")
        else:
            drift(run, out, meta)
    finally:
        pool.shutdown(wait=True)
    mcs.result()          # a failure of the design runs is raised here
    run.assumptions += [
        "pack state is projected by reflection (unexported fields through reflect.NewAt/unsafe, golib tables through their public enumerations, tagged values as atoms via the C02 projection); integers as 8-byte tuples, floats as bit patterns read from memory",
        "the carried set of an instance is derived from the real writer: a leaf is carried iff writing a fresh copy (rebuilt from the same seed) in which only that leaf is changed gives other bytes or makes the writer fail; leaves without a probe (presence of an interface-typed section, opaque types) are not compared",
        "normalisation the format defines: nil == empty for blobs, texts, lists and tables; a cell narrower on the wire than the field that holds it (hit-map cells: unsigned 16 bits; ServerInfoPack.Version: signed 24 bits) carries the low bytes of the written value and the reader owes exactly that cell value, zero- resp. sign-extended -- only the WRITTEN value is reduced, the value read back is compared as it is; a tag hash of 0 with a non-empty tag map is computed by the writer (reference = value after Write); a transaction record with an error and error level 0 is read as level WARNING (re-encoding then stable from the second generation); entries of hash tables without insertion order (IntIntMap, IntKeyMap) may be permuted by a re-encode",
        "documented limits of the writers are respected by the generator: counts that travel in one byte (event attributes <= 200 + 4 reserved keys, short arrays) stay below 256, ServerInfoPack.Version is a 3-byte integer, TransactionRec versions 0/1 are refused by the reader by design, EventPack attribute keys do not use the four reserved keys",
        "an optional section the writer cannot do without (ProfilePack.Transaction, SMBasePack.Cpu/Memory, SMLogEvent.Keyword/LogRule, SMExtension maps) is always populated: when Write fails on a pack with sections left out the instance is rebuilt with every section present (counted, information only)",
        "SMBasePack: the OS field selects the record types of the cpu/memory sections (linux family -> CpuLinux/MemoryLinux, windows -> CpuWindow/MemoryWindow); the concrete type of a nested record is not compared, its fields are",
        "exact consumption is observed with a 16-byte trailer behind the encoding (DataInputX.Available), ToPack is then run over exactly the encoding",
        "gen counts: a container of n elements is built from three registered items repeated in a random pattern (the pattern is the `items` of Build); what the decoded container returned is logged as the distinct projections plus, per position, the index of the one found there (lossless; UnpackLaw is stated per distinct pair of item and returned projection); the composite pack's count cell is taken as signed (limit 32767 inner packs), the record lists' as unsigned (65535)",
        "sensitivity probes of an instance whose writer is observably pure (writing changed no leaf, a second write gave the same bytes) share one rebuilt copy for the leaves whose probe is an involution (change, write, change back); the shortcut is dropped for the instance if a writer fails or the copy does not project and write like the original afterwards (count in the evidence); argument noshared=1 turns it off",
        "zip containers: the compressed form is produced the way ZipSendProxyThread.doZip does (compressutil.DoZip, Status = 1); 'is a gzip stream' and the decompressed content are observed with compress/gzip of the standard library",
        "gen life: an object is changed only through its public surface: leaves reachable through exported fields and the public enumerations of golib's tables (assigned, put back to the zero value of the field, an element added / removed) and the public mutators of the types that keep content private (ParamPack.Put*, TextPack.AddText(s), StatGeneralPack.Put, TagCountPack / TagLogPack.Put*, SMExtension.Set*, HitMapPack1.Add); never: the key record of a table entry changed in place, a whole optional record taken away or an empty record added (the writers need some of their sections), SMBasePack.OS, the version of the transaction statistics packs",
        "gen life: the content of the object at a write is what the reflection walker projects just before it; the four reserved attributes EventPack.Write carries uuid / escalation / status / otype under are the writer's, not content (not projected; Read takes them out of a decoded pack too); the carried set of a later write is the union of the leaves the real writer is sensitive to in THAT state of the object (probes on copies that lived the same life: same seed, same writes, same changes) and of the leaves a never-written twin of the same content carries (where the twin holds the same leaf value): a writer that sends what it kept from an earlier write instead of a field is insensitive to that field",
        "gen hold: aliasing is looked for between calls of ONE goroutine (a value handed out and changed by a later call); re-observation is by reading only -- the input handed to a reader is never scribbled on afterwards",
        "gen minimal: the sections of a type are found by populating it (sections inside elements of other sections by giving those one element); a minimal element is: integers / decimals / floats 0, texts and blobs empty, booleans false, tagged values null, tables and lists without elements, optional records left out unless the writer needs them; one-byte count cells are filled to their limit (255 less what the writer adds itself)",
        "gen env: the environment of the decoding process is every variable the repository's non-test source reads through os.Getenv / os.LookupEnv with a literal name (found by a textual scan; names computed at run time are not found), each set to a positive decimal number that depends on the seed; the writer runs in the same child process (its objects are populated field by field, so what a constructor took from the environment is overwritten before the write); clock and host are whatever the machine gives (a constructor's clock reading is never zero: the all-zero instances of gens minimal / env send a zero against it)",
        "decoding into an object that was decoded into before (Read(din) twice on one pack) is NOT explored: every reader of golib decodes into a pack CreatePack has just made (ToPack / ReadPack / GetRecords), and a short-form header or an absent optional section deliberately leaves the fields of the receiving object alone",
    ]
