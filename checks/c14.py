"""C14 -- HyperLogLog (DESIGN 3/C14).
(M) MC_HLL: for m = 4 registers and abstract (index, rank) items, every multiset/order of offers to three counters,
    every merge/add-all/rebuild: the state is a function of the set offered, merge is commutative, associative,
    idempotent, equals the counter of the union and leaves its inputs untouched, the byte form decodes back; a byte
    form kept by a caller (Snap) stays the state of the moment it was taken and rebuilds (BuildSnap) into that state.
(A) Trace_HLL: real counters of every precision 4..16: each Offer's boolean, every GetBytes() (header, length,
    register words) and Cardinality() judged against the register semantics folded by TLC from the item hashes;
    the same over items crafted to have chosen hash bits (gen "edge": all-zero remainder, single bits, first/last
    register); every GetBytes() result is kept UNCOPIED and projected again (Held) after later offers / AddAll / GetBytes
    of the same counter, counters are rebuilt from the kept slices of a counter reporting in stages (BuildHeld) and the
    caller finally overwrites the slices it was given (Scribble); estimates (gens "core", "bulk", "switch") against the integer error bound.

Finding fixed in the worktree: Cardinality() = 2^63 when no register is empty but the raw estimate is <= 2.5m
(linear counting evaluated log(m/0)); rejected as EstBulk p=4 n=50 / p=5 n=73 on the unchanged tree."""


def body(run):
    run.mc("MC_HLL", workers=run.pick(4, 16), cfg="MC_HLL_thorough.cfg" if run.thorough() else "MC_HLL.cfg", coverage=not run.thorough(), heap="2g")
    if run.thorough():
        # byte forms kept while the counter goes on (Snap / BuildSnap) of every base counter; the quick config keeps
        # them of counter 1 only, the deep config above (4 offers, 3 ranks) keeps none to stay within its time
        run.mc("MC_HLL", workers=16, cfg="MC_HLL_snap.cfg", heap="2g")
    out, meta = run.drive("c14")
    run.absorb(meta)
    run.validate(out, meta)
    run.selftest(out, meta, gen="core", field="ret")
    run.assumptions += [
        "the hash of an item is taken from the package's exported MurmurHash/MurmurHashLong (their correctness is C15); TLC derives register index and rank from the hash bits itself",
        "GetBytes() is projected losslessly (header bytes, total length, non-zero 32-bit words) with encoding/binary; for p <= 8 the complete byte string is compared as well",
        "the estimate clause is statistical: decided is that the seeded item sets (up to 5m distinct items per precision) stay within |est-n| <= 2 + n/32 + K*1.04*n/sqrt(m), K = 12 for m < 128, K = 8 otherwise (with an ideal hash the measured worst case over 250k checkpoints is 8.4 at m = 16, 4.6 at m = 256); n/32 covers the documented bias of the uncorrected estimator around n = 2.5m; for n <= m/10 additionally |est-n| <= 2 + 6n/sqrt(m)",
        "histories over crafted hashes (gen edge) carry no estimate: the error bound speaks about hashed items, not about chosen register patterns",
    ]
