"""C09 -- the 13 linked hash maps / linked sets of util/hmap are bounded insertion-ordered dictionaries
(DESIGN 3/C09).
(M) MC_LinkedDict: the reference dictionary satisfies the clauses of the property statement (placement, move,
    eviction side, update-never-evicts, ...) as invariants and action properties, for ALL operation sequences of
    the small scope (maps, sets, and the variants that refuse the empty key).
(A) Trace_LinkedDict: long random call histories on each real type, every call judged by TLC.
(B) the complete small-scope state graph walked on each real type: every call of the scope from every
    reachable state, every transition judged by TLC; the number of states the real type reaches must equal the
    number of states of the model (the two graphs coincide)."""
import vf


MC = [  # (cfg, set?, refuses-empty-key?)
    ("MC_LinkedDict.cfg", False, False),
    ("MC_LinkedDict_set.cfg", True, False),
    ("MC_LinkedDict_rej.cfg", False, True),
    ("MC_LinkedDict_setrej.cfg", True, True),
]


def body(run):
    model_states = {}
    for cfg, is_set, rej in MC:
        r = run.mc("MC_LinkedDict", cfg=cfg, workers=4, coverage=(cfg == "MC_LinkedDict.cfg"))
        model_states[(is_set, rej)] = r["distinct"]
    if run.thorough():
        run.mc("MC_LinkedDict", cfg="MC_LinkedDict_thorough.cfg")
    out, meta = run.drive("c09")
    run.absorb(meta)
    run.validate(out, meta)
    run.selftest(out, meta, gen="self", field="size")
    # (B) completeness: the real types reached exactly the states of the model
    graph = (meta.get("extra") or {}).get("graph") or {}
    if not run.violations:
        for name, g in sorted(graph.items()):
            want = model_states[(bool(g["set"]), bool(g["refuses_empty"]))]
            if g["aborted"] or g["states"] != want:
                raise vf.MachineryError("small-scope traversal of %s reached %s states (aborted=%s), the model has %d: scope definitions differ" % (name, g["states"], g["aborted"], want))
    run.extra["graph_states_model"] = {("set" if k[0] else "map") + ("+refuses-empty" if k[1] else ""): v for k, v in model_states.items()}
    run.assumptions += [
        "keys are logged as ranks in the history's sorted key pool, values as small integers, by harness code that uses the Go standard library only; entry objects are read through their GetKey/GetValue accessors",
        "the value returned by put/add for a NEW key is type specific and not constrained (DESIGN: lenient); previous values, lookups, sizes, first/last and every enumeration are compared exactly",
        "SetMax is only issued with 0 or a bound >= the current size (a smaller bound is applied lazily by the code; outside the stated property)",
        "values stay small (no int32/int64/float32 overflow of Add); NONE / SetNullValue is left at its default 0",
        "sequential histories only (concurrency is C10); every call runs under a 10 s watchdog so a self-deadlock is a recorded Timeout event the specification cannot explain",
    ]
