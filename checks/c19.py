"""C19 -- calendar helpers of util/dateutil (DESIGN 3/C19).
(M) MC_Calendar: the calendar specification validates itself over all 36 525 days of 2000-2099 (table lookup Civil
    = successor walk from Saturday 2000-01-01 = closed-form inverse = Zeller weekday), the helper texts name the
    instant, the units are nested monotone step functions across every minute / day boundary walked, the fixed-width
    parser reads back what the formatter wrote, and the lenience set of the round trip (present date fields that an
    absent field can push through date normalisation) is sound and tight.
(A) Trace_Calendar: the ten exported helpers on every day of the century (quick: every 7th day and every month edge)
    at five fixed times and a random one, one event per instant, byte for byte; GetYmdTime on the standard library's
    text of every day.
(B) DateFormat: every pattern of up to 4 field letters (quick: up to 3, every 9th of 4) and full patterns, seven
    separator styles, FormatTime -> Parse -> FormatTime on boundary and random instants.
(O) MC_Calendar_order: the same specification on every ORDERED PAIR of a set of boundary instants (complete graph):
    the answer is a function of the instant alone and MonotoneStep holds in both directions.
(Q) gens seq / fmtseq: sequences of calls on the same package-level helpers and on the same DateFormat value in
    adversarial order (around every unit boundary in both directions, inside one bucket of every unit, exactly one
    unit apart, alternating / repeated / descending, one field changed, clock-reading variants in between); every
    call judged by TLC against the pure operators -- anything remembered between calls is visible only here.
(K) gen conc: many goroutines call every helper (and DateFormat values of their own) on different instants at once;
    every distinct value returned under concurrency is an event judged by TLC like a sequential one.
(Z) gen zone: child processes under TZ = zones with daylight saving (whole-hour and 30-minute shifts, both
    hemispheres) and fixed offsets; FormatTime(local) -> Parse -> FormatTime on and around every offset transition,
    judged by the zone-free law on the wall-clock readings (DateFormat.tla Shift, ZoneRoundTripOK) and r = x.
(S) every minute boundary -1/0/+1 ms of the century against the Go transliteration of Helpers, which sampled `ref`
    events bind to the specification; disagreements are judged by TLC (gen sweepfail).

Finding fixed in the worktree: TimeStamp (and the unexported logtime) padded the millisecond field to two digits."""


# process zones of gen zone: daylight saving in both hemispheres, a 30-minute shift, a fixed offset that is not a
# whole hour; thorough: also transitions at local midnight, a zone that skipped a calendar day, a western fixed offset
ZONES = ["America/New_York", "Europe/Berlin", "Australia/Lord_Howe", "Asia/Kolkata"]
ZONES_THOROUGH = ZONES + ["America/Havana", "Pacific/Apia", "America/Phoenix"]


def selftest_ref(run, out, meta):
    """the transliteration's outputs are compared too: a corrupted `ref` unit and a corrupted `ref` text must be rejected"""
    import json, os
    from vf import MachineryError, split_histories, log
    for job in meta["jobs"]:
        if "sweepref" not in job["trace"]:
            continue
        h = split_histories(open(os.path.join(out, job["trace"])).read().splitlines())[0][:8]
        res = {}
        for tag, mut in (("ref_unit", lambda r: r.update(fu=r["fu"] + 1)), ("ref_text", lambda r: r["ts"].__setitem__(20, 48 + (r["ts"][20] - 47) % 10))):
            hh = list(h)
            e = json.loads(hh[3])
            mut(e["ref"])
            hh[3] = json.dumps(e, separators=(",", ":"))
            p = os.path.join(out, "_selftest_%s.ndjson" % tag)
            open(p, "w").write("\n".join(hh) + "\n")
            st = run.trace_states
            acc, hwm, n, r = run.validate_file(job["spec"], p)
            run.trace_states = st
            res[tag + "_rejected"] = (not acc) and hwm == 4
        run.selftests["Trace_Calendar:sweepref"] = res
        if not all(res.values()):
            raise MachineryError("binding self-test of the transliteration failed: %s" % res)
        log("SELFTEST Trace_Calendar sweepref %s" % res)
        return
    raise MachineryError("self-test found no sweepref trace")


def body(run):
    # -coverage triples the run time of this single-action model; vacuity is excluded directly instead:
    # the walk must have visited at least one state per day of the century
    r = run.mc("MC_Calendar", workers=run.pick(4, 16), cfg="MC_Calendar_thorough.cfg" if run.thorough() else "MC_Calendar.cfg", heap=run.pick("4g", None))
    if r["distinct"] < 36525:
        from vf import MachineryError
        raise MachineryError("MC_Calendar visited %d states, fewer than the 36525 days of the century" % r["distinct"])
    run.mc("MC_Calendar", workers=run.pick(2, 4), cfg="MC_Calendar_order.cfg", heap="2g")
    out, meta = run.drive("c19")
    run.absorb(meta)
    run.validate(out, meta)
    # (Z) the process zone as a configuration: one child process per zone (the driver re-executes itself with TZ=zone, one trace per zone;
    # the zone travels in -args so that a rejected history is reproduced under the same zone)
    oz, mz = run.drive("c19", args={"zone": "+".join(ZONES_THOROUGH if run.thorough() else ZONES)}, outdir=run.sub("drive-c19-zones"))
    run.absorb(mz)
    run.validate(oz, mz)
    if not run.violations:      # the binding is demonstrated on accepted traces; a violation must stay exit 1
        run.selftest(out, meta, gen="days", field="ts")
        run.selftest(out, meta, gen="fmt", field="text")
        run.selftest(out, meta, gen="seq", field="ymd")
        run.selftest(out, meta, gen="fmtseq", field="text")
        selftest_ref(run, out, meta)
        run.selftest(out, meta, gen="conc", field="ts")
        run.selftest(oz, mz, gen="zone", field="rms")
    run.assumptions += [
        "time is handed to TLC as (day index from 2000-01-01 UTC, millisecond of day); the harness converts to and from epoch milliseconds with integer arithmetic and package time only (never golib), and the standard library's own text of each day is compared with the spec's (so the spec's calendar = the standard library's)",
        "the driver pins the process zone to UTC (time.Local = time.UTC; the runner also sets TZ=UTC) except in gen zone: DateFormat.Parse resolves fields in time.Now().Location(), the date helpers are UTC by construction (getDateTimeHelper(\"\"))",
        "gen zone: the zone's offsets at the formatted instant and at the parsed result and the transition instants come from package time and the zone database (trusted); a reading that occurs twice (clocks set back) may parse to either of its instants; in zones with transitions only full patterns are judged (an absent field, taken from the clock, can land in a skipped reading)",
        "gen conc: how many calls overlap depends on the scheduler, so load can only lose detection; each goroutine uses DateFormat values of its own (sharing one value is outside the property); the Go side only deduplicates returned values, TLC judges every distinct one",
        "DateFormat round trip: fields absent from the pattern are unconstrained (the code fills them from the clock); a present date field is unconstrained exactly where an absent one can push it through date normalisation (Required in DateFormat.tla, shown sound and tight by MC_Calendar); for full patterns the result must equal the instant to the millisecond",
        "sequences (gens seq, fmtseq): the specification makes every helper a function of the instant (and pattern) alone, so each call of a sequence is judged on its own against Helpers(t) / Format(p, t) and the units against MonotoneStep along the sequence; the clock-reading variants (YmdNow, TimeStampNow, GetDateUnitNow) are called with the library clock moved by SetDelta to noon of a day and judged to the day only (an event is dropped, never rejected, if the system clock moved by more than six hours during the calls)",
        "every minute boundary -1/0/+1 ms of the century (158 million instants; texts at every 16th minute in the quick tier) is swept against a Go transliteration of the spec operators, not judged by TLC; TLC judges the sampled triples (with the transliteration's outputs) and every disagreement",
        "instants before 2000-01-01 or after 2099-12-31, GetYmdTime on texts that are not dates of the century, and Parse on texts that were not produced by Format are outside the property and not explored",
    ]
