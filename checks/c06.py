"""C06 -- one-way TCP client: whole frames, in order, at most once, recovery (DESIGN 3/C06).
(M) MC_OneWay: the design (send lock, buffered writer replaced at every dial, close after a failed write, single
    queue worker) implies MutualExclusion, FramesWhole, FreshStart, InOrderAtMostOnce, HeaderRight,
    ErrMeansNotDelivered, NoLossSafe, Recovers, WriterErrorJustified for all interleavings of 2 senders x 3 packs
    (thorough: 3 senders x 5 packs, and 2 senders x 4 packs with <= 3 faults / 4 connections) and all placements of <= 2
    environment faults, direct and queue mode; NoLossWhenHealthy (liveness) under weak fairness;
    three deliberately broken designs (no lock; writer kept across a reconnect; the background worker dialling
    without the send lock in direct mode -- golib before the repair) are refuted by TLC.
    MC_OneWay_cfg / _qcfg: the same invariants with configuration changes between sends (default license, queue
    capacity, server list; by field and by ApplyConfig with its re-dial); two more broken designs are refuted: the
    default license taken once and kept across a configuration change (HeaderRight), a full queue that accepts by
    evicting the oldest accepted pack (NoLossSafe).
    MC_OneWay_multi / _qmulti: two collector addresses, each listener going down and coming back on its own (a dial ends
    at ANY configured collector that is listening and fails only if none is), <= 3 faults, and a peer that STALLS in the
    middle of a socket write (the write deadline expires; the peer is still there); the direct quick configuration
    explores stalls with two senders too.  Two more broken designs are refuted: a dial loop that does not cover the whole
    server list (Recovers), a flush whose deadline expired resetting the writer onto the same connection (FramesWhole).
    MC_OneWay_widle / _widle2: the worker, idle in DIRECT mode, flushing the shared writer ON ITS OWN without the send lock
    (OneWay!WorkerIdleFlush) while a sender is between its buffered write and the end of its flush, no fault anywhere:
    refuted (InOrderAtMostOnce: a frame arrives twice; FramesWhole: a copy of its beginning is wedged into the stream).
(A) Trace_OneWay: the real OneWayTcpClient against a scripted loopback collector: concurrent senders, queue mode
    (SendAndClear and the background worker), cut scripts, listener outages, frames larger than the writer buffer;
    every pack goes in through one of the public entry points (Send, SendFlush false/true) with plain or decorated
    per-send options; a backlog exactly at capacity (capacities 1..4, grown, shrunk, unbounded) meets every entry point
    while the drainer is not running, parked in a send or parked in a refused dial; the configuration (default license,
    capacity, server list) changes between sends by assignment to the exported fields and by ApplyConfig (one Config
    event carrying what the client did inside: connection dropped? dialled, with which result?; the specification
    decides whether that is possible there); 2..3 scripted collectors (server addresses) going down and coming back
    independently with the server list re-ordered / shortened / restored (gen multi: every dial result is judged against
    the listeners of ALL configured collectors); a collector that stalls in the middle of a frame until the client's
    write deadline expires, and resumes (gen stall: the expired deadline is reported by the client, tmo; what the
    stalled connection carried in the end must still be whole frames and at most one cut frame at its END);
    per-send option lists with the license in effect in EVERY position among the other options (Call/Enq carry the
    license arguments in their order, olics: the specification derives the license in effect from them), option
    objects shared between sends; IDLE PERIODS longer than the client's timers (gen idle): the queue empty for longer
    than the drainer's poll (5 s, a constant: 1..2 polls time out) before the next packs, and a short write deadline
    (Timeout 300..500 ms by assignment) in force on a healthy connection that stays idle for longer than it before
    frames of every size class; a HEALTHY BUT SLOW collector with the background worker running in direct mode (gen slow):
    the collector stops reading in the middle of an early frame and stays connected, 1..3 senders fill the socket, one
    sits in its flush (or a write-through) and the others behind the send lock for 6.5 s (thorough: also 12 s, 31 s) =
    1, 2, 6 polls of the worker, under the default write deadline of 60 s; then the collector reads everything: every
    frame exactly once, whole, in acceptance order, and every hook event made by the worker on its own (actor W in
    direct mode: Sent/Flushed/Close from process()) has no step in the specification; Sent/Flushed carry early = the expired deadline was reported sooner than Timeout after
    the send began -- the specification has no explanation for that (no peer stalls faster than the deadline).
    Hook events are sequenced under the send lock by one atomic counter.  What the collector read on every connection
    is a prophecy (kernel timing is not observable); the specification decides whether the outcome each socket write
    reported is allowed together with what arrived.
(B) gate schedules (first trace): the blocking hook parks sender A inside its critical section while B calls Send;
    faults are imposed at exact points while the sender is parked; the background worker is parked inside Connect
    (between finding no connection and dialling) while a sender makes the client's first send (gen wdial)."""
import json, os, re
import vf

MODE_ONLY = {
    "direct": {"DoEnqueue", "DoEnqueueFull", "Dequeue", "WorkerSkipFlush", "WorkerDone", "DoIdleFlush"},
    "queue": {"DoCall", "DoLock", "Unlock", "Return"},
}


# steps of the deliberately broken designs (enabled only in the configurations that must be refuted)
BROKEN_ONLY = {"DoWorkerDialRacy", "WorkerDialStart", "WorkerDialEnd", "DoEnqueueEvict", "EnqueueEvict", "BuildStale",
               "DoConnectFailPartial", "ConnectFailPartial", "DoFlushResetWriter", "FlushResetWriter",
               "DoWorkerIdleFlush", "WorkerIdleFlush"}


def mc_many(run, jobs, pool=4):
    """run.mc for several small configurations: the TLC processes run side by side (they are dominated by JVM start-up),
    the bookkeeping of run.mc (evidence, expected refutations) is done by run.mc itself, one after the other, on the
    finished results"""
    from concurrent.futures import ThreadPoolExecutor
    real = run.tlc

    def launch(j):
        return real("MC_OneWay", cfg=j["cfg"], workers=j.get("workers", 1), timeout=3000,
                    extra=["-coverage", "1"] if j.get("coverage") else [], heap=None)

    with ThreadPoolExecutor(max_workers=pool) as ex:
        results = list(ex.map(launch, jobs))
    try:
        for j, r in zip(jobs, results):
            run.tlc = lambda module, cfg=None, _r=r, **kw: _r
            run.mc("MC_OneWay", cfg=j["cfg"], workers=j.get("workers", 1), expect_violation=j.get("expect"),
                   coverage=bool(j.get("coverage")))
    finally:
        run.__dict__.pop("tlc", None)
    return results


def zero_actions(out):
    # TLC prints the coverage statistics every minute of a long run (a loaded machine) and once at the end: only the
    # last report counts (an action not taken yet after the first minute is not an action never taken)
    out = out[out.rfind("The coverage statistics at"):] if "The coverage statistics at" in out else out
    return set(re.findall(r"<(\w+) line \d+, col \d+ to line \d+, col \d+ of module \w+[^>]*>: 0:0", out))


def validate_all(run, out, meta, max_unconfirmed=4):
    """run.validate, but a rejected history that does not reproduce (timing dependent) is set aside and the rest of the
    trace is still judged; returns the histories set aside"""
    aside = []
    while True:
        try:
            run.validate(out, meta, dfs=True)
            return aside
        except vf.MachineryError as ex:
            m = re.search(r"rejection of (?:history )?(\w+)/(\d+) did not reproduce", str(ex))
            if not m:
                raise
            gen, case = m.group(1), int(m.group(2))
            aside.append("%s/%d" % (gen, case))
            if len(aside) > max_unconfirmed:
                if run.violations:      # confirmed rejections exist: the verdict stands, stop judging
                    return aside
                raise
            vf.log("note: rejection of %s/%d did not reproduce; set aside, judging the rest" % (gen, case))
            drop = {(gen, case)}
            for rp in run.violations:       # already confirmed and reported: not judged a second time
                rec = json.load(open(rp))
                drop.add((rec.get("gen"), rec.get("case")))
            for job in meta.get("jobs", []):
                path = os.path.join(out, job["trace"])
                hs = vf.split_histories(open(path).read().splitlines())
                keep = [h for h in hs if not (vf.is_reset(h[0]) and (json.loads(h[0]).get("gen"), json.loads(h[0]).get("case")) in drop)]
                if len(keep) != len(hs):
                    open(path, "w").write("".join(x + "\n" for h in keep for x in h))


def body(run):
    th = run.thorough()
    w = run.pick(4, 16)
    # ---- (M)
    # direct and queue mode; with configuration changes between sends (license, capacity, servers; field and ApplyConfig)
    if th:
        r1 = run.mc("MC_OneWay", cfg="MC_OneWay_thorough.cfg", coverage=True, workers=w)
        r2 = run.mc("MC_OneWay", cfg="MC_OneWay_queue_thorough.cfg", coverage=True, workers=w)
        r1c = run.mc("MC_OneWay", cfg="MC_OneWay_cfg_thorough.cfg", coverage=True, workers=w)
        r2c = run.mc("MC_OneWay", cfg="MC_OneWay_qcfg_thorough.cfg", coverage=True, workers=w)
    else:
        r1, r2, r1c, r2c = mc_many(run, [dict(cfg=c, workers=w, coverage=True) for c in
                                         ("MC_OneWay.cfg", "MC_OneWay_queue.cfg", "MC_OneWay_cfg.cfg", "MC_OneWay_qcfg.cfg")], pool=4)
    z1, z2 = zero_actions(r1["out"]) & zero_actions(r1c["out"]), zero_actions(r2["out"]) & zero_actions(r2c["out"])
    vac = ((z1 - MODE_ONLY["direct"]) | (z2 - MODE_ONLY["queue"]) | (z1 & z2)) - BROKEN_ONLY
    run.extra["mc_actions_never_taken"] = sorted(vac)
    if vac:
        raise vf.MachineryError("model checking of OneWay is vacuous: actions never taken: %s" % sorted(vac))
    if th:
        run.mc("MC_OneWay", cfg="MC_OneWay_direct4.cfg", workers=w)
        run.mc("MC_OneWay", cfg="MC_OneWay_queue4.cfg", workers=w)
        # two collector addresses: with a configuration change (one sender), and with two senders
        run.mc("MC_OneWay", cfg="MC_OneWay_multi_thorough.cfg", workers=w)
        run.mc("MC_OneWay", cfg="MC_OneWay_multi2_thorough.cfg", workers=w)
    # small configurations side by side: liveness, two collector addresses + stalls, the broken designs
    mc_many(run, [
        dict(cfg="MC_OneWay_live.cfg", workers=2),
        dict(cfg="MC_OneWay_qlive.cfg", workers=2),
        dict(cfg="MC_OneWay_multi.cfg", workers=2),
        dict(cfg="MC_OneWay_qmulti.cfg", workers=2),
        dict(cfg="MC_OneWay_nolock.cfg", expect="MutualExclusion"),
        dict(cfg="MC_OneWay_keepwriter.cfg", expect="FreshStart"),
        dict(cfg="MC_OneWay_wdial.cfg", expect="NoLossSafe"),
        dict(cfg="MC_OneWay_stalelic.cfg", expect="HeaderRight"),
        dict(cfg="MC_OneWay_evict.cfg", expect="NoLossSafe"),
        dict(cfg="MC_OneWay_dialpart.cfg", expect="Recovers"),
        dict(cfg="MC_OneWay_resetwriter.cfg", expect="FramesWhole"),
        # the worker, idle in DIRECT mode, flushing the shared writer on its own (no send lock) while a sender is between
        # its buffered write and the end of its flush, no fault anywhere: a frame twice / a copy of its beginning wedged in
        dict(cfg="MC_OneWay_widle.cfg", expect="InOrderAtMostOnce"),
        dict(cfg="MC_OneWay_widle2.cfg", expect="FramesWhole"),
    ], pool=run.pick(4, 6))

    # ---- (A) + (B)
    out, meta = run.drive("c06", timeout=run.pick(600, 2400))
    run.absorb(meta)
    jobs = meta.get("jobs", [])
    # histories in which a wait FOR a state ran into its bound (machine load) are void: not judged, counted here
    void = (meta.get("extra") or {}).get("c06_void_histories") or []
    run.extra["c06_void_histories"] = void
    nh = sum(j.get("histories", 0) for j in jobs) or run.pick(75, 520)
    if len(void) > max(2, nh // 10):
        raise vf.MachineryError("too many void histories (%d): the machine is too loaded for a verdict: %s" % (len(void), void[:5]))
    gate = dict(meta, jobs=[j for j in jobs if j["trace"].startswith("c06_gate")])
    rest = dict(meta, jobs=[j for j in jobs if not j["trace"].startswith("c06_gate")])
    # the imposed schedules first: their verdict is reproducible by construction
    unconfirmed = validate_all(run, out, gate) + validate_all(run, out, rest)
    run.extra["c06_unconfirmed_rejections"] = unconfirmed
    if unconfirmed and not run.violations:
        # only a rejection that reproduces is a verdict; one that does not is a machinery failure (exit 2), never a pass
        raise vf.MachineryError("rejected histories that did not reproduce on a second run: %s" % unconfirmed)
    run.selftest(out, gate, gen="gate", dfs=True, field="id")
    run.selftest(out, rest, gen="fault", dfs=True, field="err")
    run.selftest(out, rest, gen="sac", dfs=True, field="plen")
    run.selftest(out, rest, gen="reconf", dfs=True, field="obs_lic")
    run.selftest(out, rest, gen="qfull", dfs=True, field="ok")
    run.selftest(out, rest, gen="multi", dfs=True, field="addr")
    run.selftest(out, rest, gen="stall", dfs=True, field="tmo")
    run.selftest(out, rest, gen="idle", dfs=True, field="lic")
    run.selftest(out, rest, gen="slow", dfs=True, field="dg")
    run.assumptions += [
        "the collector's record of every connection (frames parsed with encoding/binary, payload digests with crypto/sha256, "
        "how it ended the connection) is given to the specification as a prophecy; kernel timing is not observable, so "
        "whether a write after/while the peer went away reported an error is accepted either way (reported where detectable)",
        "hook events are emitted by the client itself under the send lock (direct mode) or by its single drainer (queue mode) and "
        "ordered by one atomic counter taken under the scenario lock; no wall-clock ordering across goroutines",
        "listener changes are made only while no dial can be in progress (all senders joined, or the client parked in a blocking hook)",
        "several collectors: every collector is a scripted listener of its own on its own loopback port; the k-th successful dial "
        "a collector answered is the k-th connection it accepted (the client dials one server at a time), which is how the "
        "collectors' records are put into the order of the client's dials; a dial to a listening loopback collector succeeds and "
        "a dial to a port whose listener is closed is refused (the port stays reserved), so a failed dial while a configured "
        "collector is listening is the client's doing; the background worker is not run against several collectors",
        "stalls: the collector stops reading at a scripted byte position and goes on when the scenario says so (no wall clock); "
        "the client's write deadline (exported field Timeout, also its dial timeout) is shortened to 120 ms by assignment only "
        "for the sends that go into the stalling connection (a connection exists: none of them dials) and set to 10 s before "
        "any other send; whether a write failed because its deadline expired is taken from the error the client got (tmo) -- "
        "a deadline that expires although the collector reads (machine load) is therefore a stall to the specification too "
        "and can only cost detection; stalls are exercised in direct mode and with SendAndClear, not with the background "
        "worker (it re-dials on its own, which must not happen under the shortened deadline)",
        "idle periods (gen idle) are plain waits of the scenario (drainer's poll + 0.6..1.2 s; 1.5 x the shortened Timeout), not "
        "orderings: a wait that turns out too short only means the timer under test has not fired (detection lost). `early` "
        "(an expired write deadline reported sooner than Timeout after the Built hook of the send in progress, 5% slack) is "
        "measured with the monotonic clock inside the client's own goroutine: machine load only lengthens the measured time, "
        "so load can turn an early expiry into an accepted one but never the reverse; the writer's sticky error repeated by a "
        "later write/flush is not judged for earliness. With the short deadline in force no dial happens (a connection "
        "exists; the calm deadline of 10 s is restored as soon as the client reports an error), and a short deadline that "
        "really expires under load is a stall to the specification. In worker mode the end of a burst of ONE producer is "
        "awaited as 'the last accepted pack was flushed and the queue is empty' so that a pack that was accepted and never "
        "left the queue is judged by TLC (Tick / head-of-queue / End) instead of voiding the history",
        "per-send options: the LAST WithLicense of the list is the one in effect (an empty one = no override), whatever "
        "other options (priority, secure flag) stand before, between or after; the specification derives it from the logged "
        "list of license arguments",
        "queue mode: accepted enqueues are placed in the order the drainer dequeued them, no earlier than their call; the "
        "specification rejects an order that contradicts real time (Tick) and a dequeue that is not the head of the queue; "
        "a full queue is exercised only with ONE producer (every entry point; the drainer not running, parked inside a send or "
        "parked inside a refused dial); concurrent producers at a full queue are the bounded FIFO's own property (C11)",
        "configuration changes (License / Servers / queue capacity by assignment; ApplyConfig) are made only between sends: all "
        "senders joined, the queue's drainer idle or parked inside a hook; in worker mode only by assignment (ApplyConfig "
        "re-dials without the send lock and is not safe next to the running worker -- concurrency of ApplyConfig with sends is "
        "outside the property's quantifier and not exercised); ApplyConfig always resolves the server list to the standard "
        "port, so after it the client points away from the collector (host '/' = empty list: nobody is dialled) until the "
        "harness assigns Servers again -- pointing away counts as an environment fault in the specification",
        "a timeout of the gate schedules (250 ms for B to enter A's critical section; 300 ms for a sender to get past the lock while "
        "the worker sits in its dial) can only cost detection, never raise an alarm; a history in which a wait FOR a state ran into "
        "its bound (90 s) is void (not judged); more than 10% void histories are a machinery failure (exit 2)",
        "the background worker runs in direct mode only in the wdial schedules (its poll period of 5 s makes it invisible to short "
        "free-running schedules) and in gen slow, where a healthy collector that does not read (64 KiB receive buffer) holds a sender "
        "in its flush for longer than the worker's poll: the hold is a plain wait (6.5 / 12 / 31 s), not an ordering -- if the senders "
        "are not yet held up, or no poll of the worker falls into it (machine load), the history is an ordinary healthy one (detection "
        "lost); nothing expires (write deadline 60 s); a hook called from process() in direct mode is attributed to actor W by the "
        "call stack (runtime.Callers), not by timing",
        "packs are TextPacks with one record; the frame header is net type 10/0, 8-byte pcode, 8-byte license hash "
        "(computed in the harness with hash/crc32's table), 4-byte length; payload length and digest are computed with the standard library only",
        "deviation D1 of the code (no Close after a failed Flush in direct mode / SendAndClear; the next send fails and closes) is allowed by the specification",
    ]
