"""Single source of truth for MANIFEST.json (bin/genmanifest)."""
HOOK_COMMITS = ["f6aadb6", "84163bb", "bf252b3", "af52714"]  # short shas of the `verif hooks:` commits in /repo, oldest first
# properties whose check has been integrated and verified on the unchanged tree (entries come from checks/entries/<id>.json)
READY = {"C02", "C03", "C04", "C05", "C06", "C07", "C08", "C09", "C10", "C11", "C12", "C13", "C14", "C15", "C16", "C17", "C18", "C19", "C20"}
NOTES = ("Every check: bin/check <id> [--tier quick|thorough] [--replay path]; honours VERIF_SEED/VERIF_TIER; rebuilds the harness "
         "from /repo's working tree with -tags verif; scratch under /var/tmp, removed at exit. Exit 2 = machinery failure, never a violation.")
NOT_APPLICABLE = {}
CLAIMED = {
 "C01": dict(
  technique="TLA+ reference codec (DataX.tla) model-checked with TLC; trace validation of real DataOutputX/DataInputX calls against it",
  text="TLC explores every program of <=2 writes over the boundary value set (thorough: also with 65535/65536-byte payloads, and every program of 3 writes over a reduced boundary set) against the reference format (lossless, canonical, exact consumption, self-delimiting), and validates recorded calls of the real codec -- value, appended bytes, Size(), read result, Available() -- byte for byte against the same operators; a mismatch is a line TLC cannot take.",
  note="Trusts TLC, the harness projection (encoding/binary, math.Float*bits) and that sampled programs (boundary-biased, all 24 op kinds, all length thresholds) represent the value space; 2^24/2^32 pattern spaces are sampled, not enumerated."),
}
