"""Single source of truth for MANIFEST.json (bin/genmanifest)."""
HOOK_COMMITS = ["f6aadb6", "84163bb", "bf252b3", "af52714"]  # short shas of the `verif hooks:` commits in /repo, oldest first
# properties whose check has been integrated and verified on the unchanged tree (entries come from checks/entries/<id>.json)
READY = {"C01", "C02", "C03", "C04", "C05", "C06", "C07", "C08", "C09", "C10", "C11", "C12", "C13", "C14", "C15", "C16", "C17", "C18", "C19", "C20"}
NOTES = ("Every check: bin/check <id> [--tier quick|thorough] [--replay path]; honours VERIF_SEED/VERIF_TIER; rebuilds the harness "
         "from /repo's working tree with -tags verif; scratch under /var/tmp, removed at exit. Exit 2 = machinery failure, never a violation.")
NOT_APPLICABLE = {}
CLAIMED = {}
