"""C07 -- UDP tracer packs (DESIGN 3/C07).
(M) MC_UdpCodec: the transcribed versioned layouts are lossless and exactly consumed for every type x gate version;
    MC_UdpPool: no acquire/fill/release history leaves residue when Release clears every field (and TLC refutes it
    when one field is not cleared); MC_UdpMask: the two-pass rewriting leaves no password value for all small
    token sequences.
    MC_UdpPool also has the reader entry points as acquisitions and the read that fails half way (lawful: abandon
    the pack or clear it and put it back; refuted: put it back as it is).  MC_UdpAlias: kept encoder outputs stay
    what they were when every call has its own buffer or hands out a copy; refuted for a shared buffer handed out.
(A) Trace_UdpPack (Strict = FALSE): real Write/Read round trips (carried set derived from the real writer; caps
    PINNED in the spec; every carried text field at the cap borders and at 32767/32768/32769/65535 bytes),
    kept encoder outputs and packs looked at again after later calls, real CreatePack/ClosePack histories with
    sentinels incl. ToPack/ReadPack of truncated, mutated and foreign-version datagrams, real ToBytesPack/ToPack
    masking runs.
(drift) Trace_UdpPack_drift.cfg (Strict = TRUE): the same traces against the TRANSCRIBED layout / caps / rewriting
    model; a rejection there alone is a stale spec: exit 2 (spec_drift), never a violation."""
import json, os
import vf

# Open finding C07-topair-lowered-index (paramtext.ToPair cuts the token at the index of '=' in its LOWER-CASED
# form): while golib has it, the masking generators keep runes whose lower-case form has another UTF-8 length out
# of keys and bare words (in values they are always used).  Set to True once the repair is in the tree under check
# (and the finding is listed as fixed): the generators then explore that region too.
EXPLORE_LOWERLEN = True


def drift(run, out, meta, traces):
    """the transcribed tables of the spec against the real code; only meaningful when the verdict pass is clean"""
    from concurrent.futures import ThreadPoolExecutor
    jobs = [j for j in meta.get("jobs", []) if j["trace"].startswith(traces)]
    st = run.trace_states

    def one(job):
        try:
            return job, run.validate_file(job["spec"], os.path.join(out, job["trace"]), cfg="Trace_UdpPack_drift.cfg")
        except vf.MachineryError as ex:
            return job, ex

    with ThreadPoolExecutor(max_workers=max(1, min(5, vf.NCPU // 3))) as pool:
        results = list(pool.map(one, jobs))
    run.trace_states = st
    for job, res in results:
        if isinstance(res, vf.MachineryError):
            raise res
        acc, hwm, n, r = res
        if not acc:
            p = os.path.join(out, job["trace"])
            line = open(p).read().splitlines()[hwm - 1]
            try:
                e = json.loads(line)
                what = {k: e.get(k) for k in ("ev", "type", "ver", "carried", "in", "out", "of", "cut", "caps") if k in e}
            except Exception:
                what = line[:300]
            run.extra["spec_drift"] = dict(trace=job["trace"], line=hwm, event=what)
            raise vf.MachineryError(
                "spec_drift: the real code satisfies the law of C07 on %s but line %d does not match the layout / caps / "
                "rewriting model TRANSCRIBED in spec/UdpPack.tla (stale spec, not a violation): %s" % (job["trace"], hwm, json.dumps(what)[:600]))
        vf.log("DRIFT %-24s matches the transcribed layout/model (%d events)" % (job["trace"], n))
    run.extra["spec_drift"] = None


def body(run):
    th = run.thorough()
    run.mc("MC_UdpCodec", cfg="MC_UdpCodec_thorough.cfg" if th else "MC_UdpCodec.cfg", workers=run.pick(4, 16))
    run.mc("MC_UdpPool", cfg="MC_UdpPool_thorough.cfg" if th else "MC_UdpPool.cfg", coverage=not th, workers=run.pick(4, 16))
    run.mc("MC_UdpPool", cfg="MC_UdpPool_bug.cfg", expect_violation="NoResidue", workers=1)
    run.mc("MC_UdpPool", cfg="MC_UdpPool_failbug.cfg", expect_violation="NoResidue", workers=1)
    run.mc("MC_UdpAlias", cfg="MC_UdpAlias.cfg", workers=1)
    run.mc("MC_UdpAlias", cfg="MC_UdpAlias_scratch_copy.cfg", workers=1)
    run.mc("MC_UdpAlias", cfg="MC_UdpAlias_scratch_alias.cfg", expect_violation="Stable", workers=1)
    run.mc("MC_UdpMask", cfg="MC_UdpMask_thorough.cfg" if th else "MC_UdpMask.cfg", coverage=not th, workers=run.pick(4, 16))
    run.mc("MC_UdpMask", cfg="MC_UdpMask_capital.cfg", expect_violation="CapitalAlsoMasked", workers=1)
    out, meta = run.drive("c07", args={"c07_lowerlen": "explore"} if EXPLORE_LOWERLEN else None)
    run.absorb(meta)
    if not meta.get("extra", {}).get("pool_reacquired_objects"):
        raise vf.MachineryError("no object ever came back from the pool: the residue check would be vacuous")
    if not meta.get("extra", {}).get("failed_reads"):
        raise vf.MachineryError("no read of a broken datagram ever failed: the error-path pool histories would be vacuous")
    if not meta.get("extra", {}).get("alias_kept_outputs"):
        raise vf.MachineryError("no encoder output was kept: the aliasing check would be vacuous")
    run.validate(out, meta)
    run.selftest(out, meta, gen="gate", field="consumed")
    run.selftest(out, meta, gen="each", field="pooled")
    run.selftest(out, meta, gen="enum", field="type")
    run.selftest(out, meta, gen="alias", field="v", remove_match={"ev": "W"})
    run.selftest(out, meta, gen="fail", field="pooled", remove_match={"ev": "Acquire"})
    if run.violations:
        vf.log("drift check skipped: the verdict pass already rejected real-code behaviour")
    else:
        drift(run, out, meta, ("c07_codec", "c07_mask", "c07_long", "c07_alias", "c07_fail"))
    run.assumptions += [
        "field values are projected by reflection and encoding/binary only; the carried set of a (type, version) is derived from the real writer by changing one field at a time (one generic base point)",
        "a carried field counts as restored if the reader holds it after Read or after Read+Process (UdpActiveStatsPack rebuilds its array only in Process); the stats array has 0 or 5 slots",
        "the accepted caps are pinned in spec/UdpPack.tla (StartCaps; MessageCapsLeniency = Hash/Desc of the message pack, a named leniency); a capped field restored in full is accepted; golib's cap constants are only cross-checked (spec_drift)",
        "long periodic texts are recorded in a lossless compact form (prefix + unit + length) by the same projection on the written and the read pack",
        "kept encoder outputs and packs are looked at again after later calls of the package, not after the caller rewrote its own buffers; one P, collector off (losing that only loses detection)",
        "a failed ToPack/ReadPack is judged only by what later CreatePack calls hand out (the pack it took is invisible; the spec's bag over-approximates the real pool); booleans are not scanned in the error-path histories",
        "UdpRelayPack.Len is out-of-band (set from the datagram length before Read)",
        "password key = the exact lowercase key; capitalised variants are counted as information only; a value cannot contain its own separator (it reads as two tokens)",
        "connection strings are cut at ' ', ';' and '=' only; every other character (quotes, backslashes, brackets, escapes, control characters, multi-byte runes, invalid UTF-8) is an ordinary character of a key or value; white space other than ' ' stands only inside an atom; a password value counts as left if the whole atom, an '='-separated part or its plain core is found in any text field",
        "open finding C07-topair-lowered-index: while EXPLORE_LOWERLEN is False runes whose lower-case form has another UTF-8 length (and invalid UTF-8) are kept out of keys and bare words (always used in values)",
        "pool histories run on one P with the collector off so that sync.Pool returns released objects deterministically; booleans are judged by a twin run with the opposite fill value",
        "text lengths stay within the 16-bit range; Process panics of packs on malformed Data (UdpActiveStackPack) are reported as information only",
    ]
