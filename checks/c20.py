"""C20 -- value equality and comparison laws (DESIGN 3/C20).
(M) MC_ValueLaws: the laws (Total, Refl, Sym, TransE, DecodeEqual, Antisym, TransC, ScalarConsistent, TypeOrder) hold for the
    specification's own reference equality/comparison over all pairs and triples of a universe of small values; the map
    comparison golib had (AsIsMaps) is refuted (PAntisym).
(A/B) Trace_ValueLaws: the real Equals/CompareTo matrices of pools of values (families of close neighbours, samples of the
    small-scope enumeration, large random values and mutated copies, nil/empty payloads, each with its decoded copy) judged
    by TLC over all pairs and triples."""


def body(run):
    run.mc("MC_ValueLaws", cfg="MC_ValueLaws_thorough.cfg" if run.thorough() else "MC_ValueLaws.cfg", coverage=not run.thorough())
    run.mc("MC_ValueLaws", cfg="MC_ValueLaws_asis.cfg", expect_violation="PAntisym")
    out, meta = run.drive("c20")
    run.absorb(meta)
    run.validate(out, meta, timeout=3000)
    run.selftest(out, meta, gen="family", field="C")  # flips the last entry of the CompareTo matrix: x.CompareTo(x) = 1
    run.assumptions += [
        "NaN never occurs in a pool and the specification skips members containing NaN: the property is silent about NaN (IEEE inequality contradicts reflexivity by definition)",
        "only laws are judged: the direction of the order within a type (golib orders most scalar types descending) and the order of the type codes are not prescribed",
        "the matrices record the sign of CompareTo and whether a call panicked; nil is not a value and is never an operand",
    ]
