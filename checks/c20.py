"""C20 -- value equality and comparison laws (DESIGN 3/C20).
(M) MC_ValueLaws: the laws (Total, Refl, Sym, TransE, DecodeEqual, Antisym, TransC, ScalarConsistent, TypeOrder) hold for the
    specification's own reference equality/comparison over all pairs and triples of a universe of small values; the map
    comparison golib had (AsIsMaps) is refuted (PAntisym).
(A/B) Trace_ValueLaws: the real Equals/CompareTo matrices of pools of values (families of close neighbours, samples of the
    small-scope enumeration, large random values and mutated copies, nil/empty payloads, each with its decoded copy) judged
    by TLC over all pairs and triples; ladders through the full range of every payload domain embedded as scalars, array
    elements, map keys and container items (gen extreme); long sequences around a stride W (members below, at and above one
    and two strides that differ at two positions of a stride in opposite directions, with their proper prefixes; gen stride);
    containers whose entries are absent or hold a nothing-like value (gen absent); pools whose objects LIVE ON through rounds of public mutators
    (gen mut: Put, PutAll, Clear, Add, Set, Read into the object, exported fields, ...), every round judged by the same
    laws plus Fresh (a member and the object built afresh from its observed content are interchangeable) and Stable
    (members whose content did not change get the same answers as in the round before)."""


import re

import vf


def mut_selftest(run, out, meta):
    """the shared selftest takes the first job that has a history of the generator; gen mut lives in the second file"""
    live = dict(meta, jobs=[j for j in meta.get("jobs", []) if j["trace"].startswith("c20_live")])
    run.selftest(out, live, gen="mut", field="twin")


def body(run):
    r = run.mc("MC_ValueLaws", cfg="MC_ValueLaws_thorough.cfg" if run.thorough() else "MC_ValueLaws.cfg")
    # Non-vacuity without TLC's coverage mode (several times slower on the large constant matrices): every action was taken
    # for every member iff the state graph is the initial state, the 32 blocks, and per non-NaN member its first judgement,
    # the round of mutators and the second judgement.
    m = re.search(r'"MC_ValueLaws universe", (\d+), "members", (\d+)', r["out"])
    if not m or r.get("distinct") != 1 + 32 + 3 * int(m.group(2)):
        raise vf.MachineryError("MC_ValueLaws: expected 1 + 32 + 3 * members states (both judgements of every member), got %s for %s" % (r.get("distinct"), m and m.groups()))
    run.mc("MC_ValueLaws", cfg="MC_ValueLaws_asis.cfg", expect_violation="PAntisym")
    out, meta = run.drive("c20")
    run.absorb(meta)
    run.validate(out, meta, timeout=3000)
    run.selftest(out, meta, gen="family", field="C")  # flips the last entry of the CompareTo matrix: x.CompareTo(x) = 1
    # gen mut: the twin of the last member becomes member 1 (another content); a removed Pool leaves Mutate without a pool
    mut_selftest(run, out, meta)
    run.assumptions += [
        "NaN never occurs in a pool and the specification skips members containing NaN: the property is silent about NaN (IEEE inequality contradicts reflexivity by definition)",
        "only laws are judged: the direction of the order within a type (golib orders most scalar types descending) and the order of the type codes are not prescribed",
        "the matrices record the sign of CompareTo and whether a call panicked; nil is not a value and is never an operand",
        "gen mut: the content of a live object is what its public getters, enumerations and exported fields show (the twin is built from exactly that); "
        "what a mutator is supposed to do to the content is not judged here, only that Equals/CompareTo remain lawful functions of the content afterwards",
    ]
