"""C04 -- decoders fail closed (DESIGN 3/C04).
(M) MC_FailClosed: check-before-allocate fetch semantics => NoFabrication, WithinInput, BoundedAlloc, PrefixFails for every
    abstract decoder x input x prefix; the zero-fill design golib had is refuted (named deviation).
(A) Trace_FailClosed: every strict prefix and 23 hostile overwrites at every offset of real encodings, decoded by the real
    decoders in a child process under an address-space limit."""


def body(run):
    run.mc("MC_FailClosed", cfg="MC_FailClosed_thorough.cfg" if run.thorough() else "MC_FailClosed.cfg")
    run.mc("MC_FailClosed", cfg="MC_FailClosed_asis.cfg", expect_violation="NoFabrication")
    out, meta = run.drive("c04", timeout=3000)
    run.absorb(meta)
    run.validate(out, meta, max_findings=40)
    run.selftest(out, meta, gen="value", field="consumed", removed=False)  # events are independent: removing one is not detectable by design
    run.assumptions += [
        "allocation is observed as the runtime.MemStats.TotalAlloc delta of the decoding call (an upper bound of its peak), judged against K*len+C with K=2048, C=1 MiB",
        "decoders reading from a net.Conn (DataInputX tcp mode) are out of scope: the property is about decoding byte strings",
        "hostile inputs are overwrites of 23 length/count/tag patterns at every offset < 400 of each valid encoding, not all byte strings",
    ]
