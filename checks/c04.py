"""C04 -- decoders fail closed (DESIGN 3/C04).
(M)  MC_FailClosed: check-before-allocate fetch semantics => NoFabrication, WithinInput, BoundedAlloc, TagsKnown, PrefixFails
     for every abstract decoder x input x prefix; the zero-fill design golib had and a lenient tag dispatch are refuted
     (named deviations).
(M2) MC_LazyStage: the lazily decoded second stage (parse first, publish after) => an access returns data only if the
     stored bytes are a complete encoding, a failure is sticky (also across write + re-decode), allocation bounded by the
     stored bytes; detaching the bytes before parsing and pre-sizing from the count are refuted (named deviations).
(A)  Trace_FailClosed: every strict prefix and 28 hostile overwrites at every offset of real encodings, every code at every
     position holding a type tag by construction, every accessor of every returned object (call sequences), and the
     reads over a connection under every way the peer can end the stream -- real decoders in a child process under an
     address-space limit.  The encodings: random fills of every type PLUS the layout variants of one populated object per
     type (one field at a time over the values that select a layout: version/flag bytes 0..255, bools, 0/1/2/3/-1, empty/
     non-empty groups; UDP packs under every version next to a threshold).  The valid encoding is the writer's WHOLE
     output: its decoder must consume all of it and every strict prefix of it must fail."""

import json, os
import vf


def stage2_selftest(run, out, meta):
    """Binding demonstration for the second-stage and tag events: a good history in which (a) an unregistered code is added
    to the codes a tag position accepted, (b) a failed access is followed by a successful one, (c) the written object no
    longer fails, (d) an accessor call allocated 1 GiB -- each must be rejected."""
    for job in meta.get("jobs", []):
        lines = open(os.path.join(out, job["trace"])).read().splitlines()
        for h in vf.split_histories(lines):
            evs = [json.loads(x) for x in h]
            ti = next((i for i, e in enumerate(evs) if e.get("ev") == "Tag"), None)
            li = next((i for i, e in enumerate(evs) if e.get("ev") == "Lazy" and e.get("seqs")), None)
            if ti is None or li is None:
                continue
            def variant(i, f):
                e = json.loads(h[i])
                f(e)
                return h[:i] + [json.dumps(e, separators=(",", ":"))] + h[i + 1:]
            def setr(r):
                def f(e):
                    e["seqs"][0]["r"] = r
                return f
            variants = {
                "unregistered_code_accepted": variant(ti, lambda e: e["okcodes"].append(255)),
                "access_succeeds_after_failure": variant(li, setr(["failed", "ok", "ok", "ok"])),
                "written_object_no_longer_fails": variant(li, setr(["failed", "failed", "ok", "ok"])),
                "accessor_allocates_1GiB": variant(li, lambda e: e.update(accalloc=1 << 30)),
            }
            res = {}
            st = run.trace_states
            for name, hh in variants.items():
                p = os.path.join(out, "_selftest2_%s.ndjson" % name)
                open(p, "w").write("\n".join(hh) + "\n")
                acc, hwm, n, r = run.validate_file(job["spec"], p)
                res[name + "_rejected"] = not acc
            acc, hwm, n, r = run.validate_file(job["spec"], _write(out, "_selftest2_good.ndjson", h))
            res["unchanged_history_accepted"] = bool(acc)
            run.trace_states = st
            run.selftests[job["spec"] + ":second-stage"] = res
            if not all(res.values()):
                raise vf.MachineryError("second-stage binding self-test failed: %s" % res)
            vf.log("SELFTEST %s second stage %s" % (job["spec"], res))
            return
    raise vf.MachineryError("second-stage self-test found no history with Tag and Lazy events")


def _write(out, name, lines):
    p = os.path.join(out, name)
    open(p, "w").write("\n".join(lines) + "\n")
    return p


def body(run):
    run.mc("MC_FailClosed", cfg="MC_FailClosed_thorough.cfg" if run.thorough() else "MC_FailClosed.cfg")
    run.mc("MC_FailClosed", cfg="MC_FailClosed_asis.cfg", expect_violation="NoFabrication")
    run.mc("MC_FailClosed", cfg="MC_FailClosed_lenient.cfg", expect_violation="TagsKnown")
    run.mc("MC_LazyStage", cfg="MC_LazyStage_thorough.cfg" if run.thorough() else "MC_LazyStage.cfg")
    run.mc("MC_LazyStage", cfg="MC_LazyStage_detach.cfg", expect_violation="StickyFailure")
    run.mc("MC_LazyStage", cfg="MC_LazyStage_presize.cfg", expect_violation="BoundedAlloc2")
    out, meta = run.drive("c04", timeout=3000)
    run.absorb(meta)
    run.validate(out, meta, max_findings=40)
    run.selftest(out, meta, gen="value", field="consumed", removed=False)  # events are independent: removing one is not detectable by design
    stage2_selftest(run, out, meta)
    run.assumptions += [
        "allocation is observed as the runtime.MemStats.TotalAlloc delta of the decoding call (an upper bound of its peak), judged against K*len+C with K=2048, C=1 MiB; accessor calls are screened with the runtime/metrics allocation counter and the large ones measured again exactly on a fresh object",
        "type-tag positions are known by construction only: the object's own tag, packs nested in containers the generator put together, and values nested under field paths for which 5 independent instances all show the value's tagged encoding in the parent's bytes",
        "the registries of type codes (value, step, pack, service) are constants of the trace spec taken from the format",
        "reads over a connection: truncation and fault points only (plus hostile lengths for the limited frame read); the allocation of unlimited reads over a connection is by design not bounded by the input",
        "layout variants are single-field changes of a randomly populated object, one kept per distinct length of the writer's output (a variant that changes the layout but not the length, or that needs two fields changed together, is left to the random fills)",
        "whole-encoding rule: every item is the complete output of the writer paired with the decoder, for one object of a self-delimiting format; the only exemption is UdpRelayPack, whose length is carried by the datagram header",
        "hostile inputs are overwrites of 28 length/count/tag patterns at every offset < 400 of each valid encoding, not all byte strings",
    ]
