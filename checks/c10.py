"""C10 -- the shared collections of golib (util/hmap, util/list LinkedList, util/queue) are linearizable,
race-free between point operations and never self-deadlock (DESIGN 3/C10).  Two specifications, three bindings.

(M) MC_LockDiscipline: the per-method step lists (takes the lock? calls which same-receiver / sub-object methods?
    reads / writes which fields?) are EXTRACTED FROM THE TREE UNDER TEST on every run (harness/c10/extract.go,
    go/ast) and handed to TLC as a JSON constant.  TLC explores, per type, every public method alone and every
    pair of point operations on two threads, all interleavings: NoSelfDeadlock, NoMutualDeadlock, NoLeak,
    NoDataRace.  (One part of the extraction is path-sensitive: the count of explicit Lock / Unlock calls on the receiver
    is followed through branches; a return reached with the lock taken and no Unlock deferred becomes a step "exit" at
    which TLC may end the call -- NoLeak; a predicted leak must show as a Size() probe that does not come back.)
    A violation here is a PREDICTION about the code; it is confronted with real behaviour before
    anything is reported (a predicted self-deadlock must show as a watchdog timeout of that very method, a
    predicted race as a race-detector report for that very pair of methods); prediction and behaviour that do
    not agree are a machinery failure (exit 2), never a violation -- unless the behaviour itself was already
    rejected by a trace specification and reproduced: a reproduced hang or race stands whatever the table says.
    The same exploration lists the point operations made of several critical sections (NoSplit): a hint for (A3).
    The lock may be a sync.Mutex, the mutex of a sync.Cond or a sync.RWMutex (RLock = SHARED acquisition: shared holders
    do not exclude each other, so a step that writes under a shared hold races with every other shared holder; an
    announced writer keeps new readers out, so a nested RLock can deadlock against a writer; RLock -> Lock on one
    thread is a self-deadlock).  Methods that take ANOTHER instance of their own type (PutAll(other)) are explored with
    the peer bound to a second instance, to the receiver itself (x.m(x): NoSelfDeadlock) and crosswise on two threads
    (a.m(b) against b.m2(a): NoMutualDeadlock over lock-order edges receiver -> argument).  The semantics of the shared
    mode and of peers is itself exercised on every run: TLC must produce exactly the textbook verdicts on a small
    fixed table (spec/LockDiscipline_selftest.json).
(A1) Trace_LockDiscipline / footprint: each public method (reflection: the methods the COMPILED type has, which
    must be the table's) is called while the harness holds the instance lock (reflect + unsafe on the private
    lock field): it parks on that lock iff the table says it takes it; a readers-writer lock is also held in SHARED
    mode: then exactly the methods the table says take it in exclusive mode park.  The table is code-derived: a
    footprint the table does not explain is a machinery failure.  A lock of a kind the extraction does not know is not
    an error: the type stays in the model as one that takes no lock, and what TLC then predicts must be confirmed.
(A2) Trace_LockDiscipline / watchdog: each public method in every state its helper paths depend on (populated with
    an existing key; empty; growing: 170 fresh keys across the re-hash thresholds; full: SetMax / capacity 3 in force
    and reached, fresh and existing keys alternating): returned | panicked | timeout; the specification has no action
    for timeout, nor for a lock that stayed taken.  A method taking another instance of its own type is also handed
    its own receiver (state "self") and run crosswise on two instances from two goroutines in lockstep rounds (state
    "cross").  Every method is also called once with each set of unusual arguments (states "zero": 0, "", nil, empty
    slices; "neg": -1, nil slices; "none": the instance's NONE sentinel); every state is followed by Size() under the
    watchdog: a lock left taken is a probe that does not come back.  A hang anywhere ends as a recorded Timeout event, never as a driver timeout (hangs are capped per type).
(A3) Trace_Linearize: thousands of concurrent histories per type in four shapes (mix: 2-4 goroutines x 3-6 random
    point operations on three hot keys sharing a bucket; duel: a populated instance and the same one or two
    operations meeting themselves, mostly in lockstep rounds; grow: the default table re-hashing under lookups; block:
    several consumers in the blocking dequeue of either queue, fewer elements per broadcast than waiters; herd: both queues
    again, 2-3 consumers parked in / churning through blocking dequeues while one producer trickles in exactly enough
    elements, several times the usual number of histories), one-bucket
    tables that re-hash constantly, bounds that evict, GOMAXPROCS all/1/2/4 and injected yields / sleeps; invocation /
    response order from one atomic counter; accepted iff TLC finds linearization points (silent Lin steps, DFS queue,
    high-water mark) and the final content is the one the linearization leaves.  The point operations TLC lists as
    made of several critical sections (NoSplit, a hint) get directed duel histories against themselves.
(A3'') Trace_Linearize / gate: every user-supplied function the API calls (the single queue's Failed / Overflowed
    handlers, the comparator of every Sort) releases, from inside its n-th invocation, another goroutine's point operation
    on the same instance and stays inside until that operation returned or is seen parked on the instance lock: forced
    overlap, no luck involved.  Sort is an atomic action of the model; a forced / refused put also records what the
    handlers were handed.  TLC's hint OPENCB (a public method running caller code between two critical sections; the
    extraction marks callback sites as steps of kind cb) gives the gated histories of that type more cases.
(A4) Trace_LockDiscipline / race: the same programs run unstamped in a race-detector build; every race report
    becomes a Race(a, b) event; the specification has an action for it only when a or b is not a point
    operation.  A pair TLC predicts to race is hammered through hot keys, fresh keys (growth) and a bound in force
    (eviction), each side repeating its calls until the other is through, until the detector confirms it.  Batch
    operations (PutAll ...) are judged like point operations for data races (model pairs, race programs with batches
    longer than the table has buckets, Race events)."""
import json, os, re, shutil
import vf

# Every run of the driver re-extracts the lock table of the tree under test; the trace specification reads it from
# its working directory.  (Wrapped here, not in body(), so that --replay gets it too.)
_drive = vf.Run.drive


def _drive_and_table(self, driver, *a, **kw):
    out, meta = _drive(self, driver, *a, **kw)
    t = os.path.join(out, "locktable.json")
    if driver == "c10" and os.path.exists(t):
        shutil.copy(t, os.path.join(self.specdir, "locktable.json"))
    return out, meta


vf.Run.drive = _drive_and_table

EXCLUDED_PAIRS = ["IntKeyLinkedMap:SetMax:Put", "RequestQueue:SetCapacity:Put"]   # reconfiguring while mutating: outside the property


def sub(meta, names):
    m = dict(meta)
    m["jobs"] = [j for j in meta.get("jobs", []) if j["trace"][:-7].rstrip("0123456789") in names]
    return m


def events(outdir, name):
    p = os.path.join(outdir, name + ".ndjson")
    if not os.path.exists(p):
        return []
    return [json.loads(x) for x in open(p).read().splitlines() if x.strip()]


def parse_predictions(out):
    flat = re.sub(r"\s+", " ", out)
    dead, races, other, splits, mutual = set(), set(), set(), set(), set()
    parse_predictions.opencb = set()
    for m in re.finditer(r'<<\s*"PRED",\s*"(\w+)",\s*"(\w+)",\s*(.*?)>>', flat):
        kind, ty, rest = m.group(1), m.group(2), m.group(3)
        names = re.findall(r'"(\w+)"', rest)
        if kind == "SELFDEADLOCK":
            dead.add((ty, names[0]))
        elif kind == "DATARACE":
            races.add((ty,) + tuple(sorted(names[:2])))
        elif kind == "SPLIT":
            splits.add((ty, names[0]))
        elif kind == "OPENCB":                                  # a hint like SPLIT: (type, public method, handler / comparator)
            parse_predictions.opencb.add((ty, names[0], names[1] if len(names) > 1 else ""))
        elif kind == "MUTUALDEADLOCK" and len(names) >= 3:      # scenario kind ("pair": one instance; "cross": a.m1(b) || b.m2(a)), m1, m2
            mutual.add((ty, names[0]) + tuple(sorted(names[1:3])))
        else:
            other.add((kind, ty, tuple(names)))
    # a call that ends with the lock taken (scenario "alone": one name); the same leak seen again in the two-thread
    # scenarios of that method says nothing new
    leaks = {(ty, ns[0]) for kind, ty, ns in other if kind == "LEAK" and len(ns) == 1}
    other = {(kind, ty, ns) for kind, ty, ns in other
             if not (kind == "LEAK" and (len(ns) == 1 or any((ty, n) in leaks for n in ns)))}
    parse_predictions.leaks = leaks
    return dead, races, other, splits, mutual


# What TLC must say about spec/LockDiscipline_selftest.json (one readers-writer type RW: Get / Size read under a shared
# hold, GetLRU WRITES under a shared hold, Put writes under the exclusive lock, Contains takes the shared lock and calls
# Get (nested shared), Upgrade takes shared then exclusive, PutAll(other) holds its own lock while calling other.Size()).
# Leaky takes the exclusive lock, has an early return that keeps it (step "exit") and releases on its other path.
SELFTEST_EXPECTED = dict(
    leaks={("RW", "Leaky")},
    dead={("RW", "Upgrade"), ("RW", "PutAll")},
    races={("RW", "GetLRU", "GetLRU"), ("RW", "Get", "GetLRU"), ("RW", "Contains", "GetLRU")},
    mutual={("RW", "pair", "Contains", "Put"), ("RW", "pair", "Contains", "PutAll"), ("RW", "cross", "PutAll", "PutAll")},   # PutAll: a batch of puts, paired with the point operations like a put
    other=set())


def spec_selftest(run, workers):
    """the semantics of LockDiscipline.tla (shared mode, writer preference, peers) gives the textbook verdicts"""
    r = run.tlc("MC_LockDiscipline", cfg="MC_LockDiscipline_predict.cfg", workers=1, timeout=600, env={"LOCKTABLE": "LockDiscipline_selftest.json"})
    if not r["clean"] or "generated" not in r:
        raise vf.MachineryError("self-test of LockDiscipline.tla did not run:\n" + vf.tail(r["out"], 40))
    dead, races, other, splits, mutual = parse_predictions(r["out"])
    got = dict(dead=dead, races=races, mutual=mutual, other=other, leaks=set(parse_predictions.leaks))
    if got != SELFTEST_EXPECTED:
        raise vf.MachineryError("LockDiscipline.tla does not give the expected verdicts on the self-test table: got %s" % got)
    run.mc_runs.append(dict(module="MC_LockDiscipline", cfg="MC_LockDiscipline_predict.cfg", table="LockDiscipline_selftest.json", states=r["distinct"],
                            transitions=r["generated"], wall_s=r["wall"],
                            expected_predictions_produced={k: sorted(map(list, v)) for k, v in got.items()}))
    vf.log("MC %-28s %-28s states=%d (semantics self-test: %d expected predictions produced, nothing else)"
           % ("MC_LockDiscipline", "selftest table", r["distinct"], sum(len(v) for v in got.values())))


def model_check(run, workers):
    """TLC over the extracted table.  Clean: recorded like run.mc.  Refuted: the complete list of predicted defects."""
    cfg = run.pick("MC_LockDiscipline.cfg", "MC_LockDiscipline_thorough.cfg")
    r = run.tlc("MC_LockDiscipline", cfg=cfg, workers=workers, timeout=3000, extra=["-coverage", "1"], heap="4g")
    if "generated" not in r:
        raise vf.MachineryError("TLC produced no state count for MC_LockDiscipline:\n" + vf.tail(r["out"]))
    rec = dict(module="MC_LockDiscipline", cfg=cfg, states=r["distinct"], transitions=r["generated"], wall_s=r["wall"])
    zero = re.findall(r"<(\w+) line \d+, col \d+ to line \d+, col \d+ of module \w+>: 0:0", r["out"])
    rec["actions_never_taken"] = zero
    vf.log("MC %-28s %-28s states=%d transitions=%d %.1fs %s" % ("MC_LockDiscipline", cfg, r["distinct"], r["generated"], r["wall"],
                                                             "clean" if r["clean"] else "REFUTED"))
    dead, races, other, mutual = set(), set(), set(), set()
    splits = parse_predictions(r["out"])[3]
    opencb = set(parse_predictions.opencb)
    leaks = set()
    if r["clean"]:
        if zero:
            raise vf.MachineryError("vacuity: actions never taken by MC_LockDiscipline: %s" % zero)
        if r["distinct"] < 20000:
            raise vf.MachineryError("the extracted lock table is implausibly small (%d states)" % r["distinct"])
        run.mc_states += r["distinct"]
        run.mc_transitions += r["generated"]
    else:
        m = re.search(r"Invariant (\w+) is violated", r["out"])
        if not m or m.group(1) not in ("NoSelfDeadlock", "NoMutualDeadlock", "NoLeak", "NoDataRace"):
            raise vf.MachineryError("model checking of the extracted lock table failed:\n" + vf.tail(r["out"], 40))
        rec["refuted"] = m.group(1)
        r2 = run.tlc("MC_LockDiscipline", cfg="MC_LockDiscipline_predict.cfg", workers=workers, timeout=3000, heap="4g")
        if not r2["clean"]:
            raise vf.MachineryError("prediction run of MC_LockDiscipline failed:\n" + vf.tail(r2["out"], 40))
        dead, races, other, splits, mutual = parse_predictions(r2["out"])
        opencb |= parse_predictions.opencb
        leaks = set(parse_predictions.leaks)
        if not (dead or races or other or mutual or leaks):
            raise vf.MachineryError("TLC refuted %s but the prediction run lists nothing" % m.group(1))
        rec["predicted"] = dict(self_deadlocks=sorted(map(list, dead)), leaked_locks=sorted(map(list, leaks)), data_races=len(races), mutual_deadlocks=sorted(map(list, mutual)), other=sorted(map(str, other)))
        run.mc_states += r2["distinct"]
        run.mc_transitions += r2["generated"]
        if leaks:
            vf.log("PREDICTED by TLC on the extracted table: %d public methods that can end with the instance lock taken %s" % (len(leaks), sorted(leaks)[:8]))
        vf.log("PREDICTED by TLC on the extracted table: %d self-deadlocks %s, %d racing pairs of point operations, %d pairs of calls waiting for each other %s, %d other"
               % (len(dead), sorted(dead)[:6], len(races), len(mutual), sorted(mutual)[:4], len(other)))
    rec["point_operations_made_of_several_critical_sections"] = sorted(map(list, splits))
    rec["public_methods_running_caller_code_between_two_critical_sections"] = sorted(map(list, opencb))
    model_check.opencb = opencb
    model_check.leaks = leaks
    run.mc_runs.append(rec)
    return dead, races, other, splits, mutual


def validate_past_unconfirmed(run, outdir, meta, deferred, what, attempts=4):
    """run.validate for timing-dependent histories: a rejection that the triage could not reproduce ends the
    validation of its trace (vf raises); it is remembered as a deferred machinery failure and the histories AFTER
    the unreproduced one are still judged (a few times over), so that one elusive execution does not hide the rest."""
    jobs = list(meta.get("jobs", []))
    for _ in range(attempts):
        m = dict(meta)
        m["jobs"] = jobs
        try:
            run.validate(outdir, m, dfs=True)
            return
        except vf.MachineryError as ex:
            vf.log("DEFERRED machinery failure (%s): %s" % (what, str(ex)[:300]))
            deferred.append(ex)
            mm = re.search(r"rejection of (\w+)/(\d+) did not reproduce", str(ex))
            if not mm:
                return
            gen, case = mm.group(1), int(mm.group(2))
            rest = []
            for j in jobs:
                p = os.path.join(outdir, j["trace"])
                hs = vf.split_histories(open(p).read().splitlines())
                idx = next((i for i, h in enumerate(hs) if vf.is_reset(h[0]) and json.loads(h[0]).get("gen") == gen and json.loads(h[0]).get("case") == case), None)
                if idx is None:
                    continue                       # this trace was accepted or lies before the unreproduced history
                tail_hs = hs[idx + 1:]
                later = [x for x in jobs if x is not j and jobs.index(x) > jobs.index(j)]
                if tail_hs:
                    name = "_rest%d_%s" % (len(deferred), j["trace"].lstrip("_"))
                    open(os.path.join(outdir, name), "w").write("\n".join(ln for h in tail_hs for ln in h) + "\n")
                    rest.append(dict(j, trace=name, events=sum(len(h) for h in tail_hs), histories=len(tail_hs)))
                rest += later
                break
            if not rest:
                return
            jobs = rest


def body(run):
    th = run.thorough()
    w = run.pick(4, 16)
    # ---- the table of the tree under test -> TLC constant
    spec_selftest(run, w)
    run.drive("c10", args={"mode": "table"})
    dead, races, other, splits, mutual = model_check(run, w)
    if other:
        raise vf.MachineryError("TLC predicts lock-order or leaked-lock defects the driver has no dynamic witness for: %s" % sorted(other)[:5])

    # ---- plain build: footprint, watchdog, stamped histories
    out, meta = run.drive("c10", timeout=2400)
    run.absorb(meta)
    # (A1) the table explains the lock footprint of every method
    for job in sub(meta, ["footprint"])["jobs"]:
        p = os.path.join(out, job["trace"])
        acc, hwm, n, r = run.validate_file(job["spec"], p)
        if not acc:
            line = open(p).read().splitlines()[hwm - 1]
            if '"after":"timeout"' not in line or not dead:
                raise vf.MachineryError("the extracted lock table does not explain the observed lock footprint (line %d): %s" % (hwm, line[:300]))
        run.histories += job.get("histories", 0)
        run.events += job.get("events", 0)
        run.trace_runs.append(dict(trace=job["trace"], spec=job["spec"], events=job.get("events", 0), histories=job.get("histories", 0), rejected_histories=0))
        vf.log("TRACE %-24s %-20s events=%d histories=%d (table binding)" % (job["trace"], job["spec"], job.get("events", 0), job.get("histories", 0)))
    # (A2) every public method in every state returns: a call that did not has no action (VIOLATION once reproduced)
    run.validate(out, sub(meta, ["watchdog"]))
    # (A3) linearizability.  Which interleaving an execution meets is not in the harness's hands: a rejection that
    # does not come back in the 60 re-executions of the triage is a machinery failure, but only at the END of the
    # run -- the lock-discipline stages below do not depend on it and may have a verdict about the same defect
    deferred = []
    validate_past_unconfirmed(run, out, sub(meta, ["lin"]), deferred, "linearizability stage")
    # (A3'') gated histories: another goroutine's point operation issued from inside every user-supplied function the
    # API calls (the queue's Failed / Overflowed handlers, the comparator of every Sort).  The overlap is forced by the
    # harness (deterministic), so a rejection reproduces in the first re-execution
    run.validate(out, sub(meta, ["gate"]), dfs=True)
    # ... with more cases where TLC found caller code run between two critical sections of one public method (a hint)
    for ty in sorted({x[0] for x in model_check.opencb}):
        outg, metag = run.drive("c10", gen="gate", args={"types": ty, "gatecases": run.pick(300, 3000)}, timeout=2400)
        run.validate(outg, sub(metag, ["gate"]), dfs=True)
    # (A3') the point operations TLC found to be made of several critical sections, against themselves
    bytype = {}
    for ty, m in sorted(splits):
        bytype.setdefault(ty, []).append(m)
    directed = {}
    for ty, ms in sorted(bytype.items()):
        outd, metad = run.drive("c10", gen="lin", args={"types": ty, "ops": "+".join(ms), "cases": run.pick(1200, 8000), "budget_ms": run.pick(4000, 40000)}, timeout=2400)
        before = len(run.violations)
        validate_past_unconfirmed(run, outd, sub(metad, ["lin"]), deferred, "directed histories of %s" % ty)
        directed["%s.%s" % (ty, "+".join(ms))] = dict(histories=sum(j.get("histories", 0) for j in metad.get("jobs", [])),
                                                      rejected=len(run.violations) - before)
    run.extra["directed_histories_for_operations_of_several_critical_sections"] = directed
    # static prediction and dynamic outcome must agree (after the verdicts: a reproduced hang stands whatever the table says)
    hangs = [e for e in events(out, "watchdog") if e.get("ev") == "Outcome" and e.get("out") == "timeout"]
    seen = {(e["t"], e["m"]) for e in hangs if e.get("on") != "cross"}
    seen_cross = {(e["t"],) + tuple(sorted([e["m"], e.get("with", "")])) for e in hangs if e.get("on") == "cross"}
    pred_cross = {(ty, a, b) for ty, kind, a, b in mutual if kind == "cross"}
    pred_pair = {(ty, a, b) for ty, kind, a, b in mutual if kind != "cross"}
    # a predicted leak (a return path that keeps the lock: step "exit" of the table, NoLeak refuted by TLC) must show on
    # the real code: that method called in one of the watchdog states (ordinary and unusual arguments), then Size()
    # under the watchdog does not come back.  (The other direction needs no table: such an Outcome has no action.)
    leaked_seen = {(e["t"], e["m"]) for e in events(out, "watchdog") if e.get("ev") == "Outcome" and e.get("then") == "timeout"}
    run.extra["static_predictions_leaked_locks"] = dict(predicted=sorted(map(list, model_check.leaks)),
                                                        confirmed_by_a_probe_that_did_not_return=sorted(map(list, model_check.leaks & leaked_seen)))
    if model_check.leaks - leaked_seen:
        raise vf.MachineryError("TLC predicts public methods that can end with the instance lock taken; no call of them in any watchdog "
                                "state left the lock taken (table too coarse, or arguments that do not reach the path): %s" % sorted(model_check.leaks - leaked_seen))
    if seen - dead:
        raise vf.MachineryError("calls that did not return although the extracted table predicts no self-deadlock for them "
                                "(table incomplete, or the machine stalled): %s" % sorted(seen - dead))
    if dead - seen:
        raise vf.MachineryError("TLC predicts a self-deadlock the real call does not show (table too coarse): %s" % sorted(dead - seen))
    if seen_cross - pred_cross:
        raise vf.MachineryError("calls on two instances handed to each other that did not return although the extracted table has no "
                                "lock-order cycle for them (table incomplete, or the machine stalled): %s" % sorted(seen_cross - pred_cross))
    if pred_cross - seen_cross:
        raise vf.MachineryError("TLC predicts that a.m1(b) and b.m2(a) can wait for each other for ever; the crossed calls of this run "
                                "(two goroutines, lockstep rounds) all came back: unconfirmed %s" % sorted(pred_cross - seen_cross))

    # ---- race-detector build: the same programs unstamped, plus the pairs TLC predicted (and two excluded pairs)
    outr, metar = run.drive("c10", args={"mode": "race"}, race=True, gen="race", timeout=2400)
    run.absorb(metar)
    run.validate(outr, metar)
    deadpairs = ["%s:%s:%s:dead" % p for p in sorted(pred_pair)][:20]
    pairs = EXCLUDED_PAIRS + deadpairs + ["%s:%s:%s" % p for p in sorted(races)][:run.pick(60, 600)]
    outp, metap = run.drive("c10", args={"mode": "race", "pairs": "+".join(pairs)}, race=True, gen="racepair", timeout=2400)
    run.absorb(metap)
    run.validate(outp, metap)
    confirmed, excluded = set(), 0
    hung_pairs = {(e.get("t"),) + tuple(sorted([e.get("a", ""), e.get("b", "")])) for e in events(outp, "racepair") if e.get("ev") == "Pair" and e.get("out") == "timeout"}
    for e in events(outp, "racepair") + events(outr, "race"):
        if e.get("ev") == "Race":
            confirmed.add((e.get("t"),) + tuple(sorted([e.get("a", ""), e.get("b", "")])))
            if (e.get("t"), e.get("a"), e.get("b")) in {tuple(x.split(":")) for x in EXCLUDED_PAIRS} | {(x.split(":")[0], x.split(":")[2], x.split(":")[1]) for x in EXCLUDED_PAIRS}:
                excluded += 1
    asked = {tuple([p.split(":")[0]] + sorted(p.split(":")[1:])) for p in pairs[len(EXCLUDED_PAIRS) + len(deadpairs):]}
    unconfirmed = sorted(asked - confirmed)
    run.extra["static_predictions"] = dict(self_deadlocks=sorted(map(list, dead)), racing_pairs=len(races), racing_pairs_run=len(asked),
                                           racing_pairs_confirmed_by_the_race_detector=len(asked & confirmed), unconfirmed=[list(x) for x in unconfirmed[:20]])
    run.extra["races_outside_the_property_observed"] = excluded
    run.extra["static_predictions"]["calls_waiting_for_each_other"] = dict(
        crossed_on_two_instances=sorted(map(list, pred_cross)), on_one_instance=sorted(map(list, pred_pair)),
        confirmed_by_a_hang=sorted(map(list, (pred_cross & seen_cross) | (pred_pair & hung_pairs))))
    if pred_pair - hung_pairs:
        raise vf.MachineryError("TLC predicts pairs of calls on one instance that can wait for each other for ever; hammering them did not "
                                "produce the hang: unconfirmed %s" % sorted(pred_pair - hung_pairs)[:8])
    if unconfirmed:
        raise vf.MachineryError("%d of %d predicted racing pairs were not confirmed: " % (len(unconfirmed), len(asked)) +"TLC predicts data races on the extracted table that the race detector does not show: %s" % unconfirmed[:8])

    if deferred:
        raise deferred[0]

    # ---- binding self-tests
    if run.violations:
        vf.log("binding self-test skipped: the verdict pass already rejected real-code behaviour")
    else:
        run.selftest(out, meta, gen="self", spec="Trace_Linearize", dfs=True, field="n", remove_match={"ev": "Inv", "o": "Get"})
        run.selftest(out, sub(meta, ["watchdog"]), gen="watchdog", spec="Trace_LockDiscipline", field="out", remove_match={"ev": "Outcome", "on": "populated"})
        run.selftest(out, sub(meta, ["footprint"]), gen="footprint", spec="Trace_LockDiscipline", field="blocked")
        run.selftest(outr, metar, gen="race", spec="Trace_LockDiscipline", field="panics", remove_match={"ev": "Ran"})
    tab = (meta.get("extra") or {}).get("lock_table") or {}
    run.extra["unjudged_public_methods_that_never_take_the_instance_lock"] = tab.get("public_methods_that_never_take_the_instance_lock")
    run.assumptions += [
        "the lock table is a flattening of each method body (every statement once, branches and loops ignored; locals that hold instance memory -- a copy of a reference field, a node loaded from the table or handed to a helper -- are classified flow-insensitively and accesses through them are recorded as accesses of the elements behind a slice field or of field n of SOME node; a peer parameter is assumed to reach same-receiver helpers unchanged): it can only over-approximate what a call does; both of its code-visible consequences (which calls park on the held lock, which calls never return) are checked against the real code on every run, and a disagreement is reported as a machinery failure, never as a violation",
        "point operations are fixed by name in LockDiscipline.tla from the property statement (put/add/get/contains/remove/remove-first/last/clear/size/is-empty/enqueue/dequeue families), and so are the batch operations (PutAll / AddAll / RemoveAll / GetAll / ContainsAll: sequences of point operations issued through one call, judged for data races like point operations, never for atomicity); enumerations (Keys/Values/Entries and the enumerators), whole-structure operations and configuration calls (SetMax, SetCapacity, GetCapacity, SetNullValue, IsFull) racing against mutators are outside the property: such race reports are accepted by the trace specification and counted in the evidence; freedom from self-deadlock is checked for every public method",
        "race freedom is decided on the executions run (race detector as observation channel; goroutines unsynchronised except for the start barrier and the instance's own lock) plus the exhaustive exploration of the extracted field/lock table; it is not a proof over all schedules of the real code",
        "linearizability is decided on many small histories; invocation/response order is the order of stamps from one atomic counter (before the call, after the return), never wall-clock order; results are projected with the standard library only (adapters of harness/c09 and harness/c12); the answer of put/add for a NEW key and of Add in the plain maps is judged as leniently as in C09/C12",
        "sequential object: LinkedDict for all (the plain maps as the dictionary whose order is never observed, the list and the single queue as the deque of unique elements with LinkedDict's bound, the double queue as the dictionary whose value is the lane of an element, each lane with its own bound, lane 1 served first); a blocking dequeue can take effect only on a non-empty queue; programs with blocking dequeues are built so that every one of them is served whatever the schedule (unbounded queue, producers that never dequeue and put at least as many elements as there are blocking calls)",
        "schedules are not forced (no hooks): overlap comes from start barriers, lockstep rounds (harness-side spin barriers before each call), GOMAXPROCS variation, injected yields and sleeps and repetition; all of it only decides WHICH interleaving is observed; a rejected concurrent history is re-executed up to 400 times on fresh instances and every execution is judged by TLC; a rejection that does not come back is a machinery failure reported at the end of the run",
        "user-supplied functions are gates into an operation: the gated histories install the single queue's handlers and the comparators of Sort and issue another goroutine's point operation from inside them; how long the function stays inside is decided by positive evidence (the other operation returned / is queued on the instance lock, read from the lock word) with a 50 ms fallback where the lock cannot be read and 2 s where it can: timing can only lose the overlap; the double queue's handlers (unexported, no setter) and LinkedKey.Hash / Equals are not gated; the comparator is the natural order of the keys or its reverse, which is the rank order of the adapters' pools (asc / desc of LinkedDict.Sort)",
        "NoSplit (a point operation is one critical section on its instance) is explored by TLC on the extracted table but is a hint, not a verdict: the operations it lists (on the unchanged tree the queues' GetTimeout, a retry loop over GetNoWait) get directed concurrent histories, and only a non-linearizable real history is a violation",
        "watchdogs (4 s per call or per sequence of calls in one state, 15 s per history) only have to beat scheduler stalls: a spurious timeout does not reproduce in the triage re-run and ends as exit 2; a call that panics is accepted by the lock-discipline binding (panics of single calls are C09/C12's subject) but not inside a concurrent history",
        "the instance lock is reached by reflect+unsafe on the private lock field named by the table; 'parked on the lock' is read from the waiter count in sync.Mutex's state word and, for a sync.RWMutex, from its reader count (Go 1.2x layout; before first use the harness exercises a readers-writer lock of its own and checks that these words say what is assumed), no timing involved; a lock that is a lock only by its use (a field of another type with Lock / Unlock) cannot be held from outside: the footprint of such a type is taken with nothing held",
        "a method taking another instance of its own type is explored by TLC with a second instance, with the receiver itself and crosswise on two threads; the real calls are made the same three ways (watchdog states populated / self / cross); which object a peer parameter holds is the only thing the scenario adds -- lock-order cycles over more than two instances are not explored",
    ]
