"""Runner library for the golib TLA+ conformance checks.

One `Run` object per invocation of bin/check.  It owns a scratch directory
(outside /repo and /verif, removed at exit), builds the Go harness against the
current working tree of the repository, runs TLC (model checking of the design,
trace validation of real-code behaviour), localises and confirms rejections,
handles the committed known-findings file and writes the evidence file.

Exit codes:  0 property held on everything explored (KNOWN-FINDING lines allowed)
             1 a confirmed violation (VIOLATION property=<id> replay=<path>)
             2 the machinery itself failed (TLC crash, timeout, build error,
               unreproducible rejection, self-test failure): never a violation
"""
import json, os, re, shutil, subprocess, sys, tempfile, time, hashlib, copy

VERIF = os.path.dirname(os.path.dirname(os.path.abspath(__file__)))
REPO = os.environ.get("VERIF_REPO", "/repo")
SPEC = os.path.join(VERIF, "spec")
HARNESS = os.path.join(VERIF, "harness")
KF_FILE = os.path.join(VERIF, "known-findings.json")
TLC_CP = "/opt/veriftools/tla/tla2tools.jar:/opt/veriftools/tla/CommunityModules-deps.jar"
NCPU = os.cpu_count() or 4

GOENV = dict(GOFLAGS="-mod=mod", GOPROXY="off", GOSUMDB="off", GOTOOLCHAIN="local")


TLC_SELF_DIAGNOSED = re.compile(r"Failed to recover the (initial|next) state from its fingerprint|This is probably a TLC bug")


class MachineryError(Exception):
    pass


import threading
_LOCK = threading.Lock()


class TlcSlot:
    """System-wide limit on the number of TLC JVMs running at once (several checks, their parallel model-checking
    and validation runs and other users of this machine add up: 76 JVMs at once got OOM-killed).  A slot is a lock
    file under /var/tmp; waiting for one is not counted against any timeout."""
    N = int(os.environ.get("VERIF_TLC_SLOTS", "20"))
    DIR = os.environ.get("VERIF_TLC_SLOT_DIR", "/var/tmp/verif-tlc-slots")

    def __enter__(self):
        import fcntl
        self.f = None
        try:
            os.makedirs(self.DIR, exist_ok=True)
        except OSError:
            return self
        t0 = time.time()
        while True:
            for k in range(self.N):
                try:
                    f = open(os.path.join(self.DIR, "slot-%d" % k), "w")
                    fcntl.flock(f, fcntl.LOCK_EX | fcntl.LOCK_NB)
                    self.f = f
                    return self
                except OSError:
                    try:
                        f.close()
                    except Exception:
                        pass
            if time.time() - t0 > 3600:      # never block for ever: go ahead without a slot
                return self
            time.sleep(0.5)

    def __exit__(self, *a):
        if self.f is not None:
            try:
                self.f.close()
            except Exception:
                pass


def log(*a):
    print(*a, flush=True)


class Run:
    def __init__(self, pid, tier, seed):
        self.pid, self.tier, self.seed = pid, tier, seed
        self.t0 = time.time()
        self.scratch = tempfile.mkdtemp(prefix="verif-%s-" % pid.lower(), dir=os.environ.get("VERIF_TMP", "/var/tmp"))
        self.specdir = os.path.join(self.scratch, "spec")
        shutil.copytree(SPEC, self.specdir)
        self.bin = {}
        self.mc_states = 0
        self.mc_transitions = 0
        self.trace_states = 0
        self.histories = 0
        self.events = 0
        self.mc_runs = []
        self.trace_runs = []
        self.violations = []     # list of replay paths
        self.known_hits = []
        self.meta = {}
        self.samples = []
        self.extra = {}
        self.assumptions = []
        self.evaluations = 0
        self.distinct = 0
        self.rules = []
        self.selftests = {}
        self.kf = load_known_findings()
        self._n = 0

    # ------------------------------------------------------------------ util
    def thorough(self):
        return self.tier == "thorough"

    def pick(self, q, t):
        return t if self.thorough() else q

    def sub(self, name):
        self._n += 1
        d = os.path.join(self.scratch, "%02d-%s" % (self._n, name))
        os.makedirs(d, exist_ok=True)
        return d

    def cleanup(self):
        if os.environ.get("VERIF_KEEP"):
            log("scratch kept:", self.scratch)
            return
        shutil.rmtree(self.scratch, ignore_errors=True)

    def open_findings(self):
        return [k for k in self.kf if k.get("property") == self.pid and k.get("status") == "open"]

    def kf_arg(self):
        """names of the open known findings of this property, for generator steering"""
        return "+".join(k["id"] for k in self.open_findings())

    # ---------------------------------------------------------------- harness
    def build_harness(self, race=False, driver=None):
        """one binary per driver: only that driver's reg_<driver>.go is kept, so a
        package of another property that does not compile cannot break this check"""
        driver = driver or self.pid.lower()
        key = ("race-" if race else "plain-") + driver
        if key in self.bin:
            return self.bin[key]
        src = os.path.join(self.scratch, "harness-src-" + driver)
        if not os.path.isdir(src):
            shutil.copytree(HARNESS, src)
            regdir = os.path.join(src, "cmd", "harness")
            for f in os.listdir(regdir):
                if f.startswith("reg_") and f != "reg_%s.go" % driver:
                    os.remove(os.path.join(regdir, f))
            gm = open(os.path.join(src, "go.mod")).read()
            gm = re.sub(r"replace github.com/whatap/golib => .*", "replace github.com/whatap/golib => " + REPO, gm)
            open(os.path.join(src, "go.mod"), "w").write(gm)
            shutil.copy(os.path.join(REPO, "go.sum"), os.path.join(src, "go.sum"))
        out = os.path.join(self.scratch, "harness-" + key)
        cmd = ["go", "build", "-tags", "verif", "-trimpath", "-o", out]
        if race:
            cmd.insert(2, "-race")
        if os.environ.get("VERIF_COVER_DIR"):
            # development aid (not used by the registered commands): statement coverage of golib by the drivers
            cmd[2:2] = ["-cover", "-coverpkg=all"]
        cmd.append("./cmd/harness")
        env = dict(os.environ, **GOENV)
        if race:
            env["CGO_ENABLED"] = "1"
        p = subprocess.run(cmd, cwd=src, env=env, stdout=subprocess.PIPE, stderr=subprocess.STDOUT, text=True)
        if p.returncode != 0:
            raise MachineryError("harness build failed:\n" + p.stdout[-4000:])
        self.bin[key] = out
        return out

    def drive(self, driver, gen=None, case=None, args=None, race=False, timeout=1800, outdir=None, tier=None, seed=None, env=None):
        """run one harness driver against the real code; returns (outdir, meta)"""
        binp = self.build_harness(race, driver)
        out = outdir or self.sub("drive-" + driver)
        a = dict(args or {})
        if self.kf_arg():
            a.setdefault("kf", self.kf_arg())
        cmd = [binp, "-tier", tier or self.tier, "-seed", str(self.seed if seed is None else seed), "-out", out]
        if gen is not None:
            cmd += ["-gen", gen]
        if case is not None:
            cmd += ["-case", str(case)]
        if a:
            cmd += ["-args", ",".join("%s=%s" % kv for kv in a.items())]
        cmd.append(driver)
        e = dict(os.environ, TZ="UTC")
        if env:
            e.update(env)
        if os.environ.get("VERIF_COVER_DIR"):
            os.makedirs(os.environ["VERIF_COVER_DIR"], exist_ok=True)
            e["GOCOVERDIR"] = os.environ["VERIF_COVER_DIR"]
        try:
            p = subprocess.run(cmd, cwd=out, stdout=subprocess.PIPE, stderr=subprocess.STDOUT, text=True, timeout=timeout, env=e)
        except subprocess.TimeoutExpired:
            raise MachineryError("driver %s timed out after %ds" % (driver, timeout))
        if p.returncode != 0:
            raise MachineryError("driver %s failed (exit %d):\n%s" % (driver, p.returncode, p.stdout[-6000:]))
        meta = json.load(open(os.path.join(out, "meta.json")))
        meta["_driver"] = driver
        meta["_args"] = args or {}
        meta["_race"] = race
        meta["_stdout"] = p.stdout[-2000:]
        return out, meta

    def absorb(self, meta):
        """add a driver's counts and samples to the evidence"""
        self.evaluations += meta.get("evaluations", 0)
        self.distinct += meta.get("distinct_nontrivial", 0)
        if meta.get("rule"):
            self.rules.append(meta["rule"])
        for s in meta.get("samples") or []:
            if len(self.samples) < 8:
                self.samples.append(s)
        for k, v in (meta.get("extra") or {}).items():
            self.extra[k] = v

    # -------------------------------------------------------------------- TLC
    def tlc(self, module, cfg=None, workers=1, timeout=1800, env=None, cwd=None, extra=None, dfs=False, heap=None):
        """one TLC run.  A run with several workers whose error TLC itself could not reconstruct ("Failed to recover the
        initial state from its fingerprint", "This is probably a TLC bug") is not a verdict about the specification: the
        reported state exists only in the memory of racing workers (lazy values of shared constants, see mc).  It is
        repeated with one worker and that run is the result."""
        r = self._tlc_once(module, cfg, workers, timeout, env, cwd, extra, dfs, heap)
        if workers > 1 and TLC_SELF_DIAGNOSED.search(r["out"]):
            log("TLC %s/%s with %d workers reported an error it could not reconstruct (%s); repeating with one worker" % (
                module, cfg, workers, TLC_SELF_DIAGNOSED.search(r["out"]).group(0)))
            first = [ln for ln in r["out"].splitlines() if ln.startswith("Error:")][:3]
            with _LOCK:
                self.extra.setdefault("tlc_runs_repeated_with_one_worker", []).append(dict(module=module, cfg=cfg, workers_first=workers, first_outcome=first))
            r = self._tlc_once(module, cfg, 1, timeout * 3, env, cwd, extra, dfs, heap)
        return r

    def _tlc_once(self, module, cfg, workers, timeout, env, cwd, extra, dfs, heap):
        cwd = cwd or self.specdir
        md = tempfile.mkdtemp(prefix="md-", dir=self.scratch)
        cmd = ["java", "-Xss768m", "-XX:+UseParallelGC"]
        if heap is None and workers == 1:
            # trace validation: a heap sized from 25 % of a large machine's RAM is paged in by the collector and
            # was measured up to 10x slower; a small fixed heap and few GC threads are enough for one worker
            heap = os.environ.get("VERIF_TRACE_HEAP", "6g")
            cmd.append("-XX:ParallelGCThreads=4")
        if heap:
            cmd.append("-Xmx" + heap)
        if dfs:
            cmd.append("-Dtlc2.tool.queue.IStateQueue=StateDeque")
        cmd += ["-cp", TLC_CP, "tlc2.TLC", "-workers", str(workers), "-metadir", md, "-noTE"]
        if cfg:
            cmd += ["-config", cfg]
        cmd += list(extra or [])
        cmd.append(module)
        e = dict(os.environ)
        e.pop("JAVA_TOOL_OPTIONS", None)
        if env:
            e.update(env)
        try:
            with TlcSlot():
                t = time.time()
                p = subprocess.run(cmd, cwd=cwd, env=e, stdout=subprocess.PIPE, stderr=subprocess.STDOUT, text=True, timeout=timeout, errors="replace")
        except subprocess.TimeoutExpired:
            subprocess.run(["pkill", "-f", md], check=False)
            raise MachineryError("TLC timed out after %ds on %s" % (timeout, module))
        finally:
            shutil.rmtree(md, ignore_errors=True)
        out = p.stdout
        res = dict(module=module, cfg=cfg, rc=p.returncode, out=out, wall=round(time.time() - t, 2))
        m = re.search(r"(\d[\d,]*) states generated, (\d[\d,]*) distinct states found", out)
        if m:
            res["generated"] = int(m.group(1).replace(",", ""))
            res["distinct"] = int(m.group(2).replace(",", ""))
        res["clean"] = "Model checking completed. No error has been found." in out
        return res

    def mc(self, module, cfg=None, workers=None, timeout=3000, expect_violation=None, coverage=False, extra=None, heap=None):
        """model-check the design itself; the result enters the evidence.
        expect_violation: name of an invariant/property TLC is expected to refute
        (a design-level counterexample that documents a modelled defect)."""
        cfg = cfg or module + ".cfg"
        ex = list(extra or [])
        if coverage:
            ex += ["-coverage", "1"]
        nw = workers or min(NCPU, 16)
        r = self.tlc(module, cfg=cfg, workers=nw, timeout=timeout, extra=ex, heap=heap)

        def as_expected(x):
            if "generated" not in x:
                return False
            if expect_violation:
                return (not x["clean"]) and expect_violation in x["out"]
            return x["clean"]
        rerun = None
        if nw > 1 and not as_expected(r):
            # Several TLC workers share the values of the constants, and some of TLC's lazy values are not safe to share
            # (a function constructor under EXCEPT publishes its table before the EXCEPTs are applied: C01's MC_DataXKeep
            # reported "Invariant ReadBack is violated", then "Failed to recover the initial state from its fingerprint /
            # This is probably a TLC bug", about once in 100 runs; DESIGN 8, C01).  What the specification says does not
            # depend on the number of workers: an outcome other than the expected one is decided by repeating the same
            # exhaustive run with ONE worker, where there is nothing to race with; that verdict stands whatever it is.
            why = [ln for ln in r["out"].splitlines() if ln.startswith("Error:")][:3] or [tail(r["out"], 3)]
            log("MC %s/%s: unexpected outcome with %d workers (%s); repeating with one worker, whose verdict stands" % (module, cfg, nw, " | ".join(why)[:400]))
            rerun = dict(workers_first=nw, first_outcome=why)
            r = self.tlc(module, cfg=cfg, workers=1, timeout=timeout * 3, extra=ex, heap=heap)
        if "generated" not in r:
            raise MachineryError("TLC produced no state count for %s:\n%s" % (module, tail(r["out"])))
        rec = dict(module=module, cfg=cfg, states=r["distinct"], transitions=r["generated"], wall_s=r["wall"])
        if expect_violation:
            if r["clean"] or expect_violation not in r["out"]:
                raise MachineryError("expected design counterexample for %s not produced by %s/%s:\n%s" % (expect_violation, module, cfg, tail(r["out"])))
            rec["refuted_as_expected"] = expect_violation
        elif not r["clean"]:
            raise MachineryError("model checking of %s/%s reported an error (the SPEC is wrong, not the code):\n%s" % (module, cfg, tail(r["out"], 60)))
        if rerun:
            rec["repeated_with_one_worker"] = rerun
        if coverage:
            zero = re.findall(r"<(\w+) line \d+, col \d+ to line \d+, col \d+ of module \w+>: 0:0", r["out"])
            rec["actions_never_taken"] = zero
        self.mc_states += r["distinct"]
        self.mc_transitions += r["generated"]
        self.mc_runs.append(rec)
        log("MC %-28s %-28s states=%d transitions=%d %.1fs" % (module, cfg, r["distinct"], r["generated"], r["wall"]))
        return r

    def validate_file(self, spec, trace_path, timeout=1800, dfs=False, explain=False, cfg=None):
        """TLC trace validation of one ndjson file: (accepted, hwm, ntrace, result)"""
        cfg = cfg or spec + ".cfg"
        if explain:
            src = open(os.path.join(self.specdir, cfg)).read()
            cfg2 = "_explain_" + cfg
            open(os.path.join(self.specdir, cfg2), "w").write(src.replace("CHECK_DEADLOCK FALSE", "CHECK_DEADLOCK TRUE"))
            cfg = cfg2
        r = self.tlc(spec, cfg=cfg, workers=1, timeout=timeout, env={"TRACE": trace_path}, dfs=dfs)
        m = re.search(r'<<"HWM", (\d+), "OF", (\d+)>>', r["out"])
        if explain:
            return None, None, None, r
        if not m:
            head = "\n".join(x[:300] for x in r["out"].splitlines()[:25])
            raise MachineryError("trace validation of %s produced no verdict:\n%s\n...\n%s" % (trace_path, head, tail(r["out"], 25)))
        hwm, n = int(m.group(1)), int(m.group(2))
        accepted = hwm == n + 1 and r["clean"]
        if not accepted and hwm == n + 1:
            raise MachineryError("trace consumed but TLC reported an error:\n" + tail(r["out"], 50))
        if "distinct" in r:
            with _LOCK:
                self.trace_states += r["distinct"]
        return accepted, hwm, n, r

    # --------------------------------------------------- validate with triage
    def validate(self, outdir, meta, dfs=False, max_findings=8, timeout=1800):
        """Validate every trace a driver wrote.  A rejected history is re-generated
        and re-judged; if it reproduces it becomes a VIOLATION with a replay file;
        the remainder of the trace is still checked.  The first pass over several
        trace files runs in parallel (one TLC each); triage is sequential."""
        jobs = [j for j in meta.get("jobs", []) if os.path.getsize(os.path.join(outdir, j["trace"])) > 0]
        first = {}
        if len(jobs) > 1 and not os.environ.get("VERIF_SERIAL"):
            from concurrent.futures import ThreadPoolExecutor
            def one(job):
                try:
                    return job["trace"], self.validate_file(job["spec"], os.path.join(outdir, job["trace"]), dfs=dfs, timeout=timeout)
                except MachineryError as ex:
                    return job["trace"], ex
            with ThreadPoolExecutor(max_workers=max(1, min(6, NCPU // 3))) as pool:
                for name, res in pool.map(one, jobs):
                    first[name] = res
        for job in jobs:
            path = os.path.join(outdir, job["trace"])
            spec = job["spec"]
            lines = open(path).read().splitlines()
            if not lines:
                continue
            nhist = sum(1 for x in lines if is_reset(x))
            found = 0
            while True:
                if found == 0 and job["trace"] in first:
                    res = first.pop(job["trace"])
                    if isinstance(res, MachineryError):
                        raise res
                    acc, hwm, n, r = res
                else:
                    cur = os.path.join(outdir, "_cur_" + job["trace"])
                    open(cur, "w").write("\n".join(lines) + "\n")
                    acc, hwm, n, r = self.validate_file(spec, cur, dfs=dfs, timeout=timeout)
                if acc:
                    break
                # localise: history containing line hwm (1-based)
                i = hwm - 1
                s = i
                while s > 0 and not is_reset(lines[s]):
                    s -= 1
                e = i + 1
                while e < len(lines) and not is_reset(lines[e]):
                    e += 1
                hist = lines[s:e]
                head = json.loads(hist[0]) if is_reset(hist[0]) else {}
                log("REJECTED %s line %d (history %s/%s, event %d of %d): %s" % (
                    job["trace"], hwm, head.get("gen"), head.get("case"), i - s + 1, len(hist), lines[i][:300]))
                self.triage(meta, spec, head, hist, i - s, dfs=dfs)
                found += 1
                lines = lines[:s] + lines[e:]
                if found >= max_findings or not lines:
                    log("stopping triage of %s after %d rejected histories" % (job["trace"], found))
                    break
            self.histories += nhist
            self.events += job.get("events", 0)
            self.trace_runs.append(dict(trace=job["trace"], spec=spec, events=job.get("events", 0), histories=nhist, rejected_histories=found))
            log("TRACE %-24s %-20s events=%d histories=%d rejected=%d" % (job["trace"], spec, job.get("events", 0), nhist, found))

    def triage(self, meta, spec, head, hist, idx, dfs=False):
        gen, case = head.get("gen"), head.get("case")
        driver = meta["_driver"]
        if gen is None:
            raise MachineryError("rejected history has no Reset header; cannot reproduce: " + hist[0][:200])
        # 1. reproduce against a fresh run of the real code
        out2, meta2 = self.drive(driver, gen=gen, case=case, args=meta.get("_args"), race=meta.get("_race", False),
                                 outdir=self.sub("repro"), tier=head.get("tier"), seed=head.get("seed"))
        rejected_again = False
        tl = ""
        for job in meta2.get("jobs", []):
            if job["spec"] != spec:
                continue
            p2 = os.path.join(out2, job["trace"])
            if not open(p2).read().strip():
                continue
            acc, hwm, n, r = self.validate_file(spec, p2, dfs=dfs)
            if not acc:
                rejected_again = True
                _, _, _, rx = self.validate_file(spec, p2, dfs=dfs, explain=True)
                tl = tail(rx["out"], 80)
                hist = open(p2).read().splitlines()
                idx = hwm - 1
        full_run = False
        if not rejected_again and not head.get("nondet"):
            # The history alone is accepted.  Behaviour that depends on state carried across histories (a package-level
            # cache, a pooled buffer, an earlier call's side effect) only shows in the context of the whole run: run the
            # whole driver again and look at the same history there.  The driver is deterministic in (seed, tier, args),
            # so a violation of this kind reproduces exactly; anything else stays unconfirmed.
            out3, meta3 = self.drive(driver, args=meta.get("_args"), race=meta.get("_race", False), outdir=self.sub("repro-full"),
                                     tier=head.get("tier"), seed=head.get("seed"))
            for job in meta3.get("jobs", []):
                if job["spec"] != spec:
                    continue
                p3 = os.path.join(out3, job["trace"])
                l3 = open(p3).read().splitlines()
                hs = [h for h in split_histories(l3) if is_reset(h[0]) and json.loads(h[0]).get("gen") == gen and json.loads(h[0]).get("case") == case]
                if not hs:
                    continue
                # (a) cheap: is the whole trace of the second run accepted?  then nothing recurs
                accw, hwmw, nw, rw = self.validate_file(spec, p3, dfs=dfs)
                if accw:
                    continue
                # (b) which history does the second run reject?  the same one -> exact reproduction (judged below);
                #     another history of the same generator at the same kind of event -> the behaviour recurs but where
                #     it shows depends on something the driver does not control (a sync.Pool, the collector): also confirmed
                hh = split_histories(l3)
                pos, rej = 0, None
                for h in hh:
                    if pos < hwmw <= pos + len(h):
                        rej = h
                        break
                    pos += len(h)
                same_ev = rej is not None and safe_json(l3[hwmw - 1]) and isinstance(safe_json(l3[hwmw - 1]), dict) and \
                    isinstance(safe_json(hist[idx]) if idx < len(hist) else None, dict) and safe_json(l3[hwmw - 1]).get("ev") == safe_json(hist[idx]).get("ev")
                if rej is not None and is_reset(rej[0]) and json.loads(rej[0]).get("gen") == gen and json.loads(rej[0]).get("case") != case and same_ev:
                    hs = [rej]
                    case = json.loads(rej[0]).get("case")
                    log("NOTE the second whole run rejects %s/%s at the same kind of event: recurring, schedule- or allocator-dependent behaviour" % (gen, case))
                # judge the run up to and including that history (its context), not the history alone
                upto = []
                for h in split_histories(l3):
                    upto += h
                    if h is hs[0] or h == hs[0]:
                        break
                pc = os.path.join(out3, "_ctx_" + job["trace"])
                open(pc, "w").write("\n".join(upto) + "\n")
                acc, hwm, n, r = self.validate_file(spec, pc, dfs=dfs)
                if not acc and hwm - 1 >= len(upto) - len(hs[0]):
                    rejected_again = True
                    full_run = True
                    _, _, _, rx = self.validate_file(spec, pc, dfs=dfs, explain=True)
                    tl = tail(rx["out"], 80)
                    hist = hs[0]
                    idx = hwm - 1 - (len(upto) - len(hs[0]))
                    log("NOTE history %s/%s is accepted on its own but rejected again in the context of the whole run: behaviour depends on state carried across calls" % (gen, case))
        if not rejected_again:
            if head.get("nondet"):
                log("NOTE rejected history %s/%s did not reproduce (timing dependent); recorded as unconfirmed" % (gen, case))
                self.extra.setdefault("unconfirmed_rejections", []).append(dict(gen=gen, case=case))
                raise MachineryError("rejection of %s/%s did not reproduce" % (gen, case))
            raise MachineryError("rejection of history %s/%s did not reproduce on a second run (alone or in the context of the whole run)" % (gen, case))
        # 2. write the replay
        os.makedirs(os.path.join(VERIF, "replays"), exist_ok=True)
        name = "%s-%s-%s-s%d.json" % (self.pid, gen, case, head.get("seed", self.seed))
        rp = os.path.join(VERIF, "replays", name)
        rec = dict(property=self.pid, driver=driver, spec=spec, tier=head.get("tier", self.tier), seed=head.get("seed", self.seed), gen=gen, case=case,
                   args=meta.get("_args") or {}, race=meta.get("_race", False), dfs=dfs, full_run=full_run,
                   rejected_event_index=idx, rejected_event=safe_json(hist[idx]) if idx < len(hist) else None,
                   history=[safe_json(x, 2000) for x in hist[:400]], tlc_explanation=tl)
        json.dump(rec, open(rp, "w"), indent=1)
        self.violations.append(rp)
        print("VIOLATION property=%s replay=%s" % (self.pid, rp), flush=True)

    # ------------------------------------------------------ known findings
    def check_known(self):
        """Re-judge the witness of every open known finding of this property.
        Still rejected -> KNOWN-FINDING line; accepted (someone repaired it) -> silent."""
        for k in self.open_findings():
            w = k["witness"]
            out, meta = self.drive(w["driver"], gen=w["gen"], case=w.get("case", 0), args=w.get("args"), race=w.get("race", False), outdir=self.sub("kf"))
            rejected = False
            for job in meta.get("jobs", []):
                p = os.path.join(out, job["trace"])
                if not open(p).read().strip():
                    continue
                acc, hwm, n, r = self.validate_file(job["spec"], p, dfs=w.get("dfs", False))
                if not acc:
                    rejected = True
            if rejected:
                print("KNOWN-FINDING: property=%s %s: %s" % (self.pid, k["id"], k["what"]), flush=True)
                self.known_hits.append(k["id"])
            else:
                log("note: known finding %s no longer reproduces (witness accepted)" % k["id"])

    # ------------------------------------------------------------ self test
    def selftest(self, outdir, meta, gen, spec=None, dfs=False, field=None, removed=True, remove_match=None):
        """Binding demonstration: a corrupted field and a removed event of a good
        history must both be rejected by the trace specification."""
        for job in meta.get("jobs", []):
            if spec and job["spec"] != spec:
                continue
            lines = open(os.path.join(outdir, job["trace"])).read().splitlines()
            hists = split_histories(lines)
            cand = [h for h in hists if json.loads(h[0]).get("gen") == gen and len(h) >= 3]
            if not cand:
                continue
            h = cand[0]
            # (a) corrupt one recorded field
            hc, what = corrupt(h, field)
            if hc is None:
                raise MachineryError("self-test: no mutable field %s in the history of gen %s (nothing would be judged)" % (field, gen))
            # (b) remove one event (default: the first after Reset; remove_match: the first event having these fields)
            ri = 1
            if remove_match:
                ri = next((i for i in range(1, len(h)) if all(json.loads(h[i]).get(k) == v for k, v in remove_match.items())), None)
                if ri is None:
                    raise MachineryError("self-test: no event matching %s in history of gen %s" % (remove_match, gen))
            hr = h[:ri] + h[ri + 1:]
            res = {}
            for tag, hh in (("corrupted_field", hc), ("removed_event", hr)):
                if hh is None or (tag == "removed_event" and not removed):
                    continue
                p = os.path.join(outdir, "_selftest_%s.ndjson" % tag)
                open(p, "w").write("\n".join(hh) + "\n")
                st = self.trace_states
                acc, hwm, n, r = self.validate_file(job["spec"], p, dfs=dfs)
                self.trace_states = st
                res[tag + "_rejected"] = (not acc)
            res["corrupted"] = what
            self.selftests[job["spec"] + ":" + gen] = res
            if not all(v for k, v in res.items() if k.endswith("_rejected")):
                raise MachineryError("binding self-test failed for %s: %s" % (job["spec"], res))
            log("SELFTEST %s %s" % (job["spec"], res))
            return
        raise MachineryError("self-test found no history of gen %s" % gen)

    # --------------------------------------------------------------- finish
    def write_evidence(self, level="model_checking"):
        evdir = os.environ.get("VERIF_EVIDENCE_DIR") or os.path.join(VERIF, "evidence")
        os.makedirs(evdir, exist_ok=True)
        cov = dict(
            states=max(self.mc_states, 0) + self.trace_states,
            transitions=self.mc_transitions + self.trace_states,
            traces_validated_against_impl=self.histories,
            samples=self.samples or [dict(note="no sample recorded")],
            evaluations=max(self.evaluations, 1),
            distinct_nontrivial=self.distinct,
            rule="; ".join(self.rules),
            model_checking_runs=self.mc_runs,
            model_states=self.mc_states,
            trace_validation_states=self.trace_states,
            trace_events=self.events,
            trace_runs=self.trace_runs,
            binding_selftests=self.selftests,
            known_findings_reproduced=self.known_hits,
            exhaustive=False,
        )
        cov.update(self.extra)
        ev = dict(property_id=self.pid, tier=self.tier, seed=self.seed, level=level, coverage=cov,
                  assumptions=self.assumptions, wall_s=round(time.time() - self.t0, 1), violations=len(self.violations))
        p = os.path.join(evdir, self.pid + ".json")
        json.dump(ev, open(p, "w"), indent=1)
        return p


def tail(s, n=30):
    return "\n".join(s.splitlines()[-n:])


def is_reset(line):
    # keys are sorted by the harness's JSON encoder, so "ev" may sit behind large fields: look at the whole line,
    # but only at top-level position (a nested record never has "ev":"Reset")
    return '"ev":"Reset"' in line or '"ev": "Reset"' in line


def split_histories(lines):
    hs = []
    for ln in lines:
        if is_reset(ln) or not hs:
            hs.append([])
        hs[-1].append(ln)
    return hs


def safe_json(line, maxlen=20000):
    if len(line) > maxlen:
        return dict(truncated=line[:maxlen])
    try:
        return json.loads(line)
    except Exception:
        return line


def corrupt(hist, field=None):
    """flip one recorded observation in the history (first suitable event after Reset)"""
    for i in range(1, len(hist)):
        e = json.loads(hist[i])
        keys = [field] if field else [k for k in e if k not in ("ev", "op", "gen", "case")]
        for k in keys:
            if k not in e:
                continue
            v = e[k]
            nv = mutate_value(v)
            if nv is None:
                continue
            e2 = dict(e)
            e2[k] = nv
            out = list(hist)
            out[i] = json.dumps(e2, separators=(",", ":"))
            return out, dict(event=i, field=k)
    return None, None


def mutate_value(v):
    if isinstance(v, bool):
        return not v
    if isinstance(v, int):
        return v + 1
    if isinstance(v, list) and v and all(isinstance(x, int) and not isinstance(x, bool) for x in v):
        w = list(v)
        w[-1] = (w[-1] + 1) % 256
        return w
    if isinstance(v, str) and v:
        return v + "~"
    return None


def load_known_findings():
    if not os.path.exists(KF_FILE):
        return []
    return json.load(open(KF_FILE)).get("findings", [])


def main(pid, body, level="model_checking"):
    """entry used by checks/<id>.py through bin/check"""
    import argparse
    ap = argparse.ArgumentParser()
    ap.add_argument("--tier", default=os.environ.get("VERIF_TIER", "quick"), choices=["quick", "thorough"])
    ap.add_argument("--replay")
    ap.add_argument("--seed", type=int, default=int(os.environ.get("VERIF_SEED", "1") or 1))
    a = ap.parse_args(sys.argv[2:])
    run = Run(pid, a.tier, a.seed)
    rc = 0
    try:
        if a.replay:
            rc = replay(run, a.replay)
        else:
            body(run)
            run.check_known()
            run.write_evidence(level)
            rc = 1 if run.violations else 0
            log("%s %s tier=%s seed=%d: %s (%.0fs)" % (pid, "VIOLATIONS=%d" % len(run.violations) if rc else "OK", a.tier, a.seed,
                                                     "model states=%d trace states=%d histories=%d" % (run.mc_states, run.trace_states, run.histories), time.time() - run.t0))
    except MachineryError as ex:
        log("MACHINERY-ERROR %s: %s" % (pid, ex))
        # a confirmed, reproduced violation stands even if a later stage of the run failed
        rc = 1 if run.violations else 2
    finally:
        run.cleanup()
    sys.exit(rc)


def replay(run, path):
    rec = json.load(open(path))
    run.tier = rec.get("tier", run.tier)
    run.seed = rec.get("seed", run.seed)
    full = rec.get("full_run", False)
    if full:
        out, meta = run.drive(rec["driver"], args=rec.get("args"), race=rec.get("race", False))
    else:
        out, meta = run.drive(rec["driver"], gen=rec["gen"], case=rec["case"], args=rec.get("args"), race=rec.get("race", False))
    bad = False
    for job in meta.get("jobs", []):
        if full and job["spec"] != rec.get("spec"):
            continue
        p = os.path.join(out, job["trace"])
        if not open(p).read().strip():
            continue
        if full:
            # judge the run up to and including the recorded history
            upto, seen = [], False
            for h in split_histories(open(p).read().splitlines()):
                upto += h
                hd = json.loads(h[0]) if is_reset(h[0]) else {}
                if hd.get("gen") == rec["gen"] and hd.get("case") == rec["case"]:
                    seen = True
                    break
            if not seen:
                continue
            p = os.path.join(out, "_ctx_" + job["trace"])
            open(p, "w").write("\n".join(upto) + "\n")
        acc, hwm, n, r = run.validate_file(job["spec"], p, dfs=rec.get("dfs", False))
        if not acc:
            bad = True
            log("replay: %s rejected at line %d of %d: %s" % (job["trace"], hwm, n, open(p).read().splitlines()[hwm - 1][:400]))
    if bad:
        print("VIOLATION property=%s replay=%s" % (rec["property"], path), flush=True)
        return 1
    log("replay: history accepted by the specification (no violation on this tree)")
    return 0
