// Package c01 drives the real io.DataOutputX / io.DataInputX and records what
// every call did, for Trace_DataX.tla to judge against the reference format.
package c01

import (
	"fmt"
	"math"
	"math/rand"

	gio "github.com/whatap/golib/io"

	"verifharness/core"
)

func init() { core.Register("c01", Run) }

var intBoundaries = func() []int64 {
	var b []int64
	for _, sh := range []uint{7, 8, 15, 16, 23, 24, 31, 32, 39, 40, 47, 55, 62} {
		b = append(b, int64(1)<<sh, -(int64(1) << sh))
	}
	b = append(b, 0, math.MaxInt64, math.MinInt64, 253, 254, 255, 256, 65535, 65536)
	return b
}()

// RandInt64 draws a boundary-biased 64-bit value.
func RandInt64(r *rand.Rand) int64 {
	switch r.Intn(10) {
	case 0, 1, 2, 3:
		return intBoundaries[r.Intn(len(intBoundaries))] + int64(r.Intn(5)-2)
	case 4:
		return int64(r.Intn(7) - 3)
	case 5: // one-hot / all-ones up to a width
		w := uint(r.Intn(64))
		if r.Intn(2) == 0 {
			return int64(uint64(1) << w)
		}
		return int64((uint64(1) << w) - 1)
	case 6:
		return -int64(r.Uint64() >> uint(r.Intn(64)))
	default:
		return int64(r.Uint64() >> uint(r.Intn(64)))
	}
}

// clampSigned reduces v to a w-byte two's complement value (sign extended).
func clampSigned(v int64, w uint) int64 {
	sh := 64 - 8*w
	return (v << sh) >> sh
}

func randF32(r *rand.Rand) float32 {
	switch r.Intn(8) {
	case 0:
		return math.Float32frombits(0x7fc00000 | uint32(r.Intn(1<<22))) // quiet NaN payloads
	case 1:
		return math.Float32frombits(0x7f800001 + uint32(r.Intn(1<<22))) // signalling NaN payloads
	case 2:
		return math.Float32frombits([]uint32{0, 0x80000000, 1, 0x807fffff, 0x7f800000, 0xff800000, 0x7f7fffff, 0xffffffff}[r.Intn(8)])
	default:
		return math.Float32frombits(r.Uint32())
	}
}

func randF64(r *rand.Rand) float64 {
	switch r.Intn(8) {
	case 0:
		return math.Float64frombits(0x7ff8000000000000 | (r.Uint64() >> 13))
	case 1:
		return math.Float64frombits(0x7ff0000000000001 + (r.Uint64() >> 13))
	case 2:
		return math.Float64frombits([]uint64{0, 1 << 63, 1, 0x7ff0000000000000, 0xfff0000000000000, 0xffffffffffffffff}[r.Intn(6)])
	default:
		return math.Float64frombits(r.Uint64())
	}
}

// Lengths.  A length travels in a count cell of 1, 2 or 4 bytes; a cell has boundaries at the
// carry into each of its bytes (255/256, 65535/65536), at its sign bit (127/128, 32767/32768), at its
// maximum (253 for the one-byte blob form, 65535 for 16 bits) and at the widths of the fixed cells
// (a result as short as a scalar: 1..9 bytes).  Both sides of every boundary are driven.
var blobLens = []int{0, 1, 2, 3, 4, 5, 7, 8, 9, 126, 127, 128, 129, 252, 253, 254, 255, 256, 257}
var bigLens = []int{32766, 32767, 32768, 32769, 65534, 65535, 65536, 65537, 70000}

func randLen(r *rand.Rand, allowBig bool, max int) int {
	n := 0
	switch r.Intn(6) {
	case 0, 1:
		n = blobLens[r.Intn(len(blobLens))]
	case 2:
		if allowBig {
			if r.Intn(3) == 0 { // anywhere in the range of the 16-bit cell and a little beyond (log-uniform)
				n = 258 + int(r.Int63n(int64(1)<<uint(8+r.Intn(9))))
			} else {
				n = bigLens[r.Intn(len(bigLens))]
			}
		} else {
			n = r.Intn(40)
		}
	case 3:
		n = r.Intn(12) // as short as a scalar
	default:
		n = r.Intn(40)
	}
	if n > max {
		n = max
	}
	return n
}

func randBytes(r *rand.Rand, n int) []byte {
	b := make([]byte, n)
	if n > 4096 { // keep big payloads cheap but position dependent
		for i := range b {
			b[i] = byte(i*7 + n)
		}
		return b
	}
	r.Read(b)
	return b
}

func randText(r *rand.Rand, n int) string {
	const alpha = "abcXYZ019 _-=/\t한é"
	rs := []rune(alpha)
	out := make([]byte, 0, n+4)
	for len(out) < n {
		out = append(out, string(rs[r.Intn(len(rs))])...)
	}
	return string(out[:n]) // may cut a rune: arbitrary bytes are legal text on the wire
}

type item struct {
	op string
	v  interface{} // projected value as logged
	wr func(o *gio.DataOutputX)
	rd func(in *gio.DataInputX) interface{}
	// kinds whose read hands back a reference (slice, string, array): the caller keeps it.
	again  func() interface{} // the kept result projected NOW (nil: the result is a plain Go value)
	scrib  func()             // the caller overwrites the kept result it owns (and the spare capacity behind it)
	wscrib func()             // the caller overwrites the argument it handed to the write, after the call returned
	n      int                // payload bytes / elements (volume control)
	desc   string
}

func w8s(vs []int64) []core.Bytes {
	out := make([]core.Bytes, len(vs))
	for i, v := range vs {
		out[i] = core.W8(v)
	}
	return out
}

var opNames = []string{"Bool", "Byte", "Short", "UShort", "UShortB", "Int3", "Int", "UInt", "Long5", "Long",
	"Float", "Double", "Decimal", "Blob", "Text", "ShortBytes", "IntBytes", "TextShort", "Raw",
	"ShortArr", "IntArr", "LongArr", "FloatArr", "DoubleArr", "TextArr"}

// kinds with a length / count cell
var byteOps = []string{"Blob", "Text", "ShortBytes", "TextShort", "IntBytes", "Raw"}
var arrayOps = []string{"ShortArr", "IntArr", "LongArr", "FloatArr", "DoubleArr", "TextArr"}

func maxLenOf(op string) int {
	switch op {
	case "ShortBytes", "TextShort":
		return 65535
	}
	return 1 << 20
}

var arrBoundary = []int{126, 127, 128, 129, 254, 255, 256, 257}

func arrLen(r *rand.Rand, big bool) int {
	switch r.Intn(8) {
	case 0:
		return 0
	case 1:
		return 1
	case 2:
		if big {
			return []int{32767, 32766, 256, 255}[r.Intn(4)]
		}
		return 2
	case 3:
		if r.Intn(2) == 0 {
			return arrBoundary[r.Intn(len(arrBoundary))]
		}
		return r.Intn(6)
	default:
		return r.Intn(6)
	}
}

// scribBytes: what a caller may do with a byte slice it owns -- overwrite it, and use the capacity behind it
func scribBytes(b []byte) {
	for i := range b {
		b[i] ^= 0xa5
	}
	x := b[:cap(b)]
	for i := len(b); i < len(x) && i < len(b)+64; i++ {
		x[i] ^= 0x5a
	}
}

// genItem draws one write/read pair of kind op.  n < 0: the length / count is drawn too.
func genItem(r *rand.Rand, op string, big bool) item { return genItemN(r, op, big, -1, 0) }

// nilMode: how "no bytes / no elements" is handed to the write: 0 drawn, 1 nil, 2 empty but not nil
func genItemN(r *rand.Rand, op string, big bool, n int, nilMode int) item {
	it := item{op: op}
	asNil := func() bool {
		switch nilMode {
		case 1:
			return true
		case 2:
			return false
		}
		return r.Intn(2) == 0
	}
	bytesArg := func(max int) []byte { // the byte string handed to a write: nil and empty are both "no bytes"
		if n < 0 {
			n = randLen(r, big, max)
		}
		it.n = n
		if n == 0 && asNil() {
			return nil
		}
		return randBytes(r, n)
	}
	textArg := func(max int) string {
		if n < 0 {
			n = randLen(r, big, max)
		}
		it.n = n
		return randText(r, n)
	}
	count := func(big bool) int {
		if n < 0 {
			n = arrLen(r, big)
		}
		it.n = n
		return n
	}
	keepBytes := func(read func(in *gio.DataInputX) []byte) {
		var got []byte
		it.rd = func(in *gio.DataInputX) interface{} { got = read(in); return core.Cp(got) }
		it.again = func() interface{} { return core.Cp(got) }
		it.scrib = func() { scribBytes(got) }
	}
	keepText := func(read func(in *gio.DataInputX) string) {
		var got string
		it.rd = func(in *gio.DataInputX) interface{} { got = read(in); return core.Str(got) }
		it.again = func() interface{} { return core.Str(got) } // a string is immutable only if it does not share memory
	}
	switch op {
	case "Bool":
		b := r.Intn(2) == 1
		it.v = b
		it.wr = func(o *gio.DataOutputX) { o.WriteBool(b) }
		it.rd = func(in *gio.DataInputX) interface{} { return in.ReadBool() }
	case "Byte":
		b := byte(r.Intn(256))
		it.v = int(b)
		it.wr = func(o *gio.DataOutputX) { o.WriteByte(b) }
		it.rd = func(in *gio.DataInputX) interface{} { return int(in.ReadByte()) }
	case "Short":
		v := int16(clampSigned(RandInt64(r), 2))
		it.v = core.W8(int64(v))
		it.wr = func(o *gio.DataOutputX) { o.WriteShort(v) }
		it.rd = func(in *gio.DataInputX) interface{} { return core.W8(int64(in.ReadShort())) }
	case "UShort":
		v := uint16(RandInt64(r))
		it.v = core.W8(int64(v))
		it.wr = func(o *gio.DataOutputX) { o.WriteUShort(v) }
		it.rd = func(in *gio.DataInputX) interface{} { return core.W8(int64(in.ReadUShort())) }
	case "UShortB":
		v := uint16(RandInt64(r))
		it.v = core.W8(int64(v))
		it.wr = func(o *gio.DataOutputX) { o.WriteUShort(v) }
		it.rd = func(in *gio.DataInputX) interface{} { return core.W8(int64(in.ReadUnsignedShort())) }
	case "Int3":
		v := int32(clampSigned(RandInt64(r), 3))
		it.v = core.W8(int64(v))
		it.wr = func(o *gio.DataOutputX) { o.WriteInt3(v) }
		it.rd = func(in *gio.DataInputX) interface{} { return core.W8(int64(in.ReadInt3())) }
	case "Int":
		v := int32(clampSigned(RandInt64(r), 4))
		it.v = core.W8(int64(v))
		it.wr = func(o *gio.DataOutputX) { o.WriteInt(v) }
		it.rd = func(in *gio.DataInputX) interface{} { return core.W8(int64(in.ReadInt())) }
	case "UInt":
		v := uint32(RandInt64(r))
		it.v = core.W8(int64(v))
		it.wr = func(o *gio.DataOutputX) { o.WriteInt(int32(v)) }
		it.rd = func(in *gio.DataInputX) interface{} { return core.W8(int64(in.ReadUnsignedInt())) }
	case "Long5":
		v := clampSigned(RandInt64(r), 5)
		it.v = core.W8(v)
		it.wr = func(o *gio.DataOutputX) { o.WriteLong5(v) }
		it.rd = func(in *gio.DataInputX) interface{} { return core.W8(in.ReadLong5()) }
	case "Long":
		v := RandInt64(r)
		it.v = core.W8(v)
		it.wr = func(o *gio.DataOutputX) { o.WriteLong(v) }
		it.rd = func(in *gio.DataInputX) interface{} { return core.W8(in.ReadLong()) }
	case "Decimal":
		v := RandInt64(r)
		it.v = core.W8(v)
		it.wr = func(o *gio.DataOutputX) { o.WriteDecimal(v) }
		it.rd = func(in *gio.DataInputX) interface{} { return core.W8(in.ReadDecimal()) }
	case "Float":
		v := randF32(r)
		it.v = core.F32(v)
		it.wr = func(o *gio.DataOutputX) { o.WriteFloat(v) }
		it.rd = func(in *gio.DataInputX) interface{} { return core.F32(in.ReadFloat()) }
	case "Double":
		v := randF64(r)
		it.v = core.F64(v)
		it.wr = func(o *gio.DataOutputX) { o.WriteDouble(v) }
		it.rd = func(in *gio.DataInputX) interface{} { return core.F64(in.ReadDouble()) }
	case "Blob":
		b := bytesArg(1 << 20)
		it.v = core.Cp(b)
		it.wr = func(o *gio.DataOutputX) { o.WriteBlob(b) }
		it.wscrib = func() { scribBytes(b) }
		keepBytes(func(in *gio.DataInputX) []byte { return in.ReadBlob() })
	case "Text":
		s := textArg(1 << 20)
		it.v = core.Str(s)
		it.wr = func(o *gio.DataOutputX) { o.WriteText(s) }
		keepText(func(in *gio.DataInputX) string { return in.ReadText() })
	case "ShortBytes":
		b := bytesArg(65535)
		it.v = core.Cp(b)
		it.wr = func(o *gio.DataOutputX) { o.WriteShortBytes(b) }
		it.wscrib = func() { scribBytes(b) }
		keepBytes(func(in *gio.DataInputX) []byte { return in.ReadShortBytes() })
	case "IntBytes":
		b := bytesArg(1 << 20)
		it.v = core.Cp(b)
		it.wr = func(o *gio.DataOutputX) { o.WriteIntBytes(b) }
		it.wscrib = func() { scribBytes(b) }
		if r.Intn(3) == 0 { // the bounded reader, with a bound the value respects
			max := len(b) + r.Intn(3)
			keepBytes(func(in *gio.DataInputX) []byte { return in.ReadIntBytesLimit(max) })
		} else {
			keepBytes(func(in *gio.DataInputX) []byte { return in.ReadIntBytes() })
		}
	case "TextShort":
		s := textArg(65535)
		it.v = core.Str(s)
		it.wr = func(o *gio.DataOutputX) { o.WriteTextShortLength(s) }
		keepText(func(in *gio.DataInputX) string { return in.ReadTextShortLength() })
	case "Raw": // WriteBytes(b) / Write(b, off, n): no prefix; the matching read is ReadBytes(n)
		b := bytesArg(1 << 20)
		it.v = core.Cp(b)
		ln := int32(len(b))
		if r.Intn(2) == 0 {
			it.wr = func(o *gio.DataOutputX) { o.WriteBytes(b) }
			it.wscrib = func() { scribBytes(b) }
		} else { // a window of a larger array
			off := r.Intn(5)
			frame := make([]byte, off+len(b)+r.Intn(5))
			r.Read(frame)
			copy(frame[off:], b)
			it.wr = func(o *gio.DataOutputX) { o.Write(frame, off, len(b)) }
			it.wscrib = func() { scribBytes(frame) }
		}
		keepBytes(func(in *gio.DataInputX) []byte { return in.ReadBytes(ln) })
	case "ShortArr":
		n := count(big)
		var a []int16
		if n > 0 || !asNil() {
			a = make([]int16, n)
		}
		vs := make([]int64, n)
		for i := range a {
			a[i] = int16(RandInt64(r))
			vs[i] = int64(a[i])
		}
		it.v = w8s(vs)
		it.wr = func(o *gio.DataOutputX) { o.WriteShortArray(a) }
		it.wscrib = func() {
			for i := range a {
				a[i] = ^a[i]
			}
		}
		var got []int16
		proj := func() interface{} {
			o := make([]int64, len(got))
			for i := range got {
				o[i] = int64(got[i])
			}
			return w8s(o)
		}
		it.rd = func(in *gio.DataInputX) interface{} { got = in.ReadShortArray(); return proj() }
		it.again = proj
		it.scrib = func() {
			for i := range got {
				got[i] = ^got[i]
			}
		}
	case "IntArr":
		n := count(big)
		var a []int32
		if n > 0 || !asNil() {
			a = make([]int32, n)
		}
		vs := make([]int64, n)
		for i := range a {
			a[i] = int32(RandInt64(r))
			vs[i] = int64(a[i])
		}
		it.v = w8s(vs)
		it.wr = func(o *gio.DataOutputX) { o.WriteIntArray(a) }
		it.wscrib = func() {
			for i := range a {
				a[i] = ^a[i]
			}
		}
		var got []int32
		proj := func() interface{} {
			o := make([]int64, len(got))
			for i := range got {
				o[i] = int64(got[i])
			}
			return w8s(o)
		}
		it.rd = func(in *gio.DataInputX) interface{} { got = in.ReadIntArray(); return proj() }
		it.again = proj
		it.scrib = func() {
			for i := range got {
				got[i] = ^got[i]
			}
		}
	case "LongArr":
		n := count(big)
		var a []int64
		if n > 0 || !asNil() {
			a = make([]int64, n)
		}
		for i := range a {
			a[i] = RandInt64(r)
		}
		it.v = w8s(a)
		it.wr = func(o *gio.DataOutputX) { o.WriteLongArray(a) }
		it.wscrib = func() {
			for i := range a {
				a[i] = ^a[i]
			}
		}
		var got []int64
		it.rd = func(in *gio.DataInputX) interface{} { got = in.ReadLongArray(); return w8s(got) }
		it.again = func() interface{} { return w8s(got) }
		it.scrib = func() {
			for i := range got {
				got[i] = ^got[i]
			}
		}
	case "FloatArr":
		n := count(big)
		var a []float32
		if n > 0 || !asNil() {
			a = make([]float32, n)
		}
		vs := make([]core.Bytes, n)
		for i := range a {
			a[i] = randF32(r)
			vs[i] = core.F32(a[i])
		}
		it.v = vs
		it.wr = func(o *gio.DataOutputX) { o.WriteFloatArray(a) }
		it.wscrib = func() {
			for i := range a {
				a[i] = 1.5
			}
		}
		var got []float32
		proj := func() interface{} {
			o := make([]core.Bytes, len(got))
			for i := range got {
				o[i] = core.F32(got[i])
			}
			return o
		}
		it.rd = func(in *gio.DataInputX) interface{} { got = in.ReadFloatArray(); return proj() }
		it.again = proj
		it.scrib = func() {
			for i := range got {
				got[i] = 2.5
			}
		}
	case "DoubleArr":
		n := count(big)
		var a []float64
		if n > 0 || !asNil() {
			a = make([]float64, n)
		}
		vs := make([]core.Bytes, n)
		for i := range a {
			a[i] = randF64(r)
			vs[i] = core.F64(a[i])
		}
		it.v = vs
		it.wr = func(o *gio.DataOutputX) { o.WriteDoubleArray(a) }
		it.wscrib = func() {
			for i := range a {
				a[i] = 1.5
			}
		}
		var got []float64
		proj := func() interface{} {
			o := make([]core.Bytes, len(got))
			for i := range got {
				o[i] = core.F64(got[i])
			}
			return o
		}
		it.rd = func(in *gio.DataInputX) interface{} { got = in.ReadDoubleArray(); return proj() }
		it.again = proj
		it.scrib = func() {
			for i := range got {
				got[i] = 2.5
			}
		}
	case "TextArr":
		// sparse arrays: (mostly) empty strings, i.e. the minimal one byte per element -- an array whose
		// encoding is as short as its count allows, which is what a count-vs-remaining guard must still accept
		sparse := r.Intn(3) == 0
		if n < 0 {
			n = arrLen(r, false)
			if sparse && r.Intn(2) == 0 {
				n = 1 + r.Intn(40)
			}
		} else if n > 300 {
			sparse = true
		}
		it.n = n
		var a []string
		if n > 0 || !asNil() {
			a = make([]string, n)
		}
		vs := make([]core.Bytes, n)
		for i := range a {
			if sparse && (r.Intn(5) != 0 || n > 300 && r.Intn(50) != 0) {
				vs[i] = core.Str("")
				continue
			}
			a[i] = randText(r, randLen(r, false, 300))
			vs[i] = core.Str(a[i])
		}
		it.v = vs
		it.wr = func(o *gio.DataOutputX) { o.WriteTextArray(a) }
		it.wscrib = func() {
			for i := range a {
				a[i] = "~"
			}
		}
		var got []string
		proj := func() interface{} {
			o := make([]core.Bytes, len(got))
			for i := range got {
				o[i] = core.Str(got[i])
			}
			return o
		}
		it.rd = func(in *gio.DataInputX) interface{} { got = in.ReadTextArray(); return proj() }
		it.again = proj
		it.scrib = func() {
			for i := range got {
				got[i] = "~"
			}
		}
	default:
		panic("op " + op)
	}
	return it
}

// how a program is run: which observations the caller makes and what else it does with the two streams
type mode struct {
	quiet bool   // the output is not looked at between the writes (no ToByteArray()/Size() until the end)
	alias bool   // the reader is opened over the slice ToByteArray() returned, not over a copy of it
	scrib bool   // the caller overwrites some arguments after the write returned and some results it was handed
	late  []item // write calls on the output after the reader was opened, between the reads
	net   int    // > 0: the reader is opened over a connection that cuts the bytes this way (net.go: segWhole..)
}

func (m mode) String() string {
	s := ""
	if m.quiet {
		s += "q"
	}
	if m.alias {
		s += "a"
	}
	if m.scrib {
		s += "s"
	}
	if len(m.late) > 0 {
		s += fmt.Sprintf("l%d", len(m.late))
	}
	if m.net > 0 {
		s += "n" + segNames[m.net]
	}
	return s
}

const againMax = 4096 // results longer than this are looked at again only at the end of small programs

// stream runs one write-then-read program on the real codec.
func stream(c *core.Ctx, t *core.Trace, gen string, cas int, items []item) {
	streamM(c, t, gen, cas, items, mode{}, nil)
}

// streamM: r drives the caller's choices of mode m (nil: none).
func streamM(c *core.Ctx, t *core.Trace, gen string, cas int, items []item, m mode, r *rand.Rand) {
	coin := func(k int) bool { return r != nil && r.Intn(k) == 0 }
	var extra core.Ev
	if m.String() != "" {
		extra = core.Ev{"mode": m.String()}
	}
	t.Reset(gen, cas, extra)
	out := gio.NewDataOutputX()
	prev := 0
	key := ""
	if m.net > 0 {
		m.quiet = false // the cuts are placed by the encoded lengths
	}
	var flen []int // encoded length of every element
	for _, it := range items {
		msg := core.Guard(func() { it.wr(out) })
		if m.scrib && it.wscrib != nil && coin(2) {
			it.wscrib() // the argument belongs to the caller again
		}
		ev := core.Ev{"ev": "W", "op": it.op, "v": it.v}
		if !m.quiet {
			all := out.ToByteArray()
			ev["out"], ev["size"] = core.Cp(all[prev:]), out.Size()
			key += fmt.Sprintf("%s:%d;", it.op, len(all)-prev)
			flen = append(flen, len(all)-prev)
			prev = len(all)
		} else {
			key += fmt.Sprintf("%s:q%d;", it.op, it.n)
		}
		if msg != "" {
			ev["ev"] = "Panic"
			ev["msg"] = msg
		}
		t.Emit(ev)
	}
	whole := out.ToByteArray()
	open := core.Ev{"ev": "Open"}
	if m.quiet || len(whole) <= againMax {
		open["bytes"], open["size"] = core.Cp(whole), out.Size()
	}
	var in *gio.DataInputX
	var conn *segConn
	if m.net > 0 {
		// the transport carries the produced bytes (alias: the very slice ToByteArray() returned) and, behind
		// them, bytes that belong to nobody: a reader that takes more than its elements is seen by the count
		if r == nil {
			r = rand.New(rand.NewSource(int64(cas)))
		}
		segs := segments(r, m.net, flen)
		open["net"], open["segs"] = true, segsNote(m.net, segs)
		data := whole
		if !m.alias {
			data = append(core.Cp(whole), 0xee, 0xdd, 0xcc, 0xbb, 0xee, 0xdd, 0xcc, 0xbb, 0xee, 0xdd, 0xcc, 0xbb, 0xee, 0xdd, 0xcc, 0xbb)
		}
		conn = &segConn{data: data, segs: segs}
		in = gio.NewDataInputNet(conn)
	} else if m.alias {
		in = gio.NewDataInputX(whole)
	} else {
		in = gio.NewDataInputX(core.Cp(whole))
	}
	t.Emit(open)
	prev = len(whole)
	kept := make([]bool, len(items)) // results the caller still holds unchanged
	seen := make([]int, len(items))  // number of calls on either stream when result j was last looked at
	calls := 0
	again := func(j int) {
		if seen[j] == calls {
			return // nothing has happened since
		}
		seen[j] = calls
		t.Emit(core.Ev{"ev": "Again", "i": j + 1, "kept": items[j].again()})
	}
	lastKept := -1
	late := m.late
	doLate := func() {
		it := late[0]
		late = late[1:]
		msg := core.Guard(func() { it.wr(out) })
		all := out.ToByteArray()
		ev := core.Ev{"ev": "WLate", "op": it.op, "v": it.v, "out": core.Cp(all[prev:]), "size": out.Size()}
		if msg != "" {
			ev["ev"], ev["msg"] = "Panic", msg
		}
		prev = len(all)
		t.Emit(ev)
		calls++
		if lastKept >= 0 && kept[lastKept] {
			again(lastKept)
		}
	}
	ok := true
	for k, it := range items {
		if len(late) > 0 && coin(len(items)) {
			doLate()
		}
		var ret interface{}
		if conn != nil {
			conn.calls = nil
		}
		msg := core.Guard(func() { ret = it.rd(in) })
		if conn != nil { // the Read calls this read made on the connection
			for _, rc := range conn.calls {
				ev := core.Ev{"ev": "Recv", "want": rc.want, "got": rc.got}
				if rc.data != nil {
					ev["data"] = core.Cp(rc.data)
				}
				t.Emit(ev)
			}
		}
		if msg != "" {
			t.Emit(core.Ev{"ev": "Panic", "op": it.op, "msg": msg})
			ok = false
			break
		}
		if conn != nil {
			t.Emit(core.Ev{"ev": "R", "ret": ret, "taken": conn.pos})
		} else {
			t.Emit(core.Ev{"ev": "R", "ret": ret, "avail": int(in.Available())})
		}
		calls++
		// what the previous read handed back, now that another read has happened on the stream
		if lastKept >= 0 && kept[lastKept] {
			again(lastKept)
		}
		if it.again != nil {
			if m.scrib && it.scrib != nil && coin(3) {
				it.scrib() // the caller does what it likes with its result; later reads must not notice
			} else if it.n <= againMax || len(items) <= 3 {
				kept[k] = true
				lastKept = k
				seen[k] = calls
			}
		}
	}
	for ok && len(late) > 0 {
		doLate()
	}
	if ok { // everything the caller still holds, after all reads and writes
		for j := range items {
			if kept[j] {
				again(j)
			}
		}
	}
	end := core.Ev{"ev": "End"}
	if fin := out.ToByteArray(); len(fin) <= againMax || m.quiet {
		end["obytes"], end["osize"] = core.Cp(fin), out.Size()
	} else {
		end["osize"] = out.Size()
	}
	t.Emit(end)
	c.Count(key+m.String(), len(items) > 0)
}

// drawMode: the caller's behaviour around a program
func drawMode(r *rand.Rand) mode {
	var m mode
	switch r.Intn(4) {
	case 0:
		m.quiet = true
	case 1:
		m.alias = true
		for k := 1 + r.Intn(3); k > 0; k-- {
			m.late = append(m.late, genItem(r, opNames[r.Intn(len(opNames))], false))
		}
	case 2:
		m.scrib = true
		m.alias = r.Intn(2) == 0
	}
	return m
}

func Run(c *core.Ctx) error {
	c.Rule = "random programs of 1..12 mixed write calls (25 op kinds, boundary-biased values and lengths) written with the real DataOutputX and read back with the matching DataInputX calls, every result that is a reference looked at again after later calls; a case is non-trivial if it has at least one write; distinct by (op, encoded length) sequence and caller mode"
	t := c.Trace("c01_stream", "Trace_DataX")
	tp := c.Trace("c01_prog", "Trace_DataX")
	tl := c.Trace("c01_lens", "Trace_DataX")
	tc := c.Trace("c01_counts", "Trace_DataX")
	tn := c.Trace("c01_net", "Trace_DataX")

	// gen "each": one single-op program per op kind and boundary value class
	if c.WantGen("each") {
		n := c.Pick(20, 200)
		cas := 0
		for _, op := range opNames {
			for i := 0; i < n; i++ {
				if c.Want("each", cas) {
					r := c.Rng("each", cas)
					it := genItem(r, op, i%16 == 3)
					stream(c, t, "each", cas, []item{it})
				}
				cas++
			}
		}
	}
	// gen "prog": mixed programs, the caller behaving in one of several ways around them
	if c.WantGen("prog") {
		n := c.Pick(300, 5000)
		for cas := 0; cas < n; cas++ {
			if !c.Want("prog", cas) {
				continue
			}
			r := c.Rng("prog", cas)
			k := 1 + r.Intn(12)
			items := make([]item, k)
			bigBudget := 1
			for i := range items {
				big := bigBudget > 0 && cas%10 == 0 && r.Intn(4) == 0
				if big {
					bigBudget--
				}
				items[i] = genItem(r, opNames[r.Intn(len(opNames))], big)
			}
			streamM(c, tp, "prog", cas, items, drawMode(r), r)
			if cas < 2 {
				var ops []string
				for _, it := range items {
					ops = append(ops, it.op)
				}
				c.Sample(map[string]interface{}{"gen": "prog", "case": cas, "ops": ops})
			}
		}
	}
	// gen "keep": programs dense in results that are references as short as a scalar (1..9 bytes / elements) between
	// scalars: whatever a reader holds between calls (a cell-sized scratch, a pooled buffer, a view of its input) is
	// reused by the very next small read
	if c.WantGen("keep") {
		n := c.Pick(60, 1000)
		refOps := append(append([]string{}, byteOps...), arrayOps...)
		for cas := 0; cas < n; cas++ {
			if !c.Want("keep", cas) {
				continue
			}
			r := c.Rng("keep", cas)
			k := 3 + r.Intn(8)
			items := make([]item, 0, k)
			for i := 0; i < k; i++ {
				if cas == 0 && i < 2 { // the binding self-test corrupts the kept bytes of this one: a blob, then a scalar
					items = append(items, genItemN(r, []string{"Blob", "Int"}[i], false, 1+r.Intn(9), 0))
				} else if i%2 == 0 || r.Intn(3) == 0 {
					items = append(items, genItemN(r, refOps[r.Intn(len(refOps))], false, 1+r.Intn(9), 0))
				} else {
					items = append(items, genItem(r, scalarOps[r.Intn(len(scalarOps))], false))
				}
			}
			m := mode{}
			if cas > 0 {
				m = drawMode(r)
			}
			streamM(c, tp, "keep", cas, items, m, r)
		}
	}
	// gen "net": the same kind of programs read back over a connection (NewDataInputNet) that hands the bytes
	// over in pieces: all at once, element by element, byte by byte, cut inside every element, cut at the edges
	// of every element (inside its length cell, before its last byte), random, one cut anywhere
	if c.WantGen("net") {
		n := c.Pick(210, 2100)
		for cas := 0; cas < n; cas++ {
			if !c.Want("net", cas) {
				continue
			}
			r := c.Rng("net", cas)
			k := 1 + r.Intn(12)
			if cas == 0 {
				k = 3 // (the binding self-test uses this one: it must have a read)
			}
			items := make([]item, k)
			bigBudget := 1
			for i := range items {
				big := bigBudget > 0 && cas%10 == 5 && r.Intn(3) == 0
				if big {
					bigBudget--
				}
				items[i] = genItem(r, opNames[r.Intn(len(opNames))], big)
			}
			m := drawMode(r)
			m.quiet = false
			m.net = 1 + cas%segN
			streamM(c, tn, "net", cas, items, m, r)
		}
	}
	// gens "lens" / "counts": every kind with a length or count cell at both sides of every boundary of the cell
	runLens(c, tl, tc)
	// gens "netlens" / "netcounts": the same cases over a connection that cuts inside the elements
	runLensNet(c, tn)
	// gen "static": the static helpers, their results kept
	runStatic(c, t)
	// gen "le": little-endian helpers on boundary and random byte strings
	if c.WantGen("le") {
		n := c.Pick(400, 20000)
		var r *rand.Rand
		for i := 0; i < n; i++ {
			if i%20 == 0 { // one history per 20 byte strings
				if !c.Want("le", i/20) {
					i += 19
					continue
				}
				r = c.Rng("le", i/20)
				t.Reset("le", i/20, nil)
			}
			b := make([]byte, 8)
			r.Read(b)
			switch i % 5 {
			case 0:
				for j := range b {
					b[j] = []byte{0, 0xff, 0x80, 0x7f, 1}[r.Intn(5)]
				}
			}
			emitLE(t, b)
			c.Count(fmt.Sprintf("le:%x", b), true)
		}
	}
	// gen "short16": every 16-bit pattern through the short paths (thorough)
	if c.WantGen("short16") && (c.Thorough() || c.OnlyGen == "short16") {
		t.Reset("short16", 0, nil)
		for p := 0; p < 65536; p++ {
			b := []byte{byte(p >> 8), byte(p)}
			t.Emit(core.Ev{"ev": "LE", "op": "ShortLE", "in": core.Cp(b), "ret": core.W8(int64(gio.NewDataInputX(core.Cp(b)).ReadShortLittle()))})
			t.Emit(core.Ev{"ev": "LE", "op": "UShortLE", "in": core.Cp(b), "ret": core.W8(int64(gio.NewDataInputX(core.Cp(b)).ReadUnsignedShortLittle()))})
		}
		// and the big-endian round trip of every pattern as 64 programs of 1024 shorts
		for blk := 0; blk < 64; blk++ {
			items := make([]item, 0, 1024)
			for p := blk * 1024; p < (blk+1)*1024; p++ {
				v := int16(p)
				op := "Short"
				it := item{op: op, v: core.W8(int64(v))}
				it.wr = func(o *gio.DataOutputX) { o.WriteShort(v) }
				it.rd = func(in *gio.DataInputX) interface{} { return core.W8(int64(in.ReadShort())) }
				if p%2 == 1 {
					u := uint16(p)
					it = item{op: "UShort", v: core.W8(int64(u))}
					it.wr = func(o *gio.DataOutputX) { o.WriteUShort(u) }
					it.rd = func(in *gio.DataInputX) interface{} { return core.W8(int64(in.ReadUShort())) }
				}
				items = append(items, it)
			}
			stream(c, t, "short16", blk+1, items)
		}
	}
	// gens "sweepref"/"sweepfail": the pattern-space sweeps (sweep.go)
	if c.OnlyGen == "" || c.OnlyGen == "sweepref" || c.OnlyGen == "sweepfail" {
		runSweep(c, t)
	}
	return nil
}

func emitLE(t *core.Trace, b []byte) {
	t.Emit(core.Ev{"ev": "LE", "op": "ShortLE", "in": core.Cp(b[:2]), "ret": core.W8(int64(gio.NewDataInputX(core.Cp(b)).ReadShortLittle()))})
	t.Emit(core.Ev{"ev": "LE", "op": "UShortLE", "in": core.Cp(b[:2]), "ret": core.W8(int64(gio.NewDataInputX(core.Cp(b)).ReadUnsignedShortLittle()))})
	t.Emit(core.Ev{"ev": "LE", "op": "IntLE", "in": core.Cp(b[:4]), "ret": core.W8(int64(gio.NewDataInputX(core.Cp(b)).ReadIntLittle()))})
	t.Emit(core.Ev{"ev": "LE", "op": "UIntLE", "in": core.Cp(b[:4]), "ret": core.W8(int64(gio.NewDataInputX(core.Cp(b)).ReadUintLittle()))})
	t.Emit(core.Ev{"ev": "LE", "op": "LongLE", "in": core.Cp(b), "ret": core.W8(gio.ToLongLittle(b, 0))})
	t.Emit(core.Ev{"ev": "LE", "op": "ULongLE", "in": core.Cp(b), "ret": core.U8(gio.ToUlongLittle(b, 0))})
}
