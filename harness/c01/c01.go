// Package c01 drives the real io.DataOutputX / io.DataInputX and records what
// every call did, for Trace_DataX.tla to judge against the reference format.
package c01

import (
	"fmt"
	"math"
	"math/rand"

	gio "github.com/whatap/golib/io"

	"verifharness/core"
)

func init() { core.Register("c01", Run) }

var intBoundaries = func() []int64 {
	var b []int64
	for _, sh := range []uint{7, 8, 15, 16, 23, 24, 31, 32, 39, 40, 47, 55, 62} {
		b = append(b, int64(1)<<sh, -(int64(1) << sh))
	}
	b = append(b, 0, math.MaxInt64, math.MinInt64, 253, 254, 255, 256, 65535, 65536)
	return b
}()

// RandInt64 draws a boundary-biased 64-bit value.
func RandInt64(r *rand.Rand) int64 {
	switch r.Intn(10) {
	case 0, 1, 2, 3:
		return intBoundaries[r.Intn(len(intBoundaries))] + int64(r.Intn(5)-2)
	case 4:
		return int64(r.Intn(7) - 3)
	case 5: // one-hot / all-ones up to a width
		w := uint(r.Intn(64))
		if r.Intn(2) == 0 {
			return int64(uint64(1) << w)
		}
		return int64((uint64(1) << w) - 1)
	case 6:
		return -int64(r.Uint64() >> uint(r.Intn(64)))
	default:
		return int64(r.Uint64() >> uint(r.Intn(64)))
	}
}

// clampSigned reduces v to a w-byte two's complement value (sign extended).
func clampSigned(v int64, w uint) int64 {
	sh := 64 - 8*w
	return (v << sh) >> sh
}

func randF32(r *rand.Rand) float32 {
	switch r.Intn(8) {
	case 0:
		return math.Float32frombits(0x7fc00000 | uint32(r.Intn(1<<22))) // quiet NaN payloads
	case 1:
		return math.Float32frombits(0x7f800001 + uint32(r.Intn(1<<22))) // signalling NaN payloads
	case 2:
		return math.Float32frombits([]uint32{0, 0x80000000, 1, 0x807fffff, 0x7f800000, 0xff800000, 0x7f7fffff, 0xffffffff}[r.Intn(8)])
	default:
		return math.Float32frombits(r.Uint32())
	}
}

func randF64(r *rand.Rand) float64 {
	switch r.Intn(8) {
	case 0:
		return math.Float64frombits(0x7ff8000000000000 | (r.Uint64() >> 13))
	case 1:
		return math.Float64frombits(0x7ff0000000000001 + (r.Uint64() >> 13))
	case 2:
		return math.Float64frombits([]uint64{0, 1 << 63, 1, 0x7ff0000000000000, 0xfff0000000000000, 0xffffffffffffffff}[r.Intn(6)])
	default:
		return math.Float64frombits(r.Uint64())
	}
}

var blobLens = []int{0, 1, 2, 252, 253, 254, 255, 256, 257}
var bigLens = []int{65534, 65535, 65536, 65537, 70000}

func randLen(r *rand.Rand, allowBig bool, max int) int {
	n := 0
	switch r.Intn(6) {
	case 0, 1:
		n = blobLens[r.Intn(len(blobLens))]
	case 2:
		if allowBig {
			n = bigLens[r.Intn(len(bigLens))]
		} else {
			n = r.Intn(40)
		}
	default:
		n = r.Intn(40)
	}
	if n > max {
		n = max
	}
	return n
}

func randBytes(r *rand.Rand, n int) []byte {
	b := make([]byte, n)
	if n > 4096 { // keep big payloads cheap but position dependent
		for i := range b {
			b[i] = byte(i*7 + n)
		}
		return b
	}
	r.Read(b)
	return b
}

func randText(r *rand.Rand, n int) string {
	const alpha = "abcXYZ019 _-=/\t한é"
	rs := []rune(alpha)
	out := make([]rune, 0, n)
	for len(string(out)) < n {
		out = append(out, rs[r.Intn(len(rs))])
	}
	s := string(out)
	if len(s) > n {
		s = s[:n] // may cut a rune: arbitrary bytes are legal text on the wire
	}
	return s
}

type item struct {
	op   string
	v    interface{} // projected value as logged
	wr   func(o *gio.DataOutputX)
	rd   func(in *gio.DataInputX) interface{}
	desc string
}

func w8s(vs []int64) []core.Bytes {
	out := make([]core.Bytes, len(vs))
	for i, v := range vs {
		out[i] = core.W8(v)
	}
	return out
}

var opNames = []string{"Bool", "Byte", "Short", "UShort", "UShortB", "Int3", "Int", "UInt", "Long5", "Long",
	"Float", "Double", "Decimal", "Blob", "Text", "ShortBytes", "IntBytes", "TextShort",
	"ShortArr", "IntArr", "LongArr", "FloatArr", "DoubleArr", "TextArr"}

func arrLen(r *rand.Rand, big bool) int {
	switch r.Intn(8) {
	case 0:
		return 0
	case 1:
		return 1
	case 2:
		if big {
			return []int{32767, 32766, 256, 255}[r.Intn(4)]
		}
		return 2
	default:
		return r.Intn(6)
	}
}

func genItem(r *rand.Rand, op string, big bool) item {
	it := item{op: op}
	switch op {
	case "Bool":
		b := r.Intn(2) == 1
		it.v = b
		it.wr = func(o *gio.DataOutputX) { o.WriteBool(b) }
		it.rd = func(in *gio.DataInputX) interface{} { return in.ReadBool() }
	case "Byte":
		b := byte(r.Intn(256))
		it.v = int(b)
		it.wr = func(o *gio.DataOutputX) { o.WriteByte(b) }
		it.rd = func(in *gio.DataInputX) interface{} { return int(in.ReadByte()) }
	case "Short":
		v := int16(clampSigned(RandInt64(r), 2))
		it.v = core.W8(int64(v))
		it.wr = func(o *gio.DataOutputX) { o.WriteShort(v) }
		it.rd = func(in *gio.DataInputX) interface{} { return core.W8(int64(in.ReadShort())) }
	case "UShort":
		v := uint16(RandInt64(r))
		it.v = core.W8(int64(v))
		it.wr = func(o *gio.DataOutputX) { o.WriteUShort(v) }
		it.rd = func(in *gio.DataInputX) interface{} { return core.W8(int64(in.ReadUShort())) }
	case "UShortB":
		v := uint16(RandInt64(r))
		it.v = core.W8(int64(v))
		it.wr = func(o *gio.DataOutputX) { o.WriteUShort(v) }
		it.rd = func(in *gio.DataInputX) interface{} { return core.W8(int64(in.ReadUnsignedShort())) }
	case "Int3":
		v := int32(clampSigned(RandInt64(r), 3))
		it.v = core.W8(int64(v))
		it.wr = func(o *gio.DataOutputX) { o.WriteInt3(v) }
		it.rd = func(in *gio.DataInputX) interface{} { return core.W8(int64(in.ReadInt3())) }
	case "Int":
		v := int32(clampSigned(RandInt64(r), 4))
		it.v = core.W8(int64(v))
		it.wr = func(o *gio.DataOutputX) { o.WriteInt(v) }
		it.rd = func(in *gio.DataInputX) interface{} { return core.W8(int64(in.ReadInt())) }
	case "UInt":
		v := uint32(RandInt64(r))
		it.v = core.W8(int64(v))
		it.wr = func(o *gio.DataOutputX) { o.WriteInt(int32(v)) }
		it.rd = func(in *gio.DataInputX) interface{} { return core.W8(int64(in.ReadUnsignedInt())) }
	case "Long5":
		v := clampSigned(RandInt64(r), 5)
		it.v = core.W8(v)
		it.wr = func(o *gio.DataOutputX) { o.WriteLong5(v) }
		it.rd = func(in *gio.DataInputX) interface{} { return core.W8(in.ReadLong5()) }
	case "Long":
		v := RandInt64(r)
		it.v = core.W8(v)
		it.wr = func(o *gio.DataOutputX) { o.WriteLong(v) }
		it.rd = func(in *gio.DataInputX) interface{} { return core.W8(in.ReadLong()) }
	case "Decimal":
		v := RandInt64(r)
		it.v = core.W8(v)
		it.wr = func(o *gio.DataOutputX) { o.WriteDecimal(v) }
		it.rd = func(in *gio.DataInputX) interface{} { return core.W8(in.ReadDecimal()) }
	case "Float":
		v := randF32(r)
		it.v = core.F32(v)
		it.wr = func(o *gio.DataOutputX) { o.WriteFloat(v) }
		it.rd = func(in *gio.DataInputX) interface{} { return core.F32(in.ReadFloat()) }
	case "Double":
		v := randF64(r)
		it.v = core.F64(v)
		it.wr = func(o *gio.DataOutputX) { o.WriteDouble(v) }
		it.rd = func(in *gio.DataInputX) interface{} { return core.F64(in.ReadDouble()) }
	case "Blob":
		n := randLen(r, big, 1<<20)
		var b []byte
		if n > 0 || r.Intn(2) == 0 {
			b = randBytes(r, n) // n == 0: empty non-nil slice; else nil
		}
		it.v = core.Cp(b)
		it.wr = func(o *gio.DataOutputX) { o.WriteBlob(b) }
		it.rd = func(in *gio.DataInputX) interface{} { return core.Cp(in.ReadBlob()) }
	case "Text":
		s := randText(r, randLen(r, big, 1<<20))
		it.v = core.Str(s)
		it.wr = func(o *gio.DataOutputX) { o.WriteText(s) }
		it.rd = func(in *gio.DataInputX) interface{} { return core.Str(in.ReadText()) }
	case "ShortBytes":
		n := randLen(r, big, 65535)
		var b []byte
		if n > 0 || r.Intn(2) == 0 {
			b = randBytes(r, n)
		}
		it.v = core.Cp(b)
		it.wr = func(o *gio.DataOutputX) { o.WriteShortBytes(b) }
		it.rd = func(in *gio.DataInputX) interface{} { return core.Cp(in.ReadShortBytes()) }
	case "IntBytes":
		n := randLen(r, big, 1<<20)
		var b []byte
		if n > 0 || r.Intn(2) == 0 {
			b = randBytes(r, n)
		}
		it.v = core.Cp(b)
		it.wr = func(o *gio.DataOutputX) { o.WriteIntBytes(b) }
		it.rd = func(in *gio.DataInputX) interface{} { return core.Cp(in.ReadIntBytes()) }
	case "TextShort":
		s := randText(r, randLen(r, big, 65535))
		it.v = core.Str(s)
		it.wr = func(o *gio.DataOutputX) { o.WriteTextShortLength(s) }
		it.rd = func(in *gio.DataInputX) interface{} { return core.Str(in.ReadTextShortLength()) }
	case "ShortArr":
		n := arrLen(r, big)
		var a []int16
		if n > 0 || r.Intn(2) == 0 {
			a = make([]int16, n)
		}
		vs := make([]int64, n)
		for i := range a {
			a[i] = int16(RandInt64(r))
			vs[i] = int64(a[i])
		}
		it.v = w8s(vs)
		it.wr = func(o *gio.DataOutputX) { o.WriteShortArray(a) }
		it.rd = func(in *gio.DataInputX) interface{} {
			x := in.ReadShortArray()
			o := make([]int64, len(x))
			for i := range x {
				o[i] = int64(x[i])
			}
			return w8s(o)
		}
	case "IntArr":
		n := arrLen(r, big)
		var a []int32
		if n > 0 || r.Intn(2) == 0 {
			a = make([]int32, n)
		}
		vs := make([]int64, n)
		for i := range a {
			a[i] = int32(RandInt64(r))
			vs[i] = int64(a[i])
		}
		it.v = w8s(vs)
		it.wr = func(o *gio.DataOutputX) { o.WriteIntArray(a) }
		it.rd = func(in *gio.DataInputX) interface{} {
			x := in.ReadIntArray()
			o := make([]int64, len(x))
			for i := range x {
				o[i] = int64(x[i])
			}
			return w8s(o)
		}
	case "LongArr":
		n := arrLen(r, big)
		var a []int64
		if n > 0 || r.Intn(2) == 0 {
			a = make([]int64, n)
		}
		for i := range a {
			a[i] = RandInt64(r)
		}
		it.v = w8s(a)
		it.wr = func(o *gio.DataOutputX) { o.WriteLongArray(a) }
		it.rd = func(in *gio.DataInputX) interface{} { return w8s(in.ReadLongArray()) }
	case "FloatArr":
		n := arrLen(r, big)
		var a []float32
		if n > 0 || r.Intn(2) == 0 {
			a = make([]float32, n)
		}
		vs := make([]core.Bytes, n)
		for i := range a {
			a[i] = randF32(r)
			vs[i] = core.F32(a[i])
		}
		it.v = vs
		it.wr = func(o *gio.DataOutputX) { o.WriteFloatArray(a) }
		it.rd = func(in *gio.DataInputX) interface{} {
			x := in.ReadFloatArray()
			o := make([]core.Bytes, len(x))
			for i := range x {
				o[i] = core.F32(x[i])
			}
			return o
		}
	case "DoubleArr":
		n := arrLen(r, big)
		var a []float64
		if n > 0 || r.Intn(2) == 0 {
			a = make([]float64, n)
		}
		vs := make([]core.Bytes, n)
		for i := range a {
			a[i] = randF64(r)
			vs[i] = core.F64(a[i])
		}
		it.v = vs
		it.wr = func(o *gio.DataOutputX) { o.WriteDoubleArray(a) }
		it.rd = func(in *gio.DataInputX) interface{} {
			x := in.ReadDoubleArray()
			o := make([]core.Bytes, len(x))
			for i := range x {
				o[i] = core.F64(x[i])
			}
			return o
		}
	case "TextArr":
		n := arrLen(r, false)
		// sparse arrays: (mostly) empty strings, i.e. the minimal one byte per element -- an array whose
		// encoding is as short as its count allows, which is what a count-vs-remaining guard must still accept
		sparse := r.Intn(3) == 0
		if sparse && r.Intn(2) == 0 {
			n = 1 + r.Intn(40)
		}
		var a []string
		if n > 0 || r.Intn(2) == 0 {
			a = make([]string, n)
		}
		vs := make([]core.Bytes, n)
		for i := range a {
			if sparse && r.Intn(5) != 0 {
				vs[i] = core.Str("")
				continue
			}
			a[i] = randText(r, randLen(r, false, 300))
			vs[i] = core.Str(a[i])
		}
		it.v = vs
		it.wr = func(o *gio.DataOutputX) { o.WriteTextArray(a) }
		it.rd = func(in *gio.DataInputX) interface{} {
			x := in.ReadTextArray()
			o := make([]core.Bytes, len(x))
			for i := range x {
				o[i] = core.Str(x[i])
			}
			return o
		}
	default:
		panic("op " + op)
	}
	return it
}

// stream runs one write-then-read program on the real codec.
func stream(c *core.Ctx, t *core.Trace, gen string, cas int, items []item) {
	t.Reset(gen, cas, nil)
	out := gio.NewDataOutputX()
	prev := 0
	key := ""
	for _, it := range items {
		msg := core.Guard(func() { it.wr(out) })
		all := out.ToByteArray()
		ev := core.Ev{"ev": "W", "op": it.op, "v": it.v, "out": core.Cp(all[prev:]), "size": out.Size()}
		if msg != "" {
			ev["ev"] = "Panic"
			ev["msg"] = msg
		}
		t.Emit(ev)
		key += fmt.Sprintf("%s:%d;", it.op, len(all)-prev)
		prev = len(all)
	}
	t.Emit(core.Ev{"ev": "Open"})
	in := gio.NewDataInputX(core.Cp(out.ToByteArray()))
	for _, it := range items {
		var ret interface{}
		msg := core.Guard(func() { ret = it.rd(in) })
		if msg != "" {
			t.Emit(core.Ev{"ev": "Panic", "op": it.op, "msg": msg})
			break
		}
		t.Emit(core.Ev{"ev": "R", "ret": ret, "avail": int(in.Available())})
	}
	t.Emit(core.Ev{"ev": "End"})
	c.Count(key, len(items) > 0)
}

func Run(c *core.Ctx) error {
	c.Rule = "random programs of 1..12 mixed write calls (24 op kinds, boundary-biased values) written with the real DataOutputX and read back with the matching DataInputX calls; a case is non-trivial if it has at least one write; distinct by (op, encoded length) sequence"
	t := c.Trace("c01_stream", "Trace_DataX")

	// gen "each": one single-op program per op kind and boundary value class
	if c.WantGen("each") {
		n := c.Pick(20, 200)
		cas := 0
		for _, op := range opNames {
			for i := 0; i < n; i++ {
				if c.Want("each", cas) {
					r := c.Rng("each", cas)
					it := genItem(r, op, i%16 == 3)
					stream(c, t, "each", cas, []item{it})
				}
				cas++
			}
		}
	}
	// gen "prog": mixed programs
	if c.WantGen("prog") {
		n := c.Pick(300, 5000)
		for cas := 0; cas < n; cas++ {
			if !c.Want("prog", cas) {
				continue
			}
			r := c.Rng("prog", cas)
			k := 1 + r.Intn(12)
			items := make([]item, k)
			bigBudget := 1
			for i := range items {
				big := bigBudget > 0 && cas%10 == 0 && r.Intn(4) == 0
				if big {
					bigBudget--
				}
				items[i] = genItem(r, opNames[r.Intn(len(opNames))], big)
			}
			stream(c, t, "prog", cas, items)
			if cas < 2 {
				var ops []string
				for _, it := range items {
					ops = append(ops, it.op)
				}
				c.Sample(map[string]interface{}{"gen": "prog", "case": cas, "ops": ops})
			}
		}
	}
	// gen "le": little-endian helpers on boundary and random byte strings
	if c.WantGen("le") {
		n := c.Pick(400, 20000)
		var r *rand.Rand
		for i := 0; i < n; i++ {
			if i%20 == 0 { // one history per 20 byte strings
				if !c.Want("le", i/20) {
					i += 19
					continue
				}
				r = c.Rng("le", i/20)
				t.Reset("le", i/20, nil)
			}
			b := make([]byte, 8)
			r.Read(b)
			switch i % 5 {
			case 0:
				for j := range b {
					b[j] = []byte{0, 0xff, 0x80, 0x7f, 1}[r.Intn(5)]
				}
			}
			emitLE(t, b)
			c.Count(fmt.Sprintf("le:%x", b), true)
		}
	}
	// gen "short16": every 16-bit pattern through the short paths (thorough)
	if c.WantGen("short16") && (c.Thorough() || c.OnlyGen == "short16") {
		t.Reset("short16", 0, nil)
		for p := 0; p < 65536; p++ {
			b := []byte{byte(p >> 8), byte(p)}
			t.Emit(core.Ev{"ev": "LE", "op": "ShortLE", "in": core.Cp(b), "ret": core.W8(int64(gio.NewDataInputX(core.Cp(b)).ReadShortLittle()))})
			t.Emit(core.Ev{"ev": "LE", "op": "UShortLE", "in": core.Cp(b), "ret": core.W8(int64(gio.NewDataInputX(core.Cp(b)).ReadUnsignedShortLittle()))})
		}
		// and the big-endian round trip of every pattern as 64 programs of 1024 shorts
		for blk := 0; blk < 64; blk++ {
			items := make([]item, 0, 1024)
			for p := blk * 1024; p < (blk+1)*1024; p++ {
				v := int16(p)
				op := "Short"
				it := item{op: op, v: core.W8(int64(v))}
				it.wr = func(o *gio.DataOutputX) { o.WriteShort(v) }
				it.rd = func(in *gio.DataInputX) interface{} { return core.W8(int64(in.ReadShort())) }
				if p%2 == 1 {
					u := uint16(p)
					it = item{op: "UShort", v: core.W8(int64(u))}
					it.wr = func(o *gio.DataOutputX) { o.WriteUShort(u) }
					it.rd = func(in *gio.DataInputX) interface{} { return core.W8(int64(in.ReadUShort())) }
				}
				items = append(items, it)
			}
			stream(c, t, "short16", blk+1, items)
		}
	}
	// gens "sweepref"/"sweepfail": the pattern-space sweeps (sweep.go)
	if c.OnlyGen == "" || c.OnlyGen == "sweepref" || c.OnlyGen == "sweepfail" {
		runSweep(c, t)
	}
	return nil
}

func emitLE(t *core.Trace, b []byte) {
	t.Emit(core.Ev{"ev": "LE", "op": "ShortLE", "in": core.Cp(b[:2]), "ret": core.W8(int64(gio.NewDataInputX(core.Cp(b)).ReadShortLittle()))})
	t.Emit(core.Ev{"ev": "LE", "op": "UShortLE", "in": core.Cp(b[:2]), "ret": core.W8(int64(gio.NewDataInputX(core.Cp(b)).ReadUnsignedShortLittle()))})
	t.Emit(core.Ev{"ev": "LE", "op": "IntLE", "in": core.Cp(b[:4]), "ret": core.W8(int64(gio.NewDataInputX(core.Cp(b)).ReadIntLittle()))})
	t.Emit(core.Ev{"ev": "LE", "op": "UIntLE", "in": core.Cp(b[:4]), "ret": core.W8(int64(gio.NewDataInputX(core.Cp(b)).ReadUintLittle()))})
	t.Emit(core.Ev{"ev": "LE", "op": "LongLE", "in": core.Cp(b), "ret": core.W8(gio.ToLongLittle(b, 0))})
	t.Emit(core.Ev{"ev": "LE", "op": "ULongLE", "in": core.Cp(b), "ret": core.U8(gio.ToUlongLittle(b, 0))})
}
