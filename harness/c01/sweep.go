package c01

// (S) of DESIGN 2.1: the pattern spaces TLC cannot enumerate (2^24, 2^32, stratified 2^64) are
// swept by comparing the real codec with refEnc/refDec below -- a transliteration of the
// operators Enc/Dec of spec/DataX.tla (Low, SignExt, FitsSigned, DecimalClass), written from
// the TLA+ and sharing nothing with golib.  The transliteration is itself bound to the
// specification: a stratified sample of every swept kind is emitted as ordinary W/R events
// carrying the transliteration's bytes in the field `ref`, and Trace_DataX requires
// ref = Enc(op, v).  A sweep never decides anything: each disagreement (the smallest patterns
// per kind, so the choice is deterministic) is emitted as a history of gen "sweepfail" that TLC
// judges like any other.

import (
	"bytes"
	"encoding/binary"
	"fmt"
	"math"
	"runtime"
	"runtime/debug"
	"sort"
	"strconv"
	"sync"
	"time"

	gio "github.com/whatap/golib/io"

	"verifharness/core"
)

// ---- transliteration of DataX.tla ------------------------------------------------------------

// W8 of the spec: 8 bytes, most significant first, two's complement
func w8(v int64) []byte {
	b := make([]byte, 8)
	binary.BigEndian.PutUint64(b, uint64(v))
	return b
}

// Low(s, k) == SubSeq(s, Len(s) - k + 1, Len(s))
func low(s []byte, k int) []byte { return s[len(s)-k:] }

// SignExt(s, w) == Fill(w - Len(s), SignByte(s)) \o s
func signExt(s []byte, w int) []byte {
	fill := byte(0)
	if len(s) > 0 && s[0] >= 128 {
		fill = 255
	}
	o := make([]byte, 0, w)
	for i := 0; i < w-len(s); i++ {
		o = append(o, fill)
	}
	return append(o, s...)
}

func zeroExt(s []byte, w int) []byte {
	o := make([]byte, w-len(s), w)
	return append(o, s...)
}

// FitsSigned(v, k) == IF k = 0 THEN v = Zeros(Len(v)) ELSE SignExt(Low(v, k), Len(v)) = v
func fitsSigned(v []byte, k int) bool {
	if k == 0 {
		return bytes.Equal(v, make([]byte, len(v)))
	}
	return bytes.Equal(signExt(low(v, k), len(v)), v)
}

var decimalClasses = []int{0, 1, 2, 3, 4, 5, 8}

// DecimalClass(v): the least admissible class
func decimalClass(v []byte) int {
	for _, k := range decimalClasses {
		if fitsSigned(v, k) {
			return k
		}
	}
	panic("unreachable: class 8 holds every value")
}

var fixedWidth = map[string]int{"Short": 2, "UShort": 2, "Int3": 3, "Int": 4, "UInt": 4, "Long5": 5, "Long": 8}

// refEnc(op, v) for the kinds that are swept; v is the W8 (integers) or the IEEE pattern (floats)
func refEnc(op string, v []byte) []byte {
	switch op {
	case "Decimal":
		k := decimalClass(v)
		return append([]byte{byte(k)}, low(v, k)...)
	case "Float", "Double":
		return v
	}
	return low(v, fixedWidth[op])
}

// refDec(op, b): the value a matching read returns for the encoding b
func refDec(op string, b []byte) []byte {
	switch op {
	case "Decimal":
		if b[0] == 0 {
			return make([]byte, 8)
		}
		return signExt(b[1:], 8)
	case "Float", "Double":
		return b
	case "UShort", "UInt":
		return zeroExt(b, 8)
	}
	return signExt(b, 8)
}

// little-endian helpers: DecLE(op, bs) == Dec(LEBase[op], Rev(bs), 1).v
func rev(b []byte) []byte {
	o := make([]byte, len(b))
	for i := range b {
		o[len(b)-1-i] = b[i]
	}
	return o
}

func refDecLE(op string, b []byte) []byte {
	switch op {
	case "UShortLE", "UIntLE":
		return zeroExt(rev(b), 8)
	}
	return signExt(rev(b), 8)
}

// ---- the real codec, one value at a time -----------------------------------------------------

type sweepKind struct {
	op   string
	wr   func(o *gio.DataOutputX, v []byte)
	rd   func(in *gio.DataInputX) []byte
	stat func(v []byte) ([]byte, []byte) // static helpers ToBytesX / ToX where they exist: (encoded, decoded W8)
}

func i64(v []byte) int64 { return int64(binary.BigEndian.Uint64(v)) }

var sweepKinds = map[string]sweepKind{
	"Short": {"Short",
		func(o *gio.DataOutputX, v []byte) { o.WriteShort(int16(i64(v))) },
		func(in *gio.DataInputX) []byte { return w8(int64(in.ReadShort())) },
		func(v []byte) ([]byte, []byte) {
			e := gio.ToBytesShort(int16(i64(v)))
			return e, w8(int64(gio.ToShort(e, 0)))
		}},
	"UShort": {"UShort",
		func(o *gio.DataOutputX, v []byte) { o.WriteUShort(uint16(i64(v))) },
		func(in *gio.DataInputX) []byte { return w8(int64(in.ReadUShort())) },
		func(v []byte) ([]byte, []byte) {
			e := gio.ToBytesUShort(uint16(i64(v)))
			return e, w8(int64(gio.ToUShort(e, 0)))
		}},
	"Int3": {"Int3",
		func(o *gio.DataOutputX, v []byte) { o.WriteInt3(int32(i64(v))) },
		func(in *gio.DataInputX) []byte { return w8(int64(in.ReadInt3())) },
		func(v []byte) ([]byte, []byte) {
			e := gio.ToBytesInt3(int32(i64(v)))
			return e, w8(int64(gio.ToInt3(e, 0)))
		}},
	"Int": {"Int",
		func(o *gio.DataOutputX, v []byte) { o.WriteInt(int32(i64(v))) },
		func(in *gio.DataInputX) []byte { return w8(int64(in.ReadInt())) },
		func(v []byte) ([]byte, []byte) {
			e := gio.ToBytesInt(int32(i64(v)))
			return e, w8(int64(gio.ToInt(e, 0)))
		}},
	"UInt": {"UInt",
		func(o *gio.DataOutputX, v []byte) { o.WriteInt(int32(uint32(i64(v)))) },
		func(in *gio.DataInputX) []byte { return w8(int64(in.ReadUnsignedInt())) },
		func(v []byte) ([]byte, []byte) {
			e := gio.ToBytesInt(int32(uint32(i64(v))))
			return e, w8(int64(gio.ToUint(e, 0)))
		}},
	"Long5": {"Long5",
		func(o *gio.DataOutputX, v []byte) { o.WriteLong5(i64(v)) },
		func(in *gio.DataInputX) []byte { return w8(in.ReadLong5()) },
		func(v []byte) ([]byte, []byte) {
			e := gio.ToBytesLong5(i64(v))
			return e, w8(gio.ToLong5(e, 0))
		}},
	"Long": {"Long",
		func(o *gio.DataOutputX, v []byte) { o.WriteLong(i64(v)) },
		func(in *gio.DataInputX) []byte { return w8(in.ReadLong()) },
		func(v []byte) ([]byte, []byte) {
			e := gio.ToBytesLong(i64(v))
			return e, w8(gio.ToLong(e, 0))
		}},
	"Decimal": {"Decimal",
		func(o *gio.DataOutputX, v []byte) { o.WriteDecimal(i64(v)) },
		func(in *gio.DataInputX) []byte { return w8(in.ReadDecimal()) },
		nil},
	"Float": {"Float",
		func(o *gio.DataOutputX, v []byte) { o.WriteFloat(math.Float32frombits(binary.BigEndian.Uint32(v))) },
		func(in *gio.DataInputX) []byte {
			b := make([]byte, 4)
			binary.BigEndian.PutUint32(b, math.Float32bits(in.ReadFloat()))
			return b
		},
		func(v []byte) ([]byte, []byte) {
			e := gio.ToBytesFloat(math.Float32frombits(binary.BigEndian.Uint32(v)))
			b := make([]byte, 4)
			binary.BigEndian.PutUint32(b, math.Float32bits(gio.ToFloat(e, 0)))
			return e, b
		}},
	"Double": {"Double",
		func(o *gio.DataOutputX, v []byte) { o.WriteDouble(math.Float64frombits(binary.BigEndian.Uint64(v))) },
		func(in *gio.DataInputX) []byte {
			b := make([]byte, 8)
			binary.BigEndian.PutUint64(b, math.Float64bits(in.ReadDouble()))
			return b
		},
		func(v []byte) ([]byte, []byte) {
			e := gio.ToBytesDouble(math.Float64frombits(binary.BigEndian.Uint64(v)))
			b := make([]byte, 8)
			binary.BigEndian.PutUint64(b, math.Float64bits(gio.ToDouble(e, 0)))
			return e, b
		}},
}

var leReal = map[string]func(b []byte) []byte{
	"ShortLE":  func(b []byte) []byte { return w8(int64(gio.NewDataInputX(b).ReadShortLittle())) },
	"UShortLE": func(b []byte) []byte { return w8(int64(gio.NewDataInputX(b).ReadUnsignedShortLittle())) },
	"IntLE":    func(b []byte) []byte { return w8(int64(gio.NewDataInputX(b).ReadIntLittle())) },
	"UIntLE":   func(b []byte) []byte { return w8(int64(gio.NewDataInputX(b).ReadUintLittle())) },
	"LongLE":   func(b []byte) []byte { return w8(gio.ToLongLittle(b, 0)) },
	"ULongLE": func(b []byte) []byte {
		o := make([]byte, 8)
		binary.BigEndian.PutUint64(o, gio.ToUlongLittle(b, 0))
		return o
	},
}
var leWidth = map[string]int{"ShortLE": 2, "UShortLE": 2, "IntLE": 4, "UIntLE": 4, "LongLE": 8, "ULongLE": 8}

// ---- pattern spaces ----------------------------------------------------------------------------

// a space is n indexed patterns; pat(i) is the value (W8 for integers, IEEE bytes for floats,
// raw input bytes for the LE helpers)
type space struct {
	op   string
	name string
	n    uint64
	pat  func(i uint64) []byte
}

func mix(i uint64) uint64 { // splitmix64: the pseudo-random part of the stratified spaces
	z := i + 0x9e3779b97f4a7c15
	z = (z ^ (z >> 30)) * 0xbf58476d1ce4e5b9
	z = (z ^ (z >> 27)) * 0x94d049bb133111eb
	return z ^ (z >> 31)
}

func signedOf(width int) func(i uint64) []byte { // every pattern of `width` bytes, as the signed value
	return func(i uint64) []byte { return signExt(low(w8(int64(i)), width), 8) }
}
func unsignedOf(width int) func(i uint64) []byte {
	return func(i uint64) []byte { return zeroExt(low(w8(int64(i)), width), 8) }
}
func rawOf(width int) func(i uint64) []byte {
	return func(i uint64) []byte { return append([]byte{}, low(w8(int64(i)), width)...) }
}

// strided: n patterns spread over a 2^bits space (index in the high bits, mixed low bits)
func strided(bits uint, n uint64, seed uint64, f func(i uint64) []byte) func(i uint64) []byte {
	return func(i uint64) []byte {
		step := (uint64(1) << bits) / n
		return f(i*step + mix(i^seed)%step)
	}
}

// neighbourhood of every power of two, both signs: +-(2^k + d), |d| <= rad  (all decimal class boundaries)
func nearPowers(rad int64, maxBit int) (uint64, func(i uint64) []byte) {
	per := uint64(2*rad + 1)
	n := uint64(maxBit+1) * 2 * per
	return n, func(i uint64) []byte {
		k := i / (2 * per)
		r := i % (2 * per)
		neg := r >= per
		d := int64(r%per) - rad
		v := int64(uint64(1)<<k) + d // wraps for k = 63: intended (MinInt64 neighbourhood)
		if neg {
			v = -v
		}
		return w8(v)
	}
}

func clamp5(v []byte) []byte { return signExt(low(v, 5), 8) }

func sweepSpaces(thorough bool, seed uint64) []space {
	full32 := uint64(1) << 32
	n32 := uint64(1) << 24
	n64 := uint64(1) << 24
	rad := int64(1 << 12)
	if thorough {
		n32 = full32
		n64 = uint64(1) << 30
		rad = 1 << 16
	}
	var sp []space
	sp = append(sp,
		space{"Short", "all 2^16 patterns", 1 << 16, signedOf(2)},
		space{"UShort", "all 2^16 patterns", 1 << 16, unsignedOf(2)},
		space{"Int3", "all 2^24 patterns", 1 << 24, signedOf(3)},
		space{"ShortLE", "all 2^16 inputs", 1 << 16, rawOf(2)},
		space{"UShortLE", "all 2^16 inputs", 1 << 16, rawOf(2)},
	)
	if thorough {
		sp = append(sp,
			space{"Int", "all 2^32 patterns", full32, signedOf(4)},
			space{"UInt", "all 2^32 patterns", full32, unsignedOf(4)},
			space{"Float", "all 2^32 patterns", full32, rawOf(4)},
			space{"IntLE", "all 2^32 inputs", full32, rawOf(4)},
			space{"UIntLE", "all 2^32 inputs", full32, rawOf(4)},
		)
	} else {
		sp = append(sp,
			space{"Int", "2^24 patterns strided over 2^32", n32, strided(32, n32, seed, signedOf(4))},
			space{"UInt", "2^24 patterns strided over 2^32", n32, strided(32, n32, seed+1, unsignedOf(4))},
			space{"Float", "2^24 patterns strided over 2^32", n32, strided(32, n32, seed+2, rawOf(4))},
			space{"IntLE", "2^24 inputs strided over 2^32", n32, strided(32, n32, seed+3, rawOf(4))},
			space{"UIntLE", "2^24 inputs strided over 2^32", n32, strided(32, n32, seed+4, rawOf(4))},
		)
	}
	nb, fb := nearPowers(rad, 63)
	rnd := func(s uint64) func(i uint64) []byte { return func(i uint64) []byte { return w8(int64(mix(i ^ (s << 40)))) } }
	sp = append(sp,
		space{"Decimal", fmt.Sprintf("+-(2^k+d), k<=63, |d|<=%d", rad), nb, fb},
		space{"Decimal", "pseudo-random 64-bit", n64, rnd(seed + 5)},
		space{"Long", fmt.Sprintf("+-(2^k+d), k<=63, |d|<=%d", rad), nb, fb},
		space{"Long", "pseudo-random 64-bit", n64, rnd(seed + 6)},
		space{"Double", "pseudo-random 64-bit patterns", n64, func(i uint64) []byte { return w8(int64(mix(i ^ ((seed + 7) << 40)))) }},
		space{"Double", "all 2^24 NaN/Inf-exponent patterns x top mantissa bits", 1 << 24, func(i uint64) []byte {
			// exponent all ones, both signs, 23 strided mantissa bits + sign: NaN payloads incl. signalling
			s := (i >> 23) & 1
			m := (i & (1<<23 - 1)) << 29
			m |= mix(i) & (1<<29 - 1)
			return w8(int64(s<<63 | uint64(0x7ff)<<52 | m))
		}},
		space{"Long5", "pseudo-random 40-bit", n64, func(i uint64) []byte { return clamp5(w8(int64(mix(i ^ ((seed + 8) << 40))))) }},
		space{"Long5", fmt.Sprintf("+-(2^k+d), k<=38, |d|<=%d", rad), uint64(39) * 2 * uint64(2*rad+1), func(i uint64) []byte {
			_, f := nearPowers(rad, 38)
			return clamp5(f(i))
		}},
		space{"LongLE", "pseudo-random 64-bit inputs", n64 >> 2, func(i uint64) []byte { return w8(int64(mix(i ^ ((seed + 9) << 40)))) }},
		space{"ULongLE", "pseudo-random 64-bit inputs", n64 >> 2, func(i uint64) []byte { return w8(int64(mix(i ^ ((seed + 10) << 40)))) }},
	)
	return sp
}

// ---- the sweep ---------------------------------------------------------------------------------

type mismatch struct {
	op  string
	idx uint64
	v   []byte
}

const sweepBlock = 4096

// sweepBlockRun pushes patterns [lo, hi) of a space through one real output stream and one real input
// stream (the stream paths, counters and cursor included) and through the static helpers; it
// returns the indices whose bytes, read-back value or the stream's Size()/Available() differ
// from the transliteration.
func sweepBlockRun(s space, lo, hi uint64) (bad []uint64) {
	if _, le := leWidth[s.op]; le {
		for i := lo; i < hi; i++ {
			in := s.pat(i)
			if !bytes.Equal(leReal[s.op](append([]byte{}, in...)), refDecLE(s.op, in)) {
				bad = append(bad, i)
			}
		}
		return
	}
	k := sweepKinds[s.op]
	vals := make([][]byte, 0, hi-lo)
	var want []byte
	offs := make([]int, 0, hi-lo+1)
	out := gio.NewDataOutputX()
	panicked := core.Guard(func() {
		for i := lo; i < hi; i++ {
			v := s.pat(i)
			vals = append(vals, v)
			offs = append(offs, len(want))
			want = append(want, refEnc(s.op, v)...)
			k.wr(out, v)
		}
	})
	offs = append(offs, len(want))
	got := out.ToByteArray()
	whole := panicked == "" && bytes.Equal(got, want) && out.Size() == len(want)
	if whole {
		in := gio.NewDataInputX(got)
		msg := core.Guard(func() {
			for j, v := range vals {
				r := k.rd(in)
				if !bytes.Equal(r, refDec(s.op, want[offs[j]:offs[j+1]])) || !bytes.Equal(r, v) || int(in.Available()) != len(want)-offs[j+1] {
					bad = append(bad, lo+uint64(j))
				}
			}
		})
		if msg != "" {
			whole = false
		}
	}
	if !whole { // localise: one value per stream
		bad = bad[:0]
		for j, v := range vals {
			o := gio.NewDataOutputX()
			ok := core.Guard(func() { k.wr(o, v) }) == ""
			e := refEnc(s.op, v)
			ok = ok && bytes.Equal(o.ToByteArray(), e) && o.Size() == len(e)
			if ok {
				ok = core.Guard(func() {
					in := gio.NewDataInputX(append([]byte{}, e...))
					if !bytes.Equal(k.rd(in), v) || in.Available() != 0 {
						ok = false
					}
				}) == "" && ok
			}
			if !ok {
				bad = append(bad, lo+uint64(j))
			}
		}
	}
	if k.stat != nil {
		for j, v := range vals {
			var e, d []byte
			if core.Guard(func() { e, d = k.stat(v) }) != "" || !bytes.Equal(e, refEnc(s.op, v)) || !bytes.Equal(d, v) {
				bad = append(bad, lo+uint64(j))
			}
		}
	}
	return
}

func gcd(a, b uint64) uint64 {
	for b != 0 {
		a, b = b, a%b
	}
	return a
}

func runSweep(c *core.Ctx, t *core.Trace) {
	// the sweep allocates a few small slices per pattern over a small live heap: at the default pacing the collector
	// runs every few milliseconds, and on a loaded machine each of its handshakes waits for descheduled threads
	// (a soft memory limit keeps the relaxed pacing from growing the heap when the collector itself is starved)
	defer debug.SetGCPercent(debug.SetGCPercent(300))
	defer debug.SetMemoryLimit(debug.SetMemoryLimit(1 << 30))
	spaces := sweepSpaces(c.Thorough(), uint64(c.Seed))
	workers := runtime.NumCPU()
	var fails []mismatch
	var totalM float64
	report := []map[string]interface{}{}
	// The sweep of the large spaces (thorough tier: 2^28..2^32 patterns each, about 140 CPU minutes together) is
	// time-boxed: on a machine shared with other work they do not fit the tier's budget.  Every large space gets the part
	// of the budget that its size is of the whole (what an earlier space did not use is left to the later ones); the blocks of a space are visited in a strided order, so what is covered
	// when the time is up is spread over the whole space, and the evidence says how much it was.  Load can only lose
	// coverage here, never produce a disagreement.
	budget := time.Duration(c.Pick(60, 780)) * time.Second
	if v, err := strconv.Atoi(c.Args["sweep_s"]); err == nil && v > 0 {
		budget = time.Duration(v) * time.Second
	}
	const always = 1 << 25 // spaces up to this size (all of the quick tier; the boundary neighbourhoods) are always completed
	var allN, cumN float64
	for _, s := range spaces {
		if s.n > always {
			allN += float64(s.n)
		}
	}
	start := time.Now()
	for _, s := range spaces {
		deadline := start.Add(1000 * time.Hour)
		if s.n > always {
			cumN += float64(s.n)
			deadline = start.Add(time.Duration(float64(budget) * cumN / allN))
		}
		var mu sync.Mutex
		var bad []uint64
		nblk := (s.n + sweepBlock - 1) / sweepBlock
		stride := nblk*5/8 | 1 // a step coprime with the number of blocks: b -> b*stride mod nblk is a permutation
		for gcd(stride, nblk) != 1 {
			stride += 2
		}
		var next, done uint64
		var wg sync.WaitGroup
		for w := 0; w < workers; w++ {
			wg.Add(1)
			go func() {
				defer wg.Done()
				for {
					mu.Lock()
					k := next
					next++
					mu.Unlock()
					if k >= nblk+2 || (k >= 2 && time.Now().After(deadline)) {
						return
					}
					var b uint64 // the first and the last block always (k = 0, 1), then all blocks in strided order
					if k == 1 {
						b = nblk - 1
					} else if k >= 2 {
						b = ((k - 2) * stride) % nblk
					}
					lo, hi := b*sweepBlock, (b+1)*sweepBlock
					if hi > s.n {
						hi = s.n
					}
					r := sweepBlockRun(s, lo, hi)
					mu.Lock()
					done += hi - lo
					if len(r) > 0 && len(bad) < 1<<16 {
						bad = append(bad, r...)
					}
					mu.Unlock()
				}
			}()
		}
		wg.Wait()
		sort.Slice(bad, func(i, j int) bool { return bad[i] < bad[j] })
		// the smallest two indices of each space: deterministic whatever the goroutine schedule was,
		// unless more than 2^16 patterns disagree (then any of them will do: the tree is badly broken)
		for i := 0; i < len(bad) && i < 2; i++ {
			if i > 0 && bad[i] == bad[i-1] {
				continue
			}
			fails = append(fails, mismatch{s.op, bad[i], s.pat(bad[i])})
		}
		if done > s.n { // (block 0 and block nblk-1 coincide in a one-block space; the permutation may revisit them)
			done = s.n
		}
		totalM += float64(done) / 1e6
		report = append(report, map[string]interface{}{"op": s.op, "space": s.name, "patterns_millions": math.Round(float64(done)/1e4) / 100,
			"of_millions": math.Round(float64(s.n)/1e4) / 100, "complete": done >= s.n, "disagreements": len(bad)})
		c.Count(fmt.Sprintf("sweep:%s:%s", s.op, s.name), true)
	}
	c.SetExtra("sweep", report)
	c.SetExtra("sweep_patterns_millions", math.Round(totalM*100)/100)
	c.SetExtra("sweep_disagreements", len(fails))

	// the sample that binds the transliteration to the specification
	if c.WantGen("sweepref") {
		cas := 0
		for _, s := range spaces {
			if !c.Want("sweepref", cas) {
				cas++
				continue
			}
			n := uint64(c.Pick(40, 400))
			for j := uint64(0); j < n; j++ {
				t.Reset("sweepref", cas, core.Ev{"sub": int(j)}) // one stream per value
				i := (s.n / n) * j
				if j%2 == 1 {
					i += mix(j^uint64(c.Seed)) % (s.n / n)
				}
				emitSweepValue(t, s.op, s.pat(i), true)
			}
			cas++
		}
	}
	// disagreements: judged by TLC
	for k, m := range fails {
		if k >= 12 || !c.Want("sweepfail", k) {
			continue
		}
		t.Reset("sweepfail", k, core.Ev{"op": m.op})
		emitSweepValue(t, m.op, m.v, false)
	}
}

// emitSweepValue records the real codec's treatment of one pattern as ordinary events:
// a one-write stream (W, Open, R, End) or one LE event.
func emitSweepValue(t *core.Trace, op string, v []byte, withRef bool) {
	if _, le := leWidth[op]; le {
		in := append([]byte{}, v...)
		var ret []byte
		msg := core.Guard(func() { ret = leReal[op](append([]byte{}, in...)) })
		if msg != "" {
			t.Emit(core.Ev{"ev": "Panic", "op": op, "msg": msg})
			return
		}
		ev := core.Ev{"ev": "LE", "op": op, "in": core.Cp(in), "ret": core.Cp(ret)}
		if withRef {
			ev["ref"] = core.Cp(refDecLE(op, in))
		}
		t.Emit(ev)
		return
	}
	k := sweepKinds[op]
	out := gio.NewDataOutputX()
	msg := core.Guard(func() { k.wr(out, v) })
	ev := core.Ev{"ev": "W", "op": op, "v": core.Cp(v), "out": core.Cp(out.ToByteArray()), "size": out.Size()}
	if msg != "" {
		ev["ev"], ev["msg"] = "Panic", msg
	}
	if withRef {
		ev["ref"] = core.Cp(refEnc(op, v))
	}
	t.Emit(ev)
	if k.stat != nil {
		var e, d []byte
		if m := core.Guard(func() { e, d = k.stat(v) }); m != "" {
			t.Emit(core.Ev{"ev": "Panic", "op": op, "msg": m})
		} else {
			t.Emit(core.Ev{"ev": "Static", "op": op, "v": core.Cp(v), "out": core.Cp(e), "back": core.Cp(d)})
		}
	}
	t.Emit(core.Ev{"ev": "Open"})
	in := gio.NewDataInputX(core.Cp(out.ToByteArray()))
	var ret []byte
	if m := core.Guard(func() { ret = k.rd(in) }); m != "" {
		t.Emit(core.Ev{"ev": "Panic", "op": op, "msg": m})
		return
	}
	t.Emit(core.Ev{"ev": "R", "ret": core.Cp(ret), "avail": int(in.Available())})
	t.Emit(core.Ev{"ev": "End"})
}
