package c01

// The reader over a connection (NewDataInputNet): the written programs are read back through a net.Conn
// that hands the produced bytes over in pieces of its own choosing.  The connection is the harness's own
// (synchronous, no goroutine, no clock): it records every Read call of the reader -- the window offered and
// the bytes delivered -- for DataXNet.tla to judge (Recv), and counts what it has handed over (R.taken).

import (
	"fmt"
	stdio "io"
	"math/rand"
	"net"
	"sort"
	"time"
)

type recvCall struct {
	want, got int
	data      []byte
}

// segConn delivers data cut into the segments segs (then whatever is left in one piece).  Like TCP and
// net.Pipe it keeps the rest of a segment for the next Read when the window was shorter than the segment.
type segConn struct {
	data  []byte
	pos   int
	segs  []int
	rem   int // bytes left of the current segment
	calls []recvCall
}

func (c *segConn) Read(p []byte) (int, error) {
	if len(p) == 0 {
		return 0, nil
	}
	if c.pos >= len(c.data) {
		return 0, stdio.EOF
	}
	for c.rem == 0 {
		if len(c.segs) == 0 {
			c.rem = len(c.data) - c.pos
			break
		}
		c.rem, c.segs = c.segs[0], c.segs[1:]
	}
	n := c.rem
	if n > len(c.data)-c.pos {
		n = len(c.data) - c.pos
	}
	if n > len(p) {
		n = len(p)
	}
	copy(p, c.data[c.pos:c.pos+n])
	c.pos += n
	c.rem -= n
	// consecutive calls that were satisfied in full are one observation (a window of want bytes offered and
	// filled); a call that got less than it offered stands alone, and so does the call after it
	if k := len(c.calls); k > 0 && n == len(p) && c.calls[k-1].want == c.calls[k-1].got {
		c.calls[k-1].want += n
		c.calls[k-1].got += n
		if c.calls[k-1].data != nil {
			if c.calls[k-1].got <= recvDataMax {
				c.calls[k-1].data = append(c.calls[k-1].data, p[:n]...)
			} else {
				c.calls[k-1].data = nil
			}
		}
	} else {
		rc := recvCall{want: len(p), got: n}
		if n <= recvDataMax {
			rc.data = append([]byte{}, p[:n]...)
		}
		c.calls = append(c.calls, rc)
	}
	return n, nil
}
func (c *segConn) Write(p []byte) (int, error)        { return len(p), nil }
func (c *segConn) Close() error                       { return nil }
func (c *segConn) LocalAddr() net.Addr                { return &net.TCPAddr{} }
func (c *segConn) RemoteAddr() net.Addr               { return &net.TCPAddr{} }
func (c *segConn) SetDeadline(t time.Time) error      { return nil }
func (c *segConn) SetReadDeadline(t time.Time) error  { return nil }
func (c *segConn) SetWriteDeadline(t time.Time) error { return nil }

const recvDataMax = 256 // delivered bytes are logged with the call up to this length
const maxCuts = 96      // segments per history (volume control)

// how the transport cuts the stream
const (
	segWhole   = 1 + iota // everything at once: the reader must still take only what it reads
	segAligned            // one segment per element
	segOne                // one byte at a time
	segInField            // one cut strictly inside every element: every segment straddles an element boundary
	segEdges              // cuts just behind the start (1, 2, 4 bytes: inside the length cell / the first cell) and just before the end of every element
	segRand               // random segment lengths
	segTwo                // a single cut anywhere
	segN       = segTwo
)

var segNames = []string{"", "whole", "aligned", "one", "infield", "edges", "rand", "two"}

// segments for a stream whose elements have the encoded lengths flen
func segments(r *rand.Rand, kind int, flen []int) []int {
	total := 0
	for _, n := range flen {
		total += n
	}
	cuts := map[int]bool{}
	segRand0 := kind // (the kind asked for)
	if kind == segOne && total > maxCuts {
		kind = segRand // pieces as small as the volume allows
	}
	switch kind {
	case segWhole:
	case segAligned:
		p := 0
		for _, n := range flen {
			p += n
			cuts[p] = true
		}
	case segOne:
		for p := 1; p < total; p++ {
			cuts[p] = true
		}
	case segInField:
		p := 0
		for _, n := range flen {
			if n >= 2 {
				cuts[p+1+r.Intn(n-1)] = true
			}
			p += n
		}
	case segEdges:
		p := 0
		for _, n := range flen {
			for _, d := range []int{1, 2, 4, n - 1} {
				if d > 0 && d < n && r.Intn(4) != 0 {
					cuts[p+d] = true
				}
			}
			p += n
		}
	case segRand:
		m := 1 << uint(r.Intn(9))
		if kind != segRand0 {
			m = 2
		}
		for m*maxCuts < total {
			m *= 2
		}
		for p := 1 + r.Intn(m); p < total; p += 1 + r.Intn(m) {
			cuts[p] = true
		}
	case segTwo:
		if total >= 2 {
			cuts[1+r.Intn(total-1)] = true
		}
	}
	var ps []int
	for p := range cuts {
		if p > 0 && p < total {
			ps = append(ps, p)
		}
	}
	sort.Ints(ps)
	limit := maxCuts
	if total > 4096 {
		limit = 12 // a large element is decoded by the specification at every recorded call: few calls
	}
	for len(ps) > limit { // thin out
		i := r.Intn(len(ps))
		ps = append(ps[:i], ps[i+1:]...)
	}
	var segs []int
	prev := 0
	for _, p := range ps {
		segs = append(segs, p-prev)
		prev = p
	}
	return segs // the rest is delivered as one piece
}

func segsNote(kind int, segs []int) string {
	if len(segs) > 24 {
		return fmt.Sprintf("%s %v.. (%d cuts)", segNames[kind], segs[:24], len(segs))
	}
	return fmt.Sprintf("%s %v", segNames[kind], segs)
}
