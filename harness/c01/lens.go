package c01

// Generators that enumerate instead of drawing:
//   "lens"   every kind that carries a length cell (blob, text, short-length bytes and text, int-length
//            bytes, raw bytes) at every boundary length, both sides, between two scalars;
//   "counts" every array kind at every boundary of its 16-bit count;
//   "static" the static helpers ToBytesX / ToX / SetBytesX, the slices they return kept by the caller.

import (
	"math/rand"

	gio "github.com/whatap/golib/io"

	"verifharness/core"
)

type lenCase struct {
	op      string
	n       int
	nilMode int
}

func lenCases() (lens, counts []lenCase) {
	for _, op := range byteOps {
		lens = append(lens, lenCase{op, 0, 1}, lenCase{op, 0, 2})
		for _, n := range blobLens {
			if n > 0 {
				lens = append(lens, lenCase{op, n, 0})
			}
		}
		for _, n := range bigLens {
			if n <= maxLenOf(op) {
				lens = append(lens, lenCase{op, n, 0})
			}
		}
	}
	for _, op := range arrayOps {
		counts = append(counts, lenCase{op, 0, 1}, lenCase{op, 0, 2}, lenCase{op, 1, 0}, lenCase{op, 2, 0})
		for _, n := range arrBoundary {
			counts = append(counts, lenCase{op, n, 0})
		}
		counts = append(counts, lenCase{op, 32766, 0}, lenCase{op, 32767, 0})
	}
	return
}

var scalarOps = []string{"Bool", "Byte", "Short", "UShort", "Int3", "Int", "UInt", "Long5", "Long", "Float", "Double", "Decimal"}

func runLens(c *core.Ctx, tl, tc *core.Trace) {
	lens, counts := lenCases()
	one := func(t *core.Trace, gen string, cas int, lc lenCase) {
		if !c.Want(gen, cas) {
			return
		}
		r := c.Rng(gen, cas)
		// a scalar before and a scalar behind: the value behind is read after the cell under test decided
		// how many bytes belong to it, and the result under test is looked at again after that read
		items := []item{
			genItem(r, scalarOps[r.Intn(len(scalarOps))], false),
			genItemN(r, lc.op, false, lc.n, lc.nilMode),
			genItem(r, scalarOps[r.Intn(len(scalarOps))], false),
		}
		var m mode
		if lc.n <= 300 {
			switch cas % 3 {
			case 1:
				m.quiet = true
			case 2:
				m.alias = true
				m.late = []item{genItem(r, scalarOps[r.Intn(len(scalarOps))], false)}
			}
		}
		streamM(c, t, gen, cas, items, m, r)
	}
	if c.WantGen("lens") {
		for cas, lc := range lens {
			one(tl, "lens", cas, lc)
		}
	}
	if c.WantGen("counts") {
		for cas, lc := range counts {
			one(tc, "counts", cas, lc)
		}
	}
}

// the cases of "lens" / "counts" read back over a connection: the element under test is cut inside its length
// cell, inside its body, before its last byte, and together with the scalars around it
func runLensNet(c *core.Ctx, t *core.Trace) {
	lens, counts := lenCases()
	kinds := []int{segInField, segEdges, segTwo, segRand, segOne}
	one := func(gen string, cas int, lc lenCase) {
		if !c.Want(gen, cas) {
			return
		}
		r := c.Rng(gen, cas)
		skip := r.Intn(4) != 0 // (drawn in every case: a replay re-generates the same history)
		if lc.n > 4096 && !c.Thorough() && c.OnlyGen == "" && skip {
			return // the quick tier draws a quarter of the large cases per run (volume; which ones depends on the seed)
		}
		items := []item{
			genItem(r, scalarOps[r.Intn(len(scalarOps))], false),
			genItemN(r, lc.op, false, lc.n, lc.nilMode),
			genItem(r, scalarOps[r.Intn(len(scalarOps))], false),
		}
		m := mode{net: kinds[r.Intn(len(kinds))]}
		if lc.n <= 300 && cas%3 == 2 {
			m.alias = true
			m.late = []item{genItem(r, scalarOps[r.Intn(len(scalarOps))], false)}
		}
		streamM(c, t, gen, cas, items, m, r)
	}
	if c.WantGen("netlens") {
		for cas, lc := range lens {
			one("netlens", cas, lc)
		}
	}
	if c.WantGen("netcounts") {
		for cas, lc := range counts {
			one("netcounts", cas, lc)
		}
	}
}

// ---- static helpers ------------------------------------------------------------------------------

type staticKind struct {
	op  string
	gen func(r *rand.Rand) (v interface{}, to func() ([]byte, interface{}), set func(buf []byte, off int) []byte)
}

func fixedStatic(op string, w uint, signed bool,
	to func(v int64) ([]byte, int64), set func(buf []byte, off int, v int64) []byte) staticKind {
	return staticKind{op, func(r *rand.Rand) (interface{}, func() ([]byte, interface{}), func([]byte, int) []byte) {
		v := RandInt64(r)
		if signed {
			v = clampSigned(v, w)
		} else {
			v = int64(uint64(v) & (uint64(1)<<(8*w) - 1))
		}
		var s func(buf []byte, off int) []byte
		if set != nil {
			s = func(buf []byte, off int) []byte { return set(buf, off, v) }
		}
		return core.W8(v), func() ([]byte, interface{}) { e, d := to(v); return e, core.W8(d) }, s
	}}
}

var staticKinds = []staticKind{
	fixedStatic("Short", 2, true,
		func(v int64) ([]byte, int64) { e := gio.ToBytesShort(int16(v)); return e, int64(gio.ToShort(e, 0)) },
		func(b []byte, off int, v int64) []byte { return gio.SetBytesShort(b, off, int16(v)) }),
	fixedStatic("UShort", 2, false,
		func(v int64) ([]byte, int64) { e := gio.ToBytesUShort(uint16(v)); return e, int64(gio.ToUShort(e, 0)) }, nil),
	fixedStatic("UShortB", 2, false,
		func(v int64) ([]byte, int64) { e := gio.ToBytesUShort(uint16(v)); return e, int64(gio.ToUshort(e, 0)) }, nil),
	fixedStatic("Int3", 3, true,
		func(v int64) ([]byte, int64) { e := gio.ToBytesInt3(int32(v)); return e, int64(gio.ToInt3(e, 0)) },
		func(b []byte, off int, v int64) []byte { return gio.SetBytesInt3(b, off, int32(v)) }),
	fixedStatic("Int", 4, true,
		func(v int64) ([]byte, int64) { e := gio.ToBytesInt(int32(v)); return e, int64(gio.ToInt(e, 0)) },
		func(b []byte, off int, v int64) []byte { return gio.SetBytesInt(b, off, int32(v)) }),
	fixedStatic("UInt", 4, false,
		func(v int64) ([]byte, int64) { e := gio.ToBytesInt(int32(uint32(v))); return e, int64(gio.ToUint(e, 0)) }, nil),
	fixedStatic("Long5", 5, true,
		func(v int64) ([]byte, int64) { e := gio.ToBytesLong5(v); return e, gio.ToLong5(e, 0) },
		func(b []byte, off int, v int64) []byte { return gio.SetBytesLong5(b, off, v) }),
	fixedStatic("Long", 8, true,
		func(v int64) ([]byte, int64) { e := gio.ToBytesLong(v); return e, gio.ToLong(e, 0) },
		func(b []byte, off int, v int64) []byte { return gio.SetBytesLong(b, off, v) }),
	{"Float", func(r *rand.Rand) (interface{}, func() ([]byte, interface{}), func([]byte, int) []byte) {
		f := randF32(r)
		return core.F32(f), func() ([]byte, interface{}) { e := gio.ToBytesFloat(f); return e, core.F32(gio.ToFloat(e, 0)) },
			func(b []byte, off int) []byte { return gio.SetBytesFloat(b, off, f) }
	}},
	{"Double", func(r *rand.Rand) (interface{}, func() ([]byte, interface{}), func([]byte, int) []byte) {
		f := randF64(r)
		return core.F64(f), func() ([]byte, interface{}) { e := gio.ToBytesDouble(f); return e, core.F64(gio.ToDouble(e, 0)) },
			func(b []byte, off int) []byte { return gio.SetBytesDouble(b, off, f) }
	}},
	{"Bool", func(r *rand.Rand) (interface{}, func() ([]byte, interface{}), func([]byte, int) []byte) {
		v := r.Intn(2) == 1
		return v, func() ([]byte, interface{}) { e := gio.ToBytesBool(v); return e, gio.ToBool(e, 0) },
			func(b []byte, off int) []byte { return gio.SetBytesBool(b, off, v) }
	}},
	{"Raw", func(r *rand.Rand) (interface{}, func() ([]byte, interface{}), func([]byte, int) []byte) {
		src := randBytes(r, r.Intn(12))
		return core.Cp(src), nil, func(b []byte, off int) []byte { return gio.SetBytes(b, off, src) }
	}},
}

var staticWidth = map[string]int{"Short": 2, "UShort": 2, "UShortB": 2, "Int3": 3, "Int": 4, "UInt": 4, "Long5": 5, "Long": 8, "Float": 4, "Double": 8, "Bool": 1}

func runStatic(c *core.Ctx, t *core.Trace) {
	if !c.WantGen("static") {
		return
	}
	n := c.Pick(40, 400)
	for cas := 0; cas < n; cas++ {
		if !c.Want("static", cas) {
			continue
		}
		r := c.Rng("static", cas)
		t.Reset("static", cas, nil)
		type keptSlice struct {
			op string
			v  interface{}
			e  []byte
		}
		var kept []keptSlice
		key := ""
		for k := 4 + r.Intn(8); k > 0; k-- {
			sk := staticKinds[r.Intn(len(staticKinds))]
			if cas < len(staticKinds) && k%2 == 0 {
				sk = staticKinds[cas] // every kind in every run
			}
			v, to, set := sk.gen(r)
			key += sk.op + ";"
			if to != nil && (set == nil || r.Intn(2) == 0) {
				var e []byte
				var d interface{}
				if msg := core.Guard(func() { e, d = to() }); msg != "" {
					t.Emit(core.Ev{"ev": "Panic", "op": sk.op, "msg": msg})
					continue
				}
				t.Emit(core.Ev{"ev": "Static", "op": sk.op, "v": v, "out": core.Cp(e), "back": d})
				kept = append(kept, keptSlice{sk.op, v, e})
				continue
			}
			if set == nil {
				continue
			}
			w := staticWidth[sk.op]
			if sk.op == "Raw" {
				w = len(v.(core.Bytes))
			}
			off := r.Intn(6)
			buf := randBytes(r, off+w+r.Intn(6))
			before := core.Cp(buf)
			var ret []byte
			if msg := core.Guard(func() { ret = set(buf, off) }); msg != "" {
				t.Emit(core.Ev{"ev": "Panic", "op": sk.op, "msg": msg})
				continue
			}
			t.Emit(core.Ev{"ev": "SetAt", "op": sk.op, "v": v, "off": off, "before": before, "after": core.Cp(buf), "ret": core.Cp(ret)})
		}
		// the slices the helpers returned belong to the caller: after all the other calls they still hold their value
		for _, k := range kept {
			t.Emit(core.Ev{"ev": "SKept", "op": k.op, "v": k.v, "kept": core.Cp(k.e)})
		}
		c.Count("static:"+key, true)
	}
}
