// Package c20 calls the real value.Equals / value.CompareTo on every ordered pair
// of a pool of values (under recover) and records the two result matrices, for
// Trace_ValueLaws.tla to judge against the laws of equality and comparison.
// Every pool holds the originals followed by the objects value.ReadValue returned
// for their encodings (dec[i] = index of the decoded copy of member i).
//
// Generators:
//
//	types   two values of every type code (all mixed-type pairs)
//	nil     empty payloads built from nil and from empty slices
//	family  close neighbours: containers over the same few keys and items (equal size
//	        with different keys, same keys in another insertion order, same keys with
//	        values of other types, nested), scalar twins (equal, adjacent, -0/+0),
//	        ladders of texts / blobs / arrays through the length classes 0..3
//	enum    random samples of the specification's small-scope enumeration
//	rand    large random values (depth <= 4) and mutated copies of them
//	extreme ladders through the full range of every payload domain, embedded as scalars, array
//	        elements, map keys, container items (mut.go)
//	mut     live objects: rounds of public mutators between judgements, fresh twins (mut.go)
//	stride  long sequences: members below, at and above one and two strides W that differ at two
//	        positions of a stride in opposite directions, with their proper prefixes (shape.go)
//	absent  containers whose entries are absent or hold a nothing-like value (shape.go)
//	kf_*    witnesses of open known findings (none at present)
//
// NaN never occurs in a pool (the property is silent about it; the spec skips NaN members anyway).
package c20

import (
	"fmt"
	"math"
	"math/rand"
	"strings"

	gio "github.com/whatap/golib/io"
	"github.com/whatap/golib/lang/value"

	"verifharness/core"
	"verifharness/valgen"
)

func init() { core.Register("c20", Run) }

func sign(x int) int {
	if x < 0 {
		return -1
	}
	if x > 0 {
		return 1
	}
	return 0
}

// judge builds the pool, computes the matrices on the real code and emits the history.
func judge(c *core.Ctx, t *core.Trace, gen string, cas int, nodes []*valgen.Node) {
	t.Reset(gen, cas, nil)
	n := len(nodes)
	vals := make([]value.Value, 0, 2*n)
	proj := make([]interface{}, 0, 2*n)
	for _, nd := range nodes {
		vals = append(vals, valgen.Build(nd))
		proj = append(proj, valgen.Proj(nd))
	}
	dec := make([]int, n, 2*n)
	for i := 0; i < n; i++ {
		var back value.Value
		msg := core.Guard(func() {
			o := gio.NewDataOutputX()
			value.WriteValue(o, vals[i])
			back = value.ReadValue(gio.NewDataInputX(core.Cp(o.ToByteArray())))
		})
		if msg != "" || back == nil {
			continue // C02's business; this member has no decoded copy
		}
		vals = append(vals, back)
		proj = append(proj, valgen.ProjReal(back))
		dec[i] = len(vals) // 1-based index of the copy
	}
	for len(dec) < len(vals) {
		dec = append(dec, 0)
	}
	m := len(vals)
	E := make([][]int, m)
	C := make([][]int, m)
	panics := []string{}
	for i := 0; i < m; i++ {
		E[i] = make([]int, m)
		C[i] = make([]int, m)
		for j := 0; j < m; j++ {
			if msg := core.Guard(func() {
				if vals[i].Equals(vals[j]) {
					E[i][j] = 1
				}
			}); msg != "" {
				E[i][j] = 2
				if len(panics) < 4 {
					panics = append(panics, fmt.Sprintf("Equals(%d,%d): %s", i+1, j+1, msg))
				}
			}
			if msg := core.Guard(func() { C[i][j] = sign(vals[i].CompareTo(vals[j])) }); msg != "" {
				C[i][j] = 2
				if len(panics) < 4 {
					panics = append(panics, fmt.Sprintf("CompareTo(%d,%d): %s", i+1, j+1, msg))
				}
			}
		}
	}
	// matrices row-major: E[(i-1)*m + j]
	flat := func(x [][]int) []int {
		out := make([]int, 0, m*m)
		for _, row := range x {
			out = append(out, row...)
		}
		return out
	}
	ev := core.Ev{"ev": "Pool", "vals": proj, "E": flat(E), "C": flat(C), "dec": dec}
	if len(panics) > 0 {
		ev["panics"] = panics
	}
	t.Emit(ev)
	t.Emit(core.Ev{"ev": "End", "n": 1})

	sigs := make([]string, n)
	types := map[byte]int{}
	for i, nd := range nodes {
		sigs[i] = nd.Sig(6)
		types[nd.T]++
	}
	same := false
	for _, k := range types {
		same = same || k > 1
	}
	c.Count(gen+"|"+strings.Join(sigs, ";"), same && len(types) > 1)
}

func opts(budget int) *valgen.Opts {
	o := &valgen.Opts{NoNaN: true, MaxWidth: 10, MaxBlob: 300, Budget: new(int)}
	*o.Budget = budget
	return o
}

// ---- families of close neighbours ------------------------------------------------

var famKeys = [][]byte{[]byte("a"), []byte("b"), {}, []byte("ab"), []byte("k12"), []byte("k209")}
var famIKeys = []int32{5, -1, 106, 0, math.MinInt32, 5 + 202}

func leafPool(r *rand.Rand) []*valgen.Node {
	all := []*valgen.Node{valgen.Null(), valgen.Decimal(1), valgen.Decimal(2), valgen.Int(1), valgen.Long(1), valgen.Text([]byte("a")), valgen.Text([]byte("b")),
		valgen.Bool(true), valgen.Bool(false), valgen.Blob([]byte{}), valgen.Blob([]byte{1}), valgen.IntArray(2), valgen.Float(0), valgen.Float(0x80000000),
		valgen.Double(0x3ff0000000000000), valgen.TextHash(1), valgen.List(), valgen.Map(), valgen.IntMap(), valgen.IP4(1, 2, 3, 4),
		valgen.LongSummary(7, 1, 0, 9), valgen.LongSummary(7, 2, 0, 9), valgen.DoubleSummary(0x3ff0000000000000, 1, 0, 0), valgen.DoubleSummary(0x3ff0000000000000, 2, 0, 0)}
	r.Shuffle(len(all), func(i, j int) { all[i], all[j] = all[j], all[i] })
	return all[:4]
}

func family(r *rand.Rand, max int) []*valgen.Node {
	var out []*valgen.Node
	leaves := leafPool(r)
	x, y, z := leaves[0], leaves[1], leaves[2]
	kind := r.Intn(3)
	ki := r.Perm(len(famKeys))
	mk := func(keys []int, vals []*valgen.Node) *valgen.Node {
		switch kind {
		case 0:
			m := valgen.Map()
			for i, k := range keys {
				m.Put(famKeys[ki[k]], vals[i])
			}
			return m
		case 1:
			m := valgen.IntMap()
			for i, k := range keys {
				m.IPut(famIKeys[ki[k]], vals[i])
			}
			return m
		}
		return valgen.List(vals...)
	}
	out = append(out,
		mk([]int{0, 1}, []*valgen.Node{x, y}), // base
		mk([]int{1, 0}, []*valgen.Node{y, x}), // same entries, other insertion order
		mk([]int{0, 1}, []*valgen.Node{y, x}), // same keys, values swapped
		mk([]int{0, 2}, []*valgen.Node{x, y}), // same size, one key differs
		mk([]int{2, 3}, []*valgen.Node{x, y}), // same size, disjoint keys
		mk([]int{0, 1}, []*valgen.Node{x, z}), // same keys, one value of another type/content
		mk([]int{0}, []*valgen.Node{x}),
		mk([]int{1}, []*valgen.Node{x}),
		mk([]int{0, 1, 2}, []*valgen.Node{x, y, z}),
		mk([]int{2, 1, 0}, []*valgen.Node{z, y, x}),
		mk(nil, nil),
		mk([]int{0, 1}, []*valgen.Node{x, y}), // an independent copy of the base
	)
	// nested: the same outer shape around two different inner members
	out = append(out, valgen.List(out[0], out[3]), valgen.List(out[1], out[3]), valgen.Map().Put([]byte("in"), out[0]), valgen.Map().Put([]byte("in"), out[4]))
	r.Shuffle(len(out), func(i, j int) { out[i], out[j] = out[j], out[i] })
	if len(out) > max {
		out = out[:max]
	}
	return out
}

func twins(r *rand.Rand) []*valgen.Node {
	v := valgen.RandInt64(r)
	f := valgen.RandF32(r, true)
	d := valgen.RandF64(r, true)
	s := valgen.RandText(r, r.Intn(6))
	all := [][]*valgen.Node{
		{valgen.Decimal(v), valgen.Decimal(v), valgen.Decimal(v + 1), valgen.Long(v), valgen.Int(int32(v)), valgen.TextHash(int32(v))},
		{valgen.Float(f), valgen.Float(f), valgen.Float(f ^ 1), valgen.Float(0), valgen.Float(0x80000000)},
		{valgen.Double(d), valgen.Double(d), valgen.Double(d ^ 1), valgen.Double(0), valgen.Double(1 << 63)},
		{valgen.Text(s), valgen.Text(append(append([]byte{}, s...), 0)), valgen.Blob(s), valgen.Text(s), valgen.TextArray(s), valgen.TextArray(s, s)},
		{valgen.LongSummary(v, 1, 0, 0), valgen.LongSummary(v, 2, 0, 0), valgen.LongSummary(v, 1, 5, 6), valgen.LongSummary(v+1, 1, 0, 0)},
		{valgen.DoubleSummary(d, 1, 0, 0), valgen.DoubleSummary(d, 2, 0, 0), valgen.DoubleSummary(d, 1, d, d), valgen.DoubleSummary(d^1, 1, 0, 0)},
		{valgen.IntArray(1, 2), valgen.IntArray(1, 2), valgen.IntArray(1), valgen.IntArray(1, 3), valgen.LongArray(1, 2), valgen.IntArray()},
		{valgen.FloatArray(0), valgen.FloatArray(0x80000000), valgen.FloatArray(0, 0), valgen.FloatArray()},
		{valgen.IP4(1, 2, 3, 4), valgen.IP4(1, 2, 3, 4), valgen.IP4(1, 2, 3, 5), valgen.Blob([]byte{1, 2, 3, 4})},
		{valgen.Bool(true), valgen.Bool(false), valgen.Bool(true), valgen.Null(), valgen.Null()},
		// ladders: every length class 0..3 with neighbours inside the class and a proper prefix in the next one
		{valgen.Text(nil), valgen.Text([]byte("a")), valgen.Text([]byte("b")), valgen.Text([]byte("aa")), valgen.Text([]byte("ab")), valgen.Text([]byte("b\x00")),
			valgen.Text([]byte("abc")), valgen.Text([]byte("abd")), valgen.Text(s), valgen.Text([]byte("b"))},
		{valgen.Blob([]byte{}), valgen.Blob([]byte{1}), valgen.Blob([]byte{2}), valgen.Blob([]byte{1, 0}), valgen.Blob([]byte{1, 255}), valgen.Blob([]byte{2, 0}),
			valgen.Blob([]byte{1, 0, 7}), valgen.Blob([]byte{1, 0, 8}), valgen.Blob(append(append([]byte{}, s...), 9, 9, 9, 9, 1)), valgen.Blob(append(append([]byte{}, s...), 9, 9, 9, 9, 2))},
		{valgen.TextArray(), valgen.TextArray(s), valgen.TextArray([]byte("a")), valgen.TextArray([]byte("a"), []byte("a")), valgen.TextArray([]byte("a"), []byte("b")),
			valgen.TextArray([]byte("b")), valgen.LongArray(), valgen.LongArray(v), valgen.LongArray(v, v), valgen.LongArray(v, v+1), valgen.LongArray(v + 1)},
	}
	return all[r.Intn(len(all))]
}

// mutate returns a near-copy of n: one leaf changed, a map reordered, or a key replaced.
func mutate(r *rand.Rand, n *valgen.Node) *valgen.Node {
	c := *n
	c.Items = append([]*valgen.Node{}, n.Items...)
	c.Keys = append([][]byte{}, n.Keys...)
	c.IKeys = append([]int32{}, n.IKeys...)
	switch n.T {
	case valgen.TList, valgen.TMap, valgen.TIntMap:
		if len(c.Items) == 0 {
			return &c
		}
		i := r.Intn(len(c.Items))
		switch r.Intn(4) {
		case 0: // reorder (a different value for lists, the same entries for maps)
			j := r.Intn(len(c.Items))
			c.Items[i], c.Items[j] = c.Items[j], c.Items[i]
			if n.T == valgen.TMap {
				c.Keys[i], c.Keys[j] = c.Keys[j], c.Keys[i]
			}
			if n.T == valgen.TIntMap {
				c.IKeys[i], c.IKeys[j] = c.IKeys[j], c.IKeys[i]
			}
		case 1: // replace one key by a fresh one (same size, different key set)
			if n.T == valgen.TMap {
				c.Keys[i] = []byte(fmt.Sprintf("fresh-%d", r.Intn(1000)))
			} else if n.T == valgen.TIntMap {
				c.IKeys[i] = int32(1<<20 + r.Intn(1000))
			} else {
				c.Items[i] = mutate(r, c.Items[i])
			}
		case 2: // replace one item by a value of another type
			o := opts(4)
			c.Items[i] = valgen.Rand(r, 0, o)
		default:
			c.Items[i] = mutate(r, c.Items[i])
		}
	case valgen.TDecimal, valgen.TLong:
		c.I += int64(r.Intn(3) - 1)
	case valgen.TInt, valgen.TTextHash:
		c.I = int64(int32(c.I) + int32(r.Intn(3)-1))
	case valgen.TText, valgen.TBlob:
		c.S = append(append([]byte{}, n.S...), byte(r.Intn(3)))
	case valgen.TLongSummary, valgen.TDoubleSummary:
		c.Count += int32(r.Intn(2))
		c.Min ^= uint64(r.Intn(2))
	case valgen.TIntArray, valgen.TLongArray:
		c.Ints = append(append([]int64{}, n.Ints...), 1)
	case valgen.TBool:
		c.B = r.Intn(2) == 0
	}
	return &c
}

func noNaN(ns []*valgen.Node) []*valgen.Node {
	out := ns[:0:0]
	for _, n := range ns {
		if !n.HasNaN() {
			out = append(out, n)
		}
	}
	return out
}

func Run(c *core.Ctx) error {
	c.Rule = "pools of values built through the public constructors plus the objects ReadValue returns for their encodings; Equals and CompareTo called on every ordered pair; " +
		"a pool is non-trivial if it holds values of several types and at least two of one type; distinct by (generator, structural signatures of the members); " +
		"gen mut: the objects live on through 1..3 rounds of public mutators, each round judged with decoded copies and fresh twins; non-trivial if a mutator ran; " +
		"distinct by (signatures of the members, sequence of mutators)"
	t := c.Trace("c20_pools", "Trace_ValueLaws")
	size := 20 // originals per pool (the pool holds twice as many members)

	if c.WantGen("types") {
		for cas := 0; cas < c.Pick(4, 20); cas++ {
			if !c.Want("types", cas) {
				continue
			}
			r := c.Rng("types", cas)
			var ns []*valgen.Node
			for rep := 0; rep < 2; rep++ {
				for _, ty := range valgen.AllTypes {
					ns = append(ns, valgen.RandOf(r, ty, 1, opts(5)))
				}
			}
			judge(c, t, "types", cas, ns)
		}
	}

	if c.WantGen("nil") && c.Want("nil", 0) {
		N := func(ty byte) *valgen.Node { return &valgen.Node{T: ty, Nil: true} }
		E := func(ty byte) *valgen.Node { return &valgen.Node{T: ty} }
		var ns []*valgen.Node
		for _, ty := range []byte{valgen.TBlob, valgen.TIntArray, valgen.TLongArray, valgen.TFloatArray, valgen.TTextArray, valgen.TList} {
			ns = append(ns, N(ty), E(ty))
		}
		ns = append(ns, valgen.Text(nil), valgen.Text([]byte{}), valgen.Map(), valgen.IntMap(), valgen.Blob([]byte{0}), valgen.TextArray([]byte{}),
			valgen.List(N(valgen.TBlob)), valgen.List(E(valgen.TBlob)))
		judge(c, t, "nil", 0, ns)
	}

	if c.WantGen("family") {
		for cas := 0; cas < c.Pick(50, 1200); cas++ {
			if !c.Want("family", cas) {
				continue
			}
			r := c.Rng("family", cas)
			ns := family(r, 14)
			ns = append(ns, twins(r)...)
			if len(ns) > size+6 {
				ns = ns[:size+6]
			}
			judge(c, t, "family", cas, ns)
			if cas == 0 {
				c.Sample(core.Ev{"gen": "family", "case": 0, "members": 2 * len(ns), "first": valgen.Proj(ns[0]), "second": valgen.Proj(ns[1])})
			}
		}
	}

	if c.WantGen("enum") {
		all := valgen.Enumeration(3)
		for cas := 0; cas < c.Pick(25, 500); cas++ {
			if !c.Want("enum", cas) {
				continue
			}
			r := c.Rng("enum", cas)
			var ns []*valgen.Node
			for len(ns) < size {
				n := all[r.Intn(len(all))]
				if !n.HasNaN() {
					ns = append(ns, n)
				}
			}
			judge(c, t, "enum", cas, ns)
		}
	}

	if c.WantGen("rand") {
		for cas := 0; cas < c.Pick(30, 600); cas++ {
			if !c.Want("rand", cas) {
				continue
			}
			r := c.Rng("rand", cas)
			var ns []*valgen.Node
			for len(ns) < size {
				o := opts(10 + r.Intn(60))
				o.MaxWidth = 30
				n := valgen.Rand(r, 1+r.Intn(4), o)
				ns = append(ns, n)
				for k := r.Intn(3); k > 0 && len(ns) < size; k-- {
					ns = append(ns, mutate(r, n))
				}
			}
			ns = noNaN(ns)
			judge(c, t, "rand", cas, ns)
			if cas == 0 {
				c.Sample(core.Ev{"gen": "rand", "case": 0, "members": 2 * len(ns), "signatures": []string{ns[0].Sig(6), ns[1].Sig(6), ns[2].Sig(6)}})
			}
		}
	}

	// a second trace file: validated by its own TLC beside the first
	t2 := c.Trace("c20_live", "Trace_ValueLaws")
	if c.WantGen("extreme") {
		for cas := 0; cas < c.Pick(len(embeddings()), 8*len(embeddings())); cas++ {
			if !c.Want("extreme", cas) {
				continue
			}
			ns, name := extremePool(c.Rng("extreme", cas), cas)
			judge(c, t2, "extreme", cas, ns)
			if cas == 3 {
				c.Sample(core.Ev{"gen": "extreme", "case": cas, "embeddings": name, "members": 2 * len(ns), "first": valgen.Proj(ns[0]), "second": valgen.Proj(ns[1])})
			}
		}
	}

	// a third trace file
	t3 := c.Trace("c20_shape", "Trace_ValueLaws")
	if c.WantGen("stride") {
		for cas := 0; cas < c.Pick(2*len(seqEmbeddings()), (2+2*len(strideAll))*len(seqEmbeddings())); cas++ {
			if !c.Want("stride", cas) {
				continue
			}
			r := c.Rng("stride", cas)
			e, W := strideCase(r, cas)
			ns, name := stridePool(r, e, W)
			judge(c, t3, "stride", cas, ns)
			if cas == 0 {
				c.Sample(core.Ev{"gen": "stride", "case": cas, "shape": name, "members": 2 * len(ns), "first": valgen.Proj(ns[0]), "second": valgen.Proj(ns[1])})
			}
		}
	}

	if c.WantGen("absent") {
		for cas := 0; cas < c.Pick(12, 360); cas++ {
			if !c.Want("absent", cas) {
				continue
			}
			ns, name := absentPool(c.Rng("absent", cas), cas)
			judge(c, t3, "absent", cas, ns)
			if cas == 1 {
				c.Sample(core.Ev{"gen": "absent", "case": cas, "shape": name, "members": 2 * len(ns), "first": valgen.Proj(ns[0]), "second": valgen.Proj(ns[1])})
			}
		}
	}

	if c.WantGen("mut") {
		for cas := 0; cas < c.Pick(36, 1400); cas++ {
			if !c.Want("mut", cas) {
				continue
			}
			r := c.Rng("mut", cas)
			ns, e := mutMembers(r, cas%5 == 4)
			judgeLive(c, t2, "mut", cas, r, ns, e, 1+r.Intn(3))
			if cas == 0 {
				c.Sample(core.Ev{"gen": "mut", "case": 0, "live": len(ns), "members": 3 * len(ns), "first": valgen.Proj(ns[0]), "keys": e.keys})
			}
		}
	}
	return nil
}
