// Generators "extreme" and "mut" of the C20 driver.
//
//	extreme  ladders through the full range of every payload domain (32/64-bit integers from
//	         MinInt to MaxInt, floats and doubles from -Inf over -0/+0 and the denormals to +Inf,
//	         bytes 0x00..0xff, texts from "" over the UTF-8 length classes to U+10FFFF and invalid
//	         bytes), every point embedded the same way: as a scalar, as the first / a later
//	         element of an array, as an int-map or map key, as an item of a list, as the value of
//	         a map entry, inside a nested array, as the count of a summary.  Every pair and triple
//	         of ladder points meets under the same embedding (far-apart and adjacent operands).
//	mut      the objects of a pool LIVE ON: after a first judgement their public mutators (Put,
//	         PutString, PutLong, PutAll, NewList, Clear, Add, AddString, AddLong, Set, Read into
//	         the existing object, assignment of exported payload fields and of single elements,
//	         summary Add / AddCount, and the same on a child reached through Get) are called on
//	         some of them and all ordered pairs are compared again (up to three rounds).  Every
//	         round the pool holds the live objects, the objects ReadValue returns for their
//	         encodings, and objects built afresh through the public constructors from what the
//	         getters and enumerations of the live objects show (their "twins").
package c20

import (
	"fmt"
	"math"
	"math/rand"
	"strings"

	gio "github.com/whatap/golib/io"
	"github.com/whatap/golib/lang/value"

	"verifharness/core"
	"verifharness/valgen"
)

// ---- ladders ----------------------------------------------------------------------

var i32L = []int64{math.MinInt32, math.MinInt32 + 1, -1500000000, -(1 << 30), -65536, -1, 0, 1, 65535, 1 << 30, 1500000000, math.MaxInt32 - 1, math.MaxInt32}
var i64L = []int64{math.MinInt64, math.MinInt64 + 1, -(1 << 62) - 1, -(1 << 32), -(1 << 31) - 1, -1, 0, 1, 1 << 31, 1 << 32, 1 << 62, math.MaxInt64 - 1, math.MaxInt64}

func f32bits(fs ...float32) []uint32 {
	out := make([]uint32, len(fs))
	for i, f := range fs {
		out[i] = math.Float32bits(f)
	}
	return out
}
func f64bits(fs ...float64) []uint64 {
	out := make([]uint64, len(fs))
	for i, f := range fs {
		out[i] = math.Float64bits(f)
	}
	return out
}

var f32L = append(f32bits(float32(math.Inf(-1)), -math.MaxFloat32, -1e30, -4294967296, -1.5, -1, -0.75, -0.25, -math.SmallestNonzeroFloat32), 0x80000000,
	0, 1, math.Float32bits(0.25), math.Float32bits(0.75), math.Float32bits(1), math.Float32bits(1.5), math.Float32bits(4294967296), math.Float32bits(1.8446744e19),
	math.Float32bits(1e30), math.Float32bits(math.MaxFloat32), math.Float32bits(float32(math.Inf(1))))
var f64L = append(f64bits(math.Inf(-1), -math.MaxFloat64, -1e300, -9.3e18, -4294967296.5, -1.5, -1, -0.75, -0.25, -math.SmallestNonzeroFloat64), 1<<63,
	0, 1, math.Float64bits(0.25), math.Float64bits(0.75), math.Float64bits(1), math.Float64bits(1.5), math.Float64bits(4294967296.5), math.Float64bits(9007199254740993),
	math.Float64bits(9.3e18), math.Float64bits(1e300), math.Float64bits(math.MaxFloat64), math.Float64bits(math.Inf(1)))
var byteL = []byte{0, 1, 0x7e, 0x7f, 0x80, 0x81, 0xfe, 0xff}
var textL = [][]byte{{}, {0}, []byte("A"), []byte("a"), {0x7f}, []byte("\u0080"), []byte("\u07ff"), []byte("\u0800"), []byte("\ud7ff"), []byte("\ue000"),
	[]byte("\ufffd"), []byte("\uffff"), []byte("\U00010000"), []byte("\U0010ffff"), {0x80}, {0xff}}

type embed struct {
	name string
	n    int // ladder length
	at   func(k int) *valgen.Node
}

func cp(b []byte, more ...byte) []byte { return append(append([]byte{}, b...), more...) }

const one32 = 0x3f800000
const one64 = 0x3ff0000000000000

func embeddings() []embed {
	var out []embed
	add := func(name string, n int, at func(k int) *valgen.Node) { out = append(out, embed{name, n, at}) }
	i32 := func(k int) int32 { return int32(i32L[k]) }
	add("i32/Int", len(i32L), func(k int) *valgen.Node { return valgen.Int(i32(k)) })
	add("i32/TextHash", len(i32L), func(k int) *valgen.Node { return valgen.TextHash(i32(k)) })
	add("i32/IntArray[x]", len(i32L), func(k int) *valgen.Node { return valgen.IntArray(i32L[k]) })
	add("i32/IntArray[c,x]", len(i32L), func(k int) *valgen.Node { return valgen.IntArray(7, i32L[k]) })
	add("i32/IntArray[x,c]", len(i32L), func(k int) *valgen.Node { return valgen.IntArray(i32L[k], 7) })
	add("i32/IntMap{x:}", len(i32L), func(k int) *valgen.Node { return valgen.IntMap().IPut(i32(k), valgen.Decimal(1)) })
	add("i32/IntMap{x:,3:}", len(i32L), func(k int) *valgen.Node {
		return valgen.IntMap().IPut(i32(k), valgen.Decimal(1)).IPut(3, valgen.Text([]byte("a")))
	})
	add("i32/IntMap{3:,x:}", len(i32L), func(k int) *valgen.Node {
		return valgen.IntMap().IPut(3, valgen.Text([]byte("a"))).IPut(i32(k), valgen.Decimal(1))
	})
	add("i32/List[Int]", len(i32L), func(k int) *valgen.Node { return valgen.List(valgen.Int(i32(k))) })
	add("i32/Map{k:IntArray[c,x]}", len(i32L), func(k int) *valgen.Node { return valgen.Map().Put([]byte("k"), valgen.IntArray(7, i32L[k])) })
	add("i32/LongSummary.count", len(i32L), func(k int) *valgen.Node { return valgen.LongSummary(5, i32(k), 0, 0) })
	add("i32/DoubleSummary.count", len(i32L), func(k int) *valgen.Node { return valgen.DoubleSummary(one64, i32(k), 0, 0) })
	add("i32/List[IntArray,Int]", len(i32L), func(k int) *valgen.Node { return valgen.List(valgen.IntArray(1, 2), valgen.Int(i32(k))) })
	add("i32/IntMap{7:TextHash}", len(i32L), func(k int) *valgen.Node { return valgen.IntMap().IPut(7, valgen.TextHash(i32(k))) })

	add("i64/Decimal", len(i64L), func(k int) *valgen.Node { return valgen.Decimal(i64L[k]) })
	add("i64/Long", len(i64L), func(k int) *valgen.Node { return valgen.Long(i64L[k]) })
	add("i64/LongArray[x]", len(i64L), func(k int) *valgen.Node { return valgen.LongArray(i64L[k]) })
	add("i64/LongArray[c,x]", len(i64L), func(k int) *valgen.Node { return valgen.LongArray(7, i64L[k]) })
	add("i64/LongSummary.sum", len(i64L), func(k int) *valgen.Node { return valgen.LongSummary(i64L[k], 1, 0, 0) })
	add("i64/List[Decimal]", len(i64L), func(k int) *valgen.Node { return valgen.List(valgen.Decimal(i64L[k])) })
	add("i64/Map{k:Long}", len(i64L), func(k int) *valgen.Node { return valgen.Map().Put([]byte("k"), valgen.Long(i64L[k])) })
	add("i64/IntMap{5:LongArray}", len(i64L), func(k int) *valgen.Node { return valgen.IntMap().IPut(5, valgen.LongArray(i64L[k])) })
	add("i64/List[Long,Decimal]", len(i64L), func(k int) *valgen.Node { return valgen.List(valgen.Long(1), valgen.Decimal(i64L[k])) })

	add("f32/Float", len(f32L), func(k int) *valgen.Node { return valgen.Float(f32L[k]) })
	add("f32/FloatArray[x]", len(f32L), func(k int) *valgen.Node { return valgen.FloatArray(f32L[k]) })
	add("f32/FloatArray[c,x]", len(f32L), func(k int) *valgen.Node { return valgen.FloatArray(one32, f32L[k]) })
	add("f32/List[Float]", len(f32L), func(k int) *valgen.Node { return valgen.List(valgen.Float(f32L[k])) })
	add("f32/Map{k:FloatArray}", len(f32L), func(k int) *valgen.Node { return valgen.Map().Put([]byte("k"), valgen.FloatArray(f32L[k])) })
	add("f32/IntMap{1:Float}", len(f32L), func(k int) *valgen.Node { return valgen.IntMap().IPut(1, valgen.Float(f32L[k])) })

	add("f64/Double", len(f64L), func(k int) *valgen.Node { return valgen.Double(f64L[k]) })
	add("f64/DoubleSummary.sum", len(f64L), func(k int) *valgen.Node { return valgen.DoubleSummary(f64L[k], 1, 0, 0) })
	add("f64/List[Double]", len(f64L), func(k int) *valgen.Node { return valgen.List(valgen.Double(f64L[k])) })
	add("f64/Map{k:Double}", len(f64L), func(k int) *valgen.Node { return valgen.Map().Put([]byte("k"), valgen.Double(f64L[k])) })
	add("f64/IntMap{1:DoubleSummary}", len(f64L), func(k int) *valgen.Node { return valgen.IntMap().IPut(1, valgen.DoubleSummary(f64L[k], 2, 0, 0)) })
	add("f64/List[Double,Double]", len(f64L), func(k int) *valgen.Node { return valgen.List(valgen.Double(one64), valgen.Double(f64L[k])) })

	add("byte/Blob[x]", len(byteL), func(k int) *valgen.Node { return valgen.Blob([]byte{byteL[k]}) })
	add("byte/Blob[c,x]", len(byteL), func(k int) *valgen.Node { return valgen.Blob([]byte{7, byteL[k]}) })
	add("byte/Blob[x,c]", len(byteL), func(k int) *valgen.Node { return valgen.Blob([]byte{byteL[k], 7}) })
	add("byte/IP4[x...]", len(byteL), func(k int) *valgen.Node { return valgen.IP4(byteL[k], 1, 1, 1) })
	add("byte/IP4[...x]", len(byteL), func(k int) *valgen.Node { return valgen.IP4(1, 1, 1, byteL[k]) })
	add("byte/List[Blob]", len(byteL), func(k int) *valgen.Node { return valgen.List(valgen.Blob([]byte{byteL[k]})) })
	add("byte/Map{k:IP4}", len(byteL), func(k int) *valgen.Node { return valgen.Map().Put([]byte("k"), valgen.IP4(1, 1, byteL[k], 1)) })

	add("text/Text", len(textL), func(k int) *valgen.Node { return valgen.Text(cp(textL[k])) })
	add("text/Text[a+s]", len(textL), func(k int) *valgen.Node { return valgen.Text(append([]byte("a"), textL[k]...)) })
	add("text/TextArray[s]", len(textL), func(k int) *valgen.Node { return valgen.TextArray(cp(textL[k])) })
	add("text/TextArray[a,s]", len(textL), func(k int) *valgen.Node { return valgen.TextArray([]byte("a"), cp(textL[k])) })
	add("text/Map{s:}", len(textL), func(k int) *valgen.Node { return valgen.Map().Put(cp(textL[k]), valgen.Decimal(1)) })
	add("text/Map{s:,m:}", len(textL), func(k int) *valgen.Node {
		return valgen.Map().Put(cp(textL[k]), valgen.Decimal(1)).Put([]byte("m"), valgen.Decimal(2))
	})
	add("text/Map{m:,s:}", len(textL), func(k int) *valgen.Node {
		return valgen.Map().Put([]byte("m"), valgen.Decimal(2)).Put(cp(textL[k]), valgen.Decimal(1))
	})
	add("text/List[Text]", len(textL), func(k int) *valgen.Node { return valgen.List(valgen.Text(cp(textL[k]))) })
	add("text/Blob", len(textL), func(k int) *valgen.Node { return valgen.Blob(cp(textL[k])) })
	add("text/Map{k:TextArray}", len(textL), func(k int) *valgen.Node { return valgen.Map().Put([]byte("k"), valgen.TextArray(cp(textL[k]))) })
	return out
}

// extremePool: the ladder (at most 15 points, the three lowest and the three highest always) under the
// primary embedding, six points under another embedding of the same domain, one duplicate.
func extremePool(r *rand.Rand, cas int) ([]*valgen.Node, string) {
	es := embeddings()
	p := es[cas%len(es)]
	dom := p.name[:strings.Index(p.name, "/")]
	var same []embed
	for _, e := range es {
		if strings.HasPrefix(e.name, dom+"/") && e.name != p.name {
			same = append(same, e)
		}
	}
	q := same[r.Intn(len(same))]
	pick := func(n, max int) []int {
		if n <= max {
			ks := make([]int, n)
			for i := range ks {
				ks[i] = i
			}
			return ks
		}
		keep := map[int]bool{0: true, 1: true, 2: true, n - 1: true, n - 2: true, n - 3: true}
		for len(keep) < max {
			keep[r.Intn(n)] = true
		}
		var ks []int
		for k := 0; k < n; k++ {
			if keep[k] {
				ks = append(ks, k)
			}
		}
		return ks
	}
	var ns []*valgen.Node
	for _, k := range pick(p.n, 15) {
		ns = append(ns, p.at(k))
	}
	ns = append(ns, p.at(r.Intn(p.n)))
	for _, k := range pick(q.n, 6) {
		ns = append(ns, q.at(k))
	}
	r.Shuffle(len(ns), func(i, j int) { ns[i], ns[j] = ns[j], ns[i] })
	return ns, p.name + "+" + q.name
}

// ---- live objects -------------------------------------------------------------------

// fresh builds a new object through the public constructors from what the getters,
// enumerations and exported fields of v show.  Nothing is shared with v.
func fresh(v value.Value) value.Value {
	switch x := v.(type) {
	case *value.NullValue:
		return value.NewNullValue()
	case *value.BoolValue:
		return value.NewBoolValue(x.Val)
	case *value.DecimalValue:
		return value.NewDecimalValue(x.Val)
	case *value.IntValue:
		return value.NewIntValue(x.Val)
	case *value.LongValue:
		return value.NewLongValue(x.Val)
	case *value.FloatValue:
		return value.NewFloatValue(x.Val)
	case *value.DoubleValue:
		return value.NewDoubleValue(x.Val)
	case *value.TextValue:
		return value.NewTextValue(string(append([]byte{}, x.Val...)))
	case *value.TextHashValue:
		return value.NewTextHashValue(x.Val)
	case *value.BlobValue:
		return value.NewBlobValue(append([]byte{}, x.Val...))
	case *value.IP4Value:
		return value.NewIP4Value(append([]byte{}, x.Val...))
	case *value.DoubleSummary:
		s := value.NewDoubleSummary()
		s.Sum, s.Count, s.Min, s.Max = x.Sum, x.Count, x.Min, x.Max
		return s
	case *value.LongSummary:
		s := value.NewLongSummary()
		s.Sum, s.Count, s.Min, s.Max = x.Sum, x.Count, x.Min, x.Max
		return s
	case *value.IntArray:
		return value.NewIntArray(append([]int32{}, x.Val...))
	case *value.LongArray:
		return value.NewLongArray(append([]int64{}, x.Val...))
	case *value.FloatArray:
		return value.NewFloatArray(append([]float32{}, x.Val...))
	case *value.TextArray:
		return value.NewTextArray(append([]string{}, x.Val...))
	case *value.ListValue:
		l := value.NewListValue(nil)
		for i := 0; i < x.Size(); i++ {
			l.Add(fresh(x.Get(i)))
		}
		return l
	case *value.MapValue:
		m := value.NewMapValue()
		for en := x.Keys(); en.HasMoreElements(); {
			k := en.NextString()
			m.Put(k, fresh(x.Get(k)))
		}
		return m
	case *value.IntMapValue:
		m := value.NewIntMapValue()
		for en := x.Keys(); en.HasMoreElements(); {
			k := en.NextInt()
			m.Put(k, fresh(x.Get(k)))
		}
		return m
	}
	panic(fmt.Sprintf("c20: fresh(%T)", v))
}

// menv is the small world the mutators of one history draw from, so that mutated
// members stay close neighbours of the others (same few keys, same few items).
type menv struct {
	keys   []string
	ikeys  []int32
	leaves []*valgen.Node
}

func (e *menv) key(r *rand.Rand) string   { return e.keys[r.Intn(len(e.keys))] }
func (e *menv) ikey(r *rand.Rand) int32   { return e.ikeys[r.Intn(len(e.ikeys))] }
func (e *menv) leafNode(r *rand.Rand) *valgen.Node { return e.leaves[r.Intn(len(e.leaves))] }
func (e *menv) leaf(r *rand.Rand) value.Value      { return valgen.Build(e.leafNode(r)) }

func body(v value.Value) *gio.DataInputX {
	o := gio.NewDataOutputX()
	v.Write(o)
	return gio.NewDataInputX(core.Cp(o.ToByteArray()))
}

var modInts = []int64{0, 1, -1, 2, 7, math.MaxInt32, math.MinInt32, math.MaxInt64, math.MinInt64, 1 << 31}
var modF64 = []float64{0, math.Copysign(0, -1), 1, -1, 0.5, 1.5, 2, 1e30, -1e30}
var modText = []string{"", "a", "b", "ab", "a\x00", "é", "k12"}

// variant returns a new value of the type of v whose payload is a neighbour of v's or a fixed
// small / extreme one (never NaN).
func variant(r *rand.Rand, v value.Value) value.Value {
	mi := func(cur int64) int64 {
		switch r.Intn(3) {
		case 0:
			return cur + int64(r.Intn(3)-1)
		default:
			return modInts[r.Intn(len(modInts))]
		}
	}
	mf := func(cur float64) float64 {
		if r.Intn(3) == 0 && !math.IsInf(cur, 0) {
			return cur + float64(r.Intn(3)-1)/2
		}
		return modF64[r.Intn(len(modF64))]
	}
	switch x := v.(type) {
	case *value.NullValue:
		return value.NewNullValue()
	case *value.BoolValue:
		return value.NewBoolValue(r.Intn(2) == 0)
	case *value.DecimalValue:
		return value.NewDecimalValue(mi(x.Val))
	case *value.IntValue:
		return value.NewIntValue(int32(mi(int64(x.Val))))
	case *value.LongValue:
		return value.NewLongValue(mi(x.Val))
	case *value.TextHashValue:
		return value.NewTextHashValue(int32(mi(int64(x.Val))))
	case *value.FloatValue:
		return value.NewFloatValue(float32(mf(float64(x.Val))))
	case *value.DoubleValue:
		return value.NewDoubleValue(mf(x.Val))
	case *value.TextValue:
		if r.Intn(3) == 0 {
			return value.NewTextValue(x.Val + "a")
		}
		return value.NewTextValue(modText[r.Intn(len(modText))])
	case *value.BlobValue:
		if r.Intn(3) == 0 {
			return value.NewBlobValue(append(append([]byte{}, x.Val...), byte(r.Intn(2)*255)))
		}
		return value.NewBlobValue([]byte(modText[r.Intn(len(modText))]))
	case *value.IP4Value:
		b := append([]byte{}, x.Val...)
		b[r.Intn(4)] = byteL[r.Intn(len(byteL))]
		return value.NewIP4Value(b)
	case *value.DoubleSummary:
		s := value.NewDoubleSummary()
		s.Sum, s.Count, s.Min, s.Max = float64(r.Intn(5)-2)/2, int32(r.Intn(3)), float64(r.Intn(3)), float64(r.Intn(3))
		return s
	case *value.LongSummary:
		s := value.NewLongSummary()
		s.Sum, s.Count, s.Min, s.Max = int64(r.Intn(5)-2), int32(r.Intn(3)), int64(r.Intn(3)), int64(r.Intn(3))
		return s
	case *value.IntArray:
		a := append([]int32{}, x.Val...)
		switch {
		case r.Intn(3) == 0 || len(a) == 0:
			a = append(a, int32(mi(1)))
		case r.Intn(2) == 0:
			a = a[:len(a)-1]
		default:
			a[r.Intn(len(a))] = int32(mi(int64(a[0])))
		}
		return value.NewIntArray(a)
	case *value.LongArray:
		a := append([]int64{}, x.Val...)
		switch {
		case r.Intn(3) == 0 || len(a) == 0:
			a = append(a, mi(1))
		case r.Intn(2) == 0:
			a = a[:len(a)-1]
		default:
			a[r.Intn(len(a))] = mi(a[0])
		}
		return value.NewLongArray(a)
	case *value.FloatArray:
		a := append([]float32{}, x.Val...)
		switch {
		case r.Intn(3) == 0 || len(a) == 0:
			a = append(a, float32(mf(1)))
		case r.Intn(2) == 0:
			a = a[:len(a)-1]
		default:
			a[r.Intn(len(a))] = float32(mf(float64(a[0])))
		}
		return value.NewFloatArray(a)
	case *value.TextArray:
		a := append([]string{}, x.Val...)
		switch {
		case r.Intn(3) == 0 || len(a) == 0:
			a = append(a, modText[r.Intn(len(modText))])
		case r.Intn(2) == 0:
			a = a[:len(a)-1]
		default:
			a[r.Intn(len(a))] = modText[r.Intn(len(modText))]
		}
		return value.NewTextArray(a)
	}
	panic(fmt.Sprintf("c20: variant(%T)", v))
}

// setVal assigns the exported payload field(s) of v from w (same Go type).
func setVal(v, w value.Value) {
	switch x := v.(type) {
	case *value.BoolValue:
		x.Val = w.(*value.BoolValue).Val
	case *value.DecimalValue:
		x.Val = w.(*value.DecimalValue).Val
	case *value.IntValue:
		x.Val = w.(*value.IntValue).Val
	case *value.LongValue:
		x.Val = w.(*value.LongValue).Val
	case *value.TextHashValue:
		x.Val = w.(*value.TextHashValue).Val
	case *value.FloatValue:
		x.Val = w.(*value.FloatValue).Val
	case *value.DoubleValue:
		x.Val = w.(*value.DoubleValue).Val
	case *value.TextValue:
		x.Val = w.(*value.TextValue).Val
	case *value.BlobValue:
		x.Val = w.(*value.BlobValue).Val
	case *value.IP4Value:
		x.Val = w.(*value.IP4Value).Val
	case *value.DoubleSummary:
		y := w.(*value.DoubleSummary)
		x.Sum, x.Count, x.Min, x.Max = y.Sum, y.Count, y.Min, y.Max
	case *value.LongSummary:
		y := w.(*value.LongSummary)
		x.Sum, x.Count, x.Min, x.Max = y.Sum, y.Count, y.Min, y.Max
	case *value.IntArray:
		x.Val = w.(*value.IntArray).Val
	case *value.LongArray:
		x.Val = w.(*value.LongArray).Val
	case *value.FloatArray:
		x.Val = w.(*value.FloatArray).Val
	case *value.TextArray:
		x.Val = w.(*value.TextArray).Val
	default:
		panic(fmt.Sprintf("c20: setVal(%T)", v))
	}
}

// setElem overwrites one element of the exported slice of v in place; false if there is none.
func setElem(r *rand.Rand, v value.Value) bool {
	switch x := v.(type) {
	case *value.BlobValue:
		if len(x.Val) == 0 {
			return false
		}
		x.Val[r.Intn(len(x.Val))] = byteL[r.Intn(len(byteL))]
	case *value.IP4Value:
		x.Val[r.Intn(len(x.Val))] = byteL[r.Intn(len(byteL))]
	case *value.IntArray:
		if len(x.Val) == 0 {
			return false
		}
		x.Val[r.Intn(len(x.Val))] = int32(modInts[r.Intn(len(modInts))])
	case *value.LongArray:
		if len(x.Val) == 0 {
			return false
		}
		x.Val[r.Intn(len(x.Val))] = modInts[r.Intn(len(modInts))]
	case *value.FloatArray:
		if len(x.Val) == 0 {
			return false
		}
		x.Val[r.Intn(len(x.Val))] = float32(modF64[r.Intn(len(modF64))])
	case *value.TextArray:
		if len(x.Val) == 0 {
			return false
		}
		x.Val[r.Intn(len(x.Val))] = modText[r.Intn(len(modText))]
	default:
		return false
	}
	return true
}

func smallMap(r *rand.Rand, e *menv, max int) *value.MapValue {
	m := value.NewMapValue()
	for k := r.Intn(max + 1); k > 0; k-- {
		m.Put(e.key(r), e.leaf(r))
	}
	return m
}

func smallIntMap(r *rand.Rand, e *menv, max int) *value.IntMapValue {
	m := value.NewIntMapValue()
	for k := r.Intn(max + 1); k > 0; k-- {
		m.Put(e.ikey(r), e.leaf(r))
	}
	return m
}

func smallList(r *rand.Rand, e *menv, max int) *value.ListValue {
	l := value.NewListValue(nil)
	for k := r.Intn(max + 1); k > 0; k-- {
		l.Add(e.leaf(r))
	}
	return l
}

func short(v value.Value) string {
	s := fmt.Sprintf("%d:%v", v.GetValueType(), valgen.ProjReal(v).(map[string]interface{})["v"])
	if len(s) > 60 {
		s = s[:60] + ".."
	}
	return s
}

// mutate1 calls one public mutator on v (depth: how far "Inner" may still descend) and
// returns its name and a description of its arguments.
func mutate1(r *rand.Rand, v value.Value, e *menv, depth int) (op, arg string) {
	switch x := v.(type) {
	case *value.MapValue:
		var kids []string
		for en := x.Keys(); en.HasMoreElements(); {
			kids = append(kids, en.NextString())
		}
		c := r.Intn(20)
		switch {
		case c < 4:
			k, w := e.key(r), e.leaf(r)
			x.Put(k, w)
			return "Put", fmt.Sprintf("%q %s", k, short(w))
		case c < 5:
			k, s := e.key(r), modText[r.Intn(len(modText))]
			x.PutString(k, s)
			return "PutString", fmt.Sprintf("%q %q", k, s)
		case c < 6:
			k, n := e.key(r), modInts[r.Intn(len(modInts))]
			x.PutLong(k, n)
			return "PutLong", fmt.Sprintf("%q %d", k, n)
		case c < 10:
			o := smallMap(r, e, 2)
			x.PutAll(o)
			return "PutAll", short(o)
		case c < 14:
			o := smallMap(r, e, 2)
			x.Read(body(o))
			return "Read", short(o)
		case c < 15:
			x.Clear()
			return "Clear", ""
		case c < 16:
			k := e.key(r)
			l := x.NewList(k)
			if r.Intn(2) == 0 {
				l.Add(e.leaf(r))
			}
			return "NewList", fmt.Sprintf("%q size %d", k, l.Size())
		default:
			if depth > 0 && len(kids) > 0 {
				k := kids[r.Intn(len(kids))]
				o, a := mutate1(r, x.Get(k), e, depth-1)
				return "Inner", fmt.Sprintf("%q.%s %s", k, o, a)
			}
			k, w := e.key(r), e.leaf(r)
			x.Put(k, w)
			return "Put", fmt.Sprintf("%q %s", k, short(w))
		}
	case *value.IntMapValue:
		var kids []int32
		for en := x.Keys(); en.HasMoreElements(); {
			kids = append(kids, en.NextInt())
		}
		c := r.Intn(16)
		switch {
		case c < 5:
			k, w := e.ikey(r), e.leaf(r)
			x.Put(k, w)
			return "Put", fmt.Sprintf("%d %s", k, short(w))
		case c < 6:
			k, s := e.ikey(r), modText[r.Intn(len(modText))]
			x.PutString(k, s)
			return "PutString", fmt.Sprintf("%d %q", k, s)
		case c < 7:
			k, n := e.ikey(r), modInts[r.Intn(len(modInts))]
			x.PutLong(k, n)
			return "PutLong", fmt.Sprintf("%d %d", k, n)
		case c < 11:
			o := smallIntMap(r, e, 2)
			x.Read(body(o))
			return "Read", short(o)
		case c < 12:
			x.Clear()
			return "Clear", ""
		case c < 13:
			k := e.ikey(r)
			l := x.NewList(k)
			if r.Intn(2) == 0 {
				l.Add(e.leaf(r))
			}
			return "NewList", fmt.Sprintf("%d size %d", k, l.Size())
		default:
			if depth > 0 && len(kids) > 0 {
				k := kids[r.Intn(len(kids))]
				o, a := mutate1(r, x.Get(k), e, depth-1)
				return "Inner", fmt.Sprintf("%d.%s %s", k, o, a)
			}
			k, w := e.ikey(r), e.leaf(r)
			x.Put(k, w)
			return "Put", fmt.Sprintf("%d %s", k, short(w))
		}
	case *value.ListValue:
		c := r.Intn(16)
		switch {
		case c < 4:
			w := e.leaf(r)
			x.Add(w)
			return "Add", short(w)
		case c < 5:
			s := modText[r.Intn(len(modText))]
			x.AddString(s)
			return "AddString", fmt.Sprintf("%q", s)
		case c < 6:
			n := modInts[r.Intn(len(modInts))]
			x.AddLong(n)
			return "AddLong", fmt.Sprint(n)
		case c < 9 && x.Size() > 0:
			i, w := r.Intn(x.Size()), e.leaf(r)
			x.Set(i, w)
			return "Set", fmt.Sprintf("%d %s", i, short(w))
		case c < 12:
			o := smallList(r, e, 3)
			x.Read(body(o))
			return "Read", short(o)
		case c < 13:
			x.Clear()
			return "Clear", ""
		default:
			if depth > 0 && x.Size() > 0 {
				i := r.Intn(x.Size())
				o, a := mutate1(r, x.Get(i), e, depth-1)
				return "Inner", fmt.Sprintf("%d.%s %s", i, o, a)
			}
			w := e.leaf(r)
			x.Add(w)
			return "Add", short(w)
		}
	case *value.NullValue:
		x.Read(body(x))
		return "Read", ""
	case *value.DoubleSummary:
		switch r.Intn(4) {
		case 0:
			w := variant(r, v)
			x.Add(w.(value.SummaryValue))
			return "Add", short(w)
		case 1:
			x.AddCount()
			return "AddCount", ""
		}
	case *value.LongSummary:
		switch r.Intn(4) {
		case 0:
			w := variant(r, v)
			x.Add(w.(value.SummaryValue))
			return "Add", short(w)
		case 1:
			x.AddCount()
			return "AddCount", ""
		}
	}
	// scalars, arrays, summaries: the exported payload, one element of it, or Read into the object
	if r.Intn(4) == 0 && setElem(r, v) {
		return "SetElem", short(v)
	}
	w := variant(r, v)
	if r.Intn(2) == 0 {
		setVal(v, w)
		return "SetVal", short(w)
	}
	v.Read(body(w))
	return "Read", short(w)
}

var mutScalars = []func(r *rand.Rand) *valgen.Node{
	func(r *rand.Rand) *valgen.Node { return valgen.Decimal(modInts[r.Intn(len(modInts))]) },
	func(r *rand.Rand) *valgen.Node { return valgen.Int(int32(modInts[r.Intn(len(modInts))])) },
	func(r *rand.Rand) *valgen.Node { return valgen.Long(modInts[r.Intn(len(modInts))]) },
	func(r *rand.Rand) *valgen.Node { return valgen.TextHash(int32(modInts[r.Intn(len(modInts))])) },
	func(r *rand.Rand) *valgen.Node { return valgen.Float(math.Float32bits(float32(modF64[r.Intn(len(modF64))]))) },
	func(r *rand.Rand) *valgen.Node { return valgen.Double(math.Float64bits(modF64[r.Intn(len(modF64))])) },
	func(r *rand.Rand) *valgen.Node { return valgen.Text([]byte(modText[r.Intn(len(modText))])) },
	func(r *rand.Rand) *valgen.Node { return valgen.Blob([]byte(modText[r.Intn(len(modText))])) },
	func(r *rand.Rand) *valgen.Node { return valgen.IP4(1, 2, 3, byteL[r.Intn(len(byteL))]) },
	func(r *rand.Rand) *valgen.Node { return valgen.Bool(r.Intn(2) == 0) },
	func(r *rand.Rand) *valgen.Node { return valgen.Null() },
	func(r *rand.Rand) *valgen.Node { return valgen.IntArray(1, modInts[r.Intn(7)]) },
	func(r *rand.Rand) *valgen.Node { return valgen.LongArray(1, modInts[r.Intn(len(modInts))]) },
	func(r *rand.Rand) *valgen.Node { return valgen.FloatArray(one32, math.Float32bits(float32(modF64[r.Intn(len(modF64))]))) },
	func(r *rand.Rand) *valgen.Node { return valgen.TextArray([]byte("a"), []byte(modText[r.Intn(len(modText))])) },
	func(r *rand.Rand) *valgen.Node { return valgen.LongSummary(int64(r.Intn(3)), int32(r.Intn(3)), 0, 2) },
	func(r *rand.Rand) *valgen.Node {
		return valgen.DoubleSummary(math.Float64bits(float64(r.Intn(3))), int32(r.Intn(3)), 0, math.Float64bits(2))
	},
}

// mutMembers: a family of containers of one kind over a few keys and items, one container of
// another kind, nested containers, and two pairs of equal scalars / arrays / summaries.
// nothing: the leaves are null, another nothing-like value (zero, empty, ...) and two others, so that the mutators
// put, overwrite and clear entries that hold "nothing" beside containers in which those entries are absent.
func mutMembers(r *rand.Rand, nothing bool) ([]*valgen.Node, *menv) {
	leaves := leafPool(r)
	if nothing {
		ns := nothings()
		leaves = []*valgen.Node{ns[0], absentX[r.Intn(len(absentX))], ns[1+r.Intn(len(ns)-1)], absentX[r.Intn(len(absentX))]}
		if r.Intn(2) == 0 {
			leaves[0], leaves[1] = leaves[1], leaves[0]
		}
	}
	x, y, z := leaves[0], leaves[1], leaves[2]
	ki := r.Perm(len(famKeys))[:5]
	e := &menv{leaves: leaves}
	for _, k := range ki {
		e.keys = append(e.keys, string(famKeys[k]))
		e.ikeys = append(e.ikeys, famIKeys[k])
	}
	mkk := func(kind int, keys []int, vals []*valgen.Node) *valgen.Node {
		switch kind {
		case 0:
			m := valgen.Map()
			for i, k := range keys {
				m.Put([]byte(e.keys[k]), vals[i])
			}
			return m
		case 1:
			m := valgen.IntMap()
			for i, k := range keys {
				m.IPut(e.ikeys[k], vals[i])
			}
			return m
		}
		return valgen.List(vals...)
	}
	kind := r.Intn(3)
	mk := func(keys []int, vals []*valgen.Node) *valgen.Node { return mkk(kind, keys, vals) }
	out := []*valgen.Node{
		mk([]int{0, 1}, []*valgen.Node{x, y}),
		mk([]int{1, 0}, []*valgen.Node{y, x}),
		mk([]int{0}, []*valgen.Node{x}),
		mk([]int{0, 2}, []*valgen.Node{x, y}),
		mk(nil, nil),
		mk([]int{0, 1, 2}, []*valgen.Node{x, y, z}),
		mk([]int{3, 1}, []*valgen.Node{x, y}),
		mkk((kind+1+r.Intn(2))%3, []int{0, 1}, []*valgen.Node{x, y}),
		valgen.List(mk([]int{0, 1}, []*valgen.Node{x, y}), mk([]int{0}, []*valgen.Node{x})),
		valgen.Map().Put([]byte("in"), mk([]int{0}, []*valgen.Node{x})),
	}
	for rep := 0; rep < 2; rep++ {
		n := mutScalars[r.Intn(len(mutScalars))](r)
		out = append(out, n, n)
	}
	return out, e
}

func flatten(x [][]int) []int {
	out := make([]int, 0, len(x)*len(x))
	for _, row := range x {
		out = append(out, row...)
	}
	return out
}

// compareAll calls Equals and CompareTo on every ordered pair (under recover), the pairs (i*m+j) in
// the given order (a result must not depend on which calls came before it).
func compareAll(order []int, vals []value.Value) (E, C [][]int, panics []string) {
	m := len(vals)
	E = make([][]int, m)
	C = make([][]int, m)
	panics = []string{}
	for i := 0; i < m; i++ {
		E[i] = make([]int, m)
		C[i] = make([]int, m)
	}
	for _, ij := range order {
		i, j := ij/m, ij%m
		{
			if msg := core.Guard(func() {
				if vals[i].Equals(vals[j]) {
					E[i][j] = 1
				}
			}); msg != "" {
				E[i][j] = 2
				if len(panics) < 4 {
					panics = append(panics, fmt.Sprintf("Equals(%d,%d): %s", i+1, j+1, msg))
				}
			}
			if msg := core.Guard(func() { C[i][j] = sign(vals[i].CompareTo(vals[j])) }); msg != "" {
				C[i][j] = 2
				if len(panics) < 4 {
					panics = append(panics, fmt.Sprintf("CompareTo(%d,%d): %s", i+1, j+1, msg))
				}
			}
		}
	}
	return
}

// judgeLive: the history of one pool of live objects over `rounds` rounds of mutators.
func judgeLive(c *core.Ctx, t *core.Trace, gen string, cas int, r *rand.Rand, nodes []*valgen.Node, e *menv, rounds int) {
	t.Reset(gen, cas, nil)
	n := len(nodes)
	live := make([]value.Value, n)
	for i, nd := range nodes {
		live[i] = valgen.Build(nd)
	}
	var opnames []string
	var order []int
	for round := 0; round <= rounds; round++ {
		if round > 0 {
			ops := []interface{}{}
			if r.Intn(8) != 0 { // sometimes nothing is mutated: the same objects are compared twice
				for i := 0; i < n || len(ops) == 0; i++ {
					i := i % n
					if r.Intn(5) >= 2 {
						continue
					}
					for k := 1 + r.Intn(2); k > 0; k-- {
						var op, arg string
						msg := core.Guard(func() { op, arg = mutate1(r, live[i], e, 2) })
						if msg != "" {
							op, arg = "Panic", msg // not this property's business: the object is judged as it was left
						}
						ops = append(ops, core.Ev{"i": i + 1, "op": op, "arg": arg})
						opnames = append(opnames, op)
					}
				}
			}
			t.Emit(core.Ev{"ev": "Mutate", "ops": ops})
		}
		vals := make([]value.Value, 3*n)
		dec := make([]int, 3*n)
		twin := make([]int, 3*n)
		for i := 0; i < n; i++ {
			vals[i] = live[i]
			var back value.Value
			msg := core.Guard(func() {
				o := gio.NewDataOutputX()
				value.WriteValue(o, live[i])
				back = value.ReadValue(gio.NewDataInputX(core.Cp(o.ToByteArray())))
			})
			if msg != "" || back == nil {
				vals[n+i] = value.NewNullValue() // C02's business; the slot is kept so that the indices stay put
			} else {
				vals[n+i] = back
				dec[i] = n + i + 1
			}
			vals[2*n+i] = fresh(live[i])
			twin[i] = 2*n + i + 1
		}
		proj := make([]interface{}, len(vals))
		for i, v := range vals {
			proj[i] = valgen.ProjReal(v)
		}
		// the pairs in a random order; every other round in the reverse order of the round before, so that
		// each object meets its most recent operands first (whatever it remembers of them is still there)
		if round%2 == 1 {
			for a, b := 0, len(order)-1; a < b; a, b = a+1, b-1 {
				order[a], order[b] = order[b], order[a]
			}
		} else {
			order = r.Perm(len(vals) * len(vals))
		}
		E, C, panics := compareAll(order, vals)
		ev := core.Ev{"ev": "Pool", "vals": proj, "E": flatten(E), "C": flatten(C), "dec": dec, "twin": twin}
		if len(panics) > 0 {
			ev["panics"] = panics
		}
		t.Emit(ev)
	}
	t.Emit(core.Ev{"ev": "End", "n": rounds + 1, "m": rounds})
	sigs := make([]string, n)
	for i, nd := range nodes {
		sigs[i] = nd.Sig(6)
	}
	c.Count(gen+"|"+strings.Join(sigs, ";")+"|"+strings.Join(opnames, ","), len(opnames) > 0)
}
