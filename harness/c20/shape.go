// Generators "stride" and "absent" of the C20 driver.
//
//	stride  sequences LONGER than a few elements: one abstract sequence over the symbols 0 < 1 < 2 is
//	        embedded as the bytes of a blob / text, the elements of an int / long / float / text array,
//	        the items of a list, a map key, one long text of a text array, a payload inside a list or a
//	        map.  A pool is built around a stride W (2, 4, 8, 16, ...: machine words, vector widths,
//	        unrolled loops), a common prefix (empty, whole strides, or not aligned) and two positions
//	        p1 < p2 inside one stride: members of the lengths W, W+r, 2W, 2W+r that differ at p1 and
//	        p2 in opposite directions (in the first and in the second stride), and their proper
//	        prefixes -- shorter than the stride, cut before p1, between p1 and p2 and after p2 -- which
//	        sort between them.  Every pair and triple mixes the length classes below, at and above
//	        one and two strides: a comparison that treats long and short operands (or whole strides
//	        and the rest) differently must still give ONE order.
//	absent  containers in which an entry may be ABSENT or hold a NOTHING-LIKE value (null, zero, false,
//	        empty text / blob / array / container, the zero summary, 0.0.0.0): all maps / int maps over
//	        two of three keys (one of them the empty / zero key) with the values {nothing, x} in
//	        every pattern, the one- and three-key neighbours, lists with nothing-like items at the
//	        front, in the middle and at the end beside the lists without them, the critical pairs
//	        wrapped in a list and in a map.  Same size with different key sets where the odd keys hold
//	        "nothing": a lookup that reads an absent entry as a default value shows here.
package c20

import (
	"fmt"
	"math"
	"math/rand"

	"verifharness/valgen"
)

// ---- stride ---------------------------------------------------------------------------

type seqEmbed struct {
	name string
	at   func(s []int) *valgen.Node
}

func symBytes(tab [3]byte, s []int) []byte {
	b := make([]byte, len(s))
	for i, x := range s {
		b[i] = tab[x]
	}
	return b
}

func symInts(tab [3]int64, s []int) []int64 {
	v := make([]int64, len(s))
	for i, x := range s {
		v[i] = tab[x]
	}
	return v
}

func seqEmbeddings() []seqEmbed {
	var out []seqEmbed
	add := func(name string, at func(s []int) *valgen.Node) { out = append(out, seqEmbed{name, at}) }
	low := [3]byte{0, 1, 2}
	mid := [3]byte{0x7f, 0x80, 0x81}
	wide := [3]byte{0, 0x80, 0xff}
	abc := [3]byte{'a', 'b', 'c'}
	add("Blob[0,1,2]", func(s []int) *valgen.Node { return valgen.Blob(symBytes(low, s)) })
	add("Blob[7f,80,81]", func(s []int) *valgen.Node { return valgen.Blob(symBytes(mid, s)) })
	add("Blob[00,80,ff]", func(s []int) *valgen.Node { return valgen.Blob(symBytes(wide, s)) })
	add("Text[abc]", func(s []int) *valgen.Node { return valgen.Text(symBytes(abc, s)) })
	add("Text[00,01,02]", func(s []int) *valgen.Node { return valgen.Text(symBytes(low, s)) })
	add("Text[2-byte runes]", func(s []int) *valgen.Node { // U+00E0, U+00E1, U+00E2: every symbol is two bytes
		var b []byte
		for _, x := range s {
			b = append(b, 0xc3, 0xa0+byte(x))
		}
		return valgen.Text(b)
	})
	add("IntArray", func(s []int) *valgen.Node { return valgen.IntArray(symInts([3]int64{-1, 0, 1}, s)...) })
	add("IntArray[ends]", func(s []int) *valgen.Node { return valgen.IntArray(symInts([3]int64{math.MinInt32, 7, math.MaxInt32}, s)...) })
	add("LongArray", func(s []int) *valgen.Node { return valgen.LongArray(symInts([3]int64{-(1 << 40), 0, 1 << 40}, s)...) })
	add("FloatArray", func(s []int) *valgen.Node {
		v := make([]uint32, len(s))
		for i, x := range s {
			v[i] = math.Float32bits([3]float32{-0.5, 0.25, 3}[x])
		}
		return valgen.FloatArray(v...)
	})
	add("TextArray[items]", func(s []int) *valgen.Node {
		v := make([][]byte, len(s))
		for i, x := range s {
			v[i] = []byte{abc[x]}
		}
		return valgen.TextArray(v...)
	})
	add("TextArray[one text]", func(s []int) *valgen.Node { return valgen.TextArray([]byte("k"), symBytes(abc, s)) })
	add("List[Decimal...]", func(s []int) *valgen.Node {
		v := make([]*valgen.Node, len(s))
		for i, x := range s {
			v[i] = valgen.Decimal(int64(x))
		}
		return valgen.List(v...)
	})
	add("List[Blob]", func(s []int) *valgen.Node { return valgen.List(valgen.Blob(symBytes(low, s))) })
	add("Map{k:Blob}", func(s []int) *valgen.Node { return valgen.Map().Put([]byte("k"), valgen.Blob(symBytes(wide, s))) })
	add("IntMap{1:Text,2:Int}", func(s []int) *valgen.Node {
		return valgen.IntMap().IPut(1, valgen.Text(symBytes(abc, s))).IPut(2, valgen.Int(1))
	})
	add("Map{seq:}", func(s []int) *valgen.Node { return valgen.Map().Put(symBytes(abc, s), valgen.Decimal(1)) })
	add("Map{seq:,m:}", func(s []int) *valgen.Node {
		return valgen.Map().Put(symBytes(abc, s), valgen.Decimal(1)).Put([]byte("am"), valgen.Decimal(2)) // never a sequence over abc
	})
	add("Map{k:LongArray}", func(s []int) *valgen.Node { return valgen.Map().Put([]byte("k"), valgen.LongArray(symInts([3]int64{-1, 0, 1}, s)...)) })
	add("IntMap{i:Decimal...}", func(s []int) *valgen.Node {
		m := valgen.IntMap()
		for i, x := range s {
			m.IPut(int32(i), valgen.Decimal(int64(x)))
		}
		return m
	})
	return out
}

var strideQuick = []int{2, 4, 16}
var strideAll = []int{2, 3, 4, 5, 8, 16, 32}

// stridePool: see the head of the file.  Symbol 1 is the filler; 0 and 2 lie on either side of it.
func stridePool(r *rand.Rand, e seqEmbed, W int) ([]*valgen.Node, string) {
	p1 := r.Intn(W - 1)
	p2 := p1 + 1 + r.Intn(W-1-p1)
	var prefix []int
	switch r.Intn(4) {
	case 0:
	case 1:
		prefix = make([]int, W)
	case 2:
		prefix = make([]int, 2*W)
	default:
		prefix = make([]int, 1+r.Intn(W))
	}
	for i := range prefix {
		prefix[i] = 1
		if r.Intn(3) == 0 {
			prefix[i] = r.Intn(3)
		}
	}
	rr := 1 + r.Intn(W-1)
	// T: the prefix, then n fillers with the given symbols at p1, p2 (first stride) and W+p1, W+p2 (second stride)
	T := func(n int, at ...int) []int {
		s := make([]int, 0, len(prefix)+n)
		s = append(s, prefix...)
		for i := 0; i < n; i++ {
			s = append(s, 1)
		}
		pos := []int{p1, p2, W + p1, W + p2}
		for k, v := range at {
			if pos[k] < n {
				s[len(prefix)+pos[k]] = v
			}
		}
		return s
	}
	seqs := [][]int{
		T(W, 2, 0), T(W, 0, 2), T(W, 1, 1), T(W, 2, 2), T(W, 0, 0),
		T(W+rr, 2, 0), T(W+rr, 0, 2),
		T(2*W, 1, 1, 2, 0), T(2*W, 1, 1, 0, 2), T(2*W, 2, 0, 0, 2), T(2*W, 0, 2, 2, 0), T(2*W+rr, 1, 1, 2, 0),
		T(0), T(p1), T(p1+1, 0), T(p1+1, 1), T(p1+1, 2),
		T(p2+1, 2, 0), T(p2+1, 0, 2), T(p2+1, 1, 1),
		T(W+p1+1, 1, 1, 0), T(W+p1+1, 1, 1, 1), T(W+p1+1, 1, 1, 2),
	}
	seen := map[string]bool{}
	var ns []*valgen.Node
	for _, s := range seqs {
		k := fmt.Sprint(s)
		if seen[k] {
			continue
		}
		seen[k] = true
		ns = append(ns, e.at(s))
	}
	ns = append(ns, e.at(seqs[r.Intn(len(seqs))])) // one independent copy
	r.Shuffle(len(ns), func(i, j int) { ns[i], ns[j] = ns[j], ns[i] })
	return ns, fmt.Sprintf("%s W=%d prefix=%d p1=%d p2=%d r=%d", e.name, W, len(prefix), p1, p2, rr)
}

// strideCase: the embedding and the stride of a case.  Quick tier: every embedding once with the stride 8
// and once with another one; thorough tier: every embedding with every stride, several times.
func strideCase(r *rand.Rand, cas int) (seqEmbed, int) {
	es := seqEmbeddings()
	e := es[cas%len(es)]
	rep := cas / len(es)
	switch {
	case rep == 0:
		return e, 8
	case rep == 1:
		return e, strideQuick[r.Intn(len(strideQuick))]
	}
	return e, strideAll[(rep-2)%len(strideAll)]
}

// ---- absent -----------------------------------------------------------------------------

func nothings() []*valgen.Node {
	return []*valgen.Node{valgen.Null(), valgen.Decimal(0), valgen.Text([]byte{}), valgen.Bool(false), valgen.Int(0), valgen.Long(0), valgen.Float(0),
		valgen.Double(0), valgen.TextHash(0), valgen.Blob([]byte{}), valgen.List(), valgen.Map(), valgen.IntMap(), valgen.IntArray(), valgen.TextArray(),
		valgen.LongSummary(0, 0, 0, 0), valgen.DoubleSummary(0, 0, 0, 0), valgen.IP4(0, 0, 0, 0), valgen.Float(0x80000000), valgen.Text([]byte{0})}
}

var absentX = []*valgen.Node{valgen.Text([]byte("x")), valgen.Decimal(7), valgen.Int(1), valgen.Bool(true), valgen.Blob([]byte{0}), valgen.List(valgen.Null()), valgen.Float(one32)}

// absentPool: kind 0 map, 1 int map, 2 list.  N is the nothing-like value of the pool (null in the first cases
// of every kind: what a lookup of an absent entry most naturally turns into), N2 another one.
func absentPool(r *rand.Rand, cas int) ([]*valgen.Node, string) {
	kind := cas % 3
	ns := nothings()
	N := ns[0]
	if cas/3 >= 2 {
		N = ns[1+r.Intn(len(ns)-1)]
	}
	N2 := ns[r.Intn(len(ns))]
	x := absentX[r.Intn(len(absentX))]
	y := absentX[r.Intn(len(absentX))]
	var out []*valgen.Node
	if kind == 2 {
		L := valgen.List
		out = []*valgen.Node{L(), L(N), L(x), L(N, N), L(N, x), L(x, N), L(x, x), L(x, y), L(y, x), L(N2), L(x, N2), L(N, N2),
			L(N, N, x), L(N, x, N), L(x, N, N), L(x, N, x), L(x, x, N), L(N, x, x), L(x, y, N), L(N, x, y), L(x, N, y),
			L(L(x, N)), L(L(x)), valgen.Map().Put([]byte("in"), L(x, N)), valgen.Map().Put([]byte("in"), L(x))}
		r.Shuffle(len(out), func(i, j int) { out[i], out[j] = out[j], out[i] })
		return out, fmt.Sprintf("list N=%s N2=%s x=%s y=%s", N.Sig(3), N2.Sig(3), x.Sig(3), y.Sig(3))
	}
	// three keys; the absent-like key (empty text / 0) is one of them in two cases out of three
	kp := r.Perm(len(famKeys))
	pick := []int{kp[0], kp[1], kp[2]}
	if r.Intn(3) != 0 {
		zero := map[int]int{0: 2, 1: 3}[kind] // famKeys[2] = "", famIKeys[3] = 0
		has := false
		for _, k := range pick {
			has = has || k == zero
		}
		if !has {
			pick[r.Intn(3)] = zero
		}
	}
	mk := func(keys []int, vals ...*valgen.Node) *valgen.Node {
		if kind == 0 {
			m := valgen.Map()
			for i, k := range keys {
				m.Put(famKeys[pick[k]], vals[i])
			}
			return m
		}
		m := valgen.IntMap()
		for i, k := range keys {
			m.IPut(famIKeys[pick[k]], vals[i])
		}
		return m
	}
	for _, ks := range [][]int{{0, 1}, {1, 2}, {0, 2}} {
		out = append(out, mk(ks, N, N), mk(ks, N, x), mk(ks, x, N), mk(ks, x, x))
	}
	out = append(out, mk(nil), mk([]int{0}, N), mk([]int{1}, N), mk([]int{0}, x), mk([]int{1}, x),
		mk([]int{0, 1, 2}, N, x, N), mk([]int{2, 1, 0}, x, x, N),
		mk([]int{1, 0}, x, N),  // the entries of {0:N, 1:x} in the other insertion order
		mk([]int{0, 1}, N2, x), // another nothing at the same place
		mk([]int{1, 2}, x, y))
	// the critical neighbours one level down
	in := []*valgen.Node{valgen.List(mk([]int{0, 1}, N, x)), valgen.List(mk([]int{1, 2}, x, x)),
		valgen.Map().Put([]byte("in"), mk([]int{0, 1}, N, x)), valgen.Map().Put([]byte("in"), mk([]int{1, 2}, x, N))}
	out = append(out, in...)
	r.Shuffle(len(out), func(i, j int) { out[i], out[j] = out[j], out[i] })
	return out, fmt.Sprintf("%s N=%s N2=%s x=%s y=%s keys=%v", []string{"map", "intmap"}[kind], N.Sig(3), N2.Sig(3), x.Sig(3), y.Sig(3), pick)
}
