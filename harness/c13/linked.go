package c13

import (
	"math/rand"

	"github.com/whatap/golib/util/list"

	"verifharness/core"
)

// lsess is one history on a real LinkedList.  Values are small integers;
// positions are counted in GetNext hops from GetFirst.
type lsess struct {
	t      *core.Trace
	l      *list.LinkedList
	events int
	dead   bool
	full   bool // every event also carries the complete contents ("all")
	sig    []string
	// the arrays ToArray returned that the caller still holds (the very slices), see held.go
	kr   *rand.Rand // nil: the caller keeps nothing
	held [][]interface{}
}

func (s *lsess) heldAll() [][]int {
	out := make([][]int, 0, len(s.held))
	for _, a := range s.held {
		out = append(out, s.vals(a))
	}
	return out
}

// heldSet: the caller writes into a retained array
func (s *lsess) heldSet(v int) {
	if s.kr == nil || len(s.held) == 0 {
		return
	}
	h := 1 + s.kr.Intn(len(s.held))
	a := s.held[h-1]
	if len(a) == 0 {
		return
	}
	i := s.kr.Intn(len(a))
	a[i] = v
	s.emit("HeldSet", core.Ev{"h": h, "i": i, "v": v})
}

func (s *lsess) heldEvAll() {
	for h := 1; h <= len(s.held); h++ {
		s.emit("Held", core.Ev{"h": h, "arr": s.vals(s.held[h-1])})
	}
}

func lval(x interface{}) []int {
	if x == nil {
		return []int{}
	}
	if n, ok := x.(int); ok {
		return []int{n}
	}
	return []int{-999999}
}

func ent(e *list.LinkedListEntity) []int {
	if e == nil {
		return []int{}
	}
	return lval(e.Value)
}

func lstart(t *core.Trace, gen string, cas int, extra core.Ev) *lsess {
	s := &lsess{t: t, l: list.NewLinkedList()}
	h := core.Ev{"t": "Linked", "size": s.l.Size(), "first": ent(s.l.GetFirst()), "last": ent(s.l.GetLast())}
	for k, v := range extra {
		h[k] = v
	}
	t.Reset(gen, cas, h)
	s.events++
	return s
}

func (s *lsess) emit(name string, ev core.Ev) {
	ev["ev"] = name
	ev["size"] = s.l.Size()
	ev["first"] = ent(s.l.GetFirst())
	ev["last"] = ent(s.l.GetLast())
	if s.full {
		if a := s.proj(); a != nil {
			ev["all"] = a
		}
	}
	if s.kr != nil {
		n := 0
		for _, a := range s.held {
			n += len(a)
		}
		if n <= 64 {
			ev["held"] = s.heldAll()
		}
	}
	s.t.Emit(ev)
	s.events++
	if len(s.sig) < 12 {
		s.sig = append(s.sig, name)
	}
}

func (s *lsess) run(op string, f func()) bool {
	if msg := core.Guard(f); msg != "" {
		if len(msg) > 200 {
			msg = msg[:200]
		}
		// no observation of the (possibly broken) object here
		s.t.Emit(core.Ev{"ev": "Panic", "op": op, "msg": msg})
		s.events++
		s.dead = true
		return false
	}
	return true
}

// node reached by p hops from the first one (nil if the chain ends before)
func (s *lsess) node(p int) *list.LinkedListEntity {
	e := s.l.GetFirst()
	for i := 0; i < p && e != nil; i++ {
		e = s.l.GetNext(e)
	}
	return e
}

// do executes one LinkedList call; p is a position, v a value.
func (s *lsess) do(op string, p, v int) {
	switch op {
	case "AddFirst":
		if s.run(op, func() { s.l.AddFirst(v) }) {
			s.emit(op, core.Ev{"v": v})
		}
	case "AddLast":
		if s.run(op, func() { s.l.AddLast(v) }) {
			s.emit(op, core.Ev{"v": v})
		}
	case "Add":
		var ret bool
		if s.run(op, func() { ret = s.l.Add(v) }) {
			s.emit(op, core.Ev{"v": v, "ret": ret})
		}
	case "PutBefore":
		var succ, nn *list.LinkedListEntity
		var sv []int
		ok := s.run(op, func() {
			succ = s.node(p)
			sv = ent(succ)
			nn = s.l.PutBefore(v, succ)
		})
		if ok {
			s.emit(op, core.Ev{"v": v, "p": p, "sv": sv, "nv": ent(nn)})
		}
	case "Remove":
		var ret interface{}
		if s.run(op, func() { ret = s.l.Remove(s.node(p)) }) {
			s.emit(op, core.Ev{"p": p, "ret": lval(ret)})
		}
	case "RemoveFirst":
		var ret interface{}
		if s.run(op, func() { ret = s.l.RemoveFirst() }) {
			s.emit(op, core.Ev{"ret": lval(ret)})
		}
	case "RemoveLast":
		var ret interface{}
		if s.run(op, func() { ret = s.l.RemoveLast() }) {
			s.emit(op, core.Ev{"ret": lval(ret)})
		}
	case "Clear":
		if s.run(op, func() { s.l.Clear() }) {
			s.emit(op, core.Ev{})
		}
	case "ToArray":
		var a []interface{}
		if s.run(op, func() { a = s.l.ToArray() }) {
			ev := core.Ev{"arr": s.vals(a)}
			if s.kr != nil { // the very slice stays with the caller
				h := len(s.held) + 1
				if h > maxHeld {
					h = 1 + s.kr.Intn(maxHeld)
					s.held[h-1] = a
				} else {
					s.held = append(s.held, a)
				}
				ev["keep"] = h
			}
			s.emit(op, ev)
		}
	case "Size":
		n := 0
		if s.run(op, func() { n = s.l.Size() }) {
			s.emit(op, core.Ev{"n": n})
		}
	case "Walk": // GetFirst, then GetNext until nil (bounded: a cycle would not end)
		var a []int
		ok := s.run(op, func() {
			lim := s.l.Size() + 8
			for e := s.l.GetFirst(); e != nil && len(a) < lim; e = s.l.GetNext(e) {
				a = append(a, lval(e.Value)...)
			}
		})
		if ok {
			s.emit(op, core.Ev{"arr": nz(a)})
		}
	}
}

func (s *lsess) vals(a []interface{}) []int {
	out := []int{}
	for _, x := range a {
		v := lval(x)
		if len(v) == 0 {
			v = []int{-999998} // a nil element
		}
		out = append(out, v...)
	}
	return out
}

// proj: the contents as ToArray reports them (used by the graph replay to follow the model)
func (s *lsess) proj() []int {
	var a []interface{}
	if core.Guard(func() { a = s.l.ToArray() }) != "" {
		return nil
	}
	return s.vals(a)
}

func linkedHistory(c *core.Ctx, t *core.Trace, gen string, cas int, nops int) *lsess {
	r := c.Rng(gen, cas)
	s := lstart(t, gen, cas, core.Ev{"profile": "linked"})
	s.kr = r
	nv := 1 + r.Intn(9)
	limit := []int{3, 8, 40, 200}[r.Intn(4)]
	for i := 0; i < nops && !s.dead; i++ {
		size := s.l.Size()
		v := r.Intn(nv)
		x := r.Intn(100)
		if size >= limit && x < 48 {
			x = 48 + r.Intn(30) // drain
		}
		switch {
		case x < 12:
			s.do("AddFirst", 0, v)
		case x < 24:
			s.do("AddLast", 0, v)
		case x < 34:
			s.do("Add", 0, v)
		case x < 48:
			if size > 0 {
				s.do("PutBefore", []int{0, size - 1, r.Intn(size)}[r.Intn(3)], v)
			}
		case x < 60:
			if size > 0 {
				s.do("Remove", []int{0, size - 1, r.Intn(size)}[r.Intn(3)], 0)
			}
		case x < 70:
			s.do("RemoveFirst", 0, 0)
		case x < 80:
			s.do("RemoveLast", 0, 0)
		case x < 82:
			s.do("Clear", 0, 0)
		case x < 88:
			s.do("ToArray", 0, 0)
		case x < 92:
			s.heldSet(v)
		case x < 97:
			s.do("Walk", 0, 0)
		default:
			s.do("Size", 0, 0)
		}
		if i%32 == 31 && !s.dead {
			s.heldEvAll()
		}
	}
	if !s.dead {
		s.do("ToArray", 0, 0)
		s.do("Walk", 0, 0)
		s.heldEvAll()
	}
	return s
}
