package c13

import (
	"math/rand"

	"verifharness/core"
)

// A thing is something a call handed out or was handed in and the caller still
// holds: the array ToArray returned, the index slice Sorting returned, the list
// Filtering returned / Read filled from the wire form, the list given to AddAll,
// the array given to AddAllArray.  The harness keeps the very object (never a
// copy), reads it again after later calls and writes into it; the specification
// says what it must hold (TypedList.tla `held`): a list hands out snapshots and
// copies what it is given.
type thing struct {
	what string      // "arr" | "perm" | "list"
	k    kind        // element kind of arr / list
	raw  interface{} // arr: []int | []int64 | []float32 | []float64 | []string; perm: []int
	lst  *tl         // list
}

// rawVals converts a raw array of the list package to elements.
func rawVals(raw interface{}) []val {
	var out []val
	switch a := raw.(type) {
	case []int:
		for _, x := range a {
			out = append(out, val{i: int64(x)})
		}
	case []int64:
		for _, x := range a {
			out = append(out, val{i: x})
		}
	case []float32:
		for _, x := range a {
			out = append(out, val{f: float64(x)})
		}
	case []float64:
		for _, x := range a {
			out = append(out, val{f: x})
		}
	case []string:
		for _, x := range a {
			out = append(out, val{s: x})
		}
	}
	return out
}

// rawOf builds the array of the list package's element type (what AddAllArray takes).
func rawOf(k kind, vs []val) interface{} {
	switch k {
	case kInt:
		a := make([]int, len(vs))
		for i, v := range vs {
			a[i] = int(v.i)
		}
		return a
	case kLong:
		a := make([]int64, len(vs))
		for i, v := range vs {
			a[i] = v.i
		}
		return a
	case kFloat:
		a := make([]float32, len(vs))
		for i, v := range vs {
			a[i] = float32(v.f)
		}
		return a
	case kDouble:
		a := make([]float64, len(vs))
		for i, v := range vs {
			a[i] = v.f
		}
		return a
	}
	a := make([]string, len(vs))
	for i, v := range vs {
		a[i] = v.s
	}
	return a
}

// read: what the thing holds now, in the specification's representation
// (nil: reading it panicked).
func (h *thing) read() interface{} {
	switch h.what {
	case "perm":
		return nz(append([]int(nil), h.raw.([]int)...))
	case "arr":
		return encAll(h.k, rawVals(h.raw))
	}
	var a []val
	if core.Guard(func() { a = h.lst.toArray() }) != "" {
		return nil
	}
	return encAll(h.k, a)
}

func (h *thing) length() int {
	switch h.what {
	case "perm":
		return len(h.raw.([]int))
	case "arr":
		return len(rawVals(h.raw))
	}
	n := -1
	core.Guard(func() { n = h.lst.size() })
	return n
}

// write: arr[i] = v  /  perm[i] = n  /  list.Set(i, v)
func (h *thing) write(i int, v val) {
	switch h.what {
	case "perm":
		h.raw.([]int)[i] = int(v.i)
	case "list":
		h.lst.set(i, v)
	default:
		switch a := h.raw.(type) {
		case []int:
			a[i] = int(v.i)
		case []int64:
			a[i] = v.i
		case []float32:
			a[i] = float32(v.f)
		case []float64:
			a[i] = v.f
		case []string:
			a[i] = v.s
		}
	}
}

// ---- on a typed-list session ---------------------------------------------------

const maxHeld = 3

// slot picks where a newly retained thing goes: a new slot while there is room,
// else one the caller reuses.  0 = the caller does not retain it.
func (s *sess) slot(r *rand.Rand) int {
	if !s.keeps {
		return 0
	}
	if len(s.held) < maxHeld {
		return len(s.held) + 1
	}
	return 1 + r.Intn(len(s.held))
}

func (s *sess) install(h int, t *thing, ev core.Ev) {
	if h <= 0 {
		return
	}
	if h > len(s.held) {
		s.held = append(s.held, t)
	} else {
		s.held[h-1] = t
	}
	ev["keep"] = h
}

func (s *sess) heldAll() []interface{} {
	out := make([]interface{}, 0, len(s.held))
	for _, h := range s.held {
		v := h.read()
		if v == nil {
			v = []int{-1, -1, -1} // unreadable: nothing the specification answers
		}
		out = append(out, v)
	}
	return out
}

// heldEv reads retained thing h (1-based) again.
func (s *sess) heldEv(h int) {
	if h < 1 || h > len(s.held) {
		return
	}
	v := s.held[h-1].read()
	if v == nil {
		s.emit("Panic", core.Ev{"op": "Held.read", "msg": "reading a retained list panicked"})
		s.dead = true
		return
	}
	s.emit("Held", core.Ev{"h": h, "arr": v, "what": s.held[h-1].what})
}

// heldEvOne: one of the retained things that the events do not carry (too big) is read again
func (s *sess) heldEvOne(r *rand.Rand) {
	if len(s.held) > 0 && s.heldElems() > s.watch {
		s.heldEv(1 + r.Intn(len(s.held)))
	}
}

func (s *sess) heldEvAll() {
	for h := 1; h <= len(s.held) && !s.dead; h++ {
		s.heldEv(h)
	}
}

// heldSet writes into retained thing h at a valid index; then the list itself is
// observed by the event's size / all and by the calls that follow.
func (s *sess) heldSet(r *rand.Rand, h int, v val) {
	if h < 1 || h > len(s.held) {
		return
	}
	t := s.held[h-1]
	n := t.length()
	if n <= 0 {
		return
	}
	i := []int{0, n - 1, r.Intn(n)}[r.Intn(3)]
	var ev core.Ev
	if t.what == "perm" {
		v = val{i: int64(r.Intn(n + 3))}
		ev = core.Ev{"h": h, "i": i, "v": int(v.i), "what": t.what}
	} else {
		ev = core.Ev{"h": h, "i": i, "v": enc(t.k, v), "what": t.what}
	}
	if s.run("HeldSet", func() { t.write(i, v) }) {
		s.emit("HeldSet", ev)
	}
}

// heldAdd: Add(v) on a retained list object
func (s *sess) heldAdd(h int, v val) {
	if h < 1 || h > len(s.held) || s.held[h-1].what != "list" {
		return
	}
	t := s.held[h-1]
	if s.run("HeldAdd", func() { t.lst.add(v) }) {
		s.emit("HeldAdd", core.Ev{"h": h, "v": enc(t.k, v)})
	}
}

// swap: the retained list h becomes the list the calls go to
func (s *sess) swap(h int) {
	if h < 1 || h > len(s.held) || s.held[h-1].what != "list" {
		return
	}
	t := s.held[h-1]
	s.l, t.lst = t.lst, s.l
	s.emit("Swap", core.Ev{"h": h})
}

// heldLists: the slots that hold list objects
func (s *sess) heldLists() []int {
	var out []int
	for i, t := range s.held {
		if t.what == "list" {
			out = append(out, i+1)
		}
	}
	return out
}

// poke does one thing with the retained things: read one again, write into one,
// add to a retained list, or swap roles with one.
func (s *sess) poke(r *rand.Rand, p []val, swapOK bool) {
	if len(s.held) == 0 || s.dead {
		return
	}
	h := 1 + r.Intn(len(s.held))
	x := r.Intn(10)
	if x < 3 && s.heldElems() <= s.watch {
		x = 3 // every event reads all retained things anyway
	}
	switch {
	case x < 3:
		s.heldEv(h)
	case x < 7:
		s.heldSet(r, h, p[r.Intn(len(p))])
	case x < 9:
		if ls := s.heldLists(); len(ls) > 0 {
			s.heldAdd(ls[r.Intn(len(ls))], p[r.Intn(len(p))])
		} else {
			s.heldSet(r, h, p[r.Intn(len(p))])
		}
	default:
		if ls := s.heldLists(); swapOK && len(ls) > 0 {
			s.swap(ls[r.Intn(len(ls))])
		} else {
			s.heldEv(h)
		}
	}
}
