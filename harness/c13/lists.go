package c13

import (
	"math"
	"sort"
	"strconv"

	"github.com/whatap/golib/util/list"

	"verifharness/core"
)

// kind of a typed list
type kind int

const (
	kInt kind = iota
	kLong
	kFloat
	kDouble
	kString
)

var kindNames = []string{"Int", "Long", "Float", "Double", "String"}
var allKinds = []kind{kInt, kLong, kFloat, kDouble, kString}

func (k kind) String() string { return kindNames[k] }

// val is one element in Go's own representation; which field counts depends on
// the kind: i for Int/Long, f for Float (a float32 widened exactly) and Double,
// s for String.
type val struct {
	i int64
	f float64
	s string
}

// enc is the projection of an element to the byte tuple the specification uses
// (standard library only).
func enc(k kind, v val) core.Bytes {
	switch k {
	case kInt, kLong:
		return core.W8(v.i)
	case kFloat:
		return core.F32(float32(v.f))
	case kDouble:
		return core.F64(v.f)
	}
	return core.Str(v.s)
}

func encAll(k kind, vs []val) []core.Bytes {
	out := make([]core.Bytes, len(vs))
	for i, v := range vs {
		out[i] = enc(k, v)
	}
	return out
}

// less is Go's own comparison of the element type.
func less(k kind, a, b val) bool {
	switch k {
	case kInt, kLong:
		return a.i < b.i
	case kFloat:
		return float32(a.f) < float32(b.f)
	case kDouble:
		return a.f < b.f
	}
	return a.s < b.s
}

// ranks returns the dense rank of every value (0 = smallest) and the distinct
// values in ascending order, both under Go's own comparison.
func ranks(k kind, vs []val) ([]int, []val) {
	sorted := append([]val(nil), vs...)
	sort.SliceStable(sorted, func(i, j int) bool { return less(k, sorted[i], sorted[j]) })
	var dist []val
	for _, v := range sorted {
		if len(dist) == 0 || less(k, dist[len(dist)-1], v) {
			dist = append(dist, v)
		}
	}
	rk := make([]int, len(vs))
	for i, v := range vs {
		// the first distinct value that is not smaller than v
		rk[i] = sort.Search(len(dist), func(j int) bool { return !less(k, dist[j], v) })
	}
	return rk, dist
}

// tl is one real typed list.
type tl struct {
	k   kind
	any list.AnyList
	il  *list.IntList
	ll  *list.LongList
	fl  *list.FloatList
	dl  *list.DoubleList
	sl  *list.StringList
}

// ctor: "default" = New<T>ListDefault(), "cap" = New<T>List(cap), "zero" = new(<T>List)
func newList(k kind, ctor string, capa int) *tl {
	t := &tl{k: k}
	switch k {
	case kInt:
		switch ctor {
		case "default":
			t.il = list.NewIntListDefault()
		case "cap":
			t.il = list.NewIntList(capa)
		default:
			t.il = new(list.IntList)
		}
		t.any = t.il
	case kLong:
		switch ctor {
		case "default":
			t.ll = list.NewLongListDefault()
		case "cap":
			t.ll = list.NewLongList(capa)
		default:
			t.ll = new(list.LongList)
		}
		t.any = t.ll
	case kFloat:
		switch ctor {
		case "default":
			t.fl = list.NewFloatListDefault()
		case "cap":
			t.fl = list.NewFloatList(capa)
		default:
			t.fl = new(list.FloatList)
		}
		t.any = t.fl
	case kDouble:
		switch ctor {
		case "default":
			t.dl = list.NewDoubleListDefault()
		case "cap":
			t.dl = list.NewDoubleList(capa)
		default:
			t.dl = new(list.DoubleList)
		}
		t.any = t.dl
	default:
		switch ctor {
		case "default":
			t.sl = list.NewStringListDefault()
		case "cap":
			t.sl = list.NewStringList(capa)
		default:
			t.sl = new(list.StringList)
		}
		t.any = t.sl
	}
	return t
}

// wrap recognises the concrete type behind an AnyList (the result of Filtering).
func wrap(a list.AnyList) *tl {
	switch x := a.(type) {
	case *list.IntList:
		return &tl{k: kInt, any: x, il: x}
	case *list.LongList:
		return &tl{k: kLong, any: x, ll: x}
	case *list.FloatList:
		return &tl{k: kFloat, any: x, fl: x}
	case *list.DoubleList:
		return &tl{k: kDouble, any: x, dl: x}
	case *list.StringList:
		return &tl{k: kString, any: x, sl: x}
	}
	return nil
}

func (t *tl) size() int { return t.any.Size() }

// the accessors of the list's own element type
func (t *tl) add(v val) {
	switch t.k {
	case kInt:
		t.any.AddInt(int(v.i))
	case kLong:
		t.any.AddLong(v.i)
	case kFloat:
		t.any.AddFloat(float32(v.f))
	case kDouble:
		t.any.AddDouble(v.f)
	default:
		t.any.AddString(v.s)
	}
}

func (t *tl) set(i int, v val) {
	switch t.k {
	case kInt:
		t.any.SetInt(i, int(v.i))
	case kLong:
		t.any.SetLong(i, v.i)
	case kFloat:
		t.any.SetFloat(i, float32(v.f))
	case kDouble:
		t.any.SetDouble(i, v.f)
	default:
		t.any.SetString(i, v.s)
	}
}

func (t *tl) get(i int) val {
	switch t.k {
	case kInt:
		return val{i: int64(t.any.GetInt(i))}
	case kLong:
		return val{i: t.any.GetLong(i)}
	case kFloat:
		return val{f: float64(t.any.GetFloat(i))}
	case kDouble:
		return val{f: t.any.GetDouble(i)}
	}
	return val{s: t.any.GetString(i)}
}

func (t *tl) addAll(o *tl) {
	switch t.k {
	case kInt:
		t.il.AddAll(o.il)
	case kLong:
		t.ll.AddAll(o.ll)
	case kFloat:
		t.fl.AddAll(o.fl)
	case kDouble:
		t.dl.AddAll(o.dl)
	default:
		t.sl.AddAll(o.sl)
	}
}

// addAllArray gives the list a fresh array holding vs
func (t *tl) addAllArray(vs []val) { t.addAllRaw(rawOf(t.k, vs)) }

// addAllRaw: AddAllArray(raw), raw being an array of the list's element type
func (t *tl) addAllRaw(raw interface{}) {
	switch t.k {
	case kInt:
		t.il.AddAllArray(raw.([]int))
	case kLong:
		t.ll.AddAllArray(raw.([]int64))
	case kFloat:
		t.fl.AddAllArray(raw.([]float32))
	case kDouble:
		t.dl.AddAllArray(raw.([]float64))
	default:
		t.sl.AddAllArray(raw.([]string))
	}
}

// rawArray: the very slice ToArray returned
func (t *tl) rawArray() interface{} {
	switch t.k {
	case kInt:
		return t.il.ToArray()
	case kLong:
		return t.ll.ToArray()
	case kFloat:
		return t.fl.ToArray()
	case kDouble:
		return t.dl.ToArray()
	}
	return t.sl.ToArray()
}

func (t *tl) toArray() []val { return rawVals(t.rawArray()) }

// ---- the accessors of the OTHER element types, on small integers ----------
// Every Add*/Set*/Get* of AnyList exists on every list; for an integer n with
// |n| <= 2^24 each of them has one unambiguous meaning in every element type
// (n itself, n as a float, n in decimal).  small(k, n) is that element.
func small(k kind, n int64) val {
	switch k {
	case kInt, kLong:
		return val{i: n}
	case kFloat, kDouble:
		return val{f: float64(n)}
	}
	return val{s: strconv.FormatInt(n, 10)}
}

// which foreign accessors have that unambiguous meaning on a list of kind k
// (not: the "%.6f" renderings between float and string)
func addVias(k kind) []string {
	if k == kString {
		return []string{"Int", "Long", "String"}
	}
	return []string{"Int", "Long", "Float", "Double", "String"}
}

func getVias(k kind) []string {
	if k == kFloat || k == kDouble {
		return []string{"Int", "Long", "Float", "Double"}
	}
	return []string{"Int", "Long", "Float", "Double", "String"}
}

func (t *tl) addVia(via string, n int64) {
	switch via {
	case "Int":
		t.any.AddInt(int(n))
	case "Long":
		t.any.AddLong(n)
	case "Float":
		t.any.AddFloat(float32(n))
	case "Double":
		t.any.AddDouble(float64(n))
	default:
		t.any.AddString(strconv.FormatInt(n, 10))
	}
}

func (t *tl) setVia(via string, i int, n int64) {
	switch via {
	case "Int":
		t.any.SetInt(i, int(n))
	case "Long":
		t.any.SetLong(i, n)
	case "Float":
		t.any.SetFloat(i, float32(n))
	case "Double":
		t.any.SetDouble(i, float64(n))
	default:
		t.any.SetString(i, strconv.FormatInt(n, 10))
	}
}

// getVia reads element i through Get<via> and answers the integer it stands
// for; ok = false when the answer is not an integer in the small range.
func (t *tl) getVia(via string, i int) (int64, bool) {
	var f float64
	switch via {
	case "Int":
		return int64(t.any.GetInt(i)), true
	case "Long":
		return t.any.GetLong(i), true
	case "Float":
		f = float64(t.any.GetFloat(i))
	case "Double":
		f = t.any.GetDouble(i)
	default:
		n, err := strconv.ParseInt(t.any.GetString(i), 10, 64)
		return n, err == nil
	}
	if f != math.Trunc(f) || math.Abs(f) > 1<<30 {
		return 0, false
	}
	return int64(f), true
}
