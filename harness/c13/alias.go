package c13

import (
	"math/rand"

	"verifharness/core"
)

// Histories about what a list hands out and is handed: the list is brought to n
// elements in a way that decides how full its backing array is (filled exactly,
// one short, grown, never allocated), or is itself the result of Filtering /
// Read / the argument of AddAll; then the caller keeps every array, index slice
// and list the calls return or take, and interleaves the list's own mutators with
// writes into the kept things.  Every event reads ALL kept things again.

var aliasShapes = []string{"cap+add", "cap+array", "default+add", "default+array", "zero+add", "cap+spare",
	"filter=", "filter<", "filter>", "readback", "addall-arg"}

// sizes around the growth steps 0,1,2,3,4,6,9,13,19,28,42 (default), 10,15,22,33 (zero value)
var aliasSizes = []int{0, 1, 2, 3, 4, 5, 6, 7, 9, 10, 11, 13, 15, 16, 19, 22, 28, 33, 42}

func permOf(r *rand.Rand, n int) []int { return nz(r.Perm(n)) }

func aliasHistory(c *core.Ctx, t *core.Trace, gen string, cas int, k kind, shape string, n int) *sess {
	r := c.Rng(gen, cas)
	p := pool(r, k, 2+r.Intn(6))
	vs := draw(r, p, n)
	var s *sess
	begin := func(ctor string, capa int) {
		s = start(t, gen, cas, k, ctor, capa, core.Ev{"profile": "alias", "shape": shape, "n": n})
		s.keepWith(r, 400)
	}
	addEach := func() {
		for _, v := range vs {
			if s.dead {
				return
			}
			s.add(v)
		}
	}
	// a source list of n elements in some other shape, for the shapes that derive the list under test from it
	source := func() {
		ct := ctors[r.Intn(len(ctors))]
		begin(ct.name, ct.capa)
		if r.Intn(2) == 0 {
			addEach()
		} else {
			s.addAllArray(vs)
		}
	}
	// the list derived by the last call (kept in the slot the event named) becomes the list under test
	adopt := func() {
		if ls := s.heldLists(); !s.dead && len(ls) > 0 {
			s.swap(ls[len(ls)-1])
		}
	}
	switch shape {
	case "cap+add": // NewXList(n) + n adds: filled exactly
		begin("cap", n)
		addEach()
	case "cap+array":
		begin("cap", n)
		s.addAllArray(vs)
	case "default+add": // 0 -> 1 -> 2 -> 3 -> 4 -> 6 -> 9 ..: filled exactly at the growth steps
		begin("default", 0)
		addEach()
	case "default+array": // one ensure(n): filled exactly
		begin("default", 0)
		s.addAllArray(vs)
	case "zero+add":
		begin("zero", 0)
		addEach()
	case "cap+spare":
		begin("cap", n+1+r.Intn(3))
		addEach()
	case "filter=": // Filtering by as many indices as the source has elements
		source()
		if !s.dead {
			s.filter(permOf(r, n))
			adopt()
		}
	case "filter<":
		source()
		if !s.dead {
			idx := permOf(r, n)
			s.filter(idx[:len(idx)-len(idx)/3-min(1, len(idx))])
			adopt()
		}
	case "filter>": // more indices than elements (repeats)
		source()
		if !s.dead && n > 0 {
			idx := make([]int, n+1+r.Intn(n+1))
			for i := range idx {
				idx[i] = r.Intn(n)
			}
			s.filter(idx)
			adopt()
		}
	case "readback": // the list Read filled from the wire form
		source()
		if !s.dead {
			s.write(r)
			adopt()
		}
	case "addall-arg": // the list that was the argument of AddAll
		begin("default", 0)
		s.addAll(r, vs)
		adopt()
	}
	if s.dead {
		return s
	}
	inIdx := func() int {
		if sz := s.l.size(); sz > 0 {
			return []int{0, sz - 1, r.Intn(sz)}[r.Intn(3)]
		}
		return 0
	}
	pv := func() val { return p[r.Intn(len(p))] }
	// first the plain question: the array handed out now, a Set, a write into the array
	s.toArray("ToArray")
	if !s.dead {
		s.set(inIdx(), pv())
	}
	if !s.dead && len(s.held) > 0 {
		s.heldSet(r, len(s.held), pv())
	}
	if !s.dead {
		s.get(inIdx())
	}
	steps := c.Pick(14, 30)
	for i := 0; i < steps && !s.dead; i++ {
		size := s.l.size()
		switch x := r.Intn(100); {
		case x < 16:
			s.toArray("ToArray")
		case x < 32:
			s.set(inIdx(), pv())
		case x < 40:
			s.add(pv())
		case x < 45:
			s.addAllArray(draw(r, p, 1+r.Intn(3)))
		case x < 49:
			s.addAll(r, draw(r, p, 1+r.Intn(3)))
		case x < 58:
			switch r.Intn(4) {
			case 0:
				s.filter(permOf(r, size))
			case 1:
				idx := make([]int, size)
				for j := range idx {
					idx[j] = j
				}
				s.filter(idx)
			default:
				s.filter(randIdxList(r, size, false))
			}
		case x < 62:
			s.sortEv(r.Intn(2) == 0, nil, true)
		case x < 65:
			s.write(r)
		case x < 69:
			s.get(inIdx())
		default:
			s.poke(r, p, true)
		}
	}
	if !s.dead {
		s.toArray("Proj")
		s.heldEvAll()
	}
	return s
}

func min(a, b int) int {
	if a < b {
		return a
	}
	return b
}
