package c13

import "verifharness/core"

// runWitnesses: dedicated generators (gen names starting kf_) that reproduce
// exactly one known finding each.
func runWitnesses(c *core.Ctx, t *core.Trace) {
}
