// Package c13 drives the real typed lists (IntList, LongList, FloatList,
// DoubleList, StringList) and LinkedList of golib util/list through generated
// call histories and records every call with its arguments and results for
// Trace_TypedList.tla to judge against the reference sequence.  The harness only
// records: elements are projected to byte tuples, the ranks logged with a sort
// are computed with Go's own comparison and re-checked by the specification.
package c13

import (
	"fmt"
	"math"
	"math/rand"
	"strings"

	gio "github.com/whatap/golib/io"
	"github.com/whatap/golib/util/list"

	"verifharness/core"
)

func init() { core.Register("c13", Run) }

// ---------------------------------------------------------------- values

var intSpecials = func() []int64 {
	b := []int64{0, 1, -1, math.MaxInt64, math.MinInt64, math.MaxInt64 - 1, math.MinInt64 + 1,
		1 << 53, 1<<53 + 1, -(1 << 53), -(1 << 53) - 1, 1<<62 + 1, 1 << 62}
	for _, sh := range []uint{7, 15, 23, 31, 39} { // the decimal length classes of the wire form
		b = append(b, 1<<sh-1, 1<<sh, -(1 << sh), -(1<<sh)-1)
	}
	return b
}()

var f32Specials = []float32{0, float32(math.Copysign(0, -1)), 1, -1, math.MaxFloat32, -math.MaxFloat32,
	math.SmallestNonzeroFloat32, -math.SmallestNonzeroFloat32, float32(math.Inf(1)), float32(math.Inf(-1)),
	0.1, -0.1, 16777216, 16777218, 1e-10, 3.5}

var f64Specials = []float64{0, math.Copysign(0, -1), 1, -1, math.MaxFloat64, -math.MaxFloat64,
	math.SmallestNonzeroFloat64, -math.SmallestNonzeroFloat64, math.Inf(1), math.Inf(-1),
	0.1, -0.1, 1 << 53, 1<<53 + 2, math.Pi, 1e-300}

var strSpecials = []string{"", "a", "b", "A", "aa", "ab", "a\x00", "\x00", " ", "10", "9", "-1", "한", "é", "\xff\xfe",
	strings.Repeat("x", 253), strings.Repeat("x", 254), strings.Repeat("y", 255), strings.Repeat("z", 300), strings.Repeat("x", 253) + "a"}

func randVal(r *rand.Rand, k kind) val {
	sp := r.Intn(3) == 0
	switch k {
	case kInt, kLong:
		if sp {
			return val{i: intSpecials[r.Intn(len(intSpecials))]}
		}
		if r.Intn(2) == 0 {
			return val{i: int64(r.Intn(41) - 20)}
		}
		return val{i: int64(r.Uint64() >> uint(r.Intn(64)) * uint64(1-2*r.Intn(2)))}
	case kFloat:
		if sp {
			return val{f: float64(f32Specials[r.Intn(len(f32Specials))])}
		}
		for {
			f := math.Float32frombits(r.Uint32())
			if f == f { // NaN-free
				return val{f: float64(f)}
			}
		}
	case kDouble:
		if sp {
			return val{f: f64Specials[r.Intn(len(f64Specials))]}
		}
		if r.Intn(3) == 0 {
			return val{f: float64(r.Intn(2001)-1000) / 8}
		}
		for {
			f := math.Float64frombits(r.Uint64())
			if f == f {
				return val{f: f}
			}
		}
	}
	if sp {
		return val{s: strSpecials[r.Intn(len(strSpecials))]}
	}
	const alpha = "abAB01 \x00é한"
	rs := []rune(alpha)
	n := r.Intn(6)
	var sb strings.Builder
	for i := 0; i < n; i++ {
		sb.WriteRune(rs[r.Intn(len(rs))])
	}
	return val{s: sb.String()}
}

// pool draws n candidate values (duplicates are welcome).
func pool(r *rand.Rand, k kind, n int) []val {
	p := make([]val, n)
	for i := range p {
		p[i] = randVal(r, k)
	}
	return p
}

func draw(r *rand.Rand, p []val, n int) []val {
	out := make([]val, n)
	for i := range out {
		out[i] = p[r.Intn(len(p))]
	}
	return out
}

// ---------------------------------------------------------------- session

type sess struct {
	t      *core.Trace
	l      *tl
	ctor   string
	capa   int
	events int
	dead   bool
	full   bool // every event also carries the complete contents ("all")
	sig    []string
	// retained results / arguments (held.go)
	keeps bool       // the caller retains what calls hand out / are handed
	kr    *rand.Rand // decides the slot
	watch int        // every event also reads ALL retained things again while they hold <= watch elements
	held  []*thing
}

// keepWith: from now on the caller retains arrays, index slices and lists
func (s *sess) keepWith(r *rand.Rand, watch int) { s.keeps, s.kr, s.watch = true, r, watch }

func (s *sess) heldElems() int {
	n := 0
	for _, h := range s.held {
		if m := h.length(); m > 0 {
			n += m
		}
	}
	return n
}

var ctors = []struct {
	name string
	capa int
}{{"default", 0}, {"cap", 10}, {"zero", 0}, {"cap", 0}, {"cap", 1}, {"cap", 3}, {"cap", 64}}

func start(t *core.Trace, gen string, cas int, k kind, ctor string, capa int, extra core.Ev) *sess {
	s := &sess{t: t, ctor: ctor, capa: capa}
	s.l = newList(k, ctor, capa)
	h := core.Ev{"t": k.String(), "ctor": ctor, "cap": capa, "size": s.l.size()}
	for kk, v := range extra {
		h[kk] = v
	}
	t.Reset(gen, cas, h)
	s.events++
	return s
}

func (s *sess) emit(name string, ev core.Ev) {
	ev["ev"] = name
	ev["size"] = s.l.size()
	if s.full && name != "Panic" {
		var a []val
		if core.Guard(func() { a = s.l.toArray() }) == "" {
			ev["all"] = encAll(s.l.k, a)
		}
	}
	if s.keeps && name != "Panic" && s.heldElems() <= s.watch {
		ev["held"] = s.heldAll()
	}
	s.t.Emit(ev)
	s.events++
	if len(s.sig) < 12 {
		s.sig = append(s.sig, name)
	}
}

// run executes f; a panic is recorded as an event the specification has no
// action for, and ends the history.
func (s *sess) run(op string, f func()) bool {
	if msg := core.Guard(f); msg != "" {
		if len(msg) > 200 {
			msg = msg[:200]
		}
		s.emit("Panic", core.Ev{"op": op, "msg": msg})
		s.dead = true
		return false
	}
	return true
}

func (s *sess) add(v val) {
	if s.run("Add", func() { s.l.add(v) }) {
		s.emit("Add", core.Ev{"via": s.l.k.String(), "v": enc(s.l.k, v)})
	}
}

func (s *sess) addVia(via string, n int64) {
	if s.run("Add"+via, func() { s.l.addVia(via, n) }) {
		s.emit("Add", core.Ev{"via": via, "n": n, "v": enc(s.l.k, small(s.l.k, n))})
	}
}

// addAll: a second real list of the same type is built from vs, then AddAll(it)
func (s *sess) addAll(r *rand.Rand, vs []val) {
	c := ctors[r.Intn(len(ctors))]
	o := newList(s.l.k, c.name, c.capa)
	if !s.run("AddAll.arg", func() { o.addAllArray(vs) }) {
		return
	}
	if s.run("AddAll", func() { s.l.addAll(o) }) {
		ev := core.Ev{"vs": encAll(s.l.k, vs), "self": false, "octor": c.name}
		s.install(s.slot(s.kr), &thing{what: "list", k: s.l.k, lst: o}, ev) // the argument list stays with the caller
		s.emit("AddAll", ev)
	}
}

// addAllSelf: list.AddAll(list); the elements it holds when called are the argument
func (s *sess) addAllSelf() {
	var before []val
	if !s.run("ToArray", func() { before = s.l.toArray() }) {
		return
	}
	if s.run("AddAllSelf", func() { s.l.addAll(s.l) }) {
		s.emit("AddAll", core.Ev{"vs": encAll(s.l.k, before), "self": true})
	}
}

func (s *sess) addAllArray(vs []val) {
	raw := rawOf(s.l.k, vs)
	if s.run("AddAllArray", func() { s.l.addAllRaw(raw) }) {
		ev := core.Ev{"vs": encAll(s.l.k, vs)}
		s.install(s.slot(s.kr), &thing{what: "arr", k: s.l.k, raw: raw}, ev) // the argument array stays with the caller
		s.emit("AddAllArray", ev)
	}
}

// set / get: a panic IS the report of a bad index (fail / empty result)
func (s *sess) set(i int, v val) {
	msg := core.Guard(func() { s.l.set(i, v) })
	s.emit("Set", core.Ev{"via": s.l.k.String(), "i": i, "v": enc(s.l.k, v), "fail": msg != ""})
}

func (s *sess) setVia(via string, i int, n int64) {
	msg := core.Guard(func() { s.l.setVia(via, i, n) })
	s.emit("Set", core.Ev{"via": via, "i": i, "n": n, "v": enc(s.l.k, small(s.l.k, n)), "fail": msg != ""})
}

func (s *sess) get(i int) {
	var v val
	msg := core.Guard(func() { v = s.l.get(i) })
	ret := []core.Bytes{}
	if msg == "" {
		ret = append(ret, enc(s.l.k, v))
	}
	s.emit("Get", core.Ev{"via": s.l.k.String(), "i": i, "ret": ret})
}

func (s *sess) getVia(via string, i int) {
	var n int64
	var ok bool
	msg := core.Guard(func() { n, ok = s.l.getVia(via, i) })
	ret := []core.Bytes{}
	if msg == "" {
		if ok {
			ret = append(ret, enc(s.l.k, small(s.l.k, n)))
		} else {
			ret = append(ret, core.Bytes{}, core.Bytes{}) // not an integer: nothing the specification answers
		}
	}
	s.emit("Get", core.Ev{"via": via, "i": i, "ret": ret})
}

func (s *sess) toArray(name string) {
	var raw interface{}
	if s.run(name, func() { raw = s.l.rawArray() }) {
		ev := core.Ev{"arr": encAll(s.l.k, rawVals(raw))}
		if name == "ToArray" {
			s.install(s.slot(s.kr), &thing{what: "arr", k: s.l.k, raw: raw}, ev) // the very slice that was returned
		}
		s.emit(name, ev)
	}
}

func (s *sess) sizeEv() {
	n := 0
	if s.run("Size", func() { n = s.l.any.Size() }) {
		s.emit("Size", core.Ev{"n": n})
	}
}

// write: the bytes of Write, and what a fresh list of the same type holds after Read
func (s *sess) write(r *rand.Rand) {
	var b []byte
	var back []val
	var f *tl
	c := ctors[r.Intn(len(ctors))]
	ok := s.run("Write", func() {
		out := gio.NewDataOutputX()
		s.l.any.Write(out)
		b = out.ToByteArray()
	})
	if !ok {
		return
	}
	ok = s.run("Read", func() {
		f = newList(s.l.k, c.name, c.capa)
		f.any.Read(gio.NewDataInputX(b))
		back = f.toArray()
	})
	if ok {
		ev := core.Ev{"bytes": core.Cp(b), "back": encAll(s.l.k, back), "rctor": c.name}
		s.install(s.slot(s.kr), &thing{what: "list", k: s.l.k, lst: f}, ev) // the list that was read back
		s.emit("Write", ev)
	}
}

// sortEv: Sorting(asc) / SortingAnyList(asc, child, casc).  The ranks are computed
// from the list's own ToArray with Go's comparison; the specification re-derives
// their consistency with its state from dist.
func (s *sess) sortEv(asc bool, child *tl, casc bool) []int {
	var arr []val
	var perm []int
	if !s.run("ToArray", func() { arr = s.l.toArray() }) {
		return nil
	}
	rk, dist := ranks(s.l.k, arr)
	ev := core.Ev{"asc": asc, "two": child != nil, "rk": nz(rk), "dist": encAll(s.l.k, dist)}
	op := "Sorting"
	if child != nil {
		op = "SortingAnyList"
		var carr []val
		if !s.run("child.ToArray", func() { carr = child.toArray() }) {
			return nil
		}
		crk, cdist := ranks(child.k, carr)
		ev["ct"], ev["carr"], ev["crk"], ev["cdist"], ev["casc"] = child.k.String(), encAll(child.k, carr), nz(crk), encAll(child.k, cdist), casc
	}
	ok := s.run(op, func() {
		if child == nil {
			perm = s.l.any.Sorting(asc)
		} else {
			perm = s.l.any.SortingAnyList(asc, child.any, casc)
		}
	})
	if !ok {
		return nil
	}
	ev["perm"] = nz(perm)
	if perm != nil {
		s.install(s.slot(s.kr), &thing{what: "perm", raw: perm}, ev) // the very index slice that was returned
	}
	s.emit("Sort", ev)
	return append([]int(nil), perm...)
}

func (s *sess) filter(idx []int) {
	var out list.AnyList
	msg := core.Guard(func() { out = s.l.any.Filtering(idx) })
	ev := core.Ev{"idx": nz(idx)}
	if msg != "" {
		ev["ret"] = []int{}
	} else {
		w := wrap(out)
		if w == nil || w.k != s.l.k {
			ev["ret"] = [][]int{{-1}} // a list of another type: nothing the specification answers
		} else {
			var a []val
			if !s.run("Filter.ToArray", func() { a = w.toArray() }) {
				return
			}
			ev["ret"] = [][]core.Bytes{encAll(s.l.k, a)}
			ev["osize"] = out.Size()
			s.install(s.slot(s.kr), &thing{what: "list", k: w.k, lst: w}, ev) // the list that was returned
		}
	}
	s.emit("Filter", ev)
}

func nz(a []int) []int {
	if a == nil {
		return []int{}
	}
	return a
}

// ---------------------------------------------------------------- generators

// an index: mostly valid, otherwise just outside (size, size+1, inside the
// spare capacity, negative, far away)
func randIndex(r *rand.Rand, size, capa int) int {
	if size > 0 && r.Intn(10) < 7 {
		switch r.Intn(6) {
		case 0:
			return 0
		case 1:
			return size - 1
		}
		return r.Intn(size)
	}
	switch r.Intn(7) {
	case 0:
		return size
	case 1:
		return size + 1
	case 2:
		return -1
	case 3:
		return size + r.Intn(size/2+2) // inside the spare capacity after a growth by half
	case 4:
		if capa > size {
			return size + r.Intn(capa-size)
		}
		return size
	case 5:
		return size + 1000 + r.Intn(1<<20)
	}
	return -1 - r.Intn(1000)
}

func randIdxList(r *rand.Rand, size int, bad bool) []int {
	n := 0
	switch r.Intn(4) {
	case 0:
		n = r.Intn(3)
	case 1:
		n = size
	default:
		n = r.Intn(2*size + 2)
	}
	idx := make([]int, n)
	for i := range idx {
		if size > 0 {
			idx[i] = r.Intn(size)
		} else {
			bad = true
		}
	}
	if bad && n > 0 {
		idx[r.Intn(n)] = []int{size, size + 1, -1, size + 5 + r.Intn(50)}[r.Intn(4)]
	}
	return idx
}

// child builds a second real list (any kind) of n elements for SortingAnyList.
func buildChild(r *rand.Rand, n int, dup int) (*tl, bool) {
	k := allKinds[r.Intn(len(allKinds))]
	return buildChildOf(r, k, n, dup)
}

func buildChildOf(r *rand.Rand, k kind, n int, dup int) (*tl, bool) {
	c := ctors[r.Intn(len(ctors))]
	ch := newList(k, c.name, c.capa)
	p := pool(r, k, dup)
	if k == kInt || k == kLong {
		// neighbours that differ only below float64 precision
		base := []int64{math.MaxInt64 - 3, math.MinInt64, 1 << 53, 1 << 60}[r.Intn(4)]
		if r.Intn(3) == 0 {
			for i := range p {
				p[i] = val{i: base + int64(i%4)}
			}
		}
	}
	vs := draw(r, p, n)
	ok := core.Guard(func() { ch.addAllArray(vs) }) == ""
	return ch, ok
}

func randomHistory(c *core.Ctx, t *core.Trace, gen string, cas int, k kind, nops int) *sess {
	r := c.Rng(gen, cas)
	ct := ctors[(cas/len(allKinds))%len(ctors)]
	smallInts := (cas/(len(allKinds)*len(ctors)))%3 == 2
	prof := "mixed"
	if smallInts {
		prof = "smallint"
	}
	s := start(t, gen, cas, k, ct.name, ct.capa, core.Ev{"profile": prof})
	s.keepWith(r, 48)
	var p []val
	if smallInts {
		p = make([]val, 2+r.Intn(8))
		for i := range p {
			p[i] = small(k, int64(r.Intn(2001)-1000)*[]int64{1, 1, 1 << 13}[r.Intn(3)])
		}
	} else {
		p = pool(r, k, 1+r.Intn(12))
	}
	smallN := func() int64 { return int64(r.Intn(2001)-1000) * []int64{1, 1, 1 << 13}[r.Intn(3)] }
	for i := 0; i < nops && !s.dead; i++ {
		size := s.l.size()
		x := r.Intn(100)
		switch {
		case x < 28:
			if smallInts && r.Intn(2) == 0 {
				v := addVias(k)
				s.addVia(v[r.Intn(len(v))], smallN())
			} else {
				s.add(p[r.Intn(len(p))])
			}
		case x < 35:
			s.addAllArray(draw(r, p, []int{0, 1, 2, 3, 7, 20}[r.Intn(6)]))
		case x < 40:
			s.addAll(r, draw(r, p, []int{0, 1, 2, 5, 12}[r.Intn(5)]))
		case x < 41:
			if size <= 150 {
				s.addAllSelf()
			}
		case x < 55:
			if smallInts && r.Intn(2) == 0 {
				v := addVias(k)
				s.setVia(v[r.Intn(len(v))], randIndex(r, size, ct.capa), smallN())
			} else {
				s.set(randIndex(r, size, ct.capa), p[r.Intn(len(p))])
			}
		case x < 70:
			if smallInts && r.Intn(2) == 0 {
				v := getVias(k)
				s.getVia(v[r.Intn(len(v))], randIndex(r, size, ct.capa))
			} else {
				s.get(randIndex(r, size, ct.capa))
			}
		case x < 76:
			s.poke(r, p, true)
		case x < 80:
			s.toArray("ToArray")
		case x < 82:
			s.sizeEv()
		case x < 86:
			s.write(r)
		case x < 93:
			if r.Intn(2) == 0 {
				s.sortEv(r.Intn(2) == 0, nil, true)
			} else if ch, ok := buildChild(r, size, 1+r.Intn(4)); ok {
				s.sortEv(r.Intn(2) == 0, ch, r.Intn(2) == 0)
			}
		default:
			s.filter(randIdxList(r, size, r.Intn(8) == 0))
		}
		if i%16 == 15 && !s.dead {
			s.toArray("Proj")
			s.heldEvOne(r)
		}
	}
	if !s.dead {
		s.toArray("Proj")
		s.heldEvAll()
	}
	return s
}

// growHistory adds one element at a time across the growth steps and probes the
// first index beyond size (a slot of the backing array once it has grown).
func growHistory(c *core.Ctx, t *core.Trace, gen string, cas int, k kind, ctor string, capa int, n int) *sess {
	r := c.Rng(gen, cas)
	s := start(t, gen, cas, k, ctor, capa, core.Ev{"profile": "grow"})
	s.keepWith(r, 0)
	p := pool(r, k, 2+r.Intn(6))
	for i := 0; i < n && !s.dead; i++ {
		s.add(p[r.Intn(len(p))])
		size := s.l.size()
		if i < 70 || r.Intn(32) == 0 { // the array handed out at this size, kept across the next calls
			switch r.Intn(6) {
			case 0:
				s.toArray("ToArray")
			case 1:
				s.poke(r, p, false)
			}
		}
		s.get(size)
		switch r.Intn(4) {
		case 0:
			s.get(size - 1)
		case 1:
			s.get(r.Intn(size))
		case 2:
			s.set(size+r.Intn(size/2+1), p[0])
		}
		if i%64 == 63 && !s.dead {
			s.toArray("Proj")
			s.heldEvOne(r)
		}
	}
	if !s.dead {
		s.toArray("Proj")
		s.write(r)
		s.heldEvAll()
	}
	return s
}

// sortHistory builds one list of n elements over `dup` candidate values and sorts
// it in every way: both directions alone, and with children of the given kinds in
// all four direction combinations; then filters by the permutations and by random
// index lists.
func sortHistory(c *core.Ctx, t *core.Trace, gen string, cas int, k kind, n, dup int, children []kind) *sess {
	r := c.Rng(gen, cas)
	ct := ctors[r.Intn(len(ctors))]
	s := start(t, gen, cas, k, ct.name, ct.capa, core.Ev{"profile": "sort", "n": n, "dup": dup})
	s.keepWith(r, 0) // the index slices and filtered lists stay with the caller, read again at the end
	p := pool(r, k, dup)
	vs := draw(r, p, n)
	switch r.Intn(3) {
	case 0: // already ascending / descending runs: the pattern-detecting paths of the sort
		sortVals(k, vs, r.Intn(2) == 0)
	case 1:
		if n > 8 {
			sortVals(k, vs[:n/2], true)
		}
	}
	for off := 0; off < n && !s.dead; { // in chunks, across growth steps
		m := 1 + r.Intn(n)
		if off+m > n {
			m = n - off
		}
		s.addAllArray(vs[off : off+m])
		off += m
	}
	if s.dead {
		return s
	}
	s.toArray("Proj")
	var last []int
	for _, asc := range []bool{true, false} {
		if perm := s.sortEv(asc, nil, true); perm != nil {
			last = perm
		}
	}
	for _, ck := range children {
		cdup := []int{1, 2, 3, n/4 + 1, n + 1}[r.Intn(5)]
		ch, ok := buildChildOf(r, ck, n, cdup)
		if !ok || s.dead {
			break
		}
		for _, asc := range []bool{true, false} {
			for _, casc := range []bool{true, false} {
				if perm := s.sortEv(asc, ch, casc); perm != nil {
					last = perm
				}
			}
		}
	}
	if !s.dead && last != nil {
		s.filter(last)
	}
	for i := 0; i < 3 && !s.dead; i++ {
		s.filter(randIdxList(r, n, i == 2))
	}
	if !s.dead && n > 0 {
		s.set(r.Intn(n), p[r.Intn(len(p))])
		s.poke(r, p, false)
	}
	s.heldEvAll()
	return s
}

func sortVals(k kind, vs []val, asc bool) {
	for i := 1; i < len(vs); i++ { // insertion sort: the slices are short enough
		for j := i; j > 0; j-- {
			a, b := vs[j-1], vs[j]
			if (asc && less(k, b, a)) || (!asc && less(k, a, b)) {
				vs[j-1], vs[j] = b, a
			} else {
				break
			}
		}
	}
}

func Run(c *core.Ctx) error {
	c.Rule = "C13: random call histories on each of the five typed lists (every Add*/Set*/Get*, AddAll, AddAllArray, ToArray, Size, Write+Read, Sorting, SortingAnyList, Filtering; seven constructor shapes; extreme / duplicate / NaN-free / empty-string element pools), one-by-one growth histories probing the first slot beyond size, sort histories of 0..2000 elements with heavy duplication sorted both ways alone and with children of every kind in all four direction combinations, aliasing histories (each typed list filled exactly to / short of / beyond its capacity by every constructor and growth path, or obtained from Filtering / Read / as the AddAll argument; the caller keeps every returned or passed array, index slice and list, writes into them and reads them again after every call), random LinkedList histories, plus every transition of the complete small-scope state graphs of the model (typed and linked, dumped by TLC) replayed on every real type; a history is non-trivial if it recorded more than 3 events; distinct by kind, constructor, profile and first 12 calls"
	// several trace files: they are validated in parallel
	t := c.Trace("c13_lists", "Trace_TypedList")  // self, seq
	tg := c.Trace("c13_grow", "Trace_TypedList")  // grow, sort
	ta := c.Trace("c13_alias", "Trace_TypedList") // alias, linked
	tr := c.Trace("c13_graph", "Trace_TypedList")   // graph: IntList, LongList, FloatList
	tr2 := c.Trace("c13_graph2", "Trace_TypedList") // graph: DoubleList, StringList, LinkedList

	// ---- gen "self": one fixed straight-line history (binding self-test) ----
	if c.Want("self", 0) {
		r := c.Rng("self", 0)
		s := start(t, "self", 0, kLong, "cap", 2, core.Ev{"profile": "self"})
		s.keepWith(r, 100)
		s.add(val{i: 5})
		s.add(val{i: -7})
		s.add(val{i: 5})
		s.addAllArray([]val{{i: 1 << 40}, {i: 0}})
		s.set(1, val{i: 9})
		s.get(1)
		s.get(5)
		s.toArray("ToArray")
		s.write(r)
		s.sortEv(true, nil, true)
		ch, _ := buildChildOf(r, kString, 5, 2)
		s.sortEv(false, ch, true)
		s.filter([]int{4, 0, 0})
		c.Count("self", true)
	}

	// ---- gen "seq": random call histories --------------------------------
	if c.WantGen("seq") {
		per := c.Pick(21, 63) // x 5 kinds; cycles through constructors and profiles
		nops := c.Pick(140, 500)
		for j := 0; j < per*len(allKinds); j++ {
			if !c.Want("seq", j) {
				continue
			}
			k := allKinds[j%len(allKinds)]
			s := randomHistory(c, t, "seq", j, k, nops)
			c.Count(fmt.Sprintf("seq|%s|%s%d|%v", k, s.ctor, s.capa, s.sig), s.events > 3)
			if j < 3 {
				c.Sample(map[string]interface{}{"gen": "seq", "case": j, "type": k.String() + "List", "ctor": s.ctor, "cap": s.capa, "events": s.events, "first_calls": s.sig, "final_size": s.l.size()})
			}
		}
	}

	// ---- gen "grow": one element at a time across the growth steps -------
	if c.WantGen("grow") {
		n := c.Pick(130, 2100)
		cas := 0
		for _, k := range allKinds {
			for _, ct := range ctors[:3] {
				if c.Want("grow", cas) {
					s := growHistory(c, tg, "grow", cas, k, ct.name, ct.capa, n)
					c.Count(fmt.Sprintf("grow|%s|%s", k, ct.name), s.events > 3)
				}
				cas++
			}
		}
	}

	// ---- gen "sort": sorting and filtering --------------------------------
	if c.WantGen("sort") {
		sizes := []int{0, 1, 2, 3, 5, 8, 12, 13, 20, 33, 50, 51, 100, 257}
		if c.Thorough() {
			sizes = append(sizes, 7, 11, 14, 64, 150, 500, 1000)
		}
		ts := tg
		cas := 0
		for round := 0; round < c.Pick(1, 3); round++ {
			for _, n := range sizes {
				for _, k := range allKinds {
					if c.Want("sort", cas) {
						r := c.Rng("sortshape", cas)
						dup := []int{1, 2, 3, n/8 + 1, n + 1}[r.Intn(5)]
						children := []kind{allKinds[r.Intn(5)], allKinds[r.Intn(5)]}
						if c.Thorough() && n <= 100 {
							children = allKinds
						}
						s := sortHistory(c, ts, "sort", cas, k, n, dup, children)
						c.Count(fmt.Sprintf("sort|%s|%d|%d|%v", k, n, dup, children), s.events > 3)
						if cas == 40 {
							c.Sample(map[string]interface{}{"gen": "sort", "case": cas, "type": k.String() + "List", "n": n, "candidate_values": dup, "children": fmt.Sprint(children), "events": s.events})
						}
					}
					cas++
				}
			}
		}
		// the big ones: 2000 elements, heavy duplication; their own trace file
		tb := c.Trace("c13_bigsort", "Trace_TypedList")
		for i := 0; i < c.Pick(5, 20); i++ {
			cas := 10000 + i
			if !c.Want("sort", cas) {
				continue
			}
			r := c.Rng("sortshape", cas)
			k := allKinds[i%5]
			dup := []int{2, 3, 7, 40, 2500}[(i/5+i)%5]
			s := sortHistory(c, tb, "sort", cas, k, 2000, dup, []kind{allKinds[r.Intn(5)]})
			c.Count(fmt.Sprintf("bigsort|%s|%d", k, dup), s.events > 3)
		}
	}

	// ---- gen "alias": what the list hands out / is handed stays apart from it ----
	if c.WantGen("alias") {
		for ki, k := range allKinds {
			for si, shape := range aliasShapes {
				pick := map[int]bool{}
				if !c.Thorough() { // three of the sizes per kind and shape, one of them small
					rs := c.Rng("aliassizes", ki*len(aliasShapes)+si)
					pick[1+rs.Intn(4)] = true
					for len(pick) < 3 {
						pick[rs.Intn(len(aliasSizes))] = true
					}
				}
				for ni, n := range aliasSizes {
					cas := (ki*len(aliasShapes)+si)*len(aliasSizes) + ni
					if !(c.Thorough() || pick[ni]) || !c.Want("alias", cas) {
						continue
					}
					s := aliasHistory(c, ta, "alias", cas, k, shape, n)
					c.Count(fmt.Sprintf("alias|%s|%s|%d", k, shape, n), s.events > 3)
					if cas == 0 {
						c.Sample(map[string]interface{}{"gen": "alias", "case": cas, "type": k.String() + "List", "shape": shape, "n": n, "events": s.events, "first_calls": s.sig})
					}
				}
			}
		}
	}

	// ---- gen "linked": LinkedList ----------------------------------------
	if c.WantGen("linked") {
		for j := 0; j < c.Pick(16, 60); j++ {
			if !c.Want("linked", j) {
				continue
			}
			s := linkedHistory(c, ta, "linked", j, c.Pick(250, 900))
			c.Count(fmt.Sprintf("linked|%v", s.sig), s.events > 3)
			if j == 0 {
				c.Sample(map[string]interface{}{"gen": "linked", "case": j, "type": "LinkedList", "events": s.events, "first_calls": s.sig})
			}
		}
	}

	// ---- gen "graph": (B) every transition of TLC's state graphs ----------
	if c.WantGen("graph") {
		if err := replayGraphs(c, tr, tr2); err != nil {
			return err
		}
	}
	return nil
}
