// Package c14 drives the real util/hll counters and records what every call
// did, for Trace_HLL.tla to judge against the HyperLogLog specification.
package c14

import (
	"bytes"
	"encoding/binary"
	"fmt"
	"math"
	"math/rand"
	"sort"

	"github.com/whatap/golib/util/hll"

	"verifharness/core"
)

func init() { core.Register("c14", Run) }

// hashOf is the 32-bit hash the counter uses for an item: the exported murmur
// functions of the package (their correctness is C15's subject).
func hashOf(it uint64, as32 bool) uint32 {
	if as32 {
		return hll.MurmurHash(uint32(it))
	}
	return hll.MurmurHashLong(it)
}

type item struct {
	v    uint64
	as32 bool // offered through Offer(uint32) rather than OfferLong(uint64)
}

var extremes = []uint64{0, 1, 2, math.MaxUint32, math.MaxUint32 - 1, 1 << 31, 1 << 32, 1<<32 + 1, 1 << 63, math.MaxUint64, math.MaxUint64 - 1, math.MaxInt64}

func randItem(r *rand.Rand) item {
	switch r.Intn(10) {
	case 0:
		v := extremes[r.Intn(len(extremes))]
		return item{v, v <= math.MaxUint32 && r.Intn(2) == 0}
	case 1, 2, 3:
		return item{uint64(r.Uint32()), true}
	case 4:
		return item{uint64(r.Intn(64)), r.Intn(2) == 0} // small integers, either entry point
	case 5:
		return item{uint64(r.Uint32()), false} // a 32-bit value through the 64-bit entry point
	default:
		return item{r.Uint64(), false}
	}
}

// distinctItems draws n items with pairwise different values.
func distinctItems(r *rand.Rand, n int) []item {
	seen := map[uint64]bool{}
	out := make([]item, 0, n)
	for len(out) < n {
		it := randItem(r)
		if seen[it.v] {
			continue
		}
		seen[it.v] = true
		out = append(out, it)
	}
	return out
}

// ---- items with chosen hash bits ------------------------------------------
// The hash of a 32-bit item is a bijection of 32-bit words (multiplications by an
// odd constant and xor-shifts); preimage inverts it so that a history can reach
// the register patterns random items practically never produce: the all-zero
// remainder (maximal rank), remainders 1, 2^k, 2^k-1, first and last register,
// registers at the 6-per-word boundaries.  The hash that is LOGGED is still what
// the package's exported hash function returns for the item; an item whose
// hash is not the wanted pattern (should the hash function change) is dropped.
const murmurM = 0x5bd1e995

func inv32(a uint32) uint32 { // multiplicative inverse of an odd a modulo 2^32
	x := a
	for i := 0; i < 5; i++ {
		x *= 2 - a*x
	}
	return x
}

func unXorShift(y uint32, s uint) uint32 {
	x := y
	for i := 0; i < 4; i++ {
		x = y ^ (x >> s)
	}
	return x
}

func preimage(target uint32) (uint32, bool) {
	mi := inv32(murmurM)
	h := unXorShift(target, 15) * mi
	h = unXorShift(h, 13) * mi
	k := unXorShift(h*mi, 24)
	v := k * mi
	return v, hll.MurmurHash(v) == target
}

func craftedItems(r *rand.Rand, p int, n int) []item {
	m := 1 << uint(p)
	rb := uint(32 - p) // bits of the remainder
	idxs := []int{0, 1, 5, 6, 7, 11, 12, m - 1, m - 2, m / 2, r.Intn(m), r.Intn(m)}
	seen := map[uint32]bool{}
	var out []item
	for tries := 0; len(out) < n && tries < 50*n; tries++ {
		idx := idxs[r.Intn(len(idxs))] % m
		var rest uint32
		switch r.Intn(8) {
		case 0:
			rest = 0 // nothing but zeros after the index bits: rank 32-p+1
		case 1:
			rest = 1
		case 2:
			rest = 1<<rb - 1 // all ones: rank 1
		case 3:
			rest = 1 << (rb - 1) // rank 1, only the first bit
		case 4:
			rest = 1 << uint(r.Intn(int(rb))) // a single bit: every rank
		case 5:
			rest = 1<<uint(r.Intn(int(rb))+1) - 1
		case 6:
			k := uint(r.Intn(int(rb)))
			rest = 1<<k | r.Uint32()&(1<<k-1) // chosen rank, random tail
		default:
			rest = r.Uint32() & (1<<rb - 1)
		}
		target := uint32(idx)<<rb | rest
		if seen[target] {
			continue
		}
		seen[target] = true
		if v, ok := preimage(target); ok {
			out = append(out, item{uint64(v), r.Intn(2) == 0})
		}
	}
	return out
}

type hist struct {
	t    *core.Trace
	ctr  map[int]*hll.HyperLogLog
	next int
	dead bool
	// noEst: the items were crafted from chosen hash bit patterns; the error bound
	// of the estimate is a statement about hashed (spread) items and says nothing here
	noEst bool
	// held: every slice GetBytes returned through bytes(), kept UNCOPIED under a
	// snapshot id: a byte form is a value of the moment it was taken; it is
	// projected again later (Held) and counters are rebuilt from it (BuildHeld)
	held     map[int][]byte
	lastSnap int
	heldIds  []int
	heldFull map[int]bool
	nextSnap int
}

func (h *hist) panicEv(what string, msg string) {
	h.t.Emit(core.Ev{"ev": "Panic", "in": what, "msg": msg})
	h.dead = true
}

func (h *hist) newCtr(p int) int {
	id := h.next
	h.next++
	var c *hll.HyperLogLog
	if msg := core.Guard(func() { c = hll.NewHyperLogLogInt(uint32(p)) }); msg != "" || c == nil {
		h.panicEv("New", msg)
		return id
	}
	h.ctr[id] = c
	h.t.Emit(core.Ev{"ev": "New", "c": id, "p": p})
	return id
}

func (h *hist) offer(id int, it item, r *rand.Rand) {
	if h.dead {
		return
	}
	c := h.ctr[id]
	var ret bool
	as32 := it.as32
	if it.v <= math.MaxUint32 && r != nil && r.Intn(4) == 0 {
		as32 = !as32 // the same item through the other entry point is the same item
	}
	hv := hashOf(it.v, as32)
	msg := core.Guard(func() {
		if as32 {
			ret = c.Offer(uint32(it.v))
		} else {
			ret = c.OfferLong(it.v)
		}
	})
	if msg != "" {
		h.panicEv("Offer", msg)
		return
	}
	h.t.Emit(core.Ev{"ev": "Offer", "c": id, "h": core.W4(hv), "ret": ret, "item": fmt.Sprintf("%d", it.v), "as32": as32})
}

func satEst(e uint64) int {
	if e > 1<<30 {
		return 1 << 30
	}
	return int(e)
}

func (h *hist) est(id int) {
	if h.dead || h.noEst {
		return
	}
	var e uint64
	if msg := core.Guard(func() { e = h.ctr[id].Cardinality() }); msg != "" {
		h.panicEv("Cardinality", msg)
		return
	}
	h.t.Emit(core.Ev{"ev": "Est", "c": id, "est": satEst(e)})
}

// projectBytes turns the byte form into the lossless sparse projection the
// trace specification reads (standard library only).
func projectBytes(b []byte, full bool) core.Ev {
	ev := core.Ev{"len": len(b)}
	hdr := b
	if len(hdr) > 8 {
		hdr = hdr[:8]
	}
	ev["hdr"] = core.Cp(hdr)
	nz := [][]int{}
	for w := 0; 8+4*w+4 <= len(b); w++ {
		v := binary.BigEndian.Uint32(b[8+4*w:])
		if v != 0 {
			nz = append(nz, []int{w, int(v >> 16), int(v & 0xffff)})
		}
	}
	ev["nz"] = nz
	if full {
		ev["full"] = core.Cp(b)
	}
	return ev
}

func (h *hist) bytes(id int, p int) []byte {
	if h.dead {
		return nil
	}
	var b []byte
	if msg := core.Guard(func() { b = h.ctr[id].GetBytes() }); msg != "" {
		h.panicEv("GetBytes", msg)
		return nil
	}
	ev := projectBytes(b, p <= 8)
	ev["ev"] = "Bytes"
	ev["c"] = id
	// the caller keeps what it got (the very slice, no copy)
	h.nextSnap++
	sid := h.nextSnap
	ev["s"] = sid
	h.held[sid] = b
	h.heldFull[sid] = p <= 8
	h.heldIds = append(h.heldIds, sid)
	h.lastSnap = sid
	h.t.Emit(ev)
	return b
}

// heldAll looks again at every byte form kept so far.
func (h *hist) heldAll() {
	if h.dead {
		return
	}
	for _, sid := range h.heldIds {
		b, ok := h.held[sid]
		if !ok {
			continue
		}
		ev := projectBytes(b, h.heldFull[sid])
		ev["ev"] = "Held"
		ev["s"] = sid
		h.t.Emit(ev)
	}
}

// buildHeld rebuilds a counter from a byte form kept since it was taken: from
// the kept slice itself, or (private) from a copy that the caller then reuses
// for something else.
func (h *hist) buildHeld(sid int, private bool, r *rand.Rand) int {
	d := h.next
	h.next++
	if h.dead {
		return d
	}
	src := h.held[sid]
	if private {
		src = append([]byte(nil), src...)
	}
	var n *hll.HyperLogLog
	if msg := core.Guard(func() { n = hll.BuildHyperLogLog(src) }); msg != "" || n == nil {
		h.panicEv("Build", msg)
		return d
	}
	h.ctr[d] = n
	h.t.Emit(core.Ev{"ev": "BuildHeld", "d": d, "s": sid})
	if private {
		r.Read(src)
		h.t.Emit(core.Ev{"ev": "Scribble", "d": d})
	}
	return d
}

// scribble: the caller writes into the slice GetBytes gave it (it is the
// caller's); the slice is not looked at again.
func (h *hist) scribble(sid int, r *rand.Rand) {
	b, ok := h.held[sid]
	if h.dead || !ok {
		return
	}
	r.Read(b)
	delete(h.held, sid)
	h.t.Emit(core.Ev{"ev": "Scribble", "s": sid})
}

func (h *hist) same(a, b int) {
	if h.dead {
		return
	}
	var x, y []byte
	if msg := core.Guard(func() { x = h.ctr[a].GetBytes(); y = h.ctr[b].GetBytes() }); msg != "" {
		h.panicEv("GetBytes", msg)
		return
	}
	h.t.Emit(core.Ev{"ev": "Same", "c": a, "d": b, "eq": bytes.Equal(x, y)})
}

func (h *hist) merge(c int, others []int) int {
	d := h.next
	h.next++
	if h.dead {
		return d
	}
	var m *hll.HyperLogLog
	msg := core.Guard(func() {
		os := make([]*hll.HyperLogLog, len(others))
		for i, o := range others {
			os[i] = h.ctr[o]
		}
		if len(os) == 0 {
			m = h.ctr[c].Merge()
		} else {
			m = h.ctr[c].Merge(os...)
		}
	})
	if msg != "" || m == nil {
		h.panicEv("Merge", msg)
		return d
	}
	h.ctr[d] = m
	h.t.Emit(core.Ev{"ev": "Merge", "c": c, "others": append([]int{}, others...), "d": d})
	return d
}

func (h *hist) addAll(c, o int) {
	if h.dead {
		return
	}
	if msg := core.Guard(func() { h.ctr[c].AddAll(h.ctr[o]) }); msg != "" {
		h.panicEv("AddAll", msg)
		return
	}
	h.t.Emit(core.Ev{"ev": "AddAll", "c": c, "o": o})
}

func (h *hist) build(c int) int {
	d := h.next
	h.next++
	if h.dead {
		return d
	}
	var n *hll.HyperLogLog
	if msg := core.Guard(func() { n = hll.BuildHyperLogLog(h.ctr[c].GetBytes()) }); msg != "" || n == nil {
		h.panicEv("Build", msg)
		return d
	}
	h.ctr[d] = n
	h.t.Emit(core.Ev{"ev": "Build", "d": d, "c": c})
	return d
}

// offerAll offers the items in a random order with duplicates sprinkled in.
func (h *hist) offerAll(id int, items []item, r *rand.Rand, dupRate int) {
	order := r.Perm(len(items))
	for k, ix := range order {
		h.offer(id, items[ix], r)
		for dupRate > 0 && k > 0 && r.Intn(100) < dupRate {
			h.offer(id, items[order[r.Intn(k+1)]], r)
		}
	}
}

func pickSize(r *rand.Rand, m, cap int) int {
	var n int
	switch r.Intn(8) {
	case 0:
		n = r.Intn(3) // 0, 1, 2
	case 1:
		n = 3 + r.Intn(10)
	case 2:
		n = m/10 + r.Intn(3)
	case 3:
		n = m/4 + r.Intn(m/4+1)
	case 4:
		n = 2*m + r.Intn(m+1) // around the linear-counting / raw switch
	case 5:
		n = 3*m + r.Intn(2*m+1)
	default:
		n = r.Intn(3*m + 1)
	}
	if n > cap {
		n = cap - r.Intn(cap/4+1)
	}
	return n
}

// core history: one item set, offered in two orders, split and merged,
// serialised and rebuilt.
func coreHistory(c *core.Ctx, t *core.Trace, gen string, cas int, p int, capN int) {
	r := c.Rng(gen, cas)
	t.Reset(gen, cas, core.Ev{"p": p})
	h := &hist{t: t, ctr: map[int]*hll.HyperLogLog{}, next: 1, held: map[int][]byte{}, heldFull: map[int]bool{}}
	m := 1 << uint(p)
	var items []item
	if gen == "edge" {
		items = craftedItems(r, p, capN)
		h.noEst = true
	} else {
		items = distinctItems(r, pickSize(r, m, capN))
	}
	n := len(items)

	a := h.newCtr(p)
	h.offerAll(a, items, r, 30)
	h.bytes(a, p)
	h.est(a)

	b := h.newCtr(p)
	h.offerAll(b, items, r, 10)
	h.bytes(b, p)
	h.same(a, b)
	h.est(b)

	// split into k (possibly overlapping, possibly empty) parts, merge
	k := 1 + r.Intn(4)
	parts := make([][]item, k)
	for _, it := range items {
		j := r.Intn(k)
		parts[j] = append(parts[j], it)
		if r.Intn(5) == 0 { // overlap
			j2 := r.Intn(k)
			if j2 != j {
				parts[j2] = append(parts[j2], it)
			}
		}
	}
	ids := make([]int, k)
	for j := range parts {
		ids[j] = h.newCtr(p)
		h.offerAll(ids[j], parts[j], r, 5)
	}
	for _, id := range ids {
		h.bytes(id, p)
	}
	d := h.merge(ids[0], ids[1:])
	h.bytes(d, p)
	for _, id := range ids { // the inputs are untouched
		h.bytes(id, p)
	}
	h.same(d, a)
	h.est(d)
	if k >= 2 { // a different association / order of the same merge
		perm := r.Perm(k)
		d1 := h.merge(ids[perm[0]], []int{ids[perm[1]]})
		rest := []int{}
		for _, j := range perm[2:] {
			rest = append(rest, ids[j])
		}
		d2 := h.merge(d1, rest)
		h.same(d2, d)
		h.bytes(d2, p)
		// idempotence
		d3 := h.merge(d2, []int{d2, d})
		h.same(d3, d)
		h.bytes(d3, p)
	}
	// copy by merge with nothing
	cp := h.merge(a, nil)
	h.same(cp, a)
	// serialise, rebuild
	rb := h.build(a)
	h.bytes(rb, p)
	h.same(rb, a)
	h.est(rb)
	// the rebuilt and the copied counters are live counters
	extra := distinctItems(r, 1+r.Intn(4))
	for _, it := range extra {
		h.offer(rb, it, r)
		h.offer(cp, it, r)
	}
	h.bytes(rb, p)
	h.bytes(a, p) // a is not aliased by its copy / rebuild
	h.same(rb, cp)
	h.same(rb, a)
	h.est(rb)
	// every byte form obtained so far is still what it was when it was obtained
	h.heldAll()
	// in-place AddAll
	if k >= 2 {
		h.addAll(ids[0], ids[1])
		h.bytes(ids[0], p)
		h.bytes(ids[1], p)
		h.est(ids[0])
	}
	h.addAll(cp, b)
	h.bytes(cp, p)
	// a counter that reports in stages: the byte form and the estimate of every
	// stage are kept while the counter goes on (offers, a final AddAll)
	st := h.newCtr(p)
	ns := 2 + r.Intn(3)
	cuts := make([]int, ns+1)
	for j := 1; j < ns; j++ {
		cuts[j] = r.Intn(n + 1)
	}
	cuts[ns] = n
	sort.Ints(cuts)
	perm := r.Perm(n)
	var reports []int
	for j := 0; j < ns; j++ {
		chunk := make([]item, 0, cuts[j+1]-cuts[j])
		for _, ix := range perm[cuts[j]:cuts[j+1]] {
			chunk = append(chunk, items[ix])
		}
		h.offerAll(st, chunk, r, 5)
		if j == ns-1 && r.Intn(2) == 0 {
			h.addAll(st, cp) // cp has seen the extra items as well
		}
		h.bytes(st, p)
		reports = append(reports, h.lastSnap)
		h.est(st)
	}
	h.same(st, a)
	h.heldAll()
	// counters rebuilt from the kept reports are in the state of the stage reported,
	// with its estimate; the union of the reports is the last state
	var built []int
	for _, sid := range reports {
		built = append(built, h.buildHeld(sid, r.Intn(3) == 0, r))
	}
	for _, d := range built {
		h.bytes(d, p)
		h.est(d)
	}
	u := h.merge(built[0], built[1:])
	h.same(u, st)
	h.bytes(u, p)
	// a rebuilt counter is a live counter of its own
	for _, it := range extra {
		h.offer(built[0], it, r)
	}
	h.offer(st, distinctItems(r, 1)[0], r)
	h.bytes(built[0], p)
	h.bytes(st, p)
	h.heldAll()
	// at last the caller reuses slices it was given: no counter notices
	for _, sid := range h.heldIds {
		if r.Intn(2) == 0 {
			h.scribble(sid, r)
		}
	}
	for _, id := range []int{a, st, rb, ids[0], built[0], built[len(built)-1], u} {
		h.bytes(id, p)
	}
	h.heldAll()
	c.Count(fmt.Sprintf("%s:%d:%d:%d", gen, p, n, k), n >= 2)
	if cas < 2 {
		c.Sample(map[string]interface{}{"gen": gen, "case": cas, "p": p, "distinct_items": n, "parts": k})
	}
}

// bulk history: estimates of counters fed up to 5m distinct items (offers not logged).
func bulkHistory(c *core.Ctx, t *core.Trace, gen string, cas int, p int, dense bool, mult int) {
	r := c.Rng(gen, cas)
	t.Reset(gen, cas, core.Ev{"p": p})
	m := 1 << uint(p)
	var ctr *hll.HyperLogLog
	if msg := core.Guard(func() { ctr = hll.NewHyperLogLogInt(uint32(p)) }); msg != "" || ctr == nil {
		t.Emit(core.Ev{"ev": "Panic", "in": "New", "msg": msg})
		return
	}
	seen := make(map[uint64]struct{}, mult*m)
	next := 0
	sequential := r.Intn(4) == 0 // consecutive integers: the hash has to spread them
	base := uint64(r.Uint32())
	for len(seen) < mult*m {
		var it item
		if sequential {
			it = item{base + uint64(len(seen)), r.Intn(2) == 0}
			if it.v > math.MaxUint32 {
				it.as32 = false
			}
		} else {
			it = randItem(r)
		}
		if _, dup := seen[it.v]; dup {
			continue
		}
		seen[it.v] = struct{}{}
		msg := core.Guard(func() {
			if it.as32 {
				ctr.Offer(uint32(it.v))
			} else {
				ctr.OfferLong(it.v)
			}
			if r.Intn(8) == 0 { // duplicates never matter
				ctr.OfferLong(it.v)
			}
		})
		if msg != "" {
			t.Emit(core.Ev{"ev": "Panic", "in": "Offer", "msg": msg})
			return
		}
		n := len(seen)
		if n >= next || n == 5*m || n == mult*m || n == m/10 || n == m/4 || n == 2*m+m/2 || (dense && n >= m && n <= 4*m) {
			next = n + 1 + n/8
			var e uint64
			if msg := core.Guard(func() { e = ctr.Cardinality() }); msg != "" {
				t.Emit(core.Ev{"ev": "Panic", "in": "Cardinality", "msg": msg})
				return
			}
			t.Emit(core.Ev{"ev": "EstBulk", "p": p, "n": n, "est": satEst(e)})
			c.Count(fmt.Sprintf("bulk:%d:%d:%d", p, n, e), n >= 2)
		}
	}
}

func Run(c *core.Ctx) error {
	c.Rule = "per precision 4..16: a random set of distinct 32/64-bit items offered to real counters in two orders with duplicates, split into 1..4 overlapping parts and merged in two associations, serialised and rebuilt, a counter reporting in 2..4 stages, every Offer boolean / GetBytes / Cardinality recorded, every GetBytes slice kept uncopied, looked at again after later calls, rebuilt from and finally overwritten by the caller; the same over items crafted (by inverting the 32-bit item hash) to have chosen index and remainder bits: all-zero remainder, single bits, first/last register, word boundaries; plus estimate checkpoints of counters fed up to 5m (every third: 16m) distinct items; a case is non-trivial if it involves at least 2 distinct items; distinct by (precision, set size, split) resp. (precision, n, estimate)"
	t := c.Trace("c14_hll", "Trace_HLL")
	if c.WantGen("core") {
		per := c.Pick(5, 40)
		cas := 0
		for rep := 0; rep < per; rep++ {
			for p := 4; p <= 16; p++ {
				if c.Want("core", cas) {
					capN := c.Pick(120, 400)
					if c.Thorough() && rep%8 == 0 && p <= 8 {
						capN = 5 * (1 << uint(p)) // reach the raw-estimate range with logged offers
					}
					coreHistory(c, t, "core", cas, p, capN)
				}
				cas++
			}
		}
	}
	// gen "edge": the same history over items crafted to have chosen hash bits
	if c.WantGen("edge") {
		per := c.Pick(2, 12)
		cas := 0
		for rep := 0; rep < per; rep++ {
			for p := 4; p <= 16; p++ {
				if c.Want("edge", cas) {
					coreHistory(c, t, "edge", cas, p, 12+8*rep%40)
				}
				cas++
			}
		}
	}
	if c.WantGen("bulk") {
		per := c.Pick(3, 24)
		cas := 0
		for rep := 0; rep < per; rep++ {
			for p := 4; p <= 16; p++ {
				if c.Want("bulk", cas) {
					// every third counter is fed well past the linear-counting range (16m) so that the raw estimator is on its own
					mult := 5
					if rep%3 == 0 {
						mult = 16
					}
					bulkHistory(c, t, "bulk", cas, p, false, mult)
				}
				cas++
			}
		}
	}
	// gen "switch": small register files around the switch between the small-range
	// (linear counting) and the raw estimate, an estimate after every new item
	if c.WantGen("switch") {
		per := c.Pick(24, 300)
		cas := 0
		for rep := 0; rep < per; rep++ {
			for p := 4; p <= 7; p++ {
				if c.Want("switch", cas) && (p <= 5 || rep%4 == 0) {
					bulkHistory(c, t, "switch", cas, p, true, 5)
				}
				cas++
			}
		}
	}
	return nil
}
