// Package hmapx is shared plumbing of the C09 / C12 drivers (golib util/hmap):
// key pools that force hash collisions, the uniform "one abstract call on one
// real collection" adapter, the watchdog that turns a self-deadlock into a
// recorded event, random history generation and the small-scope state-graph
// traversal.  It records; TLC judges.
package hmapx

import (
	"fmt"
	"math/rand"
	"sort"
	"strconv"
	"strings"
	"time"

	"verifharness/core"
)

// ---------------------------------------------------------------- key pools

// Pool is the key universe of one history, sorted by the natural order of the
// key kind.  A key is logged as its rank (1-based index); 0 = "not a pool key".
type Pool[K comparable] struct {
	Keys []K
	idx  map[K]int
	Str  func(K) string
}

func NewPool[K comparable](keys []K, less func(a, b K) bool, str func(K) string) *Pool[K] {
	seen := map[K]bool{}
	var ks []K
	for _, k := range keys {
		if !seen[k] {
			seen[k] = true
			ks = append(ks, k)
		}
	}
	sort.SliceStable(ks, func(i, j int) bool { return less(ks[i], ks[j]) })
	p := &Pool[K]{Keys: ks, idx: map[K]int{}, Str: str}
	for i, k := range ks {
		p.idx[k] = i + 1
	}
	return p
}

func (p *Pool[K]) N() int         { return len(p.Keys) }
func (p *Pool[K]) Key(rank int) K { return p.Keys[rank-1] }
func (p *Pool[K]) Rank(k K) int   { return p.idx[k] }
func (p *Pool[K]) Ranks(ks []K) []int {
	out := make([]int, len(ks))
	for i, k := range ks {
		out[i] = p.idx[k]
	}
	return out
}

// Describe lists the real keys of the pool (for the Reset event: human readable only).
func (p *Pool[K]) Describe(max int) []string {
	var out []string
	for i, k := range p.Keys {
		if i >= max {
			break
		}
		s := p.Str(k)
		if len(s) > 24 {
			s = s[:24] + "..."
		}
		out = append(out, s)
	}
	return out
}

// PickKeys selects n keys out of candidates cand(0..ncand-1) plus the given
// specials so that many of them share a bucket: about a third collide modulo
// caps[0] (half of those also modulo caps[1], caps[2] where such candidates
// exist), a few sit in bucket 0 of caps[0] / caps[1], the rest are arbitrary.
// hash replicates the bucket hash of the type under test; it only steers.
func PickKeys[K comparable](r *rand.Rand, n int, ncand int, cand func(i int) K, special []K, hash func(K) uint, caps []uint) []K {
	have := map[K]bool{}
	var out []K
	add := func(k K) {
		if !have[k] && len(out) < n {
			have[k] = true
			out = append(out, k)
		}
	}
	// specials: all when there is room, else a random subset
	sp := append([]K(nil), special...)
	r.Shuffle(len(sp), func(i, j int) { sp[i], sp[j] = sp[j], sp[i] })
	for i, k := range sp {
		if i < (n+2)/3 {
			add(k)
		}
	}
	c0 := caps[0]
	c1 := c0*2 + 1
	if len(caps) > 1 {
		c1 = caps[1]
	}
	all := make([]K, 0, ncand)
	for i := 0; i < ncand; i++ {
		all = append(all, cand(i))
	}
	// target bucket: that of a random candidate
	t0 := hash(all[r.Intn(len(all))]) % c0
	var s0, z0 []K
	for _, k := range all {
		h := hash(k)
		if h%c0 == t0 {
			s0 = append(s0, k)
		}
		if h%c0 == 0 {
			z0 = append(z0, k)
		}
	}
	// inside the colliding group prefer the most frequent residue of the next capacity
	cnt := map[uint]int{}
	for _, k := range s0 {
		cnt[hash(k)%c1]++
	}
	best, bn := uint(0), -1
	for res, c := range cnt {
		if c > bn || (c == bn && res < best) {
			best, bn = res, c
		}
	}
	want := n / 3
	for _, k := range s0 {
		if len(out) >= len(sp)+want/2 {
			break
		}
		if hash(k)%c1 == best {
			add(k)
		}
	}
	r.Shuffle(len(s0), func(i, j int) { s0[i], s0[j] = s0[j], s0[i] })
	for i, k := range s0 {
		if i >= want {
			break
		}
		add(k)
	}
	// bucket 0 (also after growth when available)
	r.Shuffle(len(z0), func(i, j int) { z0[i], z0[j] = z0[j], z0[i] })
	nz := 0
	for _, k := range z0 {
		if hash(k)%c1 == 0 && nz < 3 {
			add(k)
			nz++
		}
	}
	for _, k := range z0 {
		if nz >= 6 {
			break
		}
		if !have[k] {
			add(k)
			nz++
		}
	}
	// the rest: arbitrary candidates
	for tries := 0; len(out) < n && tries < 20*n+100; tries++ {
		add(all[r.Intn(len(all))])
	}
	return out
}

// ------------------------------------------------------------------ adapter

// Op is one abstract call.
type Op struct {
	Name string
	K    int    // key rank
	V    int    // value (or the bound for SetMax)
	Dir  string // Sort
	Ks   []int  // PutAll: keys
	Vs   []int  // PutAll: values
}

func (o Op) String() string {
	switch {
	case o.Dir != "":
		return o.Name + ":" + o.Dir
	case o.Ks != nil:
		return fmt.Sprintf("%s:%v:%v", o.Name, o.Ks, o.Vs)
	}
	return fmt.Sprintf("%s:%d:%d", o.Name, o.K, o.V)
}

// OpArgs says which arguments an operation carries in its event.
var OpArgs = map[string]string{
	"Put": "kv", "PutFirst": "kv", "PutLast": "kv", "Add": "kv", "AddFirst": "kv", "AddLast": "kv", "AddNoOver": "kv",
	"AddIfExist": "kv",
	"Get":        "k", "GetLRU": "k", "ContainsKey": "k", "Remove": "k",
	"ContainsValue": "v", "SetMax": "n", "Sort": "dir", "PutAll": "ks",
	"Unipoint":     "k",  // StringLinkedSet: put, answering the key
	"SetNullValue": "nv", // the value the type answers for "no such entry" (logged as "n")
}

// Obj is one real collection behind the uniform adapter.  Every function
// returns the PROJECTED result fields of the call (stdlib projections only).
type Obj struct {
	Type string
	Ctor string
	Hdr  core.Ev                     // conventions of the type, merged into the Reset event
	Ops  map[string]func(Op) core.Ev // available operations
	Obs  func() core.Ev              // Size(), first/last key: taken after every call
	Proj func() core.Ev              // full enumeration
	N    int                         // pool size
	Raw  interface{}                 // the real collection itself (C10: Size() as an operation, the lock field)
}

// Has reports whether the type offers the operation.
func (o *Obj) Has(name string) bool { _, ok := o.Ops[name]; return ok }

// OpNames lists the operations of the object in a fixed order.
func (o *Obj) OpNames() []string {
	var s []string
	for k := range o.Ops {
		s = append(s, k)
	}
	sort.Strings(s)
	return s
}

// Watchdog is how long a single call may take before it is recorded as a
// self-deadlock ("Timeout").  A call on these in-memory structures takes
// microseconds; the margin only has to beat scheduler stalls on a loaded box
// (a spurious Timeout does not reproduce when the runner re-generates the
// history, which the runner reports as a machinery failure, never a violation).
var Watchdog = 10 * time.Second

// hung counts the calls of (type, operation) that did not return in this
// process.  After two, the operation is not issued on that type any more (the
// call is skipped, nothing is recorded): the defect is already on record twice
// and every further history would only wait for the watchdog again.
var hung = map[string]int{}

const hungLimit = 2

// Guarded runs f on its own goroutine; it reports a recovered panic and
// whether f failed to return in time (the goroutine is abandoned then).
func Guarded(f func()) (panicMsg string, timedOut bool) {
	done := make(chan string, 1)
	go func() {
		done <- core.Guard(f)
	}()
	select {
	case msg := <-done:
		return msg, false
	case <-time.After(Watchdog):
		return "", true
	}
}

// Session drives one object and writes its history.
type Session struct {
	T      *core.Trace
	O      *Obj
	Events int
	Dead   bool // a Panic/Timeout was recorded: the object is not used any more
	Full   bool // every event carries the full projection (small-scope traversal)
	Last   core.Ev
	every  int
	since  int
}

// Start emits the Reset event of a new history on a fresh object.
func Start(t *core.Trace, gen string, cas int, o *Obj, full bool, extra core.Ev) *Session {
	s := &Session{T: t, O: o, Full: full, every: 16}
	hdr := core.Ev{"t": o.Type, "ctor": o.Ctor, "n": o.N}
	for k, v := range o.Hdr {
		hdr[k] = v
	}
	for k, v := range extra {
		hdr[k] = v
	}
	var obs core.Ev
	msg, to := Guarded(func() {
		obs = o.Obs()
		if full {
			for k, v := range o.Proj() {
				obs[k] = v
			}
		}
	})
	for k, v := range obs {
		hdr[k] = v
	}
	t.Reset(gen, cas, hdr)
	s.Last = obs
	if msg != "" || to {
		s.fail("Reset", msg, to)
	}
	return s
}

func (s *Session) fail(op string, msg string, to bool) {
	s.Dead = true
	if to {
		s.T.Emit(core.Ev{"ev": "Timeout", "op": op})
	} else {
		if len(msg) > 200 {
			msg = msg[:200]
		}
		s.T.Emit(core.Ev{"ev": "Panic", "op": op, "msg": msg})
	}
	s.Events++
}

// Do performs one call, records it and returns the recorded event (nil when
// the object is dead or the call panicked / timed out).
func (s *Session) Do(op Op) core.Ev {
	if s.Dead {
		return nil
	}
	f := s.O.Ops[op.Name]
	if f == nil {
		panic("no op " + op.Name + " on " + s.O.Type)
	}
	hkey := s.O.Type + "." + op.Name
	if hung[hkey] >= hungLimit {
		return nil
	}
	ev := core.Ev{"ev": op.Name}
	switch OpArgs[op.Name] {
	case "kv":
		ev["k"], ev["v"] = op.K, op.V
	case "k":
		ev["k"] = op.K
	case "v":
		ev["v"] = op.V
	case "n", "nv":
		ev["n"] = op.V
	case "dir":
		ev["dir"] = op.Dir
	case "ks":
		ev["ks"], ev["vs"] = nz(op.Ks), nz(op.Vs)
	}
	var res, obs core.Ev
	msg, to := Guarded(func() {
		res = f(op)
		obs = s.O.Obs()
		if s.Full {
			for k, v := range s.O.Proj() {
				obs[k] = v
			}
		}
	})
	if msg != "" || to {
		if to {
			hung[hkey]++
		}
		s.fail(op.String(), msg, to)
		return nil
	}
	for k, v := range res {
		ev[k] = v
	}
	for k, v := range obs {
		ev[k] = v
	}
	s.T.Emit(ev)
	s.Events++
	s.Last = ev
	s.since++
	if !s.Full && s.since >= s.every {
		s.ProjNow()
	}
	return ev
}

// ProjNow records the full enumeration of the object.
func (s *Session) ProjNow() {
	if s.Dead {
		return
	}
	s.since = 0
	var pr, obs core.Ev
	msg, to := Guarded(func() { pr = s.O.Proj(); obs = s.O.Obs() })
	if msg != "" || to {
		s.fail("Proj", msg, to)
		return
	}
	ev := core.Ev{"ev": "Proj"}
	for k, v := range pr {
		ev[k] = v
	}
	for k, v := range obs {
		ev[k] = v
	}
	s.T.Emit(ev)
	s.Events++
}

func nz(a []int) []int {
	if a == nil {
		return []int{}
	}
	return a
}

// NZ turns a nil slice into an empty one (JSON [] rather than null).
func NZ(a []int) []int { return nz(a) }

// Less is the comparator family used for Sort, on ranks.
func Less(dir string, a, b int) bool {
	switch dir {
	case "asc":
		return a < b
	case "desc":
		return a > b
	default: // "par": odd ranks first, ascending inside each class
		if a%2 != b%2 {
			return a%2 > b%2
		}
		return a < b
	}
}

var Dirs = []string{"asc", "desc", "par"}

// ------------------------------------------------------- random histories

// Profile shapes a random history.
type Profile struct {
	Name   string
	Insert int // weight of the insertion family
	Look   int // lookups / membership
	Remove int // removals
	Whole  int // clear / sort / enumerations / bound changes
	Fresh  int // percent of key choices drawn from the whole pool rather than from recently used keys
	Bound  bool
	Grow   bool // let the structure fill up: Clear is rare, the bound stays off or far above the size
}

var Profiles = []Profile{
	{Name: "grow", Insert: 70, Look: 15, Remove: 8, Whole: 7, Fresh: 80, Grow: true},
	{Name: "churn", Insert: 40, Look: 25, Remove: 25, Whole: 10, Fresh: 40},
	{Name: "bounded", Insert: 60, Look: 15, Remove: 10, Whole: 15, Fresh: 70, Bound: true},
	{Name: "mixed", Insert: 45, Look: 25, Remove: 15, Whole: 15, Fresh: 50},
}

var insertOps = []string{"Put", "Put", "Put", "PutFirst", "PutLast", "Add", "Add", "AddFirst", "AddLast", "AddNoOver", "AddIfExist", "PutAll", "Unipoint"}
var lookOps = []string{"ToString", "Get", "Get", "GetLRU", "ContainsKey", "ContainsKey", "ContainsValue", "GetFirstKey", "GetLastKey", "GetFirstValue", "GetLastValue", "IsEmpty", "IsFull",
	"ToFormatString", "ValueIterator", "GetKeySet", "ToKeySet"}
var removeOps = []string{"Remove", "Remove", "Remove", "RemoveFirst", "RemoveLast"}
var wholeOps = []string{"Clear", "Sort", "Sort", "Keys", "Values", "Entries", "KeyArray", "ValueArray", "SetMax", "SetMax", "ToBytes", "SetNullValue"}

func pickOp(r *rand.Rand, o *Obj, from []string) string {
	for i := 0; i < 40; i++ {
		n := from[r.Intn(len(from))]
		if o.Has(n) {
			return n
		}
	}
	return ""
}

// RandomHistory performs nops random calls on the session's object.
// vlo..vhi is the value range.  The bound is set at any time to any value:
// off (0 or negative), exactly the size, above it, and BELOW it (one less,
// about half, a small bound, 1) -- the types apply a lowered bound lazily, at
// the next insertion of a new key (LinkedDict.tla, deviation LazyBound).
func RandomHistory(r *rand.Rand, s *Session, pr Profile, nops int, vlo, vhi int) string {
	o := s.O
	n := o.N
	var recent []int
	key := func() int {
		if len(recent) > 0 && r.Intn(100) >= pr.Fresh {
			return recent[r.Intn(len(recent))]
		}
		k := 1 + r.Intn(n)
		return k
	}
	note := func(k int) {
		recent = append(recent, k)
		if len(recent) > 24 {
			recent = recent[1:]
		}
	}
	val := func() int { return vlo + r.Intn(vhi-vlo+1) }
	size := func() int {
		if v, ok := s.Last["size"].(int); ok {
			return v
		}
		return 0
	}
	var sig strings.Builder
	if pr.Bound && o.Has("SetMax") {
		b := []int{1, 2, 3, 5, 8, 13, 40}[r.Intn(7)]
		s.Do(Op{Name: "SetMax", V: b})
	}
	tot := pr.Insert + pr.Look + pr.Remove + pr.Whole
	for i := 0; i < nops && !s.Dead; i++ {
		x := r.Intn(tot)
		var name string
		switch {
		case x < pr.Insert:
			name = pickOp(r, o, insertOps)
		case x < pr.Insert+pr.Look:
			name = pickOp(r, o, lookOps)
		case x < pr.Insert+pr.Look+pr.Remove:
			name = pickOp(r, o, removeOps)
		default:
			name = pickOp(r, o, wholeOps)
		}
		if name == "" || (pr.Grow && name == "Clear" && r.Intn(10) > 0) {
			continue
		}
		op := Op{Name: name}
		switch OpArgs[name] {
		case "kv":
			op.K, op.V = key(), val()
			note(op.K)
		case "k":
			op.K = key()
		case "v":
			op.V = val()
		case "dir":
			op.Dir = Dirs[r.Intn(len(Dirs))]
		case "n":
			sz := size()
			switch x := r.Intn(10); {
			case pr.Grow && x > 2:
				op.V = sz + n/2 + r.Intn(n) // far away: does not stop the growth
			case pr.Grow && x == 2:
				op.V = sz - r.Intn(2+sz/4) // a little below a large size: one insertion evicts a run of entries
			case x == 0:
				op.V = 0
			case x == 1:
				op.V = -1 - r.Intn(3) // negative: no bound either
			case x == 2:
				op.V = sz // exactly full (0 when empty = unbounded)
			case x <= 4:
				op.V = sz + 1 + r.Intn(4)
			case x == 5:
				op.V = sz - 1 // just below the size (-1 when empty)
			case x == 6:
				op.V = 1 + sz/2 // about half
			case x == 7:
				op.V = 1 + r.Intn(sz+1) // anywhere in 1..size+1
			case x == 8:
				op.V = 1 + r.Intn(4) // a small bound, whatever the size
			default:
				op.V = sz + n/2 + r.Intn(n) // far above
			}
		case "nv":
			op.V = []int{0, 0, -1, 5, 100}[r.Intn(5)]
		case "ks":
			m := r.Intn(6)
			for j := 0; j < m; j++ {
				op.Ks = append(op.Ks, key())
				op.Vs = append(op.Vs, val())
			}
		}
		s.Do(op)
		if i < 12 {
			sig.WriteString(op.String() + ";")
		}
	}
	s.ProjNow()
	return sig.String()
}

// ------------------------------------------- small-scope state graph (B)

// Scope is the small scope of the exhaustive traversal: keys 1..NKeys, values
// Vals, bounds Maxes, stored values never above MaxVal (an Add that would
// exceed it is not issued) -- the constants of the MC_* configuration.
type Scope struct {
	NKeys  int
	Vals   []int
	Maxes  []int
	MaxVal int
	CVals  []int // arguments of ContainsValue
	Nones  []int // arguments of SetNullValue (nil: not issued)
	// Unordered: the enumeration order of the type is not part of its state
	// (plain hash maps): states are identified up to order
	Unordered bool
}

// alphabet lists every call of the scope the object offers, in a fixed order.
func alphabet(o *Obj, sc Scope) []Op {
	var a []Op
	for _, n := range o.OpNames() {
		switch OpArgs[n] {
		case "kv":
			for k := 1; k <= sc.NKeys; k++ {
				for _, v := range sc.Vals {
					a = append(a, Op{Name: n, K: k, V: v})
				}
			}
		case "k":
			for k := 1; k <= sc.NKeys; k++ {
				a = append(a, Op{Name: n, K: k})
			}
		case "v":
			for _, v := range sc.CVals {
				a = append(a, Op{Name: n, V: v})
			}
		case "dir":
			for _, d := range Dirs {
				a = append(a, Op{Name: n, Dir: d})
			}
		case "n":
			for _, m := range sc.Maxes {
				a = append(a, Op{Name: n, V: m})
			}
		case "nv":
			for _, m := range sc.Nones {
				a = append(a, Op{Name: n, V: m})
			}
		case "ks":
			a = append(a, Op{Name: n, Ks: []int{}, Vs: []int{}})
			for k := 1; k <= sc.NKeys; k++ {
				a = append(a, Op{Name: n, Ks: []int{k, 1}, Vs: []int{sc.Vals[0], sc.Vals[len(sc.Vals)-1]}})
			}
		default:
			a = append(a, Op{Name: n})
		}
	}
	return a
}

type gnode struct {
	tried map[string]bool
	edges map[string]string // op -> successor signature
	keys  []int
	vals  []int
	max   int
}

func sortPairs(k, v []int) ([]int, []int) {
	type pr struct{ k, v int }
	ps := make([]pr, len(k))
	for i := range k {
		ps[i].k = k[i]
		if i < len(v) {
			ps[i].v = v[i]
		}
	}
	sort.Slice(ps, func(i, j int) bool { return ps[i].k < ps[j].k || (ps[i].k == ps[j].k && ps[i].v < ps[j].v) })
	k2, v2 := make([]int, len(ps)), make([]int, len(ps))
	for i, p := range ps {
		k2[i], v2[i] = p.k, p.v
	}
	return k2, v2
}

func asInts(v interface{}) []int {
	if a, ok := v.([]int); ok {
		return a
	}
	return nil
}

// Explore walks the reachable state graph of the REAL object under the scope:
// from every state it discovers (state = observed full projection + the bound
// it set) it issues every call of the alphabet once.  Every call is one event
// with the full projection of the state after it; TLC judges each transition.
// Returns the number of distinct states and of transitions exercised.
func Explore(t *core.Trace, gen string, cas int, fresh func() *Obj, sc Scope, adds map[string]bool, cut int, extra core.Ev) (states, transitions, events int, dead bool) {
	nodes := map[string]*gnode{}
	var s *Session
	curMax := 0
	sigOf := func(ev core.Ev) (string, *gnode) {
		k, v := asInts(ev["keys"]), asInts(ev["vals"])
		if sc.Unordered {
			k, v = sortPairs(k, v)
		}
		sg := fmt.Sprint(k, v, curMax)
		nd := nodes[sg]
		if nd == nil {
			nd = &gnode{tried: map[string]bool{}, edges: map[string]string{}, keys: k, vals: v, max: curMax}
			nodes[sg] = nd
		}
		return sg, nd
	}
	var alpha []Op
	start := func() string {
		o := fresh()
		if alpha == nil {
			alpha = alphabet(o, sc)
		}
		s = Start(t, gen, cas, o, true, extra)
		curMax = 0
		sg, _ := sigOf(s.Last)
		return sg
	}
	enabled := func(nd *gnode, op Op) bool {
		switch {
		case adds[op.Name]:
			for i, k := range nd.keys {
				if k == op.K && nd.vals[i]+op.V > sc.MaxVal {
					return false
				}
			}
		case op.Name == "PutAll":
			return true
		}
		return true
	}
	untried := func(nd *gnode) *Op {
		for i := range alpha {
			op := alpha[i]
			if !nd.tried[op.String()] && enabled(nd, op) {
				return &alpha[i]
			}
		}
		return nil
	}
	cur := start()
	for !s.Dead {
		nd := nodes[cur]
		op := untried(nd)
		if op == nil {
			// shortest path over known edges to a state with an untried call
			type qe struct {
				sig  string
				path []Op
			}
			seen := map[string]bool{cur: true}
			q := []qe{{cur, nil}}
			var path []Op
			for len(q) > 0 && path == nil {
				x := q[0]
				q = q[1:]
				xn := nodes[x.sig]
				for i := range alpha {
					a := alpha[i]
					nx, ok := xn.edges[a.String()]
					if !ok || seen[nx] {
						continue
					}
					seen[nx] = true
					p := append(append([]Op(nil), x.path...), a)
					if untried(nodes[nx]) != nil {
						path = p
						break
					}
					q = append(q, qe{nx, p})
				}
			}
			if path == nil {
				break // every call issued in every reachable state
			}
			for _, a := range path {
				if a.Name == "SetMax" {
					curMax = a.V
				}
				ev := s.Do(a)
				if ev == nil {
					break
				}
				cur, _ = sigOf(ev)
			}
			continue
		}
		nd.tried[op.String()] = true
		prevMax := curMax
		if op.Name == "SetMax" {
			curMax = op.V
		}
		ev := s.Do(*op)
		if ev == nil {
			curMax = prevMax
			break
		}
		transitions++
		nx, _ := sigOf(ev)
		nd.edges[op.String()] = nx
		cur = nx
		if cut > 0 && s.Events >= cut {
			events += s.Events
			cur = start()
		}
	}
	events += s.Events
	return len(nodes), transitions, events, s.Dead
}

// ------------------------- replay of a TLC-produced state graph (B, spec -> code)

// GState is one state of the model: iteration order, values in that order, bound.
type GState struct {
	Keys, Vals []int
	Max        int
}

// GEdge is one labelled transition of the model.
type GEdge struct {
	Op  Op
	Dst int
}

// Graph is the complete labelled state graph of a small-scope MC_* run of TLC
// (text form: see ParseGraph).  State 0 is the initial state.
type Graph struct {
	Name   string
	States []GState
	Out    [][]GEdge
	NEdges int
	NKeys  int // the largest key of any label
}

func ints(s string) ([]int, error) {
	if s == "" {
		return []int{}, nil
	}
	var out []int
	for _, f := range strings.Split(s, ",") {
		v, err := strconv.Atoi(f)
		if err != nil {
			return nil, err
		}
		out = append(out, v)
	}
	return out, nil
}

// ParseGraph reads the text form written by the check from TLC's transition dump:
//
//	S <id> <keys,..>|<vals,..>|<max>       one line per state, ids 0..n-1 in order
//	E <src> <op> <a> <b> <dst>             one line per transition; the label
//	                                       <<op, a, b>> is <<name, key, value>>,
//	                                       <<"Sort", index into Dirs, 0>> or
//	                                       <<"SetMax", bound, 0>>, <<"SetNullValue", value, 0>>,
//	                                       <<"ContainsValue", 0, value>>
func ParseGraph(name, text string) (*Graph, error) {
	g := &Graph{Name: name}
	for ln, line := range strings.Split(text, "\n") {
		f := strings.Fields(line)
		if len(f) == 0 || f[0] == "#" {
			continue
		}
		bad := func(err error) (*Graph, error) {
			return nil, fmt.Errorf("graph %s line %d %q: %v", name, ln+1, line, err)
		}
		switch f[0] {
		case "S":
			if len(f) != 3 {
				return bad(fmt.Errorf("want 3 fields"))
			}
			id, err := strconv.Atoi(f[1])
			if err != nil || id != len(g.States) {
				return bad(fmt.Errorf("state ids must be 0,1,2,.. in order"))
			}
			p := strings.Split(f[2], "|")
			if len(p) != 3 {
				return bad(fmt.Errorf("want keys|vals|max"))
			}
			k, e1 := ints(p[0])
			v, e2 := ints(p[1])
			m, e3 := strconv.Atoi(p[2])
			if e1 != nil || e2 != nil || e3 != nil || len(k) != len(v) {
				return bad(fmt.Errorf("bad state"))
			}
			g.States = append(g.States, GState{Keys: k, Vals: v, Max: m})
			g.Out = append(g.Out, nil)
		case "E":
			if len(f) != 6 {
				return bad(fmt.Errorf("want 6 fields"))
			}
			src, e1 := strconv.Atoi(f[1])
			a, e2 := strconv.Atoi(f[3])
			b, e3 := strconv.Atoi(f[4])
			dst, e4 := strconv.Atoi(f[5])
			if e1 != nil || e2 != nil || e3 != nil || e4 != nil || src < 0 || src >= len(g.States) || dst < 0 || dst >= len(g.States) {
				return bad(fmt.Errorf("bad edge"))
			}
			op := Op{Name: f[2]}
			switch OpArgs[op.Name] {
			case "kv":
				op.K, op.V = a, b
			case "k":
				op.K = a
			case "v":
				op.V = b
			case "n", "nv":
				op.V = a
			case "dir":
				if a < 1 || a > len(Dirs) {
					return bad(fmt.Errorf("bad sort direction"))
				}
				op.Dir = Dirs[a-1]
			}
			if op.K > g.NKeys {
				g.NKeys = op.K
			}
			g.Out[src] = append(g.Out[src], GEdge{Op: op, Dst: dst})
			g.NEdges++
		default:
			return bad(fmt.Errorf("unknown line"))
		}
	}
	if len(g.States) == 0 || len(g.States[0].Keys) != 0 || g.States[0].Max != 0 {
		return nil, fmt.Errorf("graph %s: state 0 must be the empty, unbounded initial state", name)
	}
	return g, nil
}

func sameInts(a, b []int) bool {
	if len(a) != len(b) {
		return false
	}
	for i := range a {
		if a[i] != b[i] {
			return false
		}
	}
	return true
}

// ReplayStats is what one replay of a graph on one real type did.
type ReplayStats struct {
	Edges     int  // transitions of the model
	Offered   int  // of these, calls the type offers (the others cannot be issued)
	Replayed  int  // distinct model transitions executed on the real object
	States    int  // distinct model states the real object was driven through
	Events    int  // events written (replayed transitions + connecting steps + resets)
	Diverged  bool // the real object left the model (or panicked / hung): stopped there
	Unreached int  // offered transitions whose source state cannot be reached with the offered calls
}

// Replay drives fresh real objects through EVERY transition of the model's state
// graph the type offers: a walk from the initial state that takes each edge at
// least once (nearest-untaken-edge first; a new history is started every cut
// events).  Each step is recorded with the full projection, so TLC judges every
// transition; in addition the walk compares the projection with the model's
// successor state and stops at the first difference (the walk would be lost),
// leaving the verdict on that event to TLC.
func (g *Graph) Replay(t *core.Trace, gen string, cas int, fresh func() *Obj, cut int, extra core.Ev) ReplayStats {
	var st ReplayStats
	st.Edges = g.NEdges
	var s *Session
	start := func() {
		if s != nil {
			st.Events += s.Events
		}
		s = Start(t, gen, cas, fresh(), true, extra)
	}
	start()
	o := s.O
	// the edges this type can take
	out := make([][]GEdge, len(g.Out))
	for i, es := range g.Out {
		for _, e := range es {
			if o.Has(e.Op.Name) {
				out[i] = append(out[i], e)
				st.Offered++
			}
		}
	}
	taken := make([][]bool, len(out))
	for i := range out {
		taken[i] = make([]bool, len(out[i]))
	}
	visited := map[int]bool{0: true}
	untaken := func(n int) int {
		for i := range out[n] {
			if !taken[n][i] {
				return i
			}
		}
		return -1
	}
	step := func(cur int, i int) (int, bool) {
		e := out[cur][i]
		ev := s.Do(e.Op)
		if ev == nil {
			return cur, false
		}
		if !taken[cur][i] {
			taken[cur][i] = true
			st.Replayed++
		}
		want := g.States[e.Dst]
		if !sameInts(asInts(ev["keys"]), want.Keys) || !sameInts(asInts(ev["vals"]), want.Vals) {
			return cur, false
		}
		visited[e.Dst] = true
		return e.Dst, true
	}
	cur := 0
	for {
		var path []int // edge indices to follow from cur
		if i := untaken(cur); i >= 0 {
			path = []int{i}
		} else {
			// nearest state with an untaken edge
			type qe struct {
				n    int
				path []int
			}
			seen := map[int]bool{cur: true}
			q := []qe{{cur, nil}}
			for len(q) > 0 && path == nil {
				x := q[0]
				q = q[1:]
				for i, e := range out[x.n] {
					if seen[e.Dst] {
						continue
					}
					seen[e.Dst] = true
					p := append(append([]int(nil), x.path...), i)
					if untaken(e.Dst) >= 0 {
						path = append(p, -1)
						break
					}
					q = append(q, qe{e.Dst, p})
				}
			}
			if path == nil {
				if cur != 0 { // what is left (if anything) can only be reached from the initial state
					start()
					cur = 0
					continue
				}
				break
			}
		}
		ok := true
		for _, i := range path {
			if i < 0 {
				i = untaken(cur)
			}
			if cur, ok = step(cur, i); !ok {
				break
			}
		}
		if !ok {
			st.Diverged = true
			break
		}
		if cut > 0 && s.Events >= cut {
			start()
			cur = 0
		}
	}
	st.Events += s.Events
	st.States = len(visited)
	for n := range out {
		if !visited[n] {
			st.Unreached += len(out[n])
		}
	}
	return st
}
