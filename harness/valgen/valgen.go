// Package valgen describes tagged values as plain shapes (Node), builds the real
// golib value of a shape through the library's public constructors, and projects
// shapes and real values to the JSON representation of spec/Value.tla
// ({"t": code, "v": payload}; integers as 8-byte two's complement tuples, floats
// as IEEE bit patterns, text as UTF-8 bytes, maps as [key, value] pairs in
// insertion order).  The projection of a shape uses the standard library only;
// the projection of a real value reads exported fields and public getters.
// Shared by the C02 and C20 drivers.  It only constructs and records.
package valgen

import (
	"fmt"
	"math"
	"math/rand"

	"github.com/whatap/golib/lang/value"
	"github.com/whatap/golib/util/hash"

	"verifharness/core"
)

// type codes of the value format (written here from the format, not imported)
const (
	TNull          = 0
	TBool          = 10
	TDecimal       = 20
	TInt           = 21
	TLong          = 22
	TFloat         = 30
	TDouble        = 40
	TDoubleSummary = 45
	TLongSummary   = 46
	TText          = 50
	TTextHash      = 51
	TBlob          = 60
	TIP4           = 61
	TList          = 70
	TIntArray      = 71
	TFloatArray    = 72
	TTextArray     = 73
	TLongArray     = 74
	TMap           = 80
	TIntMap        = 81
)

var AllTypes = []byte{TNull, TBool, TDecimal, TInt, TLong, TFloat, TDouble, TDoubleSummary, TLongSummary, TText, TTextHash,
	TBlob, TIP4, TList, TIntArray, TFloatArray, TTextArray, TLongArray, TMap, TIntMap}

// Node is the shape of one value.
type Node struct {
	T     byte
	B     bool     // bool
	I     int64    // decimal, int, long, text hash
	F     uint64   // float (low 32 bits) / double bit pattern
	Sum   uint64   // summaries: bit pattern of the double / the int64
	Count int32    //
	Min   uint64   //
	Max   uint64   //
	S     []byte   // text, blob, ip4
	Nil   bool     // build a slice payload (blob, arrays, list) from a nil slice instead of an empty one
	Ints  []int64  // int array, long array
	Fs    []uint32 // float array
	Texts [][]byte // text array
	Items []*Node  // list items; map / int map values
	Keys  [][]byte // map keys (insertion order)
	IKeys []int32  // int map keys (insertion order)
}

func Null() *Node                 { return &Node{T: TNull} }
func Bool(b bool) *Node           { return &Node{T: TBool, B: b} }
func Decimal(v int64) *Node       { return &Node{T: TDecimal, I: v} }
func Int(v int32) *Node           { return &Node{T: TInt, I: int64(v)} }
func Long(v int64) *Node          { return &Node{T: TLong, I: v} }
func Float(bits uint32) *Node     { return &Node{T: TFloat, F: uint64(bits)} }
func Double(bits uint64) *Node    { return &Node{T: TDouble, F: bits} }
func Text(b []byte) *Node         { return &Node{T: TText, S: b} }
func TextHash(v int32) *Node      { return &Node{T: TTextHash, I: int64(v)} }
func Blob(b []byte) *Node         { return &Node{T: TBlob, S: b} }
func IP4(a, b, c, d byte) *Node   { return &Node{T: TIP4, S: []byte{a, b, c, d}} }
func List(items ...*Node) *Node   { return &Node{T: TList, Items: items} }
func IntArray(v ...int64) *Node   { return &Node{T: TIntArray, Ints: v} }
func LongArray(v ...int64) *Node  { return &Node{T: TLongArray, Ints: v} }
func FloatArray(v ...uint32) *Node { return &Node{T: TFloatArray, Fs: v} }
func TextArray(v ...[]byte) *Node { return &Node{T: TTextArray, Texts: v} }
func DoubleSummary(sum uint64, count int32, min, max uint64) *Node {
	return &Node{T: TDoubleSummary, Sum: sum, Count: count, Min: min, Max: max}
}
func LongSummary(sum int64, count int32, min, max int64) *Node {
	return &Node{T: TLongSummary, Sum: uint64(sum), Count: count, Min: uint64(min), Max: uint64(max)}
}
func Map() *Node    { return &Node{T: TMap} }
func IntMap() *Node { return &Node{T: TIntMap} }
func (n *Node) Put(k []byte, v *Node) *Node {
	n.Keys = append(n.Keys, k)
	n.Items = append(n.Items, v)
	return n
}
func (n *Node) IPut(k int32, v *Node) *Node {
	n.IKeys = append(n.IKeys, k)
	n.Items = append(n.Items, v)
	return n
}

// Build constructs the real golib value of shape n through the public constructors.
func Build(n *Node) value.Value {
	switch n.T {
	case TNull:
		return value.NewNullValue()
	case TBool:
		return value.NewBoolValue(n.B)
	case TDecimal:
		return value.NewDecimalValue(n.I)
	case TInt:
		return value.NewIntValue(int32(n.I))
	case TLong:
		return value.NewLongValue(n.I)
	case TFloat:
		return value.NewFloatValue(math.Float32frombits(uint32(n.F)))
	case TDouble:
		return value.NewDoubleValue(math.Float64frombits(n.F))
	case TDoubleSummary:
		s := value.NewDoubleSummary()
		s.Sum, s.Count, s.Min, s.Max = math.Float64frombits(n.Sum), n.Count, math.Float64frombits(n.Min), math.Float64frombits(n.Max)
		return s
	case TLongSummary:
		s := value.NewLongSummary()
		s.Sum, s.Count, s.Min, s.Max = int64(n.Sum), n.Count, int64(n.Min), int64(n.Max)
		return s
	case TText:
		return value.NewTextValue(string(n.S))
	case TTextHash:
		return value.NewTextHashValue(int32(n.I))
	case TBlob:
		if n.Nil && len(n.S) == 0 {
			return value.NewBlobValue(nil)
		}
		return value.NewBlobValue(append([]byte{}, n.S...))
	case TIP4:
		return value.NewIP4Value(append([]byte{}, n.S...))
	case TList:
		var l *value.ListValue
		if n.Nil {
			l = value.NewListValue(nil)
		} else {
			l = value.NewListValue([]interface{}{})
		}
		for _, it := range n.Items {
			l.Add(Build(it))
		}
		return l
	case TIntArray:
		if n.Nil && len(n.Ints) == 0 {
			return value.NewIntArray(nil)
		}
		a := make([]int32, len(n.Ints))
		for i, v := range n.Ints {
			a[i] = int32(v)
		}
		return value.NewIntArray(a)
	case TLongArray:
		if n.Nil && len(n.Ints) == 0 {
			return value.NewLongArray(nil)
		}
		return value.NewLongArray(append([]int64{}, n.Ints...))
	case TFloatArray:
		if n.Nil && len(n.Fs) == 0 {
			return value.NewFloatArray(nil)
		}
		a := make([]float32, len(n.Fs))
		for i, v := range n.Fs {
			a[i] = math.Float32frombits(v)
		}
		return value.NewFloatArray(a)
	case TTextArray:
		if n.Nil && len(n.Texts) == 0 {
			return value.NewTextArray(nil)
		}
		a := make([]string, len(n.Texts))
		for i, v := range n.Texts {
			a[i] = string(v)
		}
		return value.NewTextArray(a)
	case TMap:
		m := value.NewMapValue()
		for i, k := range n.Keys {
			m.Put(string(k), Build(n.Items[i]))
		}
		return m
	case TIntMap:
		m := value.NewIntMapValue()
		for i, k := range n.IKeys {
			m.Put(k, Build(n.Items[i]))
		}
		return m
	}
	panic(fmt.Sprint("valgen: unknown type code ", n.T))
}

type obj = map[string]interface{}

func tv(t byte, v interface{}) obj { return obj{"t": int(t), "v": v} }

func w8s(vs []int64) []core.Bytes {
	out := make([]core.Bytes, len(vs))
	for i, v := range vs {
		out[i] = core.W8(v)
	}
	return out
}

func summary(sum uint64, count int32, min, max uint64) obj {
	return obj{"sum": core.U8(sum), "count": core.W8(int64(count)), "min": core.U8(min), "max": core.U8(max)}
}

// Proj is the JSON form of the shape n (what the spec is told was written).
func Proj(n *Node) interface{} {
	switch n.T {
	case TNull:
		return tv(n.T, []int{})
	case TBool:
		return tv(n.T, n.B)
	case TDecimal, TInt, TLong, TTextHash:
		return tv(n.T, core.W8(n.I))
	case TFloat:
		return tv(n.T, core.W4(uint32(n.F)))
	case TDouble:
		return tv(n.T, core.U8(n.F))
	case TDoubleSummary, TLongSummary:
		return tv(n.T, summary(n.Sum, n.Count, n.Min, n.Max))
	case TText, TBlob, TIP4:
		return tv(n.T, core.Cp(n.S))
	case TList:
		items := make([]interface{}, len(n.Items))
		for i, it := range n.Items {
			items[i] = Proj(it)
		}
		return tv(n.T, items)
	case TIntArray, TLongArray:
		return tv(n.T, w8s(n.Ints))
	case TFloatArray:
		out := make([]core.Bytes, len(n.Fs))
		for i, f := range n.Fs {
			out[i] = core.W4(f)
		}
		return tv(n.T, out)
	case TTextArray:
		out := make([]core.Bytes, len(n.Texts))
		for i, s := range n.Texts {
			out[i] = core.Cp(s)
		}
		return tv(n.T, out)
	case TMap:
		pairs := make([]interface{}, len(n.Keys))
		for i, k := range n.Keys {
			pairs[i] = []interface{}{core.Cp(k), Proj(n.Items[i])}
		}
		return tv(n.T, pairs)
	case TIntMap:
		pairs := make([]interface{}, len(n.IKeys))
		for i, k := range n.IKeys {
			pairs[i] = []interface{}{core.W8(int64(k)), Proj(n.Items[i])}
		}
		return tv(n.T, pairs)
	}
	panic("valgen: Proj")
}

// ProjReal is the JSON form of a real golib value: the type code it reports, its
// exported fields, and for containers the entries in the order the public
// enumeration yields them.  The Go type must be the one that belongs to the code.
func ProjReal(v value.Value) interface{} {
	if v == nil {
		return obj{"t": -1, "v": "nil"}
	}
	t := v.GetValueType()
	bad := func() interface{} { return obj{"t": -2, "v": fmt.Sprintf("type code %d reported by %T", t, v)} }
	switch x := v.(type) {
	case *value.NullValue:
		if t != TNull {
			return bad()
		}
		return tv(t, []int{})
	case *value.BoolValue:
		if t != TBool {
			return bad()
		}
		return tv(t, x.Val)
	case *value.DecimalValue:
		if t != TDecimal {
			return bad()
		}
		return tv(t, core.W8(x.Val))
	case *value.IntValue:
		if t != TInt {
			return bad()
		}
		return tv(t, core.W8(int64(x.Val)))
	case *value.LongValue:
		if t != TLong {
			return bad()
		}
		return tv(t, core.W8(x.Val))
	case *value.TextHashValue:
		if t != TTextHash {
			return bad()
		}
		return tv(t, core.W8(int64(x.Val)))
	case *value.FloatValue:
		if t != TFloat {
			return bad()
		}
		return tv(t, core.F32(x.Val))
	case *value.DoubleValue:
		if t != TDouble {
			return bad()
		}
		return tv(t, core.F64(x.Val))
	case *value.DoubleSummary:
		if t != TDoubleSummary {
			return bad()
		}
		return tv(t, summary(math.Float64bits(x.Sum), x.Count, math.Float64bits(x.Min), math.Float64bits(x.Max)))
	case *value.LongSummary:
		if t != TLongSummary {
			return bad()
		}
		return tv(t, summary(uint64(x.Sum), x.Count, uint64(x.Min), uint64(x.Max)))
	case *value.TextValue:
		if t != TText {
			return bad()
		}
		return tv(t, core.Str(x.Val))
	case *value.BlobValue:
		if t != TBlob {
			return bad()
		}
		return tv(t, core.Cp(x.Val))
	case *value.IP4Value:
		if t != TIP4 {
			return bad()
		}
		return tv(t, core.Cp(x.Val))
	case *value.ListValue:
		if t != TList {
			return bad()
		}
		items := make([]interface{}, x.Size())
		for i := range items {
			items[i] = ProjReal(x.Get(i))
		}
		return tv(t, items)
	case *value.IntArray:
		if t != TIntArray {
			return bad()
		}
		vs := make([]int64, len(x.Val))
		for i, e := range x.Val {
			vs[i] = int64(e)
		}
		return tv(t, w8s(vs))
	case *value.LongArray:
		if t != TLongArray {
			return bad()
		}
		return tv(t, w8s(x.Val))
	case *value.FloatArray:
		if t != TFloatArray {
			return bad()
		}
		out := make([]core.Bytes, len(x.Val))
		for i, f := range x.Val {
			out[i] = core.F32(f)
		}
		return tv(t, out)
	case *value.TextArray:
		if t != TTextArray {
			return bad()
		}
		out := make([]core.Bytes, len(x.Val))
		for i, s := range x.Val {
			out[i] = core.Str(s)
		}
		return tv(t, out)
	case *value.MapValue:
		if t != TMap {
			return bad()
		}
		pairs := []interface{}{}
		for en := x.Keys(); en.HasMoreElements(); {
			k := en.NextString()
			pairs = append(pairs, []interface{}{core.Str(k), ProjReal(x.Get(k))})
		}
		if len(pairs) != x.Size() {
			return obj{"t": -3, "v": fmt.Sprintf("map enumerates %d keys, Size() = %d", len(pairs), x.Size())}
		}
		return tv(t, pairs)
	case *value.IntMapValue:
		if t != TIntMap {
			return bad()
		}
		pairs := []interface{}{}
		for en := x.Keys(); en.HasMoreElements(); {
			k := en.NextInt()
			pairs = append(pairs, []interface{}{core.W8(int64(k)), ProjReal(x.Get(k))})
		}
		if len(pairs) != x.Size() {
			return obj{"t": -3, "v": fmt.Sprintf("int map enumerates %d keys, Size() = %d", len(pairs), x.Size())}
		}
		return tv(t, pairs)
	}
	return obj{"t": -4, "v": fmt.Sprintf("unexpected Go type %T", v)}
}

// Stats of a shape, for the distinct-case key.
func (n *Node) Depth() int {
	if n.T != TList && n.T != TMap && n.T != TIntMap {
		return 0
	}
	d := 0
	for _, it := range n.Items {
		if x := it.Depth(); x > d {
			d = x
		}
	}
	return d + 1
}

func (n *Node) Nodes() int {
	c := 1
	for _, it := range n.Items {
		c += it.Nodes()
	}
	return c
}

// Sig is a short structural signature (type codes, nesting, sizes).
func (n *Node) Sig(budget int) string {
	s := fmt.Sprint(n.T)
	switch n.T {
	case TText, TBlob:
		s += fmt.Sprintf("#%d", len(n.S))
	case TIntArray, TLongArray:
		s += fmt.Sprintf("#%d", len(n.Ints))
	case TFloatArray:
		s += fmt.Sprintf("#%d", len(n.Fs))
	case TTextArray:
		s += fmt.Sprintf("#%d", len(n.Texts))
	case TList, TMap, TIntMap:
		s += fmt.Sprintf("#%d(", len(n.Items))
		for i, it := range n.Items {
			if i >= budget {
				s += ".."
				break
			}
			s += it.Sig(budget/2) + ","
		}
		s += ")"
	}
	return s
}

// HasNaN reports whether a NaN occurs anywhere in the shape.
func (n *Node) HasNaN() bool {
	switch n.T {
	case TFloat:
		return isNaN32(uint32(n.F))
	case TDouble:
		return isNaN64(n.F)
	case TDoubleSummary:
		return isNaN64(n.Sum) || isNaN64(n.Min) || isNaN64(n.Max)
	case TFloatArray:
		for _, f := range n.Fs {
			if isNaN32(f) {
				return true
			}
		}
	}
	for _, it := range n.Items {
		if it.HasNaN() {
			return true
		}
	}
	return false
}

func isNaN32(b uint32) bool { return b&0x7f800000 == 0x7f800000 && b&0x007fffff != 0 }
func isNaN64(b uint64) bool { return b&0x7ff0000000000000 == 0x7ff0000000000000 && b&0x000fffffffffffff != 0 }

// ---------------------------------------------------------------------------
// The small-scope enumeration of spec/ValueEnum.tla, transliterated.  Index i
// (1-based) must denote the same value as ValueEnum!AllValues[i]; TLC checks
// that for every index (Trace_ValueEnum, event RTi).
// ---------------------------------------------------------------------------

func pay(n int) []byte {
	b := make([]byte, n)
	for i := range b {
		b[i] = byte(((i + 1) * 11) % 256)
	}
	return b
}

func fullScalars() []*Node {
	return []*Node{
		Null(), Bool(true), Bool(false),
		Decimal(0), Decimal(128), Decimal(-1), Decimal(math.MinInt64),
		Int(0), Int(math.MinInt32), Long(1), Long(math.MinInt64),
		Float(0), Float(0x7fc00001), Double(0), Double(0xfff8000000000001),
		DoubleSummary(0x3ff0000000000000, 2, 0, 0x4000000000000000),
		LongSummary(7, math.MinInt32, -1, 9),
		Text([]byte{}), Text([]byte("a")), Text(pay(254)), TextHash(0), TextHash(-1),
		Blob([]byte{}), Blob(pay(253)), Blob(pay(256)), IP4(0, 0, 0, 0), IP4(192, 168, 0, 255),
		IntArray(), IntArray(1, math.MinInt32), FloatArray(), FloatArray(0x3f800000),
		TextArray(), TextArray([]byte{}, []byte("ab")), LongArray(), LongArray(math.MinInt64, 3),
	}
}

func smallScalars(n int) []*Node {
	all := []*Node{Null(), Decimal(1), Text([]byte("a")), Bool(true), Blob([]byte{}), IntArray(2)}
	return all[:n]
}

var sKeys = [][]byte{[]byte("a"), {}}
var iKeys = []int32{5, -1}

func containers(s []*Node) []*Node {
	n := len(s)
	var out []*Node
	// lists: empty, singletons, pairs
	out = append(out, List())
	for i := 0; i < n; i++ {
		out = append(out, List(s[i]))
	}
	for k := 0; k < n*n; k++ {
		out = append(out, List(s[k/n], s[k%n]))
	}
	for kind := 0; kind < 2; kind++ {
		mk := func(keys []int, vals []*Node) *Node {
			var m *Node
			if kind == 0 {
				m = Map()
				for i, k := range keys {
					m.Put(sKeys[k], vals[i])
				}
			} else {
				m = IntMap()
				for i, k := range keys {
					m.IPut(iKeys[k], vals[i])
				}
			}
			return m
		}
		out = append(out, mk(nil, nil))
		for k := 0; k < 2*n; k++ {
			out = append(out, mk([]int{k / n}, []*Node{s[k%n]}))
		}
		for k := 0; k < 2*n*n; k++ {
			o := k / (n * n)
			r := k % (n * n)
			out = append(out, mk([]int{o, 1 - o}, []*Node{s[r/n], s[r%n]}))
		}
	}
	return out
}

// Small1 is ValueEnum!Small1.
func Small1(smallN int) []*Node {
	ss := smallScalars(smallN)
	return append(append([]*Node{}, ss...), containers(ss)...)
}

// Enumeration is ValueEnum!AllValues for the given SmallN (element i-1 = index i).
func Enumeration(smallN int) []*Node {
	fs := fullScalars()
	out := append([]*Node{}, fs...)
	out = append(out, containers(fs)...)
	out = append(out, containers(Small1(smallN))...)
	return out
}

// ---------------------------------------------------------------------------
// Random shapes.
// ---------------------------------------------------------------------------

// Opts steer the random generator.
type Opts struct {
	NoNaN    bool // never produce NaN bit patterns (C20 pools)
	MaxWidth int  // widest container
	MaxBlob  int  // longest blob / text
	Budget   *int // remaining node budget for this value (shared by the recursion)
	FullHash bool // maps may draw keys with identical full 32-bit hashes (fullhash.go); off: nothing changes
}

var i64b = []int64{0, 1, -1, 127, 128, -128, -129, 32767, 32768, -32768, -32769, 1 << 23, -(1 << 23) - 1, 1<<31 - 1, 1 << 31, -(1 << 31),
	-(1 << 31) - 1, 1 << 39, -(1 << 39) - 1, math.MaxInt64, math.MinInt64, 253, 254, 255, 256, 65535, 65536}

func RandInt64(r *rand.Rand) int64 {
	switch r.Intn(5) {
	case 0, 1:
		return i64b[r.Intn(len(i64b))] + int64(r.Intn(3)-1)
	case 2:
		return int64(r.Intn(7) - 3)
	case 3:
		return -int64(r.Uint64() >> uint(r.Intn(64)))
	default:
		return int64(r.Uint64() >> uint(r.Intn(64)))
	}
}

func RandF32(r *rand.Rand, noNaN bool) uint32 {
	for {
		var b uint32
		switch r.Intn(8) {
		case 0:
			b = 0x7fc00000 | uint32(r.Intn(1<<22))
		case 1:
			b = 0x7f800001 + uint32(r.Intn(1<<22))
		case 2, 3:
			b = []uint32{0, 0x80000000, 1, 0x807fffff, 0x7f800000, 0xff800000, 0x7f7fffff, 0x3f800000, 0xbf800000}[r.Intn(9)]
		case 4:
			b = math.Float32bits(float32(r.Intn(9) - 4))
		default:
			b = r.Uint32()
		}
		if !(noNaN && isNaN32(b)) {
			return b
		}
	}
}

func RandF64(r *rand.Rand, noNaN bool) uint64 {
	for {
		var b uint64
		switch r.Intn(8) {
		case 0:
			b = 0x7ff8000000000000 | (r.Uint64() >> 13)
		case 1:
			b = 0x7ff0000000000001 + (r.Uint64() >> 13)
		case 2, 3:
			b = []uint64{0, 1 << 63, 1, 0x7ff0000000000000, 0xfff0000000000000, 0x7fefffffffffffff, 0x3ff0000000000000, 0xbff0000000000000}[r.Intn(8)]
		case 4:
			b = math.Float64bits(float64(r.Intn(9) - 4))
		default:
			b = r.Uint64()
		}
		if !(noNaN && isNaN64(b)) {
			return b
		}
	}
}

var blobLens = []int{0, 1, 2, 252, 253, 254, 255, 256, 257}
var bigLens = []int{65534, 65535, 65536, 65537}

func randLen(r *rand.Rand, max int) int {
	n := 0
	switch r.Intn(8) {
	case 0, 1:
		n = blobLens[r.Intn(len(blobLens))]
	case 2:
		if r.Intn(6) == 0 {
			n = bigLens[r.Intn(len(bigLens))]
		} else {
			n = r.Intn(300)
		}
	default:
		n = r.Intn(24)
	}
	if n > max {
		n = max
	}
	return n
}

func RandBytes(r *rand.Rand, n int) []byte {
	b := make([]byte, n)
	if n > 2048 {
		for i := range b {
			b[i] = byte(i*7 + n)
		}
		return b
	}
	r.Read(b)
	return b
}

func RandText(r *rand.Rand, n int) []byte {
	const alpha = "abcXYZ019 _-=/\t한é"
	rs := []rune(alpha)
	out := make([]byte, 0, n+4)
	for len(out) < n {
		out = append(out, string(rs[r.Intn(len(rs))])...)
	}
	return out[:n] // may cut a rune: arbitrary bytes are legal text on the wire
}

// colliding string keys: golib's own hash is used only to CHOOSE inputs that
// land in one bucket of the 101-slot table a fresh map starts with
var collide [][]string

func init() {
	buckets := map[uint][]string{}
	for i := 0; i < 4000; i++ {
		k := fmt.Sprintf("k%d", i)
		b := uint(hash.HashStr(k)) % 101
		buckets[b] = append(buckets[b], k)
	}
	for b := uint(0); b < 101; b++ {
		if len(buckets[b]) >= 8 {
			collide = append(collide, buckets[b])
		}
	}
}

func randKeys(r *rand.Rand, n int) [][]byte {
	seen := map[string]bool{}
	var out [][]byte
	mode := r.Intn(4)
	var bucket []string
	if len(collide) > 0 {
		bucket = collide[r.Intn(len(collide))]
	}
	for tries := 0; len(out) < n && tries < 20*n+20; tries++ {
		var k []byte
		switch {
		case mode == 0 && bucket != nil && len(out) < len(bucket):
			k = []byte(bucket[len(out)])
		case mode == 1:
			k = []byte(fmt.Sprintf("key%03d", len(out)))
		default:
			switch r.Intn(10) {
			case 0:
				k = []byte{}
			case 1:
				k = RandText(r, randLen(r, 300))
			default:
				k = RandText(r, 1+r.Intn(10))
			}
		}
		if seen[string(k)] {
			continue
		}
		seen[string(k)] = true
		out = append(out, k)
	}
	return out
}

// randKeysO is randKeys, except that with o.FullHash one map in three takes keys
// whose full 32-bit hashes are identical (the random stream of callers that leave the
// option off is untouched).
func randKeysO(r *rand.Rand, n int, o *Opts) [][]byte {
	if o != nil && o.FullHash && n >= 2 && r.Intn(3) == 0 {
		if ks := fullHashKeys(r, n); ks != nil {
			return ks
		}
	}
	return randKeys(r, n)
}

func randIKeys(r *rand.Rand, n int) []int32 {
	seen := map[int32]bool{}
	var out []int32
	mode := r.Intn(4)
	base := int32(r.Intn(101))
	for tries := 0; len(out) < n && tries < 20*n+20; tries++ {
		var k int32
		switch mode {
		case 0: // one bucket of the initial 101-slot table: k, k+101, k+202, ...
			k = base + int32(101*len(out))
		case 1: // negative keys and their masked twins
			k = -int32(len(out)) - 1
			if r.Intn(2) == 0 {
				k = int32(uint32(k) & 0x7fffffff)
			}
		default:
			k = int32(RandInt64(r))
		}
		if seen[k] {
			continue
		}
		seen[k] = true
		out = append(out, k)
	}
	return out
}

func width(r *rand.Rand, o *Opts) int {
	w := 0
	switch r.Intn(10) {
	case 0:
		w = 0
	case 1:
		w = 1
	case 2:
		w = o.MaxWidth/2 + r.Intn(o.MaxWidth/2+1)
	default:
		w = r.Intn(6)
	}
	if w > *o.Budget {
		w = *o.Budget
	}
	if w < 0 {
		w = 0
	}
	return w
}

// Rand draws a random shape of container depth <= depth.
func Rand(r *rand.Rand, depth int, o *Opts) *Node {
	*o.Budget--
	var t byte
	if depth > 0 && *o.Budget > 0 && r.Intn(3) != 0 {
		t = []byte{TList, TMap, TIntMap}[r.Intn(3)]
	} else {
		t = AllTypes[r.Intn(len(AllTypes))]
	}
	return RandOf(r, t, depth, o)
}

// RandOf draws a random shape of type code t.
func RandOf(r *rand.Rand, t byte, depth int, o *Opts) *Node {
	switch t {
	case TNull:
		return Null()
	case TBool:
		return Bool(r.Intn(2) == 1)
	case TDecimal:
		return Decimal(RandInt64(r))
	case TInt:
		return Int(int32(RandInt64(r)))
	case TLong:
		return Long(RandInt64(r))
	case TFloat:
		return Float(RandF32(r, o.NoNaN))
	case TDouble:
		return Double(RandF64(r, o.NoNaN))
	case TDoubleSummary:
		return DoubleSummary(RandF64(r, o.NoNaN), int32(RandInt64(r)), RandF64(r, o.NoNaN), RandF64(r, o.NoNaN))
	case TLongSummary:
		return LongSummary(RandInt64(r), int32(RandInt64(r)), RandInt64(r), RandInt64(r))
	case TText:
		return Text(RandText(r, randLen(r, o.MaxBlob)))
	case TTextHash:
		return TextHash(int32(RandInt64(r)))
	case TBlob:
		n := &Node{T: TBlob, S: RandBytes(r, randLen(r, o.MaxBlob))}
		n.Nil = r.Intn(2) == 0
		return n
	case TIP4:
		return IP4(byte(r.Intn(256)), byte(r.Intn(256)), byte(r.Intn(256)), byte(r.Intn(256)))
	case TIntArray, TLongArray:
		n := &Node{T: t, Nil: r.Intn(2) == 0}
		for i, k := 0, arrLen(r); i < k; i++ {
			v := RandInt64(r)
			if t == TIntArray {
				v = int64(int32(v))
			}
			n.Ints = append(n.Ints, v)
		}
		return n
	case TFloatArray:
		n := &Node{T: t, Nil: r.Intn(2) == 0}
		for i, k := 0, arrLen(r); i < k; i++ {
			n.Fs = append(n.Fs, RandF32(r, o.NoNaN))
		}
		return n
	case TTextArray:
		n := &Node{T: t, Nil: r.Intn(2) == 0}
		for i, k := 0, arrLen(r); i < k; i++ {
			n.Texts = append(n.Texts, RandText(r, randLen(r, 300)))
		}
		return n
	case TList:
		n := &Node{T: TList, Nil: r.Intn(2) == 0}
		if depth > 0 {
			for i, k := 0, width(r, o); i < k; i++ {
				n.Items = append(n.Items, Rand(r, depth-1, o))
			}
		}
		return n
	case TMap:
		n := Map()
		if depth > 0 {
			for _, k := range randKeysO(r, width(r, o), o) {
				n.Put(k, Rand(r, depth-1, o))
			}
		}
		return n
	case TIntMap:
		n := IntMap()
		if depth > 0 {
			for _, k := range randIKeys(r, width(r, o)) {
				n.IPut(k, Rand(r, depth-1, o))
			}
		}
		return n
	}
	panic("valgen: RandOf")
}

func arrLen(r *rand.Rand) int {
	switch r.Intn(12) {
	case 0:
		return 0
	case 1:
		return []int{255, 256, 1000}[r.Intn(3)]
	default:
		return r.Intn(6)
	}
}

// Chain nests inner under depth levels of singleton containers of alternating kinds.
func Chain(r *rand.Rand, depth int, inner *Node) *Node {
	n := inner
	for d := 0; d < depth; d++ {
		switch r.Intn(3) {
		case 0:
			n = List(n)
		case 1:
			n = Map().Put([]byte(fmt.Sprintf("d%d", d)), n)
		default:
			n = IntMap().IPut(int32(d)-3, n)
		}
	}
	return n
}
