package valgen

// Keys with IDENTICAL full 32-bit hashes (C02: "keys that collide in the backing
// hash table").  A string-keyed table keeps the 32-bit hash of every key beside the
// key; two keys of one bucket are told apart by the key itself.  Keys that are equal
// modulo the table size (`collide`, above) exercise the chains; keys whose whole
// 32-bit hash is equal stay in one chain through every growth of the table and are
// the only inputs on which "same hash" and "same key" differ.
//
// Two sources, both only CHOOSE inputs (nothing here judges):
//   - birthday search over short printable strings with golib's own string hash
//     (whatever function it is: 2^20 strings give about a hundred pairs of a 32-bit hash);
//   - suffix forgery for CRC-32 (the hash the table uses today): for any prefix and any
//     target there are 4 bytes that make the CRC of prefix+suffix equal the target, which
//     gives groups of ANY size, with natural first members ("user", "", "k12").  A forged
//     group is kept only if golib's hash really gives all members one hash.
// Opt-in: existing callers of Rand/RandOf see no change unless Opts.FullHash is set.

import (
	"fmt"
	"hash/crc32"
	"math/rand"
	"sort"
	"sync"

	"github.com/whatap/golib/util/hash"
)

var (
	fullOnce   sync.Once
	fullGroups [][]string
)

// forge returns the 4 bytes s for which CRC-32(prefix + s) = target.
func forge(prefix []byte, target uint32) []byte {
	tab := crc32.IEEETable
	var rev [256]byte
	for i := 0; i < 256; i++ {
		rev[tab[i]>>24] = byte(i)
	}
	reg := ^crc32.ChecksumIEEE(prefix)
	w := ^target
	var idx [4]byte
	for i := 3; i >= 0; i-- {
		idx[i] = rev[w>>24]
		w = (w ^ tab[idx[i]]) << 8
	}
	out := make([]byte, 4)
	for i := 0; i < 4; i++ {
		out[i] = byte(reg) ^ idx[i]
		reg = reg>>8 ^ tab[idx[i]]
	}
	return out
}

func sameHash(g []string) bool {
	seen := map[string]bool{}
	for _, k := range g {
		if seen[k] || hash.HashStr(k) != hash.HashStr(g[0]) {
			return false
		}
		seen[k] = true
	}
	return len(g) >= 2
}

func buildFullGroups() {
	// (1) forged groups: first member natural, the others prefix + 4 forged bytes
	firsts := []string{"user", "", "k12", "a", "host.name", "d0", "한", "key000", "b", "t50"}
	prefixes := []string{"", "x", "tag", "key00", "a.b.c.d.e", "é"}
	for gi, f := range firsts {
		size := 2 + gi%4 // 2..5 members
		g := []string{f}
		t := crc32.ChecksumIEEE([]byte(f))
		for j := 0; len(g) < size; j++ {
			p := []byte(fmt.Sprintf("%s%d", prefixes[(gi+j)%len(prefixes)], j))
			if (gi+j)%3 == 0 {
				p = []byte(prefixes[(gi+j)%len(prefixes)])
			}
			k := string(append(p, forge(p, t)...))
			dup := false
			for _, x := range g {
				dup = dup || x == k
			}
			if !dup {
				g = append(g, k)
			}
		}
		if sameHash(g) {
			fullGroups = append(fullGroups, g)
		}
	}
	// (2) birthday search over printable keys with golib's hash
	const n = 1 << 20
	hs := make([]uint64, n)
	for i := 0; i < n; i++ {
		hs[i] = uint64(uint32(hash.HashStr(fmt.Sprintf("tag%d", i))))<<32 | uint64(i)
	}
	sort.Slice(hs, func(a, b int) bool { return hs[a] < hs[b] })
	found := 0
	for i := 0; i+1 < n && found < 24; i++ {
		if hs[i]>>32 == hs[i+1]>>32 {
			g := []string{fmt.Sprintf("tag%d", uint32(hs[i])), fmt.Sprintf("tag%d", uint32(hs[i+1]))}
			if sameHash(g) {
				fullGroups = append(fullGroups, g)
				found++
			}
		}
	}
}

// FullHashGroups returns groups (2..5 members) of distinct keys whose full 32-bit
// hashes in golib's string-keyed tables are identical.  Computed once, on first use.
func FullHashGroups() [][]string {
	fullOnce.Do(buildFullGroups)
	return fullGroups
}

// fullHashKeys draws n distinct keys: one or two whole full-hash groups, their members
// interleaved with keys of one bucket of the initial table and with ordinary keys.
func fullHashKeys(r *rand.Rand, n int) [][]byte {
	gs := FullHashGroups()
	if len(gs) == 0 || n < 2 {
		return nil
	}
	var pool []string
	for k := 1 + r.Intn(2); k > 0; k-- {
		pool = append(pool, gs[r.Intn(len(gs))]...)
	}
	var bucket []string
	if len(collide) > 0 {
		bucket = collide[r.Intn(len(collide))]
	}
	seen := map[string]bool{}
	var out [][]byte
	for tries := 0; len(out) < n && tries < 20*n+20; tries++ {
		var k string
		switch {
		case len(pool) > 0 && (r.Intn(3) > 0 || len(out)+len(pool) >= n):
			k, pool = pool[0], pool[1:]
		case bucket != nil && r.Intn(2) == 0:
			k = bucket[r.Intn(len(bucket))]
		default:
			k = string(RandText(r, 1+r.Intn(6)))
		}
		if seen[k] {
			continue
		}
		seen[k] = true
		out = append(out, []byte(k))
	}
	return out
}
