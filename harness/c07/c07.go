// Package c07 drives the real lang/pack/udp code (writers, readers, the
// CreatePack/ClosePack pool, Process of the SQL / DB-connection packs) and
// records what it did for Trace_UdpPack.tla to judge.  The harness only
// records: projections use the standard library (reflect, encoding/binary via
// core), never golib helpers.
package c07

import (
	"bytes"
	"fmt"
	"math"
	"math/rand"
	"reflect"
	"runtime"
	"runtime/debug"
	"sort"
	"strings"
	"unicode/utf8"

	gio "github.com/whatap/golib/io"
	"github.com/whatap/golib/lang/pack/udp"

	"verifharness/core"
)

func init() { core.Register("c07", Run) }

// ---------------------------------------------------------------- pack types

type ptype struct {
	name    string
	code    uint8
	factory bool // the UDP factory (CreatePack) can create it
}

var ptypes = []ptype{
	{"TxStart", udp.TX_START, true},
	{"TxStartEnd", udp.TX_START_END, true},
	{"TxEnd", udp.TX_END, true},
	{"TxSql", udp.TX_SQL, true},
	{"TxSqlParam", udp.TX_SQL_PARAM, true},
	{"TxHttpc", udp.TX_HTTPC, true},
	{"TxError", udp.TX_ERROR, true},
	{"TxMsg", udp.TX_MSG, true},
	{"TxSecureMsg", udp.TX_SECURE_MSG, true},
	{"TxMethod", udp.TX_METHOD, true},
	{"TxDbc", udp.TX_DB_CONN, true},
	{"Relay", udp.RELAY_PACK, true},
	{"ActiveStack1", udp.ACTIVE_STACK_1, true},
	{"ActiveStack", udp.ACTIVE_STACK, true},
	{"TxParam", udp.TX_PARAM, true},
	{"ActiveStats", udp.ACTIVE_STATS, true},
	{"DBConPool", udp.DBCONN_POOL, true},
	{"Config", udp.CONFIG_INFO, true},
	{"TxResultSet", udp.TX_RESULT_SET, false}, // a UDP tracer pack the factory does not know
}

// documented caps of the writers: golib's own exported constants
var capsOf = map[string][][2]interface{}{
	"TxStart": {
		{"Host", udp.HTTP_HOST_MAX_SIZE}, {"Uri", udp.HTTP_URI_MAX_SIZE}, {"Ipaddr", udp.HTTP_IP_MAX_SIZE},
		{"UAgent", udp.HTTP_UA_MAX_SIZE}, {"Ref", udp.HTTP_REF_MAX_SIZE}, {"WClientId", udp.HTTP_URI_MAX_SIZE},
		{"HttpMethod", udp.HTTP_METHOD_MAX_SIZE},
	},
	"TxMsg": {{"Hash", udp.HTTP_URI_MAX_SIZE}, {"Desc", udp.PACKET_MESSAGE_MAX_SIZE}},
}

func capList(t string) []interface{} {
	out := []interface{}{}
	for _, c := range capsOf[t] {
		out = append(out, []interface{}{c[0], c[1]})
	}
	return out
}

func capFor(t, f string) int {
	for _, c := range capsOf[t] {
		if c[0].(string) == f {
			return c[1].(int)
		}
	}
	return 0
}

// objects this harness ever passed to ClosePack (kept alive so that an address
// is never reused): lets Acquire tell a pooled object from a fresh one
var releasedPtr = map[uintptr]bool{}
var keepAlive []interface{}

func ptrOf(p interface{}) uintptr { return reflect.ValueOf(p).Pointer() }

// drain empties the pool of one type (objects left by earlier histories).  An
// object the harness never released may sit on top of released ones (a pack a
// reader entry point put back on its own): stop only after several in a row.
func drain(code uint8) error {
	fresh := 0
	for i := 0; i < 100000; i++ {
		p := udp.CreatePack(code, udp.UDP_PACK_VERSION)
		if p == nil {
			return nil
		}
		if releasedPtr[ptrOf(p)] {
			fresh = 0
			continue
		}
		if fresh++; fresh >= 3 {
			return nil
		}
	}
	return fmt.Errorf("pool of type %d does not drain", code)
}

func newPack(pt ptype, ver int32) udp.UdpPack {
	if !pt.factory {
		return udp.NewUdpTxResultSetPackVer(ver)
	}
	drain(pt.code)
	return udp.CreatePack(pt.code, ver)
}

// ------------------------------------------------------------- field access

type fld struct {
	name string
	v    reflect.Value
	kind string // i64 i32 i16 str bool bytes i16s strs opaque
}

func kindOf(v reflect.Value) string {
	switch v.Kind() {
	case reflect.Int64, reflect.Int:
		return "i64"
	case reflect.Int32:
		return "i32"
	case reflect.Int16:
		return "i16"
	case reflect.String:
		return "str"
	case reflect.Bool:
		return "bool"
	case reflect.Slice:
		switch v.Type().Elem().Kind() {
		case reflect.Uint8:
			return "bytes"
		case reflect.Int16:
			return "i16s"
		case reflect.String:
			return "strs"
		}
	}
	return "opaque"
}

// fieldsOf flattens the pack: embedded header fields under their own names
// (prefixed "Abs." when the pack shadows them); the version is configuration,
// not a field.
func fieldsOf(p interface{}) []fld {
	sv := reflect.ValueOf(p).Elem()
	own := map[string]bool{}
	for i := 0; i < sv.NumField(); i++ {
		if !sv.Type().Field(i).Anonymous {
			own[sv.Type().Field(i).Name] = true
		}
	}
	var out []fld
	for i := 0; i < sv.NumField(); i++ {
		sf := sv.Type().Field(i)
		if sf.Anonymous && sf.Type.Kind() == reflect.Struct {
			ev := sv.Field(i)
			for j := 0; j < ev.NumField(); j++ {
				n := ev.Type().Field(j).Name
				if n == "Ver" {
					continue
				}
				if own[n] {
					n = "Abs." + n
				}
				out = append(out, fld{n, ev.Field(j), kindOf(ev.Field(j))})
			}
			continue
		}
		out = append(out, fld{sf.Name, sv.Field(i), kindOf(sv.Field(i))})
	}
	return out
}

func project(f fld) (interface{}, bool) {
	switch f.kind {
	case "i64", "i32", "i16":
		return core.W8(f.v.Int()), true
	case "str":
		return core.Str(f.v.String()), true
	case "bool":
		return f.v.Bool(), true
	case "bytes":
		return core.Cp(f.v.Bytes()), true
	case "i16s":
		o := make([]core.Bytes, f.v.Len())
		for i := range o {
			o[i] = core.W8(f.v.Index(i).Int())
		}
		return o, true
	case "strs":
		o := make([]core.Bytes, f.v.Len())
		for i := range o {
			o[i] = core.Str(f.v.Index(i).String())
		}
		return o, true
	}
	return nil, false
}

func snapshot(p interface{}) map[string]interface{} {
	m := map[string]interface{}{}
	for _, f := range fieldsOf(p) {
		if v, ok := project(f); ok {
			m[f.name] = v
		}
	}
	return m
}

// -------------------------------------------------------------- value source

var i64s = []int64{0, 1, -1, 9, 10, 65, 127, 128, 255, 256, 65535, 65536, math.MaxInt32, math.MinInt32,
	math.MaxInt32 + 1, math.MaxInt64, math.MinInt64, 1234567890123, -987654321}

func randI64(r *rand.Rand) int64 {
	switch r.Intn(4) {
	case 0:
		return i64s[r.Intn(len(i64s))]
	case 1:
		return int64(r.Intn(2000) - 1000)
	case 2:
		return int64(r.Uint64() >> uint(r.Intn(64)))
	default:
		return -int64(r.Uint64() >> uint(1+r.Intn(63)))
	}
}

const alpha = "abcXYZ019 _-=/;:.,%\t한é#"

func randText(r *rand.Rand, n int) string {
	rs := []rune(alpha)
	var sb strings.Builder
	for sb.Len() < n {
		sb.WriteRune(rs[r.Intn(len(rs))])
	}
	s := sb.String()
	if len(s) > n {
		s = s[:n] // may cut a rune: arbitrary bytes are legal on the wire
	}
	return s
}

// setRandom gives field f a random value; big selects a length near a cap or
// the 16-bit limit for text.
func setRandom(r *rand.Rand, t string, f fld, big bool) {
	switch f.kind {
	case "i64":
		f.v.SetInt(randI64(r))
	case "i32":
		f.v.SetInt(int64(int32(randI64(r))))
	case "i16":
		f.v.SetInt(int64(int16(randI64(r))))
	case "bool":
		f.v.SetBool(r.Intn(2) == 1)
	case "str":
		n := 0
		switch r.Intn(8) {
		case 0:
			n = 0
		case 1:
			n = 1
		default:
			n = r.Intn(14)
		}
		if big {
			c := capFor(t, f.name)
			if c > 0 && r.Intn(3) > 0 {
				n = c + r.Intn(5) - 2
			} else {
				n = []int{255, 256, 257, 2047, 2048, 2049, 32767, 32768, 32769, 65534, 65535}[r.Intn(11)]
			}
		}
		if n > 0 && r.Intn(6) == 0 && !big { // numeric looking text
			f.v.SetString(fmt.Sprint(randI64(r)))
		} else {
			f.v.SetString(randText(r, n))
		}
	case "bytes":
		n := r.Intn(20)
		if big {
			n = []int{255, 256, 4096, 65535, 70000}[r.Intn(5)]
		}
		b := make([]byte, n)
		r.Read(b)
		f.v.SetBytes(b)
	case "i16s":
		// the stats array has exactly five slots by protocol (or is absent)
		if r.Intn(5) == 0 {
			f.v.Set(reflect.Zero(f.v.Type()))
		} else {
			a := make([]int16, 5)
			for i := range a {
				a[i] = int16(randI64(r))
			}
			f.v.Set(reflect.ValueOf(a))
		}
	case "strs":
		a := make([]string, r.Intn(3))
		for i := range a {
			a[i] = randText(r, r.Intn(6))
		}
		f.v.Set(reflect.ValueOf(a))
	}
}

// setProbe gives field idx a generic value; alt selects the alternative value
func setProbe(f fld, idx int, alt bool) {
	switch f.kind {
	case "i64", "i32":
		if alt {
			f.v.SetInt(int64(777000 + idx))
		} else {
			f.v.SetInt(int64(1000 + idx))
		}
	case "i16":
		if alt {
			f.v.SetInt(int64(7000 + idx))
		} else {
			f.v.SetInt(int64(10 + idx))
		}
	case "bool":
		f.v.SetBool(alt)
	case "str":
		if alt {
			f.v.SetString(fmt.Sprintf("m%dx", idx))
		} else {
			f.v.SetString(fmt.Sprintf("b%d", idx))
		}
	case "bytes":
		if alt {
			f.v.SetBytes([]byte{9, 9, byte(idx)})
		} else {
			f.v.SetBytes([]byte{1, byte(idx)})
		}
	case "i16s":
		if alt {
			f.v.Set(reflect.ValueOf([]int16{6, 7, 8, 9, int16(10 + idx)}))
		} else {
			f.v.Set(reflect.ValueOf([]int16{1, 2, 3, 4, 5}))
		}
	case "strs":
		if alt {
			f.v.Set(reflect.ValueOf([]string{"z", "y"}))
		} else {
			f.v.Set(reflect.ValueOf([]string{"a"}))
		}
	}
}

func writeBytes(p udp.UdpPack) (b []byte, msg string) {
	msg = core.Guard(func() { b = udp.ToBytesPack(p) })
	return
}

// carriedSet derives, from the real writer, the fields the bytes of (type,
// ver) depend on: f is carried iff changing only f changes the bytes.
func carriedSet(pt ptype, ver int32) ([]string, string) {
	mk := func(mut int) ([]byte, string) {
		p := newPack(pt, ver)
		for i, f := range fieldsOf(p) {
			setProbe(f, i, i == mut)
		}
		return writeBytes(p)
	}
	base, msg := mk(-1)
	if msg != "" {
		return nil, msg
	}
	base = core.Cp(base) // the probe must not depend on what later encoder calls do to a returned slice
	carried := []string{}
	for i, f := range fieldsOf(newPack(pt, ver)) {
		if f.kind == "opaque" {
			continue
		}
		b, msg := mk(i)
		if msg != "" {
			return nil, msg
		}
		if !bytes.Equal(b, base) {
			carried = append(carried, f.name)
		}
	}
	return carried, ""
}

// ------------------------------------------------------------------- codec

var trailer = []byte{0xA5, 0x5A, 0xA5, 0x5A, 0xA5, 0x5A, 0xA5, 0x5A, 0xA5, 0x5A, 0xA5, 0x5A}

// roundTrip fills a pack, writes it with the real writer and reads it with a
// pack created at the same version; one W and one R event.
// lg: additionally give one text field a long periodic value of exactly lg.n
// bytes, recorded in compact form (the event then carries no bytes).
type longSpec struct{ idx, n int }

func roundTrip(c *core.Ctx, t *core.Trace, r *rand.Rand, pt ptype, ver int32, carried []string, bigOne bool, lg *longSpec) {
	w := newPack(pt, ver)
	fs := fieldsOf(w)
	bigIdx := -1
	if bigOne {
		var cand []int
		for i, f := range fs {
			if f.kind == "str" || f.kind == "bytes" {
				cand = append(cand, i)
			}
		}
		if len(cand) > 0 {
			bigIdx = cand[r.Intn(len(cand))]
		}
	}
	for i, f := range fs {
		setRandom(r, pt.name, f, i == bigIdx)
	}
	longf := map[string]bool{}
	longNames := []string{}
	if lg != nil {
		for i, f := range fs {
			if (lg.idx >= 0 && i != lg.idx) || (f.kind != "str" && f.kind != "bytes") {
				continue
			}
			longf[f.name] = true
			longNames = append(longNames, f.name)
			if f.kind == "str" {
				f.v.SetString(string(longBytes(r, lg.n)))
			} else {
				f.v.SetBytes(longBytes(r, lg.n))
			}
		}
	}
	wsnap := snapshotL(w, longf) // before Write: a writer may normalise its own fields
	b, msg := writeBytes(w)
	if msg != "" {
		t.Emit(core.Ev{"ev": "Panic", "in": "Write", "type": pt.name, "ver": ver, "msg": msg})
		return
	}
	wev := core.Ev{"ev": "W", "type": pt.name, "ver": ver, "w": wsnap, "carried": carried,
		"caps": capList(pt.name), "wlen": len(b)}
	if lg != nil {
		wev["longf"] = longNames
	} else {
		wev["bytes"] = core.Cp(b)
	}
	t.Emit(wev)

	rd := newPack(pt, ver)
	if rp, ok := rd.(*udp.UdpRelayPack); ok {
		rp.Len = int32(len(b)) // the relay length travels out of band (datagram header)
	}
	all := append(core.Cp(b), trailer...)
	in := gio.NewDataInputX(all)
	if msg := core.Guard(func() { rd.Read(in) }); msg != "" {
		t.Emit(core.Ev{"ev": "Panic", "in": "Read", "type": pt.name, "ver": ver, "msg": msg})
		return
	}
	ev := core.Ev{"ev": "R", "r": snapshotL(rd, longf), "consumed": len(all) - int(in.Available())}
	if msg := core.Guard(func() { rd.Process() }); msg == "" {
		ev["rp"] = snapshotL(rd, longf)
	} else {
		ev["process_panic"] = msg
		processPanics[pt.name]++
	}
	t.Emit(ev)
}

var processPanics = map[string]int{}

var gateVers = func() []int32 {
	v := []int32{-1, 0, 1, 20000, 20001, 30000, 30001, 50000, 50001, math.MaxInt32}
	add := func(a, b int32) {
		for x := a; x <= b; x++ {
			v = append(v, x)
		}
	}
	add(10100, 10111)
	add(20100, 20105)
	add(30100, 30104)
	add(40000, 40002)
	add(50099, 50102)
	sort.Slice(v, func(i, j int) bool { return v[i] < v[j] })
	return v
}()

func randVer(r *rand.Rand, fam int) int32 {
	switch fam {
	case 0: // PHP: everything up to 20000
		if r.Intn(3) == 0 {
			return int32(10090 + r.Intn(40))
		}
		return int32(1 + r.Intn(20000))
	case 1:
		return int32(20001 + r.Intn(10000))
	case 2:
		return int32(30001 + r.Intn(10000))
	case 3:
		return int32(40001 + r.Intn(10000))
	default:
		if r.Intn(2) == 0 {
			return int32(50001 + r.Intn(300))
		}
		return int32(50001 + r.Intn(1<<30))
	}
}

func codecHistory(c *core.Ctx, t *core.Trace, gen string, cas int, pt ptype, ver int32, fills int, r *rand.Rand) {
	t.Reset(gen, cas, core.Ev{"type": pt.name, "ver": ver})
	carried, msg := carriedSet(pt, ver)
	if msg != "" {
		t.Emit(core.Ev{"ev": "Panic", "in": "Write(probe)", "type": pt.name, "ver": ver, "msg": msg})
		return
	}
	for k := 0; k < fills; k++ {
		roundTrip(c, t, r, pt, ver, carried, r.Intn(25) == 0, nil)
	}
	t.Emit(core.Ev{"ev": "End", "n": fills})
	c.Count(fmt.Sprintf("codec:%s:%d", pt.name, ver), len(carried) > 0)
}

func runCodec(c *core.Ctx) {
	if c.WantGen("gate") {
		t := c.Trace("c07_codec_gate", "Trace_UdpPack")
		fills := c.Pick(2, 8)
		cas := 0
		for _, pt := range ptypes {
			for _, ver := range gateVers {
				if c.Want("gate", cas) {
					codecHistory(c, t, "gate", cas, pt, ver, fills, c.Rng("gate", cas))
					if cas%97 == 5 {
						c.Sample(map[string]interface{}{"gen": "gate", "case": cas, "type": pt.name, "ver": ver})
					}
				}
				cas++
			}
		}
	}
	if c.WantGen("rand") {
		per := c.Pick(5, 100) // random versions per family and type
		const chunk = 800    // histories per trace file (TLC loads a trace file whole)
		var t *core.Trace
		cas, inFile := 0, 0
		for _, pt := range ptypes {
			for fam := 0; fam < 5; fam++ {
				for i := 0; i < per; i++ {
					if c.Want("rand", cas) {
						if t == nil || inFile == chunk {
							t = c.Trace(fmt.Sprintf("c07_codec_rand_%d", cas/chunk), "Trace_UdpPack")
							inFile = 0
						}
						r := c.Rng("rand", cas)
						codecHistory(c, t, "rand", cas, pt, randVer(r, fam), c.Pick(2, 3), r)
						inFile++
					}
					cas++
				}
			}
		}
	}
}

// -------------------------------------------------------------------- pool

const sentinel = "SENTINEL~"

type filler struct {
	fill int
	pol  bool
	n    int
}

func (fl *filler) intPattern(bits int) int64 {
	fl.n++
	x := int64(fl.fill&0xff)<<8 | int64(fl.n&0xff)
	switch bits {
	case 8:
		return 0x5E
	case 16:
		return 0x5E00 | int64(fl.n&0xff)
	case 32:
		return 0x5E000000 | x
	default:
		return 0x5E5E000000000000 | x
	}
}

func (fl *filler) fillValue(v reflect.Value, path string, depth int) {
	if !v.CanSet() {
		return
	}
	switch v.Kind() {
	case reflect.String:
		v.SetString(fmt.Sprintf("%s%d~%s", sentinel, fl.fill, path))
	case reflect.Int8, reflect.Int16, reflect.Int32, reflect.Int64, reflect.Int:
		v.SetInt(fl.intPattern(v.Type().Bits()))
	case reflect.Uint8, reflect.Uint16, reflect.Uint32, reflect.Uint64, reflect.Uint:
		v.SetUint(uint64(fl.intPattern(v.Type().Bits())))
	case reflect.Float32, reflect.Float64:
		v.SetFloat(float64(0x5E5E00 + fl.fill))
	case reflect.Bool:
		v.SetBool(fl.pol)
	case reflect.Slice:
		if v.Type().Elem().Kind() == reflect.Uint8 {
			v.SetBytes([]byte(fmt.Sprintf("%s%d~%s", sentinel, fl.fill, path)))
			return
		}
		s := reflect.MakeSlice(v.Type(), 2, 2)
		for i := 0; i < 2; i++ {
			fl.fillValue(s.Index(i), fmt.Sprintf("%s[%d]", path, i), depth+1)
		}
		v.Set(s)
	case reflect.Map:
		if v.Type().Key().Kind() != reflect.String {
			return
		}
		if v.IsNil() {
			v.Set(reflect.MakeMap(v.Type()))
		}
		val := reflect.New(v.Type().Elem()).Elem()
		fl.fillValue(val, path+"{}", depth+1)
		v.SetMapIndex(reflect.ValueOf(fmt.Sprintf("%s%d~key~%s", sentinel, fl.fill, path)).Convert(v.Type().Key()), val)
	case reflect.Ptr:
		if depth > 3 || v.Type().Elem().Kind() != reflect.Struct {
			return
		}
		n := reflect.New(v.Type().Elem())
		fl.fillValue(n.Elem(), path, depth+1)
		v.Set(n)
	case reflect.Struct:
		for i := 0; i < v.NumField(); i++ {
			fl.fillValue(v.Field(i), path+"."+v.Type().Field(i).Name, depth+1)
		}
	}
}

func isSentinelInt(x int64, bits int) bool {
	switch bits {
	case 8:
		return false // too narrow to be distinctive
	case 16:
		return (x>>8)&0xff == 0x5E
	case 32:
		return (x>>24)&0xff == 0x5E
	default:
		return (uint64(x) >> 48) == 0x5E5E
	}
}

// hasSentinel: does the value (deeply) hold anything written by a Fill?
func hasSentinel(v reflect.Value, depth int) bool {
	if depth > 6 {
		return false
	}
	switch v.Kind() {
	case reflect.String:
		return strings.Contains(v.String(), sentinel)
	case reflect.Int8, reflect.Int16, reflect.Int32, reflect.Int64, reflect.Int:
		return isSentinelInt(v.Int(), v.Type().Bits())
	case reflect.Uint8, reflect.Uint16, reflect.Uint32, reflect.Uint64, reflect.Uint:
		return isSentinelInt(int64(v.Uint()), v.Type().Bits())
	case reflect.Float32, reflect.Float64:
		f := v.Float()
		return f >= 0x5E5E00 && f < 0x5E5E00+1e6
	case reflect.Slice:
		if v.Type().Elem().Kind() == reflect.Uint8 {
			return bytes.Contains(v.Bytes(), []byte(sentinel))
		}
		for i := 0; i < v.Len(); i++ {
			if hasSentinel(v.Index(i), depth+1) {
				return true
			}
		}
	case reflect.Array:
		for i := 0; i < v.Len(); i++ {
			if hasSentinel(v.Index(i), depth+1) {
				return true
			}
		}
	case reflect.Map:
		it := v.MapRange()
		for it.Next() {
			if hasSentinel(it.Key(), depth+1) || hasSentinel(it.Value(), depth+1) {
				return true
			}
		}
	case reflect.Ptr, reflect.Interface:
		if !v.IsNil() {
			return hasSentinel(v.Elem(), depth+1)
		}
	case reflect.Struct:
		for i := 0; i < v.NumField(); i++ {
			if hasSentinel(v.Field(i), depth+1) {
				return true
			}
		}
	}
	return false
}

// all top-level fields incl. opaque ones, as addressable values
func fillAll(p interface{}, fill int, pol bool) []string {
	fl := &filler{fill: fill, pol: pol}
	names := []string{}
	for _, f := range fieldsOf(p) {
		fl.fillValue(f.v, f.name, 0)
		names = append(names, f.name)
	}
	return names
}

func scanResidue(p interface{}) (res []string, bools map[string]bool) {
	res = []string{}
	bools = map[string]bool{}
	for _, f := range fieldsOf(p) {
		if f.v.Kind() == reflect.Bool {
			bools[f.name] = f.v.Bool()
			continue
		}
		if hasSentinel(f.v, 0) {
			res = append(res, f.name)
		}
	}
	return
}

type pop struct {
	op  byte // 'A' acquire slot, 'F' fill held i, 'R' release held i
	arg int
}

// enumerate every history of exactly n operations over two type slots with at
// most two objects held, in which some object is acquired after a release
func enumHistories(n int) [][]pop {
	var out [][]pop
	var rec func(cur []pop, held []bool, released bool, useful bool)
	rec = func(cur []pop, held []bool, released bool, useful bool) {
		if len(cur) == n {
			if useful {
				out = append(out, append([]pop(nil), cur...))
			}
			return
		}
		if len(held) < 2 {
			for s := 0; s < 2; s++ {
				rec(append(cur, pop{'A', s}), append(append([]bool(nil), held...), false), released, useful || released)
			}
		}
		for i := range held {
			if !held[i] {
				h := append([]bool(nil), held...)
				h[i] = true
				rec(append(cur, pop{'F', i}), h, released, useful)
			}
			h := append(append([]bool(nil), held[:i]...), held[i+1:]...)
			rec(append(cur, pop{'R', i}), h, true, useful)
		}
	}
	rec(nil, nil, false, false)
	return out
}

type acqObs struct {
	pooled bool
	bools  map[string]bool
}

// replay one history on the real pool.  Run twice: the first (silent) run
// fills booleans with false, the second with true; a boolean whose value at a
// re-acquire differs between the two runs depends on the previous use.
func poolReplay(t *core.Trace, ops []pop, slots [2]ptype, pol bool, prev []acqObs) ([]acqObs, int, error) {
	for _, s := range slots {
		if err := drain(s.code); err != nil {
			return nil, 0, err
		}
	}
	type held struct {
		p  udp.UdpPack
		id int
	}
	ids := map[uintptr]int{}
	var hs []held
	var obs []acqObs
	fill := 0
	pooledN := 0
	for _, o := range ops {
		switch o.op {
		case 'A':
			pt := slots[o.arg]
			var p udp.UdpPack
			if msg := core.Guard(func() { p = udp.CreatePack(pt.code, 50100+int32(len(obs))) }); msg != "" {
				if t != nil {
					t.Emit(core.Ev{"ev": "Panic", "in": "CreatePack", "msg": msg})
				}
				return obs, pooledN, nil
			}
			ptr := ptrOf(p)
			id, pooled := ids[ptr]
			if !pooled {
				if releasedPtr[ptr] {
					return nil, 0, fmt.Errorf("pool returned an object of an earlier history")
				}
				id = len(ids) + 1
				ids[ptr] = id
			} else {
				pooledN++
			}
			res, bools := scanResidue(p)
			ob := acqObs{pooled, bools}
			if prev != nil && len(obs) < len(prev) && prev[len(obs)].pooled == pooled && pooled {
				var names []string
				for n, b := range bools {
					if prev[len(obs)].bools[n] != b {
						names = append(names, n)
					}
				}
				sort.Strings(names)
				res = append(res, names...)
			}
			obs = append(obs, ob)
			if t != nil {
				t.Emit(core.Ev{"ev": "Acquire", "type": pt.name, "obj": id, "pooled": pooled, "residue": res})
			}
			hs = append(hs, held{p, id})
		case 'F':
			fill++
			names := fillAll(hs[o.arg].p, fill, pol)
			if t != nil {
				t.Emit(core.Ev{"ev": "Fill", "obj": hs[o.arg].id, "fields": names, "fill": fill})
			}
		case 'R':
			h := hs[o.arg]
			hs = append(hs[:o.arg:o.arg], hs[o.arg+1:]...)
			releasedPtr[ptrOf(h.p)] = true
			keepAlive = append(keepAlive, h.p)
			if msg := core.Guard(func() { udp.ClosePack(h.p) }); msg != "" {
				if t != nil {
					t.Emit(core.Ev{"ev": "Panic", "in": "ClosePack", "msg": msg})
				}
				return obs, pooledN, nil
			}
			if t != nil {
				t.Emit(core.Ev{"ev": "Release", "obj": h.id})
			}
		}
	}
	return obs, pooledN, nil
}

func poolHistory(c *core.Ctx, t *core.Trace, gen string, cas int, ops []pop, slots [2]ptype) (int, error) {
	t.Reset(gen, cas, core.Ev{"slots": []string{slots[0].name, slots[1].name}})
	prev, _, err := poolReplay(nil, ops, slots, false, nil)
	if err != nil {
		return 0, err
	}
	obs, pooledN, err := poolReplay(t, ops, slots, true, prev)
	if err != nil {
		return 0, err
	}
	t.Emit(core.Ev{"ev": "End", "n": len(obs)})
	key := gen + ":" + slots[0].name + ":" + slots[1].name + ":"
	for _, o := range ops {
		key += fmt.Sprintf("%c%d", o.op, o.arg)
	}
	c.Count(key, pooledN > 0)
	return pooledN, nil
}

func factoryTypes() []ptype {
	var f []ptype
	for _, p := range ptypes {
		if p.factory {
			f = append(f, p)
		}
	}
	return f
}

func runPool(c *core.Ctx) error {
	t := c.Trace("c07_pool", "Trace_UdpPack")
	// a pooled object must come back deterministically: one P, one thread, no
	// collection between Put and Get (sync.Pool may otherwise drop it; the
	// spec allows that, but a dropped object checks nothing)
	oldP := runtime.GOMAXPROCS(1)
	runtime.LockOSThread()
	oldGC := debug.SetGCPercent(-1)
	defer func() {
		debug.SetGCPercent(oldGC)
		runtime.UnlockOSThread()
		runtime.GOMAXPROCS(oldP)
	}()
	ft := factoryTypes()
	pooledTotal := 0
	// gen "each": the canonical acquire/fill/release/re-acquire history of every type
	if c.WantGen("each") {
		ops := []pop{{'A', 0}, {'F', 0}, {'R', 0}, {'A', 0}, {'F', 0}, {'R', 0}, {'A', 0}, {'A', 0}}
		for i, pt := range ft {
			if !c.Want("each", i) {
				continue
			}
			n, err := poolHistory(c, t, "each", i, ops, [2]ptype{pt, ft[(i+1)%len(ft)]})
			if err != nil {
				return err
			}
			pooledTotal += n
		}
	}
	// gen "hist": every useful history of the bounded alphabet (length 5; thorough 6), type pairs rotating;
	// gen "hist2": the next length (6; thorough 7), every 4th history in the quick tier
	for gi, gen := range []string{"hist", "hist2"} {
		if !c.WantGen(gen) {
			continue
		}
		hs := enumHistories(c.Pick(5, 6) + gi)
		stride := 1
		if gi == 1 {
			stride = c.Pick(4, 1)
		}
		for cas := 0; cas < len(hs); cas++ {
			if !c.Want(gen, cas) {
				continue
			}
			if c.OnlyGen == "" && (cas+int(c.Seed))%stride != 0 {
				continue
			}
			a := (cas + int(c.Seed)) % len(ft)
			b := (a + 1 + (cas/len(ft))%(len(ft)-1)) % len(ft)
			n, err := poolHistory(c, t, gen, cas, hs[cas], [2]ptype{ft[a], ft[b]})
			if err != nil {
				return err
			}
			pooledTotal += n
			if cas == 7 && gi == 0 {
				c.Sample(map[string]interface{}{"gen": gen, "case": cas, "ops": fmt.Sprint(hs[cas]), "types": []string{ft[a].name, ft[b].name}})
			}
		}
	}
	c.SetExtra("pool_reacquired_objects", pooledTotal)
	if err := runFail(c); err != nil {
		return err
	}
	runAlias(c)
	return nil
}

// ----------------------------------------------------------------- masking

type tok struct {
	K string   `json:"k"`
	V []string `json:"v"`
	S string   `json:"s"`
	// the undecorated, unique part of each value atom of a password token: none of it may be left either
	Cores []string `json:"-"`
}

func render(ts []tok) string {
	var sb strings.Builder
	for i, t := range ts {
		if t.K != "" {
			sb.WriteString(t.K)
			sb.WriteString("=")
		}
		sb.WriteString(strings.Join(t.V, ""))
		if i < len(ts)-1 {
			sb.WriteString(t.S)
		}
	}
	return sb.String()
}

// lex cuts a text into symbols: "=", " ", ";" and the maximal runs between them
func lex(s string) []string {
	out := []string{}
	start := 0
	for i := 0; i < len(s); i++ {
		ch := s[i]
		if ch == '=' || ch == ' ' || ch == ';' {
			if i > start {
				out = append(out, s[start:i])
			}
			out = append(out, string(ch))
			start = i + 1
		}
	}
	if len(s) > start {
		out = append(out, s[start:])
	}
	return out
}

var maskTypes = []ptype{ptypes[3], ptypes[4], ptypes[10]} // TxSql, TxSqlParam, TxDbc
var maskVers = []int32{50100, 10110, 50001, 10100, 50101, 0, 10105, 20000, 60000, 10104}

const capMarker = "CAPVALUE"

var capSurvived, capSeen int

// maskOne sends a connection string through write, read and Process of a real
// pack and records what is left.
func maskOne(t *core.Trace, pt ptype, ver int32, ts []tok) {
	text := render(ts)
	var secrets []core.Bytes
	for _, k := range ts {
		if k.K == "password" {
			for _, a := range k.V {
				if a != "=" {
					secrets = append(secrets, core.Str(a))
				}
			}
			for _, a := range k.Cores {
				secrets = append(secrets, core.Str(a))
			}
		}
	}
	if secrets == nil {
		secrets = []core.Bytes{}
	}
	p := newPack(pt, ver)
	for _, f := range fieldsOf(p) {
		switch f.name {
		case "Dbc":
			f.v.SetString(text)
		case "Sql":
			f.v.SetString("select 1")
		}
	}
	var q udp.UdpPack
	msg := core.Guard(func() {
		b := udp.ToBytesPack(p)
		drain(pt.code)
		q = udp.ToPack(pt.code, ver, b)
	})
	if msg != "" {
		t.Emit(core.Ev{"ev": "Panic", "in": "ToPack", "type": pt.name, "ver": ver, "text": text, "msg": msg})
		return
	}
	texts := []core.Bytes{}
	dbc := ""
	for _, f := range fieldsOf(q) {
		if f.kind == "str" {
			texts = append(texts, core.Str(f.v.String()))
			if f.name == "Dbc" {
				dbc = f.v.String()
			}
		}
	}
	if strings.Contains(text, capMarker) {
		capSeen++
		if strings.Contains(dbc, capMarker) {
			capSurvived++
		}
	}
	t.Emit(core.Ev{"ev": "Mask", "type": pt.name, "ver": ver, "toks": ts, "in": text, "out": lex(dbc),
		"secrets": secrets, "texts": texts})
}

// the TLC-enumerable universe (MC_UdpMask), with a distinct secret per position
func tokUniverse(pos int) []tok {
	var u []tok
	sa, sb := fmt.Sprintf("SECRETa%d", pos), fmt.Sprintf("SECRETb%d", pos)
	ua, ub := fmt.Sprintf("u%d", pos), fmt.Sprintf("w%d", pos)
	for _, s := range []string{" ", ";"} {
		u = append(u,
			tok{K: "password", V: []string{sa}, S: s}, tok{K: "password", V: []string{sa, "=", sb}, S: s}, tok{K: "password", V: []string{}, S: s},
			tok{K: "user", V: []string{ua}, S: s}, tok{K: "user", V: []string{ua, "=", ub}, S: s}, tok{K: "user", V: []string{}, S: s},
			tok{K: "Password", V: []string{capMarker}, S: s}, tok{K: "", V: []string{fmt.Sprintf("b%d", pos)}, S: s})
	}
	return u
}

func enumTokSeqs(max int) [][]tok {
	var out [][]tok
	var rec func(cur []tok)
	rec = func(cur []tok) {
		if len(cur) > 0 && cur[len(cur)-1].S == " " {
			out = append(out, append([]tok(nil), cur...))
		}
		if len(cur) == max {
			return
		}
		for _, k := range tokUniverse(len(cur) + 1) {
			rec(append(cur, k))
		}
	}
	rec(nil)
	return out
}

// ---- the alphabet of keys, values and bare words.
// A connection string is cut at ' ', ';' and '=' only: every other character is an ordinary character of a key
// or a value to the masking, whatever it means to a shell, a URL, SQL or a quoting convention.  The atoms are
// therefore spelled with quote characters (paired and UNPAIRED), backslashes and escape sequences, brackets,
// percent escapes, comment openers, control characters, multi-byte runes (also those whose lower-case form has
// another UTF-8 length) and invalid UTF-8, before, inside and after a plain core, in every position relative to
// the password token.
var plainSpice = []string{
	"'", "\"", "`", "\\", "''", "\"\"", "'\"", "\"'", "\\'", "\\\"", "\\\\", "\\n", "\\x3b", "\\073",
	"{", "}", "{{", "(", ")", "[", "]", "<", ">", "%", "%3B", "%20", "%27", "%3D", "#", "--", "/*", "*/", "//",
	"&", "&#59", "?", "$", "${", "!", "|", "^", "~", ",", ":", "@", "/", "+", "*", ".", "-", "_",
	"\x00", "\x01", "\x1b", "\x7f", "é", "ü", "ß", "ñ", "É", "Ж", "한", "日本", "\U0001F600",
	"\u200b", "\ufeff", "\u0301",
}

// white space other than ' ' (golib trims it at the ends of a key and of a value; the rewriting model of the spec
// knows ' ' only): spelled INSIDE an atom only
var wsSpice = []string{"\t", "\n", "\r", "\v", "\f", "\u00a0", "\u3000", "\u0085", "\u2003"}

// runes whose lower-case form has another UTF-8 length, and invalid UTF-8
var lowerSpice = []string{"\u0130", "\u212a", "\u023a", "\u1e9e", "\u2126", "\xff", "\xc3", "\xe2\x82"}

// open known finding C07-topair-lowered-index: paramtext.ToPair looks for '=' in the LOWER-CASED token and cuts
// the original at that index; a rune whose lower-case form has another UTF-8 length standing before the first '='
// of a piece moves the cut (the password key is no longer recognised, or the slice is out of range).
// While the finding is open the generators keep such runes out of the atoms that can stand before the first '='
// of a piece (keys, bare words); in values they are always used.
const kfLowerLen = "C07-topair-lowered-index"

func init() {
	for _, l := range [][]string{plainSpice, wsSpice, lowerSpice} {
		for _, x := range l {
			if x == "" || strings.ContainsAny(x, " ;=") {
				panic(fmt.Sprintf("c07: spelling %q holds a structural character", x))
			}
		}
	}
	for _, x := range plainSpice {
		if strings.TrimSpace(x) != x || (utf8.ValidString(x) && len(strings.ToLower(x)) != len(x)) {
			panic(fmt.Sprintf("c07: spelling %q is in the wrong table", x))
		}
	}
}

var steerLowerLen = true

// spice spells an atom as pre + head + infix + tail + post.  where: "value" (anything), "key" (a key or a bare
// word: it can stand before the first '=' of a piece).
func spice(r *rand.Rand, head, tail string, where string) string {
	if r.Intn(100) < 35 {
		return head + tail
	}
	pick := func(inside bool) string {
		x := r.Intn(100)
		switch {
		case x < 12 && (where == "value" || !steerLowerLen):
			return lowerSpice[r.Intn(len(lowerSpice))]
		case x < 24 && inside:
			return wsSpice[r.Intn(len(wsSpice))]
		case x < 50:
			return plainSpice[r.Intn(10)] // the quote characters and backslashes
		}
		return plainSpice[r.Intn(len(plainSpice))]
	}
	pre, in, post := "", "", ""
	for n := 1 + r.Intn(3); n > 0; n-- {
		switch r.Intn(3) {
		case 0:
			pre = pick(false) + pre
		case 1:
			if head != "" && tail != "" {
				in += pick(in == "")
			} else {
				post += pick(false)
			}
		default:
			post += pick(false)
		}
	}
	return pre + head + in + tail + post
}

var rndKeys = []string{"password", "password", "password", "pwd", "user", "host", "port", "dbname", "Password", "PASSWORD", "sslmode", "passwordx", "xpassword", "", ""}

func word(r *rand.Rand) string {
	const a = "abcdefghijklmnopqrstuvwxyzABCDEFGHIJKLMNOPQRSTUVWXYZ0123456789_-./:@%+"
	n := 1 + r.Intn(8)
	b := make([]byte, n)
	for i := range b {
		b[i] = a[r.Intn(len(a))]
	}
	return string(b)
}

func randToks(r *rand.Rand) []tok {
	n := 1 + r.Intn(8)
	ts := make([]tok, n)
	style := r.Intn(3) // all spaces, all semicolons, mixed
	for i := range ts {
		k := rndKeys[r.Intn(len(rndKeys))]
		var v, cores []string
		mkv := func(where string) string {
			if k == "password" {
				c := fmt.Sprintf("SECRET%d", i)
				cores = append(cores, c)
				return spice(r, c, word(r), where)
			}
			if k == "Password" || k == "PASSWORD" {
				return spice(r, capMarker, word(r), where)
			}
			return spice(r, "v", word(r), where)
		}
		first := "value" // the first atom of a token without a key stands where a key stands
		if k == "" {
			first = "key"
		}
		switch r.Intn(10) {
		case 0:
			v = []string{}
		case 1:
			v = []string{mkv(first), "=", mkv("value")}
		case 2:
			v = []string{mkv(first), "=", "="}
		case 3:
			v = []string{"=", mkv("value")}
		case 4:
			v = []string{mkv(first), "=", mkv("value"), "=", mkv("value")}
		case 5:
			v = []string{mkv(first), "="}
		default:
			v = []string{mkv(first)}
		}
		if k == "" && len(v) == 0 {
			v = []string{spice(r, "bare", word(r), "key")}
		}
		if k != "" && k != "password" && r.Intn(8) == 0 {
			// other keys with the same spellings (a key is trimmed and compared as it stands)
			k = spice(r, "k", word(r), "key")
		}
		s := " "
		if style == 1 || (style == 2 && r.Intn(2) == 0) {
			s = ";"
		}
		ts[i] = tok{K: k, V: v, S: s, Cores: cores}
	}
	return ts
}

// respell gives the atoms of a sequence of the enumerated universe other spellings (same token structure)
func respell(r *rand.Rand, ts []tok) []tok {
	out := make([]tok, len(ts))
	for i, t := range ts {
		n := tok{K: t.K, S: t.S, V: make([]string, len(t.V))}
		for j, a := range t.V {
			switch {
			case a == "=":
				n.V[j] = a
			case t.K == "" && j == 0:
				n.V[j] = spice(r, a, "", "key")
			default:
				n.V[j] = spice(r, a, "", "value")
				if t.K == "password" {
					n.Cores = append(n.Cores, a)
				}
			}
		}
		out[i] = n
	}
	return out
}

func runMask(c *core.Ctx) {
	t := c.Trace("c07_mask", "Trace_UdpPack")
	steerLowerLen = c.Args["c07_lowerlen"] != "explore"
	for _, id := range strings.Split(c.Args["kf"], "+") {
		if id == kfLowerLen {
			steerLowerLen = true
		}
	}
	const block = 24
	if c.WantGen("enum") {
		seqs := enumTokSeqs(3)
		combos := 2 // the spelling of the model universe, and one other spelling of the same atoms
		if c.Thorough() {
			combos = len(maskTypes) * 2
		}
		for cas := 0; cas*block < len(seqs); cas++ {
			if !c.Want("enum", cas) {
				continue
			}
			r := c.Rng("enum", cas)
			t.Reset("enum", cas, nil)
			n := 0
			for i := cas * block; i < (cas+1)*block && i < len(seqs); i++ {
				for k := 0; k < combos; k++ {
					j := i + k + int(c.Seed)
					ts := seqs[i]
					if k > 0 {
						ts = respell(r, ts)
					}
					maskOne(t, maskTypes[j%len(maskTypes)], maskVers[(j/len(maskTypes))%len(maskVers)], ts)
					n++
				}
				c.Count("mask:"+render(seqs[i]), strings.Contains(render(seqs[i]), "password="))
			}
			t.Emit(core.Ev{"ev": "End", "n": n})
		}
	}
	if c.WantGen("rnd") {
		tr := c.Trace("c07_mask_rnd", "Trace_UdpPack") // its own file: judged side by side with the enumerated one
		n := c.Pick(60, 1500)
		for cas := 0; cas < n; cas++ {
			if !c.Want("rnd", cas) {
				continue
			}
			r := c.Rng("rnd", cas)
			tr.Reset("rnd", cas, nil)
			for i := 0; i < block; i++ {
				ts := randToks(r)
				maskOne(tr, maskTypes[r.Intn(len(maskTypes))], maskVers[r.Intn(len(maskVers))], ts)
				c.Count("mask:"+render(ts), strings.Contains(render(ts), "password="))
				if cas == 0 && i < 2 {
					c.Sample(map[string]interface{}{"gen": "rnd", "case": cas, "text": render(ts)})
				}
			}
			tr.Emit(core.Ev{"ev": "End", "n": block})
		}
	}
	if c.OnlyGen == "kf_lowerlen" {
		// witness of the open known finding C07-topair-lowered-index
		t.Reset("kf_lowerlen", 0, nil)
		w := [][]tok{
			{{K: "", V: []string{"İstanbul"}, S: ";"}, {K: "password", V: []string{"SECRET1"}, S: " "}},
			{{K: "host", V: []string{"db1"}, S: " "}, {K: "", V: []string{"K"}, S: ";"}, {K: "password", V: []string{"SECRET2"}, S: ";"}, {K: "x", V: []string{"1"}, S: " "}},
		}
		for i, ts := range w {
			maskOne(t, maskTypes[i%len(maskTypes)], maskVers[i%2], ts)
		}
		t.Emit(core.Ev{"ev": "End", "n": len(w)})
	}
	c.SetExtra("capitalised_password_keys_seen", capSeen)
	c.SetExtra("capitalised_password_keys_left_unmasked_information_only", capSurvived)
}

// ---------------------------------------------------------------------- run

func Run(c *core.Ctx) error {
	c.Rule = "codec: one history per (pack type, version): the carried set is derived from the real writer, then randomly filled packs go through the real Write and the real Read of a pack created at the same version (non-trivial: the version carries at least one field; distinct by type and version); long: every carried text field at lengths around its cap and at 32767/32768/32769/65535 bytes; " +
		"alias: several packs encoded through every encoder entry point, the returned slices kept, looked at again after every later call and only then read (non-trivial: at least two kept outputs); " +
		"fail: every pool type fed truncated / mutated / foreign-version datagrams through ToPack and ReadPack between acquires (non-trivial: at least one read failed); " +
		"pool: acquire/fill/release histories replayed on CreatePack/ClosePack with sentinels in every field (non-trivial: some object came back from the pool); " +
		"masking: token sequences rendered to connection strings (keys, values and bare words spelled with quote characters, backslashes, brackets, escapes, control characters, multi-byte runes and invalid UTF-8 around a plain core) and sent through ToBytesPack/ToPack of the SQL, SQL-param and DB-connection packs at Go and PHP versions (non-trivial: a password key is present)"
	gens := map[string]string{"gate": "codec", "rand": "codec", "long": "codec", "each": "pool", "hist": "pool", "hist2": "pool",
		"alias": "pool", "fail": "pool", "failr": "pool", "enum": "mask", "rnd": "mask", "kf_lowerlen": "mask"}
	part := gens[c.OnlyGen]
	if c.OnlyGen != "" && part == "" && !strings.HasPrefix(c.OnlyGen, "kf_") {
		return fmt.Errorf("unknown gen %q", c.OnlyGen)
	}
	if part == "" || part == "codec" {
		runCodec(c)
		runLong(c)
	}
	if part == "" || part == "pool" {
		if err := runPool(c); err != nil {
			return err
		}
	}
	if part == "" || part == "mask" {
		runMask(c)
	}
	pp := map[string]int{}
	for k, v := range processPanics {
		pp[k] = v
	}
	c.SetExtra("process_panics_information_only", pp)
	return nil
}
