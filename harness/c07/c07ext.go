package c07

// Generators added when the check was strengthened:
//
//	long   every carried text field of every type at lengths around its cap and
//	       over the whole 16-bit range (compact projection of long periodic texts)
//	alias  outputs handed back by the encoder entry points (and the packs made of
//	       them) are kept and looked at again after later calls
//	fail   pool histories with the error paths: ToPack / ReadPack of truncated,
//	failr  mutated and foreign-version datagrams between acquires
//
// As everywhere in this package the harness only records.

import (
	"fmt"
	"math/rand"
	"reflect"
	"sort"

	gio "github.com/whatap/golib/io"
	"github.com/whatap/golib/lang/pack/udp"

	"verifharness/core"
)

// ------------------------------------------------------ compact projection

const unitLen = 16    // UdpPack.tla UnitLen
const compactMin = 64 // shorter texts are always recorded raw

// compact is a lossless projection of a long byte string that is periodic
// after a short prefix: <<-1, n, u1..u16, prefix...>> = the prefix (at most
// maxPrefix bytes, the shortest that works) followed by the first n bytes of
// the unit repeated.  ok = false: not of that form (recorded raw).
const maxPrefix = 64

func compact(b []byte) ([]int, bool) {
	for p := 0; p <= maxPrefix && len(b)-p > compactMin; p++ {
		t := b[p:]
		ok := true
		for i := unitLen; i < len(t); i++ {
			if t[i] != t[i-unitLen] {
				ok = false
				break
			}
		}
		if !ok {
			continue
		}
		out := make([]int, 0, unitLen+2+p)
		out = append(out, -1, len(t))
		for i := 0; i < unitLen; i++ {
			out = append(out, int(t[i]))
		}
		for i := 0; i < p; i++ {
			out = append(out, int(b[i]))
		}
		return out, true
	}
	return nil, false
}

// snapshotL is snapshot with, in an event of the long generators (longf not
// empty), every text in compact form where it has one (the same function for
// the written and the read pack, so equal texts have equal records)
func snapshotL(p interface{}, longf map[string]bool) map[string]interface{} {
	if len(longf) == 0 {
		return snapshot(p)
	}
	m := map[string]interface{}{}
	for _, f := range fieldsOf(p) {
		switch f.kind {
		case "str":
			if cv, ok := compact([]byte(f.v.String())); ok {
				m[f.name] = cv
				continue
			}
		case "bytes":
			if cv, ok := compact(f.v.Bytes()); ok {
				m[f.name] = cv
				continue
			}
		case "strs":
			o := make([]interface{}, f.v.Len())
			for i := range o {
				e := f.v.Index(i).String()
				if cv, ok := compact([]byte(e)); ok {
					o[i] = cv
				} else {
					o[i] = core.Str(e)
				}
			}
			m[f.name] = o
			continue
		}
		if v, ok := project(f); ok {
			m[f.name] = v
		}
	}
	return m
}

// no separator of the connection-string syntax: post-processing leaves such a text alone
const longAlpha = "abcXYZ019_-/:.,%\t\x00\x7f한é#"

func longBytes(r *rand.Rand, n int) []byte {
	unit := make([]byte, unitLen)
	for i := range unit {
		unit[i] = longAlpha[r.Intn(len(longAlpha))]
	}
	b := make([]byte, n)
	for i := range b {
		b[i] = unit[i%unitLen]
	}
	return b
}

// ------------------------------------------------------------------- long

var famMaxVers = []int32{10110, 20104, 30103, 40001, 50101}

func longLengths(c *core.Ctx, r *rand.Rand, pt ptype, f fld, salt int) []int {
	var ns []int
	if f.kind == "bytes" {
		ns = []int{65535, 70000}
		if c.Thorough() {
			ns = append(ns, 32768, 65536)
		}
		return append(ns, compactMin+1+r.Intn(70000))
	}
	edge := []int{32767, 32768, 32769}
	ns = []int{65535}
	if c.Thorough() {
		ns = append(ns, edge...)
	} else {
		ns = append(ns, edge[salt%3])
	}
	if cp := capFor(pt.name, f.name); cp > 0 {
		ns = append(ns, cp+1)
		if c.Thorough() {
			ns = append(ns, cp-1, cp)
		} else {
			ns = append(ns, cp-1+(salt%2))
		}
	}
	return append(ns, compactMin+1+r.Intn(65535-compactMin))
}

func longHistory(c *core.Ctx, t *core.Trace, cas int, pt ptype, ver int32, perField bool) {
	r := c.Rng("long", cas)
	t.Reset("long", cas, core.Ev{"type": pt.name, "ver": ver})
	carried, msg := carriedSet(pt, ver)
	if msg != "" {
		t.Emit(core.Ev{"ev": "Panic", "in": "Write(probe)", "type": pt.name, "ver": ver, "msg": msg})
		return
	}
	isCarried := map[string]bool{}
	for _, n := range carried {
		isCarried[n] = true
	}
	n := 0
	// every text field at the 16-bit limit at once: any cap anywhere in the writer of this version shows
	roundTrip(c, t, r, pt, ver, carried, false, &longSpec{-1, 65535})
	n++
	c.Count(fmt.Sprintf("long:%s:%d:*", pt.name, ver), len(carried) > 0)
	if !perField {
		t.Emit(core.Ev{"ev": "End", "n": n})
		return
	}
	for i, f := range fieldsOf(newPack(pt, ver)) {
		if (f.kind != "str" && f.kind != "bytes") || !isCarried[f.name] {
			continue
		}
		for _, ln := range longLengths(c, r, pt, f, int(c.Seed)+cas+i) {
			roundTrip(c, t, r, pt, ver, carried, false, &longSpec{i, ln})
			n++
			c.Count(fmt.Sprintf("long:%s:%d:%s:%d", pt.name, ver, f.name, ln), true)
		}
	}
	t.Emit(core.Ev{"ev": "End", "n": n})
}

func runLong(c *core.Ctx) {
	if !c.WantGen("long") {
		return
	}
	const chunk = 320
	var t *core.Trace
	inFile := 0
	for ti, pt := range ptypes {
		want := map[int32]bool{}
		if c.Thorough() {
			for _, v := range gateVers {
				want[v] = true
			}
		} else {
			for _, v := range famMaxVers {
				want[v] = true
			}
			want[gateVers[(int(c.Seed)+ti*7)%len(gateVers)]] = true
		}
		for vi, ver := range gateVers {
			cas := ti*len(gateVers) + vi
			if !c.Want("long", cas) {
				continue
			}
			if t == nil || inFile == chunk {
				name := "c07_long"
				if t != nil || c.Thorough() {
					name = fmt.Sprintf("c07_long_%d", cas)
				}
				t = c.Trace(name, "Trace_UdpPack")
				inFile = 0
			}
			longHistory(c, t, cas, pt, ver, want[ver])
			inFile++
		}
	}
}

// ------------------------------------------------------------------ alias

var aliasKept, aliasHists int

func encodeVia(via string, p udp.UdpPack) (b []byte, msg string) {
	msg = core.Guard(func() {
		switch via {
		case "ToBytesPack":
			b = udp.ToBytesPack(p)
		case "WritePack":
			b = udp.WritePack(gio.NewDataOutputX(), p).ToByteArray()
		default: // "Write"
			o := gio.NewDataOutputX()
			p.Write(o)
			b = o.ToByteArray()
		}
	})
	return
}

var vias = []string{"ToBytesPack", "ToBytesPack", "WritePack", "Write"}

func aliasHistory(c *core.Ctx, t *core.Trace, cas int) {
	r := c.Rng("alias", cas)
	K := c.Pick(5, 8)
	type item struct {
		pt      ptype
		ver     int32
		carried []string
	}
	items := make([]item, K)
	for k := range items {
		if k > 0 && r.Intn(2) == 0 {
			items[k] = items[r.Intn(k)] // the same type again: same pool, same sizes
		} else {
			items[k] = item{pt: ptypes[r.Intn(len(ptypes))], ver: gateVers[r.Intn(len(gateVers))]}
		}
	}
	t.Reset("alias", cas, nil)
	for k := range items {
		if items[k].carried == nil {
			cs, msg := carriedSet(items[k].pt, items[k].ver)
			if msg != "" {
				t.Emit(core.Ev{"ev": "Panic", "in": "Write(probe)", "type": items[k].pt.name, "ver": items[k].ver, "msg": msg})
				return
			}
			items[k].carried = cs
		}
	}
	n := 0
	kept := make([][]byte, 0, K) // the slices exactly as the code handed them back: never copied, never written
	for k, it := range items {
		w := newPack(it.pt, it.ver)
		fs := fieldsOf(w)
		for _, f := range fs {
			setRandom(r, it.pt.name, f, false)
		}
		if r.Intn(3) == 0 { // vary the sizes: one text of a few hundred bytes
			var cand []fld
			for _, f := range fs {
				if f.kind == "str" {
					cand = append(cand, f)
				}
			}
			if len(cand) > 0 {
				cand[r.Intn(len(cand))].v.SetString(randText(r, 100+r.Intn(1500)))
			}
		}
		wsnap := snapshot(w)
		via := vias[r.Intn(len(vias))]
		b, msg := encodeVia(via, w)
		if msg != "" {
			t.Emit(core.Ev{"ev": "Panic", "in": via, "type": it.pt.name, "ver": it.ver, "msg": msg})
			return
		}
		closed := false
		if it.pt.factory && r.Intn(2) == 0 { // as the UDP client does: the pack goes back to the pool, the bytes are sent later
			closed = true
			releasedPtr[ptrOf(w)] = true
			keepAlive = append(keepAlive, w)
			if msg := core.Guard(func() { udp.ClosePack(w) }); msg != "" {
				t.Emit(core.Ev{"ev": "Panic", "in": "ClosePack", "type": it.pt.name, "msg": msg})
				return
			}
		}
		t.Emit(core.Ev{"ev": "W", "type": it.pt.name, "ver": it.ver, "w": wsnap, "carried": it.carried,
			"caps": capList(it.pt.name), "bytes": core.Cp(b), "wlen": len(b), "keep": true, "via": via, "closed": closed})
		kept = append(kept, b)
		aliasKept++
		for j := 0; j < k; j++ {
			t.Emit(core.Ev{"ev": "Peek", "kind": "bytes", "of": j + 1, "v": core.Cp(kept[j])})
			n++
		}
	}
	// only now the kept datagrams are read, in some order; the packs are kept as well
	order := r.Perm(K)
	packs := map[int]udp.UdpPack{}
	var read []int
	for _, k := range order {
		it := items[k]
		rd := newPack(it.pt, it.ver)
		if rp, ok := rd.(*udp.UdpRelayPack); ok {
			rp.Len = int32(len(kept[k])) // out of band
		}
		in := gio.NewDataInputX(kept[k])
		if msg := core.Guard(func() { rd.Read(in) }); msg != "" {
			t.Emit(core.Ev{"ev": "Panic", "in": "Read", "type": it.pt.name, "ver": it.ver, "of": k + 1, "msg": msg})
			return
		}
		ev := core.Ev{"ev": "R", "of": k + 1, "r": snapshot(rd), "consumed": len(kept[k]) - int(in.Available())}
		if msg := core.Guard(func() { rd.Process() }); msg == "" {
			ev["rp"] = snapshot(rd)
		} else {
			ev["process_panic"] = msg
			processPanics[it.pt.name]++
		}
		t.Emit(ev)
		n++
		for _, j := range read {
			t.Emit(core.Ev{"ev": "Peek", "kind": "pack", "of": j + 1, "v": snapshot(packs[j])})
			n++
		}
		if _, ok := ev["rp"]; ok { // a pack whose Process panicked is in no defined state: not looked at again
			packs[k] = rd
			read = append(read, k)
		}
	}
	t.Emit(core.Ev{"ev": "End", "n": n})
	aliasHists++
	c.Count(fmt.Sprintf("alias:%d:%d", c.Seed, cas), K >= 2)
}

func runAlias(c *core.Ctx) {
	if !c.WantGen("alias") {
		return
	}
	t := c.Trace("c07_alias", "Trace_UdpPack")
	n := c.Pick(40, 400)
	for cas := 0; cas < n; cas++ {
		if c.Want("alias", cas) {
			aliasHistory(c, t, cas)
		}
	}
	c.SetExtra("alias_kept_outputs", aliasKept)
}

// ------------------------------------------------------------------- fail

// sess replays pool operations, reader entry points included, and records them
type sess struct {
	t       *core.Trace
	ids     map[uintptr]int
	fill    int
	n       int // events counted by End
	pooledN int
	fails   int
}

func (s *sess) ident(p udp.UdpPack) (int, bool, error) {
	ptr := ptrOf(p)
	id, pooled := s.ids[ptr]
	if !pooled {
		if releasedPtr[ptr] {
			return 0, false, fmt.Errorf("pool returned an object of an earlier history")
		}
		id = len(s.ids) + 1
		s.ids[ptr] = id
	} else {
		s.pooledN++
	}
	return id, pooled, nil
}

func residueNames(p interface{}) []string {
	res, _ := scanResidue(p) // booleans are judged by the twin runs of gen each/hist only
	return res
}

func (s *sess) acquire(pt ptype, ver int32) (udp.UdpPack, error) {
	var p udp.UdpPack
	if msg := core.Guard(func() { p = udp.CreatePack(pt.code, ver) }); msg != "" {
		s.t.Emit(core.Ev{"ev": "Panic", "in": "CreatePack", "msg": msg})
		return nil, nil
	}
	id, pooled, err := s.ident(p)
	if err != nil {
		return nil, err
	}
	s.t.Emit(core.Ev{"ev": "Acquire", "type": pt.name, "obj": id, "pooled": pooled, "residue": residueNames(p)})
	s.n++
	return p, nil
}

func (s *sess) fillP(p udp.UdpPack) {
	s.fill++
	names := fillAll(p, s.fill, true)
	s.t.Emit(core.Ev{"ev": "Fill", "obj": s.ids[ptrOf(p)], "fields": names, "fill": s.fill})
}

func (s *sess) release(p udp.UdpPack) bool {
	releasedPtr[ptrOf(p)] = true
	keepAlive = append(keepAlive, p)
	if msg := core.Guard(func() { udp.ClosePack(p) }); msg != "" {
		s.t.Emit(core.Ev{"ev": "Panic", "in": "ClosePack", "msg": msg})
		return false
	}
	s.t.Emit(core.Ev{"ev": "Release", "obj": s.ids[ptrOf(p)]})
	return true
}

// read sends a datagram through a reader entry point of the package
func (s *sess) read(pt ptype, ver int32, d []byte, entry int, meta core.Ev) (udp.UdpPack, error) {
	var q udp.UdpPack
	msg := core.Guard(func() {
		if entry%2 == 0 {
			q = udp.ToPack(pt.code, ver, d)
		} else {
			q = udp.ReadPack(pt.code, ver, gio.NewDataInputX(d))
		}
	})
	ev := core.Ev{"type": pt.name, "ver": ver, "len": len(d), "entry": []string{"ToPack", "ReadPack"}[entry%2]}
	for k, v := range meta {
		ev[k] = v
	}
	s.n++
	if msg != "" || q == nil {
		ev["ev"] = "ReadFail"
		ev["msg"] = msg
		s.t.Emit(ev)
		s.fails++
		return nil, nil
	}
	id, pooled, err := s.ident(q)
	if err != nil {
		return nil, err
	}
	ev["ev"], ev["obj"], ev["pooled"], ev["fields"] = "ReadOk", id, pooled, residueNames(q)
	s.t.Emit(ev)
	return q, nil
}

// sentinelDatagram: a pack that never goes to the pool, every field filled with
// sentinels, written by the real writer; recorded as a kept W
func sentinelDatagram(t *core.Trace, pt ptype, ver int32, fill int) ([]byte, bool) {
	carried, msg := carriedSet(pt, ver)
	if msg != "" {
		t.Emit(core.Ev{"ev": "Panic", "in": "Write(probe)", "type": pt.name, "ver": ver, "msg": msg})
		return nil, false
	}
	p := newPack(pt, ver)
	fillAll(p, fill, true)
	for _, f := range fieldsOf(p) {
		if f.kind == "i16s" { // five slots by protocol
			a := make([]int16, 5)
			for i := range a {
				a[i] = int16(0x5E00 | (i + 1))
			}
			f.v.Set(reflect.ValueOf(a))
		}
	}
	wsnap := snapshot(p)
	b, msg := writeBytes(p)
	if msg != "" {
		t.Emit(core.Ev{"ev": "Panic", "in": "Write", "type": pt.name, "ver": ver, "msg": msg})
		return nil, false
	}
	b = core.Cp(b)
	t.Emit(core.Ev{"ev": "W", "type": pt.name, "ver": ver, "w": wsnap, "carried": carried, "caps": capList(pt.name),
		"bytes": core.Bytes(b), "wlen": len(b), "keep": true, "via": "ToBytesPack"})
	return b, true
}

func mutated(r *rand.Rand, d []byte) ([]byte, []int) {
	m := core.Cp(d)
	if len(m) == 0 {
		return m, []int{0, 0}
	}
	pos := r.Intn(len(m))
	val := []byte{0, 1, 0x7f, 0x80, 0xff, byte(r.Intn(256))}[r.Intn(6)]
	if m[pos] == val {
		val ^= 0x55
	}
	m[pos] = val
	return m, []int{pos + 1, int(val)}
}

var failTotal int

func failHistory(c *core.Ctx, t *core.Trace, cas int, pt ptype, ver int32, allCuts bool) error {
	r := c.Rng("fail", cas)
	t.Reset("fail", cas, core.Ev{"type": pt.name, "ver": ver})
	d, ok := sentinelDatagram(t, pt, ver, 900)
	if !ok {
		return nil
	}
	if err := drain(pt.code); err != nil {
		return err
	}
	s := &sess{t: t, ids: map[uintptr]int{}}
	// one used and released pack is in the pool when the first datagram arrives
	a0, err := s.acquire(pt, ver)
	if err != nil || a0 == nil {
		return err
	}
	s.fillP(a0)
	if !s.release(a0) {
		return nil
	}
	round := func(q udp.UdpPack) (bool, error) {
		if q != nil && !s.release(q) {
			return false, nil
		}
		x, err := s.acquire(pt, ver)
		if err != nil || x == nil {
			return false, err
		}
		y, err := s.acquire(pt, ver)
		if err != nil || y == nil {
			return false, err
		}
		if r.Intn(4) == 0 {
			s.fillP(x)
		}
		return s.release(x) && s.release(y), nil
	}
	var cuts []int
	if allCuts || len(d) <= 24 {
		for i := 0; i <= len(d); i++ {
			cuts = append(cuts, i)
		}
	} else {
		seen := map[int]bool{}
		for _, x := range []int{0, 1, 2, 3, len(d) - 3, len(d) - 2, len(d) - 1, len(d)} {
			seen[x] = true
		}
		for len(seen) < 20 {
			seen[r.Intn(len(d))] = true
		}
		for x := range seen {
			cuts = append(cuts, x)
		}
		sort.Ints(cuts)
	}
	entry := r.Intn(2)
	for _, cut := range cuts {
		q, err := s.read(pt, ver, d[:cut:cut], entry, core.Ev{"of": 1, "cut": cut})
		entry++
		if err != nil {
			return err
		}
		if ok, err := round(q); !ok || err != nil {
			return err
		}
	}
	// the whole datagram, one byte changed
	for i := 0; i < c.Pick(6, 60); i++ {
		m, mut := mutated(r, d)
		q, err := s.read(pt, ver, m, entry, core.Ev{"of": 1, "cut": len(d), "mut": mut})
		entry++
		if err != nil {
			return err
		}
		if ok, err := round(q); !ok || err != nil {
			return err
		}
	}
	// the whole datagram read at another version (a layout it was not written for)
	nv := c.Pick(4, len(gateVers))
	for i := 0; i < nv; i++ {
		v := gateVers[(i+cas+int(c.Seed))%len(gateVers)]
		if c.Thorough() {
			v = gateVers[i]
		}
		q, err := s.read(pt, v, d, entry, core.Ev{"of": 1, "cut": len(d)})
		entry++
		if err != nil {
			return err
		}
		if ok, err := round(q); !ok || err != nil {
			return err
		}
	}
	t.Emit(core.Ev{"ev": "End", "n": s.n})
	failTotal += s.fails
	c.Count(fmt.Sprintf("fail:%s:%d", pt.name, ver), s.fails > 0)
	return nil
}

// failrHistory: a random interleaving of acquires, fills, releases and reads of
// good and broken datagrams over two pack types
func failrHistory(c *core.Ctx, t *core.Trace, cas int) error {
	r := c.Rng("failr", cas)
	ft := factoryTypes()
	slots := [2]ptype{ft[r.Intn(len(ft))], ft[r.Intn(len(ft))]}
	vers := [2]int32{famMaxVers[r.Intn(len(famMaxVers))], gateVers[r.Intn(len(gateVers))]}
	t.Reset("failr", cas, core.Ev{"slots": []string{slots[0].name, slots[1].name}})
	var ds [2][]byte
	for i := range slots {
		d, ok := sentinelDatagram(t, slots[i], vers[i], 900+i)
		if !ok {
			return nil
		}
		ds[i] = d
	}
	for _, sl := range slots {
		if err := drain(sl.code); err != nil {
			return err
		}
	}
	s := &sess{t: t, ids: map[uintptr]int{}}
	type held struct {
		p      udp.UdpPack
		filled bool
	}
	var hs []held
	steps := c.Pick(18, 36)
	for i := 0; i < steps; i++ {
		sl := r.Intn(2)
		op := r.Intn(8)
		switch {
		case op == 0 || (op <= 2 && len(hs) == 0):
			if len(hs) >= 3 {
				continue
			}
			p, err := s.acquire(slots[sl], vers[sl])
			if err != nil || p == nil {
				return err
			}
			hs = append(hs, held{p, false})
		case op == 1:
			k := r.Intn(len(hs))
			s.fillP(hs[k].p)
		case op == 2:
			k := r.Intn(len(hs))
			p := hs[k].p
			hs = append(hs[:k:k], hs[k+1:]...)
			if !s.release(p) {
				return nil
			}
		default:
			d := ds[sl]
			ver := vers[sl]
			meta := core.Ev{"of": sl + 1, "cut": len(d)}
			switch op {
			case 3: // as written
			case 4, 5:
				cut := r.Intn(len(d) + 1)
				d = d[:cut:cut]
				meta["cut"] = cut
			case 6:
				var mut []int
				d, mut = mutated(r, d)
				meta["mut"] = mut
			default:
				ver = gateVers[r.Intn(len(gateVers))]
			}
			q, err := s.read(slots[sl], ver, d, r.Intn(2), meta)
			if err != nil {
				return err
			}
			if q != nil {
				if len(hs) < 3 {
					hs = append(hs, held{q, true})
				} else if !s.release(q) {
					return nil
				}
			}
		}
	}
	// what is left in the pools
	for _, h := range hs {
		if !s.release(h.p) {
			return nil
		}
	}
	for i := 0; i < 3; i++ {
		for sl := range slots {
			if _, err := s.acquire(slots[sl], vers[sl]); err != nil {
				return err
			}
		}
	}
	t.Emit(core.Ev{"ev": "End", "n": s.n})
	failTotal += s.fails
	c.Count(fmt.Sprintf("failr:%d:%d", c.Seed, cas), s.fails > 0)
	return nil
}

func runFail(c *core.Ctx) error {
	if c.WantGen("fail") {
		ft := factoryTypes()
		var t *core.Trace
		inFile := 0
		for ti, pt := range ft {
			for fam, ver := range famMaxVers {
				cas := ti*len(famMaxVers) + fam
				mine := fam == (int(c.Seed)+ti)%len(famMaxVers)
				if !c.Want("fail", cas) || (c.OnlyGen == "" || c.OnlyCase < 0) && !mine && !c.Thorough() {
					continue
				}
				if t == nil || inFile == 12 {
					name := "c07_fail"
					if t != nil {
						name = fmt.Sprintf("c07_fail_%d", cas)
					}
					t = c.Trace(name, "Trace_UdpPack")
					inFile = 0
				}
				if err := failHistory(c, t, cas, pt, ver, c.Thorough()); err != nil {
					return err
				}
				inFile++
			}
		}
	}
	if c.WantGen("failr") {
		t := c.Trace("c07_failr", "Trace_UdpPack")
		n := c.Pick(40, 600)
		for cas := 0; cas < n; cas++ {
			if c.Want("failr", cas) {
				if err := failrHistory(c, t, cas); err != nil {
					return err
				}
			}
		}
	}
	c.SetExtra("failed_reads", failTotal)
	return nil
}
