package c12

// (B) spec -> code: replay of the complete labelled state graph TLC dumped for
// the small scope of MC_PlainMap on a real object, transition by transition.

import (
	"fmt"
	"sort"
	"strconv"
	"strings"

	"verifharness/core"
)

// GState is one state of the model: the keys in ascending order and the values
// in that order (the enumeration order of a plain map is not part of its state).
// In the scope of two live objects (NHeld = 1) a state also has the held object's
// keys and values.
type GState struct{ Keys, Vals, HKeys, HVals []int }

// GEdge is one labelled transition of the model.
type GEdge struct {
	Op  Op
	Dst int
}

// Graph is the complete labelled state graph of a small-scope MC_PlainMap run.
// State 0 is the initial (empty) state.
type Graph struct {
	Name   string
	States []GState
	Out    [][]GEdge
	NEdges int
	NKeys  int
	NHeld  int // 1: the scope of two live objects (one held from the start)
}

func ints(s string) ([]int, error) {
	if s == "" || s == "-" {
		return []int{}, nil
	}
	var out []int
	for _, f := range strings.Split(s, ",") {
		v, err := strconv.Atoi(f)
		if err != nil {
			return nil, err
		}
		out = append(out, v)
	}
	return out, nil
}

// ParseGraph reads the text form written by checks/c12.py from TLC's dump:
//
//	S <id> <keys,..>|<vals,..>             one line per state, ids 0..n-1 in order
//	S <id> <keys>|<vals>|<hkeys>|<hvals>   ... in the scope of two live objects
//	E <src> <op> <a> <b> <ks> <vs> <dst>   one line per transition; the label is
//	                                       <<name, key, value>>, <<"Sort", index into
//	                                       Dirs, 0>>, <<"ContainsValue", 0, value>> or
//	                                       <<"PutAll", 0, 0>> with the key and value
//	                                       lists ks, vs ("-" = empty)
func ParseGraph(name, text string) (*Graph, error) {
	g := &Graph{Name: name}
	for ln, line := range strings.Split(text, "\n") {
		f := strings.Fields(line)
		if len(f) == 0 || f[0] == "#" {
			continue
		}
		bad := func(err error) (*Graph, error) {
			return nil, fmt.Errorf("graph %s line %d %q: %v", name, ln+1, line, err)
		}
		switch f[0] {
		case "S":
			if len(f) != 3 {
				return bad(fmt.Errorf("want 3 fields"))
			}
			id, err := strconv.Atoi(f[1])
			if err != nil || id != len(g.States) {
				return bad(fmt.Errorf("state ids must be 0,1,2,.. in order"))
			}
			p := strings.Split(f[2], "|")
			if len(p) != 2 && len(p) != 4 {
				return bad(fmt.Errorf("want keys|vals or keys|vals|hkeys|hvals"))
			}
			k, e1 := ints(p[0])
			v, e2 := ints(p[1])
			if e1 != nil || e2 != nil || len(k) != len(v) {
				return bad(fmt.Errorf("bad state"))
			}
			st := GState{Keys: k, Vals: v}
			if len(p) == 4 {
				hk, e3 := ints(p[2])
				hv, e4 := ints(p[3])
				if e3 != nil || e4 != nil || len(hk) != len(hv) || (id > 0 && g.NHeld != 1) {
					return bad(fmt.Errorf("bad held state"))
				}
				st.HKeys, st.HVals, g.NHeld = hk, hv, 1
			} else if g.NHeld != 0 {
				return bad(fmt.Errorf("state without the held object"))
			}
			g.States = append(g.States, st)
			g.Out = append(g.Out, nil)
		case "E":
			if len(f) != 8 {
				return bad(fmt.Errorf("want 8 fields"))
			}
			src, e1 := strconv.Atoi(f[1])
			a, e2 := strconv.Atoi(f[3])
			b, e3 := strconv.Atoi(f[4])
			ks, e4 := ints(f[5])
			vs, e5 := ints(f[6])
			dst, e6 := strconv.Atoi(f[7])
			if e1 != nil || e2 != nil || e3 != nil || e4 != nil || e5 != nil || e6 != nil || src < 0 || src >= len(g.States) || dst < 0 || dst >= len(g.States) {
				return bad(fmt.Errorf("bad edge"))
			}
			op := Op{Name: f[2]}
			switch OpArgs[op.Name] {
			case "kv":
				op.K, op.V = a, b
			case "k":
				op.K = a
			case "v":
				op.V = b
			case "dir":
				if a < 1 || a > len(Dirs) {
					return bad(fmt.Errorf("bad sort direction"))
				}
				op.Dir = Dirs[a-1]
			case "ks":
				op.Ks, op.Vs = ks, vs
				op.V = src // which constructor builds the argument map (not part of the label)
			case "h":
				op.K = a // handle of a held object (0: the object itself), not a key
				if a < 0 || a > g.NHeld {
					return bad(fmt.Errorf("no such held object"))
				}
			default:
				op.V = src // RoundTrip: which constructor reads the wire form back
			}
			for _, k := range append([]int{op.K}, op.Ks...) {
				if k > g.NKeys && OpArgs[op.Name] != "h" {
					g.NKeys = k
				}
			}
			g.Out[src] = append(g.Out[src], GEdge{Op: op, Dst: dst})
			g.NEdges++
		default:
			return bad(fmt.Errorf("unknown line"))
		}
	}
	if len(g.States) == 0 || len(g.States[0].Keys) != 0 || len(g.States[0].HKeys) != 0 {
		return nil, fmt.Errorf("graph %s: state 0 must be the empty initial state", name)
	}
	return g, nil
}

func sortPairs(k, v []int) ([]int, []int) {
	type pr struct{ k, v int }
	ps := make([]pr, len(k))
	for i := range k {
		ps[i].k = k[i]
		if i < len(v) {
			ps[i].v = v[i]
		}
	}
	sort.Slice(ps, func(i, j int) bool { return ps[i].k < ps[j].k || (ps[i].k == ps[j].k && ps[i].v < ps[j].v) })
	k2, v2 := make([]int, len(ps)), make([]int, len(ps))
	for i, p := range ps {
		k2[i], v2[i] = p.k, p.v
	}
	return k2, v2
}

func sameInts(a, b []int) bool {
	if len(a) != len(b) {
		return false
	}
	for i := range a {
		if a[i] != b[i] {
			return false
		}
	}
	return true
}

// ReplayStats is what one replay of a graph on one real type did.
type ReplayStats struct {
	Edges     int  // transitions of the model
	Offered   int  // of these, calls the type offers from states it can reach with them
	Reachable int  // model states reachable with the calls the type offers
	Replayed  int  // distinct model transitions executed on the real object
	States    int  // distinct model states the real object was driven through
	Events    int  // events written
	Diverged  bool // the real object left the model (or panicked / hung): stopped there
	Unreached int  // offered transitions whose source state cannot be reached with the offered calls
}

// Replay drives fresh real objects through EVERY transition of the model's state
// graph the type offers: a walk from the initial state that takes each edge at
// least once (nearest-untaken-edge first; a new history is started every cut
// events).  Each step is recorded together with the full enumeration, so TLC
// judges every transition; in addition the walk compares the enumeration (as a
// sorted list) with the model's successor state and stops at the first
// difference (the walk would be lost), leaving the verdict on that event to TLC.
//
// In the scope of two live objects every history starts by constructing the
// second object with heldCtor ("New"); every step is followed by the full
// enumeration of BOTH objects, and both are compared with the model's state.
func (g *Graph) Replay(t *core.Trace, gen string, cas int, fresh func(Ctor) *Obj, ctor, heldCtor Ctor, cut int, extra Ev) ReplayStats {
	var st ReplayStats
	st.Edges = g.NEdges
	var s *Session
	start := func() {
		if s != nil {
			st.Events += s.Events
		}
		s = Start(t, gen, cas, fresh(ctor), true, extra)
		s.Fac = fresh
		for i := 0; i < g.NHeld; i++ {
			s.New(heldCtor)
		}
	}
	start()
	o := s.O
	// the sub-graph of the calls this type offers, restricted to the states those
	// calls can reach (IntKeyMap has no Add: it never stores the value 2)
	out := make([][]GEdge, len(g.Out))
	for i, es := range g.Out {
		for _, e := range es {
			if o.Has(e.Op.Name) {
				out[i] = append(out[i], e)
			}
		}
	}
	reach := map[int]bool{0: true}
	for q := []int{0}; len(q) > 0; q = q[1:] {
		for _, e := range out[q[0]] {
			if !reach[e.Dst] {
				reach[e.Dst] = true
				q = append(q, e.Dst)
			}
		}
	}
	for i := range out {
		if !reach[i] {
			out[i] = nil
		}
		st.Offered += len(out[i])
	}
	st.Reachable = len(reach)
	taken := make([][]bool, len(out))
	for i := range out {
		taken[i] = make([]bool, len(out[i]))
	}
	visited := map[int]bool{0: true}
	untaken := func(n int) int {
		for i := range out[n] {
			if !taken[n][i] {
				return i
			}
		}
		return -1
	}
	step := func(cur int, i int) (int, bool) {
		e := out[cur][i]
		if s.Do(e.Op) == nil {
			return cur, false
		}
		if !taken[cur][i] {
			taken[cur][i] = true
			st.Replayed++
		}
		want := g.States[e.Dst]
		k, v := sortPairs(s.LastK, s.LastV)
		if !sameInts(k, want.Keys) || !sameInts(v, want.Vals) {
			return cur, false
		}
		if g.NHeld > 0 {
			if len(s.LastHK) != g.NHeld || s.Dead {
				return cur, false
			}
			hk, hv := sortPairs(s.LastHK[0], s.LastHV[0])
			if !sameInts(hk, want.HKeys) || !sameInts(hv, want.HVals) {
				return cur, false
			}
		}
		visited[e.Dst] = true
		return e.Dst, true
	}
	cur := 0
	for {
		var path []int // edge indices to follow from cur
		if i := untaken(cur); i >= 0 {
			path = []int{i}
		} else {
			type qe struct {
				n    int
				path []int
			}
			seen := map[int]bool{cur: true}
			q := []qe{{cur, nil}}
			for len(q) > 0 && path == nil {
				x := q[0]
				q = q[1:]
				for i, e := range out[x.n] {
					if seen[e.Dst] {
						continue
					}
					seen[e.Dst] = true
					p := append(append([]int(nil), x.path...), i)
					if untaken(e.Dst) >= 0 {
						path = append(p, -1)
						break
					}
					q = append(q, qe{e.Dst, p})
				}
			}
			if path == nil {
				if cur != 0 { // what is left (if anything) can only be reached from the initial state
					start()
					cur = 0
					continue
				}
				break
			}
		}
		ok := true
		for _, i := range path {
			if i < 0 {
				i = untaken(cur)
			}
			if cur, ok = step(cur, i); !ok {
				break
			}
		}
		if !ok {
			st.Diverged = true
			break
		}
		if cut > 0 && s.Events >= cut {
			start()
			cur = 0
		}
	}
	st.Events += s.Events
	st.States = len(visited)
	for n := range out {
		if !visited[n] {
			st.Unreached += len(out[n])
		}
	}
	return st
}
