package c12

// Adapters: one abstract call on one REAL plain hash map / set of golib
// util/hmap, its result projected with the standard library only (keys as ranks
// in the history's sorted pool, values as small integers).

import (
	"fmt"
	"hash/crc32"
	"math"
	"math/rand"
	"reflect"
	"strconv"
	"strings"

	gio "github.com/whatap/golib/io"
	"github.com/whatap/golib/util/hmap"

	"verifharness/core"
	"verifharness/valgen"
)

// Bad marks a result that is not of the expected kind; it never equals
// anything the specification expects.
const Bad = -999999

// Ctor is how the object under test is constructed.
type Ctor struct {
	Default bool
	Cap     int
	LF      float32
	None    int32 // IntIntMap only: what its public NONE field is set to (0 = left at its default)
}

func (c Ctor) String() string {
	s := fmt.Sprintf("cap=%d,lf=%g", c.Cap, c.LF)
	if c.Default {
		s = "default"
	}
	if c.None != 0 {
		s += fmt.Sprintf(",NONE=%d", c.None)
	}
	return s
}

func (c Ctor) cap0() int {
	if c.Default {
		return hmap.DEFAULT_CAPACITY
	}
	return c.Cap
}

// PoolOpt shapes the key pool of a history.
type PoolOpt struct {
	Small bool // exactly n (2 or 3) keys that share a bucket at the first table sizes (graph replay)
	Full  bool // small pools: two of the keys have IDENTICAL full hashes (only the keys themselves differ)
}

// TypeDef describes one type under test.
type TypeDef struct {
	Name    string
	HasCtor bool
	IsSet   bool
	// HasFull: the type's hash is not injective, so there are different keys with
	// identical full hashes (StringSet: CRC-32; IntKeyMap: 31 mixed bits of a 32-bit key)
	HasFull bool
	// New draws a key pool of about n keys (chosen for the table sizes of ctor) and
	// returns a factory of fresh objects over that pool, one per constructor call.
	New func(r *rand.Rand, n int, ctor Ctor, po PoolOpt) func(Ctor) *Obj
}

// ---- replicated bucket hashes (they only steer the key generator) ----------

func hIdent(k int32) uint { return uint(k) }

func hIntKey(h int32) uint {
	ret := uint(h)
	ret ^= (uint(h) >> 20) ^ (uint(h) >> 12)
	ret = ret ^ (uint(h) >> 7) ^ (uint(h) >> 4)
	return ret & uint(math.MaxInt32)
}

func hStr(s string) uint { return uint(int32(crc32.ChecksumIEEE([]byte(s)))) }

// IntKeyMap's mixing keeps 31 bits of a 32-bit key: T(x) = x ^ x>>20 ^ x>>12 ^ x>>7 ^ x>>4
// is a bijection of the 31-bit numbers, and a negative key (sign-extended before the
// shifts) hashes to T(low 31 bits) ^ c for one constant c.  So every key has exactly ONE
// twin of the other sign with the identical full hash.  intTwin computes it (ok only if
// the replicated hash confirms it); like the hashes above it only chooses inputs.
func invMix(t uint) uint {
	var y uint
	for i := 30; i >= 0; i-- {
		b := t >> uint(i) & 1
		for _, sh := range []int{4, 7, 12, 20} {
			if i+sh <= 30 {
				b ^= y >> uint(i+sh) & 1
			}
		}
		y |= b << uint(i)
	}
	return y
}

func intTwin(k int32) (int32, bool) {
	var t int32
	if k < 0 {
		t = int32(invMix(hIntKey(k)))
	} else {
		t = int32(uint32(invMix(hIntKey(k)^hIntKey(math.MinInt32))) | 1<<31)
	}
	return t, t != k && (t < 0) != (k < 0) && hIntKey(t) == hIntKey(k)
}

// strFullGroups: groups of different strings with one CRC-32 (valgen: suffix forgery
// and birthday search, each group confirmed with golib's own string hash), without
// the empty string (the string set refuses it).
func strFullGroups() [][]string {
	var out [][]string
	for _, g := range valgen.FullHashGroups() {
		var h []string
		for _, k := range g {
			if k != "" && hStr(k) == hStr(g[0]) {
				h = append(h, k)
			}
		}
		if len(h) >= 2 {
			out = append(out, h)
		}
	}
	return out
}

var intSpecials = []int32{0, 1, -1, math.MaxInt32, math.MinInt32, math.MinInt32 + 1, math.MaxInt32 - 1, 101, -101, 202, 203, 407, -407, 100, 102}
var strSpecials = []string{"", " ", "a", "A", "0", "\x00", "ключ", "키", "a b/c=d, e", strings.Repeat("long-key-", 40), "{}", "null"}

func splitmix(x uint64) uint64 {
	x += 0x9e3779b97f4a7c15
	x = (x ^ (x >> 30)) * 0xbf58476d1ce4e5b9
	x = (x ^ (x >> 27)) * 0x94d049bb133111eb
	return x ^ (x >> 31)
}

// intKeys draws the int32 key pool of a history.
func intKeys(r *rand.Rand, n int, hash func(int32) uint, caps []uint, identity bool, po PoolOpt) []int32 {
	small := po.Small
	salt := r.Uint64()
	cand := func(i int) int32 {
		switch i % 4 {
		case 0:
			return int32(i/4 - 300)
		case 1:
			return int32(splitmix(uint64(i)^salt) >> 33) // non-negative
		default:
			return int32(splitmix(uint64(i) ^ salt)) // any sign
		}
	}
	var direct func(seed int32, j int) (int32, bool)
	if identity {
		L := int64(caps[0]) * int64(caps[1]) * int64(caps[2])
		direct = func(seed int32, j int) (int32, bool) {
			step := int64((j + 1) / 2)
			if j%2 == 0 {
				step = -step
			}
			k := int64(seed) + step*L
			if k < math.MinInt32 || k > math.MaxInt32 || (k < 0) != (seed < 0) {
				return 0, false
			}
			return int32(k), true
		}
	}
	if small {
		// three keys in one bucket at all three table sizes (identity hash) or at
		// the first two (mixing hash), one of them a special key
		for try := 0; ; try++ {
			seed := intSpecials[r.Intn(7)]
			if try > 20 {
				seed = cand(r.Intn(1 << 20))
			}
			same := func(k int32) bool {
				return k != seed && hash(k)%caps[0] == hash(seed)%caps[0] && hash(k)%caps[1] == hash(seed)%caps[1]
			}
			out := []int32{seed}
			if po.Full { // the second key is the seed's full-hash twin
				if tw, ok := intTwin(seed); ok && !identity {
					out = append(out, tw)
				}
			}
			for i := 0; i < 4000000 && len(out) < n; i++ {
				k := cand(i)
				if direct != nil {
					var ok bool
					if k, ok = direct(seed, i+1); !ok {
						if i > 1000 {
							break
						}
						continue
					}
				}
				if same(k) && (len(out) < 2 || k != out[1]) {
					out = append(out, k)
				}
			}
			if len(out) == n {
				return out
			}
		}
	}
	var full [][]int32
	if !identity { // twins: a few special keys and arbitrary ones, about a tenth of the pool
		for i := 0; len(full) < 2+n/20 && i < 200; i++ {
			k := cand(r.Intn(1 << 20))
			if i < 3 {
				k = intSpecials[r.Intn(len(intSpecials))]
			}
			if tw, ok := intTwin(k); ok {
				full = append(full, []int32{k, tw})
			}
		}
	}
	return pickKeys(r, n, cand, intSpecials, full, hash, caps, direct, 400000)
}

func strKeys(r *rand.Rand, n int, caps []uint, po PoolOpt) []string {
	small := po.Small
	groups := strFullGroups()
	salt := r.Intn(1 << 30)
	prefixes := []string{"k", "키", "", "a b/", "K"}
	cand := func(i int) string {
		return fmt.Sprintf("%s%d", prefixes[i%len(prefixes)], i/len(prefixes)+salt%1000)
	}
	if small {
		// the empty string plus two strings sharing a bucket at the first two table sizes
		seed := cand(r.Intn(1 << 20))
		out := []string{"", seed}
		if po.Full && len(groups) > 0 { // two different strings with one full CRC-32
			g := groups[r.Intn(len(groups))]
			i := r.Intn(len(g) - 1)
			out = []string{"", g[i], g[i+1]}
		}
		for i := 0; len(out) < 3; i++ {
			k := cand(i)
			if k != seed && hStr(k)%caps[0] == hStr(seed)%caps[0] && (hStr(k)%caps[1] == hStr(seed)%caps[1] || i > 2000000) {
				out = append(out, k)
			}
		}
		return out
	}
	var full [][]string
	for k := 1 + r.Intn(2+n/40); k > 0 && len(groups) > 0; k-- {
		full = append(full, groups[r.Intn(len(groups))])
	}
	return pickKeys(r, n, cand, strSpecials, full, hStr, caps, nil, 150000)
}

// NilV is the value code of the nil object (PlainMap.tla NilV).
const NilV = -1

// The values of an IntKeyMap are objects (interface{}).  A value code v >= 0 is
// boxed as an object whose dynamic type depends on v, so that the histories
// store every kind of object the API accepts, in particular the ones that look
// like "nothing": the nil object (code NilV), the number 0, the empty string, a
// typed nil pointer (an interface value that is NOT nil), a zero-size struct.
// Equal codes box to values that are equal under ==, different codes to
// different values; unbox is the inverse (anything else is Bad).
type boxT struct{ v int }
type emptyT struct{}

const maxCode = 255 // value codes are 0..maxCode (and NilV)

var boxPtrs = func() map[int]*boxT {
	m := map[int]*boxT{}
	for v := 0; v <= maxCode; v++ {
		if v%5 == 3 && v != 3 {
			m[v] = &boxT{v}
		}
	}
	return m
}()

func box(v int) interface{} {
	switch {
	case v == NilV:
		return nil
	case v < 0 || v > maxCode:
		panic("c12: value code out of range for an object value")
	case v == 1:
		return ""
	case v == 3:
		return (*boxT)(nil)
	case v == 5:
		return emptyT{}
	}
	switch v % 5 {
	case 0:
		return v // int
	case 1:
		return fmt.Sprintf("s%d", v)
	case 2:
		return int32(v) // a number of another type: not equal to the int of the same magnitude
	case 3:
		return boxPtrs[v]
	}
	return float64(v) + 0.5
}

func unbox(x interface{}) int {
	v := Bad
	switch t := x.(type) {
	case nil:
		return NilV
	case int:
		v = t
	case string:
		if t == "" {
			return 1
		}
		if n, err := strconv.Atoi(strings.TrimPrefix(t, "s")); err == nil && strings.HasPrefix(t, "s") {
			v = n
		}
	case int32:
		v = int(t)
	case *boxT:
		if t == nil {
			return 3
		}
		if boxPtrs[t.v] == t {
			v = t.v
		}
	case emptyT:
		return 5
	case float64:
		v = int(t - 0.5)
	}
	if v < 0 || v > maxCode || !reflect.DeepEqual(box(v), x) { // only what box produces is a value code
		return Bad
	}
	return v
}

// pObj projects an answer of an object-valued call: <<>> for nil, <<code>> otherwise
func pObj(x interface{}) []int {
	if x == nil {
		return []int{}
	}
	return []int{unbox(x)}
}

func pObj1(x interface{}) int { return unbox(x) }

const enumSlack = 8 // an enumeration is cut this many elements after Size() (a corrupted chain may never end)

func drainInts(en interface {
	HasMoreElements() bool
	NextInt() int32
}, limit int, f func(int32)) {
	for i := 0; i < limit && en.HasMoreElements(); i++ {
		f(en.NextInt())
	}
}

func drainObjs(en hmap.Enumeration, limit int, f func(interface{})) {
	for i := 0; i < limit && en.HasMoreElements(); i++ {
		f(en.NextElement())
	}
}

// enumerators in the harness's hands (stepped one call at a time by the session)
func intEn(kind string, en interface {
	HasMoreElements() bool
	NextInt() int32
}, proj func(int32) int) *En {
	return &En{Kind: kind, More: en.HasMoreElements, Next: func() Ev { return Ev{"x": proj(en.NextInt())} }}
}

func objEn(kind string, en hmap.Enumeration, proj func(interface{}) Ev) *En {
	return &En{Kind: kind, More: en.HasMoreElements, Next: func() Ev { return proj(en.NextElement()) }}
}

func items(s string, sep string) int {
	if !strings.HasPrefix(s, "{") || !strings.HasSuffix(s, "}") {
		return Bad
	}
	return strings.Count(s, sep)
}

// ------------------------------------------------------------------ IntIntMap

func newIntIntMap(c Ctor) *hmap.IntIntMap {
	var m *hmap.IntIntMap
	if c.Default {
		m = hmap.NewIntIntMapDefault()
	} else {
		m = hmap.NewIntIntMap(c.Cap, c.LF)
	}
	if c.None != 0 {
		m.NONE = c.None // public configuration: what the map answers for "no such entry"
	}
	return m
}

// the constructors the wire round trip reads into (op.V picks one)
var rtCtors = []Ctor{{Default: true}, {Cap: 1, LF: 0.75}, {Cap: 3, LF: 1}, {Cap: 11, LF: 0.5}}

func intIntObj(p *intPool, ctor Ctor) *Obj { return intIntObjOf(p, ctor, newIntIntMap(ctor)) }

// keyArr / valArr: a []int32 of keys / values in the harness's hands
func keyArr(p *intPool, of string, a []int32) *Arr {
	return &Arr{Of: of, Kind: "k", Read: func() []int {
		seq := []int{}
		for _, k := range a {
			seq = append(seq, p.rank(k))
		}
		return seq
	}, Write: func(i int, x int) { a[i] = p.key(x) }}
}

func valArr(of string, a []int32) *Arr {
	return &Arr{Of: of, Kind: "v", Read: func() []int {
		seq := []int{}
		for _, v := range a {
			seq = append(seq, int(v))
		}
		return seq
	}, Write: func(i int, x int) { a[i] = int32(x) }}
}

func intIntObjOf(p *intPool, ctor Ctor, m *hmap.IntIntMap) *Obj {
	o := &Obj{Type: "IntIntMap", Ctor: ctor.String(), N: len(p.keys), Ops: map[string]func(Op) Ev{}, Pool: p.describe()}
	if ctor.None != 0 {
		o.Hdr = Ev{"none": []int{int(ctor.None)}}
	}
	lim := func() int { return m.Size() + enumSlack }
	ret := func(v int32) Ev { return Ev{"ret": []int{int(v)}} }
	o.Size = func() int { return m.Size() }
	o.Raw = func() interface{} { return m }
	o.Proj = func() (ks, vs []int) {
		drainObjs(m.Entries(), lim(), func(x interface{}) {
			if e, ok := x.(*hmap.IntIntEntry); ok {
				ks, vs = append(ks, p.rank(e.GetKey())), append(vs, int(e.GetValue()))
			} else {
				ks, vs = append(ks, 0), append(vs, Bad)
			}
		})
		return
	}
	// (m is re-read at every call: the wire round trip replaces it)
	o.Enum = map[string]func() *En{
		"k": func() *En { return intEn("k", m.Keys(), func(k int32) int { return p.rank(k) }) },
		"v": func() *En { return intEn("v", m.Values(), func(v int32) int { return int(v) }) },
		"e": func() *En {
			return objEn("e", m.Entries(), func(x interface{}) Ev {
				if e, ok := x.(*hmap.IntIntEntry); ok {
					return Ev{"p": []int{p.rank(e.GetKey()), int(e.GetValue())}}
				}
				return Ev{"p": []int{0, Bad}}
			})
		},
	}
	o.Ops["Put"] = func(op Op) Ev { return ret(m.Put(p.key(op.K), int32(op.V))) }
	o.Ops["Add"] = func(op Op) Ev { return ret(m.Add(p.key(op.K), int32(op.V))) }
	o.Ops["AddIfExist"] = func(op Op) Ev { return ret(m.AddIfExist(p.key(op.K), int32(op.V))) }
	o.Ops["Get"] = func(op Op) Ev { return ret(m.Get(p.key(op.K))) }
	o.Ops["Remove"] = func(op Op) Ev { return ret(m.Remove(p.key(op.K))) }
	o.Ops["ContainsKey"] = func(op Op) Ev { return Ev{"b": m.ContainsKey(p.key(op.K))} }
	o.Ops["ContainsValue"] = func(op Op) Ev { return Ev{"b": m.ContainsValue(int32(op.V))} }
	o.Ops["IsEmpty"] = func(op Op) Ev { return Ev{"b": m.IsEmpty()} }
	o.Ops["Clear"] = func(op Op) Ev { m.Clear(); return Ev{} }
	o.Ops["Keys"] = func(op Op) Ev {
		seq := []int{}
		drainInts(m.Keys(), lim(), func(k int32) { seq = append(seq, p.rank(k)) })
		return Ev{"seq": seq}
	}
	o.Ops["Values"] = func(op Op) Ev {
		seq := []int{}
		drainInts(m.Values(), lim(), func(v int32) { seq = append(seq, int(v)) })
		return Ev{"seq": seq}
	}
	o.Ops["Entries"] = func(op Op) Ev {
		ks, vs := o.Proj()
		pairs := make([][]int, len(ks))
		for i := range ks {
			pairs[i] = []int{ks[i], vs[i]}
		}
		return Ev{"pairs": pairs}
	}
	o.Ops["KeyArray"] = func(op Op) Ev {
		o.LastArr = keyArr(p, "ret", m.KeyArray())
		return Ev{"seq": o.LastArr.Read()}
	}
	o.Ops["ValueArray"] = func(op Op) Ev {
		o.LastArr = valArr("ret", m.ValueArray())
		return Ev{"seq": o.LastArr.Read()}
	}
	o.Ops["Sort"] = func(op Op) Ev {
		m.Sort(func(a, b int32) bool { return Less(op.Dir, p.rank(a), p.rank(b)) })
		return Ev{}
	}
	o.Ops["ToString"] = func(op Op) Ev { return Ev{"items": items(m.ToString(), "=")} }
	wire := func() []byte {
		dout := gio.NewDataOutputX()
		m.ToBytes(dout)
		return dout.ToByteArray()
	}
	o.Ops["ToBytes"] = func(op Op) Ev { return Ev{"bytes": core.Bytes(wire()), "kv": p.reals()} }
	o.Ops["RoundTrip"] = func(op Op) Ev {
		b := wire()
		c := rtCtors[((op.V%len(rtCtors))+len(rtCtors))%len(rtCtors)]
		c.None = ctor.None // the map read into is configured like the one written
		if op.Hold {       // the map that was written stays alive beside the one read back
			o.Forked = intIntObjOf(p, ctor, m)
		}
		m = newIntIntMap(c).ToObject(gio.NewDataInputX(b)) // the read-back map replaces the object under test
		ks, vs := o.Proj()
		return Ev{"keys": nz(ks), "vals": nz(vs), "into": c.String()}
	}
	// put-all between two int-to-int maps goes through the wire form: what the other
	// map writes is read into this one (ToObject puts every pair it reads)
	o.Ops["PutAllFrom"] = func(op Op) Ev {
		src, ok := op.Other.Raw().(*hmap.IntIntMap)
		if !ok {
			panic("c12: PutAllFrom needs another IntIntMap")
		}
		dout := gio.NewDataOutputX()
		src.ToBytes(dout)
		m = m.ToObject(gio.NewDataInputX(dout.ToByteArray()))
		return Ev{"via": "wire"}
	}
	return o
}

// ------------------------------------------------------------------ IntKeyMap

func newIntKeyMap(c Ctor) *hmap.IntKeyMap {
	if c.Default {
		return hmap.NewIntKeyMapDefault()
	}
	return hmap.NewIntKeyMap(c.Cap, c.LF)
}

func intKeyObj(p *intPool, ctor Ctor) *Obj {
	m := newIntKeyMap(ctor)
	o := &Obj{Type: "IntKeyMap", Ctor: ctor.String(), N: len(p.keys), Ops: map[string]func(Op) Ev{}, Pool: p.describe()}
	lim := func() int { return m.Size() + enumSlack }
	o.Size = func() int { return m.Size() }
	o.Raw = func() interface{} { return m }
	o.Proj = func() (ks, vs []int) {
		drainObjs(m.Entries(), lim(), func(x interface{}) {
			if e, ok := x.(*hmap.IntKeyEntry); ok {
				ks, vs = append(ks, p.rank(e.GetKey())), append(vs, pObj1(e.GetValue()))
			} else {
				ks, vs = append(ks, 0), append(vs, Bad)
			}
		})
		return
	}
	o.Enum = map[string]func() *En{
		"k": func() *En { return intEn("k", m.Keys(), func(k int32) int { return p.rank(k) }) },
		"v": func() *En { return objEn("v", m.Values(), func(x interface{}) Ev { return Ev{"x": pObj1(x)} }) },
		"e": func() *En {
			return objEn("e", m.Entries(), func(x interface{}) Ev {
				if e, ok := x.(*hmap.IntKeyEntry); ok {
					return Ev{"p": []int{p.rank(e.GetKey()), pObj1(e.GetValue())}}
				}
				return Ev{"p": []int{0, Bad}}
			})
		},
	}
	o.Ops["Put"] = func(op Op) Ev { return Ev{"ret": pObj(m.Put(p.key(op.K), box(op.V)))} }
	o.Ops["Get"] = func(op Op) Ev { return Ev{"ret": pObj(m.Get(p.key(op.K)))} }
	o.Ops["Remove"] = func(op Op) Ev { return Ev{"ret": pObj(m.Remove(p.key(op.K)))} }
	o.Ops["ContainsKey"] = func(op Op) Ev { return Ev{"b": m.ContainsKey(p.key(op.K))} }
	o.Ops["ContainsValue"] = func(op Op) Ev { return Ev{"b": m.ContainsValue(box(op.V))} }
	o.Ops["Clear"] = func(op Op) Ev { m.Clear(); return Ev{} }
	o.Ops["Keys"] = func(op Op) Ev {
		seq := []int{}
		drainInts(m.Keys(), lim(), func(k int32) { seq = append(seq, p.rank(k)) })
		return Ev{"seq": seq}
	}
	o.Ops["Values"] = func(op Op) Ev {
		seq := []int{}
		drainObjs(m.Values(), lim(), func(x interface{}) { seq = append(seq, pObj1(x)) })
		return Ev{"seq": seq}
	}
	o.Ops["Entries"] = func(op Op) Ev {
		ks, vs := o.Proj()
		pairs := make([][]int, len(ks))
		for i := range ks {
			pairs[i] = []int{ks[i], vs[i]}
		}
		return Ev{"pairs": pairs}
	}
	o.Ops["KeyArray"] = func(op Op) Ev {
		o.LastArr = keyArr(p, "ret", m.KeyArray())
		return Ev{"seq": o.LastArr.Read()}
	}
	o.Ops["ToString"] = func(op Op) Ev { return Ev{"items": items(m.ToString(), "=")} }
	o.Ops["ToFormatString"] = func(op Op) Ev { return Ev{"items": items(m.ToFormatString(), "=")} }
	o.Ops["PutAll"] = func(op Op) Ev {
		var other *hmap.IntKeyMap // nil when there is nothing to put and V = 0
		if len(op.Ks) > 0 || op.V != 0 {
			other = newIntKeyMap(rtCtors[((op.V%len(rtCtors))+len(rtCtors))%len(rtCtors)])
			for i, k := range op.Ks {
				other.Put(p.key(k), box(op.Vs[i]))
			}
		}
		m.PutAll(other)
		return Ev{}
	}
	// put-all with another LIVE map as the argument (the session keeps it and goes on
	// observing and modifying both)
	o.Ops["PutAllFrom"] = func(op Op) Ev {
		src, ok := op.Other.Raw().(*hmap.IntKeyMap)
		if !ok {
			panic("c12: PutAllFrom needs another IntKeyMap")
		}
		m.PutAll(src)
		return Ev{}
	}
	return o
}

// --------------------------------------------------------------------- IntSet

func intSetObj(p *intPool) *Obj {
	m := hmap.NewIntSet()
	o := &Obj{Type: "IntSet", Ctor: "default", N: len(p.keys), Set: true, Ops: map[string]func(Op) Ev{}, Pool: p.describe()}
	lim := func() int { return m.Size() + enumSlack }
	o.Size = func() int { return m.Size() }
	o.Raw = func() interface{} { return m }
	elems := func() []int {
		seq := []int{}
		drainInts(m.Values(), lim(), func(k int32) { seq = append(seq, p.rank(k)) })
		return seq
	}
	o.Proj = func() (ks, vs []int) { ks = elems(); return ks, ks }
	o.Enum = map[string]func() *En{
		"v": func() *En { return intEn("v", m.Values(), func(k int32) int { return p.rank(k) }) },
	}
	o.Ops["Put"] = func(op Op) Ev { return Ev{"b": m.Put(p.key(op.K))} }
	o.Ops["Contains"] = func(op Op) Ev { return Ev{"b": m.Contains(p.key(op.K))} }
	o.Ops["Remove"] = func(op Op) Ev {
		r := m.Remove(p.key(op.K))
		return Ev{"rk": p.rank(r), "rz": r == 0}
	}
	o.Ops["Clear"] = func(op Op) Ev { m.Clear(); return Ev{} }
	o.Ops["Values"] = func(op Op) Ev { return Ev{"seq": elems()} }
	o.Ops["ToString"] = func(op Op) Ev {
		s := m.ToString()
		n := Bad
		if strings.HasPrefix(s, "{") && strings.HasSuffix(s, "}") {
			if n = 0; len(s) > 2 {
				n = strings.Count(s, ", ") + 1
			}
		}
		return Ev{"items": n}
	}
	o.Ops["PutAll"] = func(op Op) Ev {
		var vals []int32 // nil when there is nothing to put
		for _, k := range op.Ks {
			vals = append(vals, p.key(k))
		}
		m.PutAll(vals)
		o.LastArr = keyArr(p, "arg", vals) // the argument is the caller's slice: the set neither keeps nor changes it
		return Ev{}
	}
	return o
}

// ------------------------------------------------------------------ StringSet

func strSetObj(p *strPool) *Obj {
	m := hmap.NewStringSet()
	o := &Obj{Type: "StringSet", Ctor: "default", N: len(p.keys), EK: p.rank(""), Set: true, Ops: map[string]func(Op) Ev{}, Pool: p.describe()}
	lim := func() int { return m.Size() + enumSlack }
	o.Size = func() int { return m.Size() }
	o.Raw = func() interface{} { return m }
	elems := func() []int {
		seq := []int{}
		en := m.Keys()
		for i := 0; i < lim() && en.HasMoreElements(); i++ {
			seq = append(seq, p.rank(en.NextString()))
		}
		return seq
	}
	o.Proj = func() (ks, vs []int) { ks = elems(); return ks, ks }
	o.Enum = map[string]func() *En{
		"k": func() *En {
			en := m.Keys()
			return &En{Kind: "k", More: en.HasMoreElements, Next: func() Ev { return Ev{"x": p.rank(en.NextString())} }}
		},
	}
	o.Ops["Put"] = func(op Op) Ev { return Ev{"rk": p.rank(m.Put(p.key(op.K)))} }
	o.Ops["Unipoint"] = func(op Op) Ev { return Ev{"rk": p.rank(m.Unipoint(p.key(op.K)))} }
	o.Ops["Contains"] = func(op Op) Ev { return Ev{"b": m.Contains(p.key(op.K))} }
	o.Ops["HasKey"] = func(op Op) Ev { return Ev{"b": m.HasKey(p.key(op.K))} }
	o.Ops["Remove"] = func(op Op) Ev { return Ev{"b": m.Remove(p.key(op.K))} }
	o.Ops["Clear"] = func(op Op) Ev { m.Clear(); return Ev{} }
	o.Ops["Keys"] = func(op Op) Ev { return Ev{"seq": elems()} }
	return o
}

// ---------------------------------------------------------------------- types

var Types = []TypeDef{
	{Name: "IntIntMap", HasCtor: true, New: func(r *rand.Rand, n int, c Ctor, po PoolOpt) func(Ctor) *Obj {
		p := newIntPool(intKeys(r, n, hIdent, capsFor(c.cap0(), po.Small), true, po))
		return func(c Ctor) *Obj { return intIntObj(p, c) }
	}},
	{Name: "IntKeyMap", HasCtor: true, HasFull: true, New: func(r *rand.Rand, n int, c Ctor, po PoolOpt) func(Ctor) *Obj {
		p := newIntPool(intKeys(r, n, hIntKey, capsFor(c.cap0(), po.Small), false, po))
		return func(c Ctor) *Obj { return intKeyObj(p, c) }
	}},
	{Name: "IntSet", IsSet: true, New: func(r *rand.Rand, n int, c Ctor, po PoolOpt) func(Ctor) *Obj {
		p := newIntPool(intKeys(r, n, hIdent, capsFor(hmap.DEFAULT_CAPACITY, po.Small), true, po))
		return func(Ctor) *Obj { return intSetObj(p) }
	}},
	{Name: "StringSet", IsSet: true, HasFull: true, New: func(r *rand.Rand, n int, c Ctor, po PoolOpt) func(Ctor) *Obj {
		p := newStrPool(strKeys(r, n, capsFor(hmap.DEFAULT_CAPACITY, po.Small), po))
		return func(Ctor) *Obj { return strSetObj(p) }
	}},
}
