package c12

// Plumbing of the C12 driver: key pools that force hash collisions, the
// watchdog that turns a self-deadlock into a recorded event, the session that
// writes one event per call.  It records; TLC judges.  Standard library only.

import (
	"fmt"
	"math/rand"
	"sort"
	"time"

	"verifharness/core"
)

type Ev = core.Ev

// Op is one abstract call.  Keys are ranks (1-based) in the history's pool.
type Op struct {
	Name  string
	K     int // key rank; for Swap / PutAllFrom: the handle of a held object (0 = the focus itself)
	V     int
	Dir   string
	Ks    []int
	Vs    []int
	Hold  bool // keep what the call returns / was given (slice, original of a round trip) and observe it again later
	Other *Obj // PutAllFrom: the argument object (set by the session from K)
}

func (o Op) String() string {
	switch {
	case o.Dir != "":
		return o.Name + ":" + o.Dir
	case o.Name == "PutAll":
		return fmt.Sprintf("%s:%v:%v", o.Name, o.Ks, o.Vs)
	}
	return fmt.Sprintf("%s:%d:%d", o.Name, o.K, o.V)
}

// OpArgs says which arguments an operation carries in its event.
var OpArgs = map[string]string{
	"Put": "kv", "Unipoint": "kv", "Add": "kv", "AddIfExist": "kv",
	"Get": "k", "ContainsKey": "k", "Contains": "k", "HasKey": "k", "Remove": "k",
	"ContainsValue": "v", "Sort": "dir", "PutAll": "ks",
	"Swap": "h", "PutAllFrom": "h",
}

// Obj is one real collection behind the uniform adapter.  Every function
// returns the PROJECTED result fields of the call.
type Obj struct {
	Type string
	Ctor string
	N    int // pool size
	EK   int // rank of the empty string in the pool (0: none)
	Set  bool
	Ops  map[string]func(Op) Ev
	Size func() int
	Proj func() (keys, vals []int) // full enumeration
	Pool []string                  // human readable, for the Reset event
	Hdr  Ev                        // configuration of the object the specification needs (Reset event)
	Raw  func() interface{}        // the real object (an argument of PutAllFrom on another object)
	// Enum opens a real enumerator of a kind the type offers ("k" keys, "v" values,
	// "e" entries) WITHOUT stepping it (stepped enumerations)
	Enum map[string]func() *En
	// set by a call, taken over by the session:
	LastArr *Arr // the slice the call returned / was given
	Forked  *Obj // the object that stays alive beside this one (RoundTrip with Hold: the map that was written)
}

// Arr is a slice a call returned or was given and that the harness (the caller)
// still has: read again later, and written into.
type Arr struct {
	Of    string             // "ret": returned by the call, "arg": given to it
	Kind  string             // "k": elements are keys (logged as ranks), "v": values
	Read  func() []int       // its content now (projected)
	Write func(i int, x int) // element i := key of rank x / value x
}

// En is one real enumerator in the harness's hands, stepped one call at a time.
type En struct {
	Kind string
	More func() bool // HasMoreElements()
	Next func() Ev   // the next element, projected: {"x": key rank / value} or {"p": [key rank, value]}
	Got  int         // elements taken so far
}

// EnumKinds: the kinds of enumerators the type offers, in a fixed order.
func (o *Obj) EnumKinds() []string {
	var out []string
	for _, k := range []string{"k", "v", "e"} {
		if o.Enum[k] != nil {
			out = append(out, k)
		}
	}
	return out
}

// PureRead: the calls that are not modifications in any sense -- lookups,
// membership, renderings, whole enumerations, the wire form.  Enumerators opened
// before such a call go on being stepped after it.  (Sort rebuilds the table and
// the wire round trip replaces the object: enumerators are dropped there, as at
// every modifying call, New excepted.)
var PureRead = map[string]bool{"Get": true, "ContainsKey": true, "Contains": true, "HasKey": true, "ContainsValue": true,
	"IsEmpty": true, "ToString": true, "ToFormatString": true, "Keys": true, "Values": true, "Entries": true,
	"KeyArray": true, "ValueArray": true, "ToBytes": true}

func (o *Obj) Has(name string) bool {
	if name == "Swap" {
		return true
	}
	_, ok := o.Ops[name]
	return ok
}

// Watchdog is how long a single call may take before it is recorded as a
// self-deadlock ("Timeout").  A call on these in-memory structures takes
// microseconds; the margin only has to beat scheduler stalls on a loaded box
// (a stall that does produce a Timeout does not reproduce in the triage re-run
// and ends as a machinery failure, never as a violation).
var Watchdog = 5 * time.Second

// hung counts the calls of (type, operation) that did not return in this
// process.  After two the operation is not issued on that type any more: the
// defect is already on record twice and every further history would only wait
// for the watchdog again.
var hung = map[string]int{}

const hungLimit = 2

// Guarded runs f on its own goroutine; it reports a recovered panic and
// whether f failed to return in time (the goroutine is abandoned then).
func Guarded(f func()) (panicMsg string, timedOut bool) {
	done := make(chan string, 1)
	go func() { done <- core.Guard(f) }()
	tm := time.NewTimer(Watchdog)
	defer tm.Stop()
	select {
	case msg := <-done:
		return msg, false
	case <-tm.C:
		return "", true
	}
}

// Session drives one object and writes its history.
type Session struct {
	T      *core.Trace
	O      *Obj // the focus: the object calls are made on
	Events int
	Dead   bool // a Panic/Timeout was recorded: the object is not used any more
	Full   bool // every event carries the full projection (graph replay)
	size   int
	since  int
	LastK  []int
	LastV  []int
	// several live objects of the same type over the same pool (PlainMap.tla held, arrs)
	Fac    func(Ctor) *Obj // constructs one more object
	Held   []*Obj          // handle h = Held[h-1]
	Arrs   []*Arr          // slices in the harness's hands
	LastHK [][]int         // last full enumeration of every held object
	LastHV [][]int
	// stepped enumerations (PlainMap.tla ens): the enumerators opened on the focus
	// since the last call that was not a pure read
	Ens   []*En
	Steps int // counter that varies kind and cut point of the enumerations around the calls of a graph replay
}

const maxEns = 3 // open enumerators at a time

// EnumOpen opens one more enumerator of the kind on the focus.
func (s *Session) EnumOpen(kind string) bool {
	if s.Dead || s.O.Enum[kind] == nil || len(s.Ens) >= maxEns {
		return false
	}
	var en *En
	var size int
	msg, to := Guarded(func() { en = s.O.Enum[kind](); size = s.O.Size() })
	if msg != "" || to {
		s.fail("EnumOpen:"+kind, msg, to)
		return false
	}
	s.Ens = append(s.Ens, en)
	s.size = size
	s.T.Emit(Ev{"ev": "EnumOpen", "kind": kind, "i": len(s.Ens), "size": size})
	s.Events++
	return true
}

// EnumMore asks enumerator i (1-based) whether it has more elements.
func (s *Session) EnumMore(i int) (more bool) {
	if s.Dead || i < 1 || i > len(s.Ens) {
		return false
	}
	var size int
	msg, to := Guarded(func() { more = s.Ens[i-1].More(); size = s.O.Size() })
	if msg != "" || to {
		s.fail(fmt.Sprintf("EnumMore:%d", i), msg, to)
		return false
	}
	s.T.Emit(Ev{"ev": "EnumMore", "i": i, "b": more, "size": size})
	s.Events++
	return more
}

// EnumNext takes the next element of enumerator i.  It is only asked for while the
// enumerator has yielded fewer elements than Size() (nothing was modified since it
// was opened): the harness never steps an enumerator beyond its end.
func (s *Session) EnumNext(i int) bool {
	if s.Dead || i < 1 || i > len(s.Ens) || s.Ens[i-1].Got >= s.size {
		return false
	}
	en := s.Ens[i-1]
	var res Ev
	var size int
	msg, to := Guarded(func() { res = en.Next(); size = s.O.Size() })
	if msg != "" || to {
		s.fail(fmt.Sprintf("EnumNext:%d", i), msg, to)
		return false
	}
	en.Got++
	ev := Ev{"ev": "EnumNext", "i": i, "size": size}
	for k, v := range res {
		ev[k] = v
	}
	s.T.Emit(ev)
	s.Events++
	return true
}

// EnumDrop: the harness lets go of all its enumerators (an event: the model forgets
// them too, the next one opened is number 1 again).
func (s *Session) EnumDrop() {
	if s.Dead || len(s.Ens) == 0 {
		return
	}
	s.Ens = nil
	s.T.Emit(Ev{"ev": "EnumDrop", "size": s.size})
	s.Events++
}

// EnumStep: one step of enumerator i the way a caller loops -- "more?" (mostly),
// then the element.  Reports whether the enumerator may still have something.
func (s *Session) EnumStep(i int, ask bool) bool {
	if i < 1 || i > len(s.Ens) || s.Dead {
		return false
	}
	if s.Ens[i-1].Got >= s.size { // at its end: it must say so (and go on saying so)
		s.EnumMore(i)
		return false
	}
	if ask && !s.EnumMore(i) {
		return false // it claims to be finished early: recorded, the specification disagrees
	}
	return s.EnumNext(i)
}

// EnumDrain steps enumerator i to its end.
func (s *Session) EnumDrain(i int) {
	for n := 0; n <= s.size+1 && s.EnumStep(i, n%3 != 1); n++ {
	}
}

const maxHeld = 3 // held objects per history
const maxArrs = 2 // held slices per history

func nz(a []int) []int {
	if a == nil {
		return []int{}
	}
	return a
}

// Start emits the Reset event of a new history on a fresh object.
func Start(t *core.Trace, gen string, cas int, o *Obj, full bool, extra Ev) *Session {
	s := &Session{T: t, O: o, Full: full}
	hdr := Ev{"t": o.Type, "ctor": o.Ctor, "n": o.N, "ek": o.EK, "pool": o.Pool}
	for k, v := range extra {
		hdr[k] = v
	}
	for k, v := range o.Hdr {
		hdr[k] = v
	}
	var size int
	msg, to := Guarded(func() { size = o.Size() })
	hdr["size"] = size
	t.Reset(gen, cas, hdr)
	s.Events++
	if msg != "" || to {
		s.fail("Reset", msg, to)
	}
	return s
}

func (s *Session) fail(op string, msg string, to bool) {
	s.Dead = true
	if to {
		s.T.Emit(Ev{"ev": "Timeout", "op": op})
	} else {
		if len(msg) > 200 {
			msg = msg[:200]
		}
		s.T.Emit(Ev{"ev": "Panic", "op": op, "msg": msg})
	}
	s.Events++
}

// Do performs one call, records it and returns the recorded event (nil when
// the object is dead, the operation is retired, or the call panicked / hung).
func (s *Session) Do(op Op) Ev {
	if s.Dead {
		return nil
	}
	f := s.O.Ops[op.Name]
	switch op.Name {
	case "Swap": // calls go to held object K from now on; the focus is held in its place
		if op.K < 1 || op.K > len(s.Held) {
			panic("c12: no held object to swap with")
		}
		f = func(op Op) Ev { s.O, s.Held[op.K-1] = s.Held[op.K-1], s.O; return Ev{} }
	case "PutAllFrom":
		if op.K < 0 || op.K > len(s.Held) {
			panic("c12: no held object to put from")
		}
		if op.Other = s.O; op.K > 0 {
			op.Other = s.Held[op.K-1]
		}
	}
	if f == nil {
		panic("no op " + op.Name + " on " + s.O.Type)
	}
	if op.Hold && ((op.Name == "RoundTrip" && len(s.Held) >= maxHeld) || (op.Name != "RoundTrip" && len(s.Arrs) >= maxArrs)) {
		op.Hold = false
	}
	obj := s.O
	obj.LastArr, obj.Forked = nil, nil
	hkey := s.O.Type + "." + op.Name
	if hung[hkey] >= hungLimit {
		return nil
	}
	if !PureRead[op.Name] {
		s.Ens = nil // the enumerators opened so far are not stepped across this call
	}
	// graph replay: every read-only call is made INSIDE a stepped enumeration -- an
	// enumerator (kinds in turn) is opened and stepped up to a cut point (all cut
	// points in turn) before the call and stepped to its end after it; now and then a
	// second enumerator runs along
	around := 0
	if s.Full && PureRead[op.Name] && len(s.Ens) == 0 {
		if kinds := s.O.EnumKinds(); len(kinds) > 0 {
			s.Steps++
			if s.EnumOpen(kinds[s.Steps%len(kinds)]) {
				around = 1
				if s.Steps%7 == 0 && s.EnumOpen(kinds[(s.Steps/7)%len(kinds)]) {
					around = 2
				}
				cut := (s.Steps / len(kinds)) % (s.size + 1)
				for n := 0; n < cut; n++ {
					s.EnumStep(1, n%2 == 0)
					if around == 2 && n%2 == 1 {
						s.EnumStep(2, true)
					}
				}
			}
		}
		if s.Dead {
			return nil
		}
	}
	ev := Ev{"ev": op.Name}
	switch OpArgs[op.Name] {
	case "kv":
		ev["k"], ev["v"] = op.K, op.V
	case "k":
		ev["k"] = op.K
	case "v":
		ev["v"] = op.V
	case "dir":
		ev["dir"] = op.Dir
	case "ks":
		ev["ks"], ev["vs"] = nz(op.Ks), nz(op.Vs)
	case "h":
		ev["h"] = op.K
	}
	var res Ev
	var size int
	var pk, pv []int
	var held Ev
	msg, to := Guarded(func() {
		res = f(op)
		size = s.O.Size()
		if op.Hold && obj.LastArr != nil {
			held = Ev{"ev": "Hold", "of": obj.LastArr.Of, "seq": nz(obj.LastArr.Read()), "size": size}
		}
		if s.Full {
			pk, pv = s.O.Proj()
		}
	})
	if msg != "" || to {
		if to {
			hung[hkey]++
		}
		s.fail(op.String(), msg, to)
		return nil
	}
	for k, v := range res {
		ev[k] = v
	}
	ev["size"] = size
	s.size = size
	if op.Hold && obj.Forked != nil {
		ev["hold"] = true
		s.Held = append(s.Held, obj.Forked)
	}
	s.T.Emit(ev)
	s.Events++
	s.since++
	if held != nil {
		s.Arrs = append(s.Arrs, obj.LastArr)
		s.T.Emit(held)
		s.Events++
	}
	for i := 1; i <= around; i++ {
		s.EnumDrain(i)
	}
	if around > 0 {
		s.EnumDrop()
	}
	if s.Full {
		s.emitProj(pk, pv, size)
		s.HProjNow()
	} else if s.since >= 16 {
		s.ProjNow()
	}
	return ev
}

// New constructs one more object of the type over the same key pool and holds it.
func (s *Session) New(c Ctor) bool {
	if s.Dead || s.Fac == nil || len(s.Held) >= maxHeld {
		return false
	}
	var o *Obj
	var size int
	msg, to := Guarded(func() { o = s.Fac(c); size = s.O.Size() })
	if msg != "" || to {
		s.fail("New", msg, to)
		return false
	}
	s.Held = append(s.Held, o)
	s.T.Emit(Ev{"ev": "New", "ctor": o.Ctor, "size": size})
	s.Events++
	if s.Full {
		s.HProjNow()
	}
	return true
}

// HProjNow records the full enumeration and Size() of every held object.
func (s *Session) HProjNow() {
	s.LastHK, s.LastHV = make([][]int, len(s.Held)), make([][]int, len(s.Held))
	for i, o := range s.Held {
		if s.Dead {
			return
		}
		var k, v []int
		var size, hsize int
		msg, to := Guarded(func() { k, v = o.Proj(); hsize = o.Size(); size = s.O.Size() })
		if msg != "" || to {
			s.fail(fmt.Sprintf("HProj:%d", i+1), msg, to)
			return
		}
		s.LastHK[i], s.LastHV[i] = k, v
		s.T.Emit(Ev{"ev": "HProj", "h": i + 1, "keys": nz(k), "vals": nz(v), "hsize": hsize, "size": size})
		s.Events++
	}
}

// ArrRead reads held slice a (1-based) again.
func (s *Session) ArrRead(a int) {
	if s.Dead || a < 1 || a > len(s.Arrs) {
		return
	}
	var seq []int
	var size int
	msg, to := Guarded(func() { seq = s.Arrs[a-1].Read(); size = s.O.Size() })
	if msg != "" || to {
		s.fail(fmt.Sprintf("Held:%d", a), msg, to)
		return
	}
	s.T.Emit(Ev{"ev": "Held", "a": a, "seq": nz(seq), "size": size})
	s.Events++
}

// ArrScribble overwrites every element of held slice a (the caller's own memory)
// with what elem draws, then records its content and the full enumerations: no
// object may have noticed.
func (s *Session) ArrScribble(a int, elem func(kind string) int) {
	if s.Dead || a < 1 || a > len(s.Arrs) {
		return
	}
	arr := s.Arrs[a-1]
	var seq []int
	var size int
	msg, to := Guarded(func() {
		for i := range arr.Read() {
			arr.Write(i, elem(arr.Kind))
		}
		seq = arr.Read()
		size = s.O.Size()
	})
	if msg != "" || to {
		s.fail(fmt.Sprintf("Scribble:%d", a), msg, to)
		return
	}
	s.T.Emit(Ev{"ev": "Scribble", "a": a, "seq": nz(seq), "size": size})
	s.Events++
	s.ProjNow()
}

func (s *Session) emitProj(k, v []int, size int) {
	s.LastK, s.LastV = k, v
	s.T.Emit(Ev{"ev": "Proj", "keys": nz(k), "vals": nz(v), "size": size})
	s.Events++
}

// ProjNow records the full enumeration of the object.
func (s *Session) ProjNow() {
	if s.Dead {
		return
	}
	s.since = 0
	var k, v []int
	var size int
	msg, to := Guarded(func() { k, v = s.O.Proj(); size = s.O.Size() })
	if msg != "" || to {
		s.fail("Proj", msg, to)
		return
	}
	s.emitProj(k, v, size)
	if !s.Full {
		s.HProjNow()
	}
}

// Less is the comparator family used for Sort, on ranks.
func Less(dir string, a, b int) bool {
	switch dir {
	case "asc":
		return a < b
	case "desc":
		return a > b
	default: // "par": odd ranks first, ascending inside each class
		if a%2 != b%2 {
			return a%2 > b%2
		}
		return a < b
	}
}

var Dirs = []string{"asc", "desc", "par"}

// ---------------------------------------------------------------- key pools

// growth is the sequence of table sizes a table of capacity c goes through.
func growth(c uint, n int) []uint {
	if c == 0 {
		c = 1
	}
	out := []uint{c}
	for len(out) < n {
		c = c*2 + 1
		out = append(out, c)
	}
	return out
}

// chainCaps picks the three consecutive table sizes (of the constructor's
// growth sequence) at which the pool should collide: the first one that is at
// least 30 buckets and its two successors.
func chainCaps(initCap int) []uint {
	g := growth(uint(initCap), 24)
	for i, c := range g {
		if c >= 30 {
			return g[i : i+3]
		}
	}
	return g[:3]
}

// pickKeys selects n distinct keys: the specials, the groups `full` (keys with
// identical full hashes, where the type's hash has such), a group that shares a bucket
// at caps[0] AND caps[1] (most of them also at caps[2]): chains that survive
// re-bucketing, a group that collides at caps[0] only (chains that re-bucketing
// splits), a few keys of bucket 0, the rest arbitrary.  hash replicates the
// bucket hash of the type under test; it only steers the generator.
// direct (optional) constructs the j-th key that collides with seed at all three
// sizes; budget bounds the search among the candidates.
func pickKeys[K comparable](r *rand.Rand, n int, cand func(i int) K, special []K, full [][]K, hash func(K) uint, caps []uint,
	direct func(seed K, j int) (K, bool), budget int) []K {
	have := map[K]bool{}
	var out []K
	add := func(k K) bool {
		if have[k] || len(out) >= n {
			return false
		}
		have[k] = true
		out = append(out, k)
		return true
	}
	sp := append([]K(nil), special...)
	r.Shuffle(len(sp), func(i, j int) { sp[i], sp[j] = sp[j], sp[i] })
	for i, k := range sp {
		if i < (n+2)/3 {
			add(k)
		}
	}
	// whole groups of different keys with IDENTICAL full hashes (one chain at every
	// table size; "same hash" and "same key" differ on these only)
	for _, g := range full {
		if len(out)+len(g) <= n*2/3 {
			for _, k := range g {
				add(k)
			}
		}
	}
	c0, c1, c2 := caps[0], caps[1], caps[2]
	seed := cand(r.Intn(1 << 20))
	t0, t1, t2 := hash(seed)%c0, hash(seed)%c1, hash(seed)%c2
	deep, shallow, zero := n/4, n/5, 4
	if deep < 3 {
		deep = 3
	}
	add(seed)
	nd, nd2, ns, nzr := 0, 0, 0, 0
	if direct != nil {
		for j := 1; j < 4*deep && nd < deep; j++ {
			if k, ok := direct(seed, j); ok && hash(k)%c0 == t0 && hash(k)%c1 == t1 && hash(k)%c2 == t2 && add(k) {
				nd++
			}
		}
	}
	for i := 0; i < budget && (nd < deep || ns < shallow || nzr < zero) && len(out) < n; i++ {
		k := cand(i)
		h := hash(k)
		switch {
		case h%c0 == t0 && h%c1 == t1 && (h%c2 == t2 || nd2 >= deep/2) && nd < deep:
			if add(k) {
				nd++
				if h%c2 != t2 {
					nd2++
				}
			}
		case h%c0 == t0 && ns < shallow:
			if add(k) {
				ns++
			}
		case h%c0 == 0 && nzr < zero:
			if add(k) {
				nzr++
			}
		}
	}
	for tries := 0; len(out) < n && tries < 50*n+1000; tries++ {
		add(cand(r.Intn(1 << 22)))
	}
	return out
}

// capsFor: the table sizes at which a pool should collide.  A small (3 key) pool
// never grows the table beyond its first sizes: the first three sizes >= 3.
func capsFor(initCap int, small bool) []uint {
	if !small {
		return chainCaps(initCap)
	}
	g := growth(uint(initCap), 8)
	for i, c := range g {
		if c >= 3 {
			return g[i : i+3]
		}
	}
	return g[:3]
}

// intPool is a sorted pool of int32 keys.
type intPool struct {
	keys []int32
	idx  map[int32]int
}

func newIntPool(ks []int32) *intPool {
	s := append([]int32(nil), ks...)
	sort.Slice(s, func(i, j int) bool { return s[i] < s[j] })
	p := &intPool{keys: s, idx: map[int32]int{}}
	for i, k := range s {
		p.idx[k] = i + 1
	}
	return p
}
func (p *intPool) key(rank int) int32 { return p.keys[rank-1] }
func (p *intPool) rank(k int32) int   { return p.idx[k] } // 0: not a pool key
func (p *intPool) describe() []string {
	var out []string
	for i, k := range p.keys {
		if i >= 12 {
			break
		}
		out = append(out, fmt.Sprint(k))
	}
	return out
}
func (p *intPool) reals() []int {
	out := make([]int, len(p.keys))
	for i, k := range p.keys {
		out[i] = int(k)
	}
	return out
}

type strPool struct {
	keys []string
	idx  map[string]int
}

func newStrPool(ks []string) *strPool {
	s := append([]string(nil), ks...)
	sort.Strings(s)
	p := &strPool{keys: s, idx: map[string]int{}}
	for i, k := range s {
		p.idx[k] = i + 1
	}
	return p
}
func (p *strPool) key(rank int) string { return p.keys[rank-1] }
func (p *strPool) rank(k string) int   { return p.idx[k] }
func (p *strPool) describe() []string {
	var out []string
	for i, k := range p.keys {
		if i >= 12 {
			break
		}
		if len(k) > 24 {
			k = k[:24] + "..."
		}
		out = append(out, k)
	}
	return out
}
