package c02

// Deep values ("nested to any depth"): chains of 64 .. 20000 containers of mixed
// kinds, bare or with siblings before and behind the entry that continues the
// descent.  A value that deep cannot be logged as nested JSON (TLC's JSON reader
// stops at 255 levels of brackets) and TLC's recursive operators slow down with the
// depth, so it is logged by its SPINE (ValueSpine!Spine): one record per level,
// outermost first.  The object read back is walked down the same positions with the
// public getters.  Events RTs (the spine is expanded to the value and judged like any
// other value; depth <= a few hundred) and RTd (judged level by level; any depth).

import (
	"fmt"
	"math/rand"

	gio "github.com/whatap/golib/io"
	"github.com/whatap/golib/lang/value"

	"verifharness/core"
	"verifharness/valgen"
)

type deepCase struct {
	depth int
	kinds int // 0 mixed, 1 lists, 2 maps, 3 int maps
	sibs  int // 0 none, 1 some scalars, 2 scalars and small containers at every level
}

// deepCases: the depths around every limit a reader or writer might have built in
// (2^6, 100, 2^7, 2^8, 1000, ...), each as a mixed chain; pure chains of each kind;
// chains with siblings (so that entering and LEAVING a level both happen many times).
func deepCases(thorough bool) []deepCase {
	var cs []deepCase
	for i, d := range []int{64, 99, 100, 101, 127, 128, 129, 255, 256, 257, 1000, 5000} {
		cs = append(cs, deepCase{d, 0, i % 3})
	}
	for k := 1; k <= 3; k++ {
		cs = append(cs, deepCase{130, k, 0}, deepCase{1001, k, 1})
	}
	if thorough {
		for _, d := range []int{65, 200, 300, 500, 512, 513, 1023, 1024, 1025, 2000, 4096, 10000, 20000} {
			sibs := d % 3
			if d > 3000 { // container siblings at every level of the longest chains only make the trace long
				sibs = d % 2
			}
			cs = append(cs, deepCase{d, 0, sibs})
		}
		for k := 1; k <= 3; k++ {
			cs = append(cs, deepCase{101, k, 2}, deepCase{260, k, 2}, deepCase{5001, k, 0})
		}
		for i := 0; i < 40; i++ {
			cs = append(cs, deepCase{-1, i % 4, i % 3}) // random depth 60..700
		}
	}
	return cs
}

var sibTypes = []byte{valgen.TNull, valgen.TBool, valgen.TDecimal, valgen.TInt, valgen.TLong, valgen.TFloat, valgen.TDouble, valgen.TText,
	valgen.TTextHash, valgen.TBlob, valgen.TIP4, valgen.TLongSummary, valgen.TList, valgen.TMap, valgen.TIntMap}

// deepNode builds the shape and returns, per level (outermost first), the position of
// the entry that continues the descent.
func deepNode(r *rand.Rand, dc deepCase) (*valgen.Node, []int) {
	depth := dc.depth
	if depth < 0 {
		depth = 60 + r.Intn(640)
	}
	o := &valgen.Opts{MaxWidth: 3, MaxBlob: 20, Budget: new(int), FullHash: true}
	sib := func() *valgen.Node {
		*o.Budget = 4
		if dc.sibs == 2 && r.Intn(2) == 0 {
			return valgen.Rand(r, 1, o)
		}
		return valgen.RandOf(r, sibTypes[r.Intn(len(sibTypes))], 0, o)
	}
	*o.Budget = 6
	n := valgen.Rand(r, 1, o) // the bottom value
	pos := make([]int, depth)
	for lv := depth - 1; lv >= 0; lv-- {
		kind := dc.kinds
		if kind == 0 {
			kind = 1 + r.Intn(3)
		}
		npre, npost := 0, 0
		if dc.sibs > 0 && r.Intn(3) == 0 {
			npre, npost = r.Intn(3), r.Intn(3)
		}
		pos[lv] = npre
		var c *valgen.Node
		switch kind {
		case 1:
			c = valgen.List()
			for i := 0; i < npre; i++ {
				c.Items = append(c.Items, sib())
			}
			c.Items = append(c.Items, n)
			for i := 0; i < npost; i++ {
				c.Items = append(c.Items, sib())
			}
		case 2:
			c = valgen.Map()
			for i := 0; i < npre; i++ {
				c.Put([]byte(fmt.Sprintf("a%d", i)), sib())
			}
			c.Put([]byte(fmt.Sprintf("d%d", lv%7)), n)
			for i := 0; i < npost; i++ {
				c.Put([]byte(fmt.Sprintf("z%d", i)), sib())
			}
		default:
			c = valgen.IntMap()
			for i := 0; i < npre; i++ {
				c.IPut(int32(-1-i), sib())
			}
			c.IPut(int32(lv%5)*101, n)
			for i := 0; i < npost; i++ {
				c.IPut(int32(7+i), sib())
			}
		}
		n = c
	}
	return n, pos
}

func projEntries(n *valgen.Node, from, to int) []interface{} {
	out := []interface{}{}
	for i := from; i < to; i++ {
		switch n.T {
		case valgen.TList:
			out = append(out, valgen.Proj(n.Items[i]))
		case valgen.TMap:
			out = append(out, []interface{}{core.Cp(n.Keys[i]), valgen.Proj(n.Items[i])})
		default:
			out = append(out, []interface{}{core.W8(int64(n.IKeys[i])), valgen.Proj(n.Items[i])})
		}
	}
	return out
}

// spineOf: the shape in the notation of ValueSpine!Spine.
func spineOf(n *valgen.Node, pos []int) (sp []interface{}, inner interface{}) {
	sp = []interface{}{}
	for _, p := range pos {
		var k core.Bytes = core.Bytes{}
		switch n.T {
		case valgen.TMap:
			k = core.Cp(n.Keys[p])
		case valgen.TIntMap:
			k = core.W8(int64(n.IKeys[p]))
		}
		sp = append(sp, core.Ev{"t": int(n.T), "k": k, "pre": projEntries(n, 0, p), "post": projEntries(n, p+1, len(n.Items))})
		n = n.Items[p]
	}
	return sp, valgen.Proj(n)
}

// spineOfReal walks a real object down the same positions with the public getters and
// enumerations.  Where the object does not go on (not a container, too few entries, a
// nil child) the spine ends and the bottom is a marker no value equals.
func spineOfReal(v value.Value, pos []int) (sp []interface{}, inner interface{}) {
	sp = []interface{}{}
	end := func(i int, why string) ([]interface{}, interface{}) {
		return sp, core.Ev{"t": -5, "v": fmt.Sprintf("level %d: %s", i+1, why)}
	}
	for i, p := range pos {
		if v == nil {
			return end(i, "nil")
		}
		t := v.GetValueType()
		var pre, post []interface{}
		pre, post = []interface{}{}, []interface{}{}
		var k core.Bytes = core.Bytes{}
		var next value.Value
		switch x := v.(type) {
		case *value.ListValue:
			if t != valgen.TList {
				return end(i, fmt.Sprintf("type code %d reported by %T", t, v))
			}
			if p >= x.Size() {
				return end(i, fmt.Sprintf("list of %d items", x.Size()))
			}
			for j := 0; j < x.Size(); j++ {
				switch {
				case j < p:
					pre = append(pre, valgen.ProjReal(x.Get(j)))
				case j > p:
					post = append(post, valgen.ProjReal(x.Get(j)))
				}
			}
			next = x.Get(p)
		case *value.MapValue:
			if t != valgen.TMap {
				return end(i, fmt.Sprintf("type code %d reported by %T", t, v))
			}
			var keys []string
			for en := x.Keys(); en.HasMoreElements(); {
				keys = append(keys, en.NextString())
			}
			if p >= len(keys) || len(keys) != x.Size() {
				return end(i, fmt.Sprintf("map enumerating %d keys, Size() = %d", len(keys), x.Size()))
			}
			for j, key := range keys {
				e := []interface{}{core.Str(key), nil}
				switch {
				case j < p:
					e[1] = valgen.ProjReal(x.Get(key))
					pre = append(pre, e)
				case j > p:
					e[1] = valgen.ProjReal(x.Get(key))
					post = append(post, e)
				}
			}
			k = core.Str(keys[p])
			next = x.Get(keys[p])
		case *value.IntMapValue:
			if t != valgen.TIntMap {
				return end(i, fmt.Sprintf("type code %d reported by %T", t, v))
			}
			var keys []int32
			for en := x.Keys(); en.HasMoreElements(); {
				keys = append(keys, en.NextInt())
			}
			if p >= len(keys) || len(keys) != x.Size() {
				return end(i, fmt.Sprintf("int map enumerating %d keys, Size() = %d", len(keys), x.Size()))
			}
			for j, key := range keys {
				e := []interface{}{core.W8(int64(key)), nil}
				switch {
				case j < p:
					e[1] = valgen.ProjReal(x.Get(key))
					pre = append(pre, e)
				case j > p:
					e[1] = valgen.ProjReal(x.Get(key))
					post = append(post, e)
				}
			}
			k = core.W8(int64(keys[p]))
			next = x.Get(keys[p])
		default:
			return end(i, fmt.Sprintf("%T is no container", v))
		}
		sp = append(sp, core.Ev{"t": int(t), "k": k, "pre": pre, "post": post})
		v = next
	}
	if v == nil {
		return end(len(pos), "nil")
	}
	if d := realDepth(v, 0); d > 6 {
		return end(len(pos), fmt.Sprintf("the bottom value is %d containers deep", d))
	}
	return sp, valgen.ProjReal(v)
}

// realDepth: container depth of a real value (stops counting at 8).
func realDepth(v value.Value, at int) int {
	if at > 8 || v == nil {
		return at
	}
	d := 0
	kid := func(c value.Value) {
		if x := realDepth(c, at+1) - at; x > d {
			d = x
		}
	}
	switch x := v.(type) {
	case *value.ListValue:
		d = 1
		for i := 0; i < x.Size(); i++ {
			kid(x.Get(i))
		}
	case *value.MapValue:
		d = 1
		for en := x.Keys(); en.HasMoreElements(); {
			kid(x.Get(en.NextString()))
		}
	case *value.IntMapValue:
		d = 1
		for en := x.Keys(); en.HasMoreElements(); {
			kid(x.Get(en.NextInt()))
		}
	}
	return at + d
}

// deepValue: one deep value written, read back and written again; events RTd and
// (depth <= expandMax) RTs, both from the same calls.
func deepValue(c *core.Ctx, t *core.Trace, cas int, dc deepCase, expandMax int) {
	r := c.Rng("deep", cas)
	n, pos := deepNode(r, dc)
	t.Reset("deep", cas, nil)
	sp, inner := spineOf(n, pos)
	ev := core.Ev{"sp": sp, "in": inner}
	where := fmt.Sprintf("%d containers deep", len(pos))
	var out []byte
	if msg := core.Guard(func() {
		v := valgen.Build(n)
		o := gio.NewDataOutputX()
		value.WriteValue(o, v)
		out = core.Cp(o.ToByteArray())
	}); msg != "" {
		t.Emit(core.Ev{"ev": "Panic", "at": "WriteValue", "value": where, "msg": msg})
		return
	}
	ev["out"] = core.Bytes(out)
	var back value.Value
	if msg := core.Guard(func() {
		in := gio.NewDataInputX(core.Cp(out))
		back = value.ReadValue(in)
		ev["rsp"], ev["rin"] = spineOfReal(back, pos)
		ev["avail"] = int(in.Available())
	}); msg != "" {
		t.Emit(core.Ev{"ev": "Panic", "at": "ReadValue", "value": where, "msg": msg})
		return
	}
	if msg := core.Guard(func() {
		o := gio.NewDataOutputX()
		value.WriteValue(o, back)
		ev["again"] = core.Cp(o.ToByteArray())
	}); msg != "" {
		t.Emit(core.Ev{"ev": "Panic", "at": "WriteValue(decoded)", "value": where, "msg": msg})
		return
	}
	ev["ev"] = "RTd"
	t.Emit(ev)
	if len(pos) <= expandMax {
		ev2 := core.Ev{}
		for k, v := range ev {
			ev2[k] = v
		}
		ev2["ev"] = "RTs"
		t.Emit(ev2)
	}
	c.Count(fmt.Sprintf("deep|%d|%d|%d|%d", len(pos), dc.kinds, dc.sibs, len(out)), true)
	if cas == 3 {
		c.Sample(core.Ev{"gen": "deep", "case": cas, "depth": len(pos), "bytes": len(out), "head": truncB(ev["out"])})
	}
}
