package c02

// gen "counts": every value type that carries an ELEMENT COUNT (the four array types with their
// 16-bit count cell, list / map / int map with their decimal count) with the count at and at
// both sides of every power of two up to the largest count the cell can represent (arrays:
// 32767), alone and inside a container with a sibling behind it.  Whatever an implementation
// derives from the count -- a byte size (count x element width), a capacity, a narrower
// integer -- changes its behaviour at such a boundary and nowhere else.  One value per history,
// a trace (and a TLC) of its own (c02_counts).

import (
	"fmt"
	"math/rand"

	"verifharness/core"
	"verifharness/valgen"
)

// countsUpTo: 0..5 and 2^k-1, 2^k, 2^k+1 for every power of two <= max, then max-1, max.
func countsUpTo(max int) []int {
	seen := map[int]bool{}
	var out []int
	add := func(n int) {
		if n >= 0 && n <= max && !seen[n] {
			seen[n] = true
			out = append(out, n)
		}
	}
	for n := 0; n <= 5; n++ {
		add(n)
	}
	for p := 8; p <= max+1; p *= 2 {
		add(p - 1)
		add(p)
		add(p + 1)
	}
	add(max - 1)
	add(max)
	return out
}

var countKinds = []byte{valgen.TIntArray, valgen.TLongArray, valgen.TFloatArray, valgen.TTextArray, valgen.TList, valgen.TMap, valgen.TIntMap}

func smallScalar(r *rand.Rand) *valgen.Node {
	switch r.Intn(6) {
	case 0:
		return valgen.Null()
	case 1:
		return valgen.Bool(r.Intn(2) == 0)
	case 2:
		return valgen.Decimal(valgen.RandInt64(r))
	case 3:
		return valgen.Int(int32(valgen.RandInt64(r)))
	case 4:
		return valgen.Text(valgen.RandText(r, r.Intn(3)))
	}
	return valgen.IntArray(int64(int32(valgen.RandInt64(r))))
}

// countedValue: a value of the kind with exactly n elements / items / entries.
func countedValue(r *rand.Rand, kind byte, n int) *valgen.Node {
	switch kind {
	case valgen.TIntArray:
		a := valgen.IntArray()
		a.Ints = make([]int64, n)
		for i := range a.Ints {
			a.Ints[i] = int64(int32(valgen.RandInt64(r)))
		}
		return a
	case valgen.TLongArray:
		a := valgen.LongArray()
		a.Ints = make([]int64, n)
		for i := range a.Ints {
			a.Ints[i] = valgen.RandInt64(r)
		}
		return a
	case valgen.TFloatArray:
		a := valgen.FloatArray()
		a.Fs = make([]uint32, n)
		for i := range a.Fs {
			a.Fs[i] = valgen.RandF32(r, false)
		}
		return a
	case valgen.TTextArray:
		a := valgen.TextArray()
		a.Texts = make([][]byte, n)
		for i := range a.Texts {
			a.Texts[i] = valgen.RandText(r, r.Intn(3))
		}
		return a
	case valgen.TList:
		l := valgen.List()
		for i := 0; i < n; i++ {
			l.Items = append(l.Items, smallScalar(r))
		}
		return l
	case valgen.TMap:
		m := valgen.Map()
		for _, i := range r.Perm(n) { // insertion order is not the order of the keys
			m.Put([]byte(fmt.Sprintf("%x", i*7+1)), smallScalar(r))
		}
		return m
	}
	m := valgen.IntMap()
	for _, i := range r.Perm(n) {
		k := int32(i*101 + 7) // one bucket of the initial table
		if i%3 == 2 {
			k = -k
		}
		m.IPut(k, smallScalar(r))
	}
	return m
}

func runCounts(c *core.Ctx) {
	if !c.WantGen("counts") {
		return
	}
	t := c.Trace("c02_counts", "Trace_Value")
	for ki, kind := range countKinds {
		max := 32767 // the 16-bit count cell of the arrays
		switch kind {
		case valgen.TList:
			max = c.Pick(4097, 32769)
		case valgen.TMap, valgen.TIntMap:
			max = c.Pick(1025, 4097)
		}
		for ci, n := range countsUpTo(max) {
			cas := ki*100 + ci
			if !c.Want("counts", cas) {
				continue
			}
			r := c.Rng("counts", cas)
			v := countedValue(r, kind, n)
			switch r.Intn(3) { // alone, or with a sibling behind it in a list / a map
			case 1:
				v = valgen.List(v, valgen.Text([]byte("behind")))
			case 2:
				v = valgen.Map().Put([]byte("a"), v).Put([]byte("b"), valgen.Int(int32(n)))
			}
			t.Reset("counts", cas, nil)
			ev := oneValue("RT", v)
			t.Emit(ev)
			c.Count(fmt.Sprintf("counts|%d|%d|%s", kind, n, v.Sig(3)), true)
			if ci == 20 && ki%3 == 0 {
				c.Sample(core.Ev{"gen": "counts", "case": cas, "kind": int(kind), "count": n, "bytes": truncB(ev["out"])})
			}
		}
	}
}
