package c02

// ONE value object over its life (spec/ValueObj.tla, Trace_ValueObj.tla): it is built,
// written, changed through the public mutators -- on the object itself or on a child
// obtained from it with the public getters, at any depth -- and written again.  The
// harness reports the calls and their arguments; what the content is at each write is
// derived by the specification, and every write is judged against THAT content.
//
// Events:
//	New  v                         the object as built through the constructors
//	Mut  path o                    one public mutator o called on the node reached from
//	                               the root by path (Get(i) / Get(key) at every step)
//	WO   out see ret avail again   WriteValue(fresh output, the object): the bytes; the
//	                               object as its getters show it; the value read back
//	                               from the bytes, what was left in the input, and the
//	                               re-encoding of the value read back
//	Adopt                          the program goes on with the object it read back
//	Lost path                      a getter returned nil on the way (no action)
//
// Generators:
//	mutenum  every chain of container kinds up to a depth x every level of it x every
//	         mutator that level has (and every kind of leaf at the bottom): write, one
//	         call, write
//	mut      random objects, 2..6 writes with 0..3 random calls at random depths between
//	         them; keys drawn from pools that collide in the table and in the full hash

import (
	"fmt"
	"math"
	"math/rand"
	"strings"

	gio "github.com/whatap/golib/io"
	"github.com/whatap/golib/lang/value"

	"verifharness/core"
	"verifharness/valgen"
)

type pstep struct {
	kind byte // valgen.TList / TMap / TIntMap
	i    int  // list index (0-based)
	k    string
	n    int32
}

func (s pstep) proj() interface{} {
	switch s.kind {
	case valgen.TList:
		return core.Ev{"i": s.i + 1}
	case valgen.TMap:
		return core.Ev{"k": core.Str(s.k)}
	}
	return core.Ev{"k": core.W8(int64(s.n))}
}

type mop struct {
	op string
	k  string // map key
	n  int32  // int map key
	i  int    // index (0-based)
	v  *valgen.Node
	s  string
	w  int64
	x  interface{} // element, already projected
	xe func(value.Value, int)
}

type objHist struct {
	t    *core.Trace
	live value.Value
	back value.Value
	ops  []string
	dead bool
}

func (h *objHist) panicEv(at, msg string) {
	h.t.Emit(core.Ev{"ev": "Panic", "at": at, "msg": msg})
	h.dead = true
}

func (h *objHist) create(n *valgen.Node) {
	if msg := core.Guard(func() { h.live = valgen.Build(n) }); msg != "" {
		h.panicEv("constructors", msg)
		return
	}
	h.t.Emit(core.Ev{"ev": "New", "v": valgen.Proj(n)})
}

func (h *objHist) write() {
	if h.dead {
		return
	}
	ev := core.Ev{"ev": "WO"}
	var out []byte
	if msg := core.Guard(func() {
		o := gio.NewDataOutputX()
		value.WriteValue(o, h.live)
		out = core.Cp(o.ToByteArray())
		ev["see"] = valgen.ProjReal(h.live)
	}); msg != "" {
		h.panicEv("WriteValue", msg)
		return
	}
	ev["out"] = core.Bytes(out)
	if msg := core.Guard(func() {
		in := gio.NewDataInputX(core.Cp(out))
		h.back = value.ReadValue(in)
		ev["ret"] = valgen.ProjReal(h.back)
		ev["avail"] = int(in.Available())
	}); msg != "" {
		h.panicEv("ReadValue", msg)
		return
	}
	if msg := core.Guard(func() {
		o := gio.NewDataOutputX()
		value.WriteValue(o, h.back)
		ev["again"] = core.Cp(o.ToByteArray())
	}); msg != "" {
		h.panicEv("WriteValue(decoded)", msg)
		return
	}
	h.t.Emit(ev)
}

func (h *objHist) adopt() {
	if h.dead || h.back == nil {
		return
	}
	h.live = h.back
	h.t.Emit(core.Ev{"ev": "Adopt"})
	h.ops = append(h.ops, "Adopt")
}

func projPath(path []pstep) []interface{} {
	out := []interface{}{}
	for _, s := range path {
		out = append(out, s.proj())
	}
	return out
}

// resolve walks from the root with the public getters.
func resolve(root value.Value, path []pstep) value.Value {
	cur := root
	for _, s := range path {
		if cur == nil {
			return nil
		}
		switch x := cur.(type) {
		case *value.ListValue:
			if s.kind != valgen.TList || s.i >= x.Size() {
				return nil
			}
			cur = x.Get(s.i)
		case *value.MapValue:
			if s.kind != valgen.TMap {
				return nil
			}
			cur = x.Get(s.k)
		case *value.IntMapValue:
			if s.kind != valgen.TIntMap {
				return nil
			}
			cur = x.Get(s.n)
		default:
			return nil
		}
	}
	return cur
}

// bodyOf: the bytes a value of this content has behind its type code (input of Read).
func bodyOf(n *valgen.Node) *gio.DataInputX {
	o := gio.NewDataOutputX()
	valgen.Build(n).Write(o)
	return gio.NewDataInputX(core.Cp(o.ToByteArray()))
}

// assign copies the exported payload field(s) of w (a freshly built value) to v.
func assign(v, w value.Value) bool {
	switch x := v.(type) {
	case *value.BoolValue:
		x.Val = w.(*value.BoolValue).Val
	case *value.DecimalValue:
		x.Val = w.(*value.DecimalValue).Val
	case *value.IntValue:
		x.Val = w.(*value.IntValue).Val
	case *value.LongValue:
		x.Val = w.(*value.LongValue).Val
	case *value.TextHashValue:
		x.Val = w.(*value.TextHashValue).Val
	case *value.FloatValue:
		x.Val = w.(*value.FloatValue).Val
	case *value.DoubleValue:
		x.Val = w.(*value.DoubleValue).Val
	case *value.TextValue:
		x.Val = w.(*value.TextValue).Val
	case *value.BlobValue:
		x.Val = w.(*value.BlobValue).Val
	case *value.IP4Value:
		x.Val = w.(*value.IP4Value).Val
	case *value.DoubleSummary:
		y := w.(*value.DoubleSummary)
		x.Sum, x.Count, x.Min, x.Max = y.Sum, y.Count, y.Min, y.Max
	case *value.LongSummary:
		y := w.(*value.LongSummary)
		x.Sum, x.Count, x.Min, x.Max = y.Sum, y.Count, y.Min, y.Max
	case *value.IntArray:
		x.Val = w.(*value.IntArray).Val
	case *value.LongArray:
		x.Val = w.(*value.LongArray).Val
	case *value.FloatArray:
		x.Val = w.(*value.FloatArray).Val
	case *value.TextArray:
		x.Val = w.(*value.TextArray).Val
	case *value.NullValue:
	default:
		return false
	}
	return true
}

// call makes the call on the real node; "" or why it could not be made (a harness error).
func call(target value.Value, o *mop) string {
	bad := fmt.Sprintf("%s on %T", o.op, target)
	switch x := target.(type) {
	case *value.ListValue:
		switch o.op {
		case "Add":
			x.Add(valgen.Build(o.v))
		case "AddString":
			x.AddString(o.s)
		case "AddLong":
			x.AddLong(o.w)
		case "Set":
			x.Set(o.i, valgen.Build(o.v))
		case "Clear":
			x.Clear()
		case "Read":
			x.Read(bodyOf(o.v))
		default:
			return bad
		}
	case *value.MapValue:
		switch o.op {
		case "Put":
			x.Put(o.k, valgen.Build(o.v))
		case "PutString":
			x.PutString(o.k, o.s)
		case "PutLong":
			x.PutLong(o.k, o.w)
		case "PutAll":
			x.PutAll(valgen.Build(o.v).(*value.MapValue))
		case "NewList":
			x.NewList(o.k)
		case "Clear":
			x.Clear()
		case "Read":
			x.Read(bodyOf(o.v))
		default:
			return bad
		}
	case *value.IntMapValue:
		switch o.op {
		case "Put":
			x.Put(o.n, valgen.Build(o.v))
		case "PutString":
			x.PutString(o.n, o.s)
		case "PutLong":
			x.PutLong(o.n, o.w)
		case "NewList":
			x.NewList(o.n)
		case "Clear":
			x.Clear()
		case "Read":
			x.Read(bodyOf(o.v))
		default:
			return bad
		}
	default:
		switch o.op {
		case "SetVal":
			if !assign(target, valgen.Build(o.v)) {
				return bad
			}
		case "Read":
			target.Read(bodyOf(o.v))
		case "SetElem":
			o.xe(target, o.i)
		default:
			return bad
		}
	}
	return ""
}

func (o *mop) proj(target value.Value) core.Ev {
	e := core.Ev{"op": o.op}
	_, isInt := target.(*value.IntMapValue)
	key := func() {
		if isInt {
			e["k"] = core.W8(int64(o.n))
		} else {
			e["k"] = core.Str(o.k)
		}
	}
	switch o.op {
	case "Add", "PutAll", "Read", "SetVal":
		e["v"] = valgen.Proj(o.v)
	case "AddString":
		e["s"] = core.Str(o.s)
	case "AddLong":
		e["w"] = core.W8(o.w)
	case "Set":
		e["i"], e["v"] = o.i+1, valgen.Proj(o.v)
	case "Put":
		key()
		e["v"] = valgen.Proj(o.v)
	case "PutString":
		key()
		e["s"] = core.Str(o.s)
	case "PutLong":
		key()
		e["w"] = core.W8(o.w)
	case "NewList":
		key()
	case "SetElem":
		e["i"], e["x"] = o.i+1, o.x
	}
	return e
}

// mut makes one call on the node at path and reports it.
func (h *objHist) mut(path []pstep, o *mop) {
	if h.dead {
		return
	}
	var target value.Value
	if msg := core.Guard(func() { target = resolve(h.live, path) }); msg != "" {
		h.panicEv("getters", msg)
		return
	}
	if target == nil {
		h.t.Emit(core.Ev{"ev": "Lost", "path": projPath(path)})
		h.dead = true
		return
	}
	ev := core.Ev{"ev": "Mut", "path": projPath(path), "o": o.proj(target)}
	var why string
	if msg := core.Guard(func() { why = call(target, o) }); msg != "" {
		h.panicEv(o.op, msg)
		return
	}
	if why != "" {
		panic("c02 harness: " + why)
	}
	h.t.Emit(ev)
	h.ops = append(h.ops, fmt.Sprintf("%d.%s", len(path), o.op))
}

// ---- what a node offers -----------------------------------------------------------

type objEnv struct {
	keys  []string
	ikeys []int32
	o     *valgen.Opts
}

func newEnv(r *rand.Rand) *objEnv {
	e := &objEnv{keys: []string{"", "k1", "k2"}, ikeys: []int32{0, -1, 5, 106, 207, math.MinInt32, math.MaxInt32}}
	if gs := valgen.FullHashGroups(); len(gs) > 0 {
		e.keys = append(e.keys, gs[r.Intn(len(gs))]...)
		if r.Intn(2) == 0 {
			e.keys = append(e.keys, gs[r.Intn(len(gs))][:2]...)
		}
	}
	e.o = &valgen.Opts{MaxWidth: 3, MaxBlob: 12, Budget: new(int), FullHash: true}
	return e
}

func (e *objEnv) val(r *rand.Rand, depth int) *valgen.Node {
	*e.o.Budget = 5
	return valgen.Rand(r, depth, e.o)
}

func kidsOf(v value.Value) []pstep {
	var out []pstep
	switch x := v.(type) {
	case *value.ListValue:
		for i := 0; i < x.Size(); i++ {
			out = append(out, pstep{kind: valgen.TList, i: i})
		}
	case *value.MapValue:
		for en := x.Keys(); en.HasMoreElements(); {
			out = append(out, pstep{kind: valgen.TMap, k: en.NextString()})
		}
	case *value.IntMapValue:
		for en := x.Keys(); en.HasMoreElements(); {
			out = append(out, pstep{kind: valgen.TIntMap, n: en.NextInt()})
		}
	}
	return out
}

var elemInts = []int64{0, 1, -1, math.MaxInt32, math.MinInt32, math.MaxInt64, math.MinInt64, 255}

// elemOp: SetElem on a value with an exported slice, nil if it has none / it is empty.
func elemOp(r *rand.Rand, v value.Value) *mop {
	o := &mop{op: "SetElem"}
	switch x := v.(type) {
	case *value.BlobValue:
		if len(x.Val) == 0 {
			return nil
		}
		b := byte(r.Intn(256))
		o.i, o.x = r.Intn(len(x.Val)), int(b)
		o.xe = func(t value.Value, i int) { t.(*value.BlobValue).Val[i] = b }
	case *value.IP4Value:
		if len(x.Val) == 0 {
			return nil
		}
		b := byte(r.Intn(256))
		o.i, o.x = r.Intn(len(x.Val)), int(b)
		o.xe = func(t value.Value, i int) { t.(*value.IP4Value).Val[i] = b }
	case *value.IntArray:
		if len(x.Val) == 0 {
			return nil
		}
		n := int32(elemInts[r.Intn(len(elemInts))])
		o.i, o.x = r.Intn(len(x.Val)), core.W8(int64(n))
		o.xe = func(t value.Value, i int) { t.(*value.IntArray).Val[i] = n }
	case *value.LongArray:
		if len(x.Val) == 0 {
			return nil
		}
		n := elemInts[r.Intn(len(elemInts))]
		o.i, o.x = r.Intn(len(x.Val)), core.W8(n)
		o.xe = func(t value.Value, i int) { t.(*value.LongArray).Val[i] = n }
	case *value.FloatArray:
		if len(x.Val) == 0 {
			return nil
		}
		bits := valgen.RandF32(r, false)
		o.i, o.x = r.Intn(len(x.Val)), core.W4(bits)
		o.xe = func(t value.Value, i int) { t.(*value.FloatArray).Val[i] = math.Float32frombits(bits) }
	case *value.TextArray:
		if len(x.Val) == 0 {
			return nil
		}
		s := string(valgen.RandText(r, r.Intn(5)))
		o.i, o.x = r.Intn(len(x.Val)), core.Str(s)
		o.xe = func(t value.Value, i int) { t.(*value.TextArray).Val[i] = s }
	default:
		return nil
	}
	return o
}

// opsOf: one instance of every mutator the node has (arguments drawn from the
// environment; keys both new and present).
func opsOf(r *rand.Rand, v value.Value, e *objEnv) []*mop {
	kids := kidsOf(v)
	txt := func() string { return string(valgen.RandText(r, r.Intn(6))) }
	num := func() int64 { return valgen.RandInt64(r) }
	var ops []*mop
	switch x := v.(type) {
	case *value.ListValue:
		ops = append(ops, &mop{op: "Add", v: e.val(r, 1)}, &mop{op: "AddString", s: txt()}, &mop{op: "AddLong", w: num()}, &mop{op: "Clear"})
		for _, k := range kids {
			ops = append(ops, &mop{op: "Set", i: k.i, v: e.val(r, 1)})
		}
		if x.Size() == 0 {
			ops = append(ops, &mop{op: "Read", v: valgen.RandOf(r, valgen.TList, 1, e.o)})
		}
	case *value.MapValue:
		present := map[string]bool{}
		for _, k := range kids {
			present[k.k] = true
		}
		var fresh []string
		for _, k := range e.keys {
			if !present[k] {
				fresh = append(fresh, k)
			}
		}
		pick := func(old bool) (string, bool) {
			if old && len(kids) > 0 {
				return kids[r.Intn(len(kids))].k, true
			}
			if len(fresh) > 0 {
				return fresh[r.Intn(len(fresh))], true
			}
			return "", false
		}
		for _, old := range []bool{false, true} {
			if k, ok := pick(old); ok {
				ops = append(ops, &mop{op: "Put", k: k, v: e.val(r, 1)}, &mop{op: "NewList", k: k})
			}
			if k, ok := pick(old); ok {
				ops = append(ops, &mop{op: "PutString", k: k, s: txt()})
			}
			if k, ok := pick(old); ok {
				ops = append(ops, &mop{op: "PutLong", k: k, w: num()})
			}
		}
		// PutAll: a map over present and new keys
		pa := valgen.Map()
		for _, old := range []bool{true, false, false} {
			if k, ok := pick(old); ok && !hasKey(pa, k) {
				pa.Put([]byte(k), e.val(r, 1))
			}
		}
		ops = append(ops, &mop{op: "PutAll", v: pa}, &mop{op: "Clear"})
		if x.Size() == 0 {
			*e.o.Budget = 5
			ops = append(ops, &mop{op: "Read", v: valgen.RandOf(r, valgen.TMap, 1, e.o)})
		}
	case *value.IntMapValue:
		pick := func(old bool) int32 {
			if old && len(kids) > 0 {
				return kids[r.Intn(len(kids))].n
			}
			return e.ikeys[r.Intn(len(e.ikeys))]
		}
		for _, old := range []bool{false, true} {
			ops = append(ops, &mop{op: "Put", n: pick(old), v: e.val(r, 1)}, &mop{op: "PutString", n: pick(old), s: txt()},
				&mop{op: "PutLong", n: pick(old), w: num()}, &mop{op: "NewList", n: pick(old)})
		}
		ops = append(ops, &mop{op: "Clear"})
		if x.Size() == 0 {
			*e.o.Budget = 5
			ops = append(ops, &mop{op: "Read", v: valgen.RandOf(r, valgen.TIntMap, 1, e.o)})
		}
	default:
		t := v.GetValueType()
		*e.o.Budget = 5
		ops = append(ops, &mop{op: "SetVal", v: valgen.RandOf(r, t, 0, e.o)}, &mop{op: "Read", v: valgen.RandOf(r, t, 0, e.o)})
		if o := elemOp(r, v); o != nil {
			ops = append(ops, o)
		}
	}
	return ops
}

// ---- generators -------------------------------------------------------------------

var leafTypes = []byte{valgen.TText, valgen.TDecimal, valgen.TBlob, valgen.TIP4, valgen.TIntArray, valgen.TTextArray, valgen.TBool,
	valgen.TDouble, valgen.TLongSummary, valgen.TFloatArray, valgen.TLongArray, valgen.TInt, valgen.TLong, valgen.TFloat,
	valgen.TTextHash, valgen.TDoubleSummary, valgen.TNull}

// chainOf: containers of the given kinds, outermost first, each holding a filler entry
// and the next level; at the bottom the leaf.  Returns the root and the path to every level.
func chainOf(kinds []byte, leaf *valgen.Node, e *objEnv) (*valgen.Node, [][]pstep) {
	n := leaf
	steps := make([]pstep, len(kinds))
	for lv := len(kinds) - 1; lv >= 0; lv-- {
		switch kinds[lv] {
		case valgen.TList:
			n = valgen.List(valgen.Text([]byte("f")), n)
			steps[lv] = pstep{kind: valgen.TList, i: 1}
		case valgen.TMap:
			k := e.keys[(lv+3)%len(e.keys)]
			f := e.keys[(lv+4)%len(e.keys)]
			n = valgen.Map().Put([]byte(f), valgen.Decimal(int64(lv))).Put([]byte(k), n)
			steps[lv] = pstep{kind: valgen.TMap, k: k}
		default:
			n = valgen.IntMap().IPut(5, valgen.Bool(true)).IPut(106, n)
			steps[lv] = pstep{kind: valgen.TIntMap, n: 106}
		}
	}
	paths := make([][]pstep, len(kinds)+1)
	for lv := 0; lv <= len(kinds); lv++ {
		paths[lv] = steps[:lv]
	}
	return n, paths
}

// mutEnum: chain x level x mutator; every history is: build, write, ONE call, write.
// Case numbers are dense over (chain, level, mutator index); the mutators of a level are
// re-drawn from the case's own source, so a case is reproducible alone.
func mutEnum(c *core.Ctx, t *core.Trace) {
	maxd := c.Pick(2, 3)
	kindsAll := []byte{valgen.TList, valgen.TMap, valgen.TIntMap}
	var chains [][]byte
	for d := 1; d <= maxd; d++ {
		n := 1
		for i := 0; i < d; i++ {
			n *= 3
		}
		for x := 0; x < n; x++ {
			ks := make([]byte, d)
			for i, y := 0, x; i < d; i, y = i+1, y/3 {
				ks[i] = kindsAll[y%3]
			}
			chains = append(chains, ks)
		}
	}
	const slots = 40 // mutators per level at most (case numbering)
	for ci, ks := range chains {
		for lv := 0; lv <= len(ks); lv++ {
			leaves := []byte{valgen.TText}
			if lv == len(ks) {
				leaves = leafTypes
			}
			for li, lt := range leaves {
				for oi := 0; oi < slots; oi++ {
					cas := ((ci*4+lv)*len(leafTypes)+li)*slots + oi
					if !c.Want("mutenum", cas) {
						continue
					}
					r := c.Rng("mutenum", ci*1000+lv*100+li)
					e := newEnv(r)
					*e.o.Budget = 5
					leaf := valgen.RandOf(r, lt, 0, e.o)
					if lt == valgen.TBlob || lt == valgen.TText {
						leaf.S = valgen.RandBytes(r, 1+r.Intn(5))
						if lt == valgen.TText {
							leaf.S = valgen.RandText(r, 1+r.Intn(5))
						}
					}
					for _, at := range []byte{valgen.TIntArray, valgen.TLongArray} {
						if lt == at && len(leaf.Ints) == 0 {
							leaf.Ints = []int64{1, -2}
						}
					}
					if lt == valgen.TFloatArray && len(leaf.Fs) == 0 {
						leaf.Fs = []uint32{0x3f800000}
					}
					if lt == valgen.TTextArray && len(leaf.Texts) == 0 {
						leaf.Texts = [][]byte{[]byte("a"), {}}
					}
					root, paths := chainOf(ks, leaf, e)
					h := &objHist{t: t}
					probe := valgen.Build(root)
					ops := opsOf(r, resolve(probe, paths[lv]), e)
					if oi >= len(ops) {
						break
					}
					t.Reset("mutenum", cas, nil)
					h.create(root)
					h.write()
					h.mut(paths[lv], ops[oi])
					h.write()
					h.write() // and once more without a call in between
					t.Emit(core.Ev{"ev": "End"})
					c.Count(fmt.Sprintf("mutenum|%v|%d|%d|%s", ks, lv, lt, ops[oi].op), true)
					if cas%997 == 0 {
						c.Sample(core.Ev{"gen": "mutenum", "case": cas, "chain": fmt.Sprint(ks), "level": lv, "call": ops[oi].op})
					}
				}
			}
		}
	}
}

// mutRand: random objects, several writes, random calls at random depths in between.
func mutRand(c *core.Ctx, t *core.Trace) {
	nh := c.Pick(260, 3000)
	for cas := 0; cas < nh; cas++ {
		if !c.Want("mut", cas) {
			continue
		}
		r := c.Rng("mut", cas)
		e := newEnv(r)
		*e.o.Budget = 8 + r.Intn(12)
		var root *valgen.Node
		if r.Intn(12) == 0 {
			root = valgen.Rand(r, 0, e.o)
		} else {
			root = valgen.RandOf(r, []byte{valgen.TList, valgen.TMap, valgen.TIntMap}[r.Intn(3)], 1+r.Intn(3), e.o)
			if r.Intn(3) == 0 {
				root = valgen.Chain(r, 1+r.Intn(3), root)
			}
		}
		h := &objHist{t: t}
		t.Reset("mut", cas, nil)
		h.create(root)
		if r.Intn(6) != 0 { // mostly: the first call comes after a first write
			h.write()
		}
		for round, rounds := 0, 1+r.Intn(5); round < rounds && !h.dead; round++ {
			for k := r.Intn(4); k > 0 && !h.dead; k-- {
				// walk down: prefer the depth, so that calls land on nested nodes
				var path []pstep
				cur := h.live
				for {
					kids := kidsOf(cur)
					if len(kids) == 0 || r.Intn(4) == 0 {
						break
					}
					s := kids[r.Intn(len(kids))]
					next := resolve(cur, []pstep{s})
					if next == nil {
						break
					}
					path = append(path, s)
					cur = next
				}
				// read-only calls before and behind the call: they leave the content alone
				if r.Intn(3) == 0 {
					ls := looksOf(r, h.live, cur, e)
					h.look(path, ls[r.Intn(len(ls))])
				}
				ops := opsOf(r, cur, e)
				h.mut(path, ops[r.Intn(len(ops))])
				if r.Intn(3) == 0 && !h.dead {
					if cur = resolve(h.live, path); cur != nil {
						ls := looksOf(r, h.live, cur, e)
						h.look(path, ls[r.Intn(len(ls))])
					}
				}
			}
			// ... and between two writes without any mutator
			for k := r.Intn(3); k > 0 && !h.dead; k-- {
				var paths [][]pstep
				budget := 40
				allPaths(h.live, nil, &paths, &budget)
				p := paths[r.Intn(len(paths))]
				if cur := resolve(h.live, p); cur != nil {
					ls := looksOf(r, h.live, cur, e)
					h.look(p, ls[r.Intn(len(ls))])
				}
			}
			h.write()
			if r.Intn(5) == 0 {
				h.adopt()
			}
		}
		t.Emit(core.Ev{"ev": "End"})
		c.Count("mut|"+root.Sig(6)+"|"+strings.Join(h.ops, ","), len(h.ops) > 0)
		if cas < 2 {
			c.Sample(core.Ev{"gen": "mut", "case": cas, "object": trunc(valgen.Proj(root)), "calls": strings.Join(h.ops, ",")})
		}
	}
}
