package c02

// Read-only calls on the live object (event "Look", spec/ValueObj.tla Look): every public
// method of the value types that is not a mutator -- type code, sizes, membership, getters,
// key enumeration, textual forms, Write / WriteValue of a node into a fresh output, the
// summary getters, Equals / CompareTo against the node itself, another node of the same
// object, a copy, a copy with its entries in another order and an unrelated value.  The
// harness reports the call, its arguments and its result; that the content -- incl. the
// order of entries -- is what it was is judged at the following writes.
//
// Generators:
//	lookenum  every chain of container kinds x every level: build, write, then every read-only
//	          method that level has, each followed by a write (trace c02_look)
//	mut       (obj.go) random read-only calls between the random mutator calls and writes

import (
	"fmt"
	"math"
	"math/rand"

	gio "github.com/whatap/golib/io"
	"github.com/whatap/golib/lang/value"

	"verifharness/core"
	"verifharness/valgen"
)

type lop struct {
	op   string // spec name
	name string // real method (for "Other" and the counters)
	i    int
	k    string
	n    int32
	with string       // Equals / CompareTo: self | node | copy | reversed | value
	p2   []pstep      // with = node
	v    *valgen.Node // with = value
}

func sign(x int) int {
	if x < 0 {
		return -1
	}
	if x > 0 {
		return 1
	}
	return 0
}

func copyOf(v value.Value) value.Value {
	o := gio.NewDataOutputX()
	value.WriteValue(o, v)
	return value.ReadValue(gio.NewDataInputX(core.Cp(o.ToByteArray())))
}

// reversedOf: a copy whose entries / items were inserted in the opposite order.
func reversedOf(v value.Value) value.Value {
	c := copyOf(v)
	switch x := c.(type) {
	case *value.MapValue:
		var ks []string
		for en := x.Keys(); en.HasMoreElements(); {
			ks = append(ks, en.NextString())
		}
		m := value.NewMapValue()
		for j := len(ks) - 1; j >= 0; j-- {
			m.Put(ks[j], x.Get(ks[j]))
		}
		return m
	case *value.IntMapValue:
		var ks []int32
		for en := x.Keys(); en.HasMoreElements(); {
			ks = append(ks, en.NextInt())
		}
		m := value.NewIntMapValue()
		for j := len(ks) - 1; j >= 0; j-- {
			m.Put(ks[j], x.Get(ks[j]))
		}
		return m
	case *value.ListValue:
		l := value.NewListValue(nil)
		for j := x.Size() - 1; j >= 0; j-- {
			l.Add(x.Get(j))
		}
		return l
	}
	return c
}

func child(r interface{}) interface{} {
	if v, ok := r.(value.Value); ok && v != nil {
		return core.Ev{"v": valgen.ProjReal(v)}
	}
	return core.Ev{"nil": true}
}

// doLook makes the call on the real node and returns the event's "o" record.
func doLook(root, target value.Value, o *lop) (core.Ev, string) {
	e := core.Ev{"op": o.op}
	bad := fmt.Sprintf("%s/%s on %T", o.op, o.name, target)
	switch o.op {
	case "GetValueType":
		e["r"] = int(target.GetValueType())
		return e, ""
	case "Write":
		out := gio.NewDataOutputX()
		target.Write(out)
		e["r"] = core.Cp(out.ToByteArray())
		return e, ""
	case "WriteValue":
		out := gio.NewDataOutputX()
		if im, ok := target.(*value.IntMapValue); ok && o.name == "IntMapValue.WriteValue" {
			im.WriteValue(out)
		} else {
			value.WriteValue(out, target)
		}
		e["r"] = core.Cp(out.ToByteArray())
		return e, ""
	case "Equals", "CompareTo":
		var other value.Value
		switch o.with {
		case "self":
			other = target
			e["with"] = "self"
		case "node":
			other = resolve(root, o.p2)
			if other == nil {
				return nil, bad + ": second path lost"
			}
			e["with"], e["path2"] = "node", projPath(o.p2)
		case "copy":
			other = copyOf(target)
		case "reversed":
			other = reversedOf(target)
		default:
			other = valgen.Build(o.v)
		}
		if _, has := e["with"]; !has {
			e["with"], e["arg"] = "value", valgen.ProjReal(other)
			if o.with == "value" {
				e["arg"] = valgen.Proj(o.v)
			}
		}
		if o.op == "Equals" {
			e["r"] = target.Equals(other)
		} else {
			e["r"] = sign(target.CompareTo(other))
		}
		if e["with"] == "value" {
			e["after"] = valgen.ProjReal(other)
		}
		return e, ""
	}
	switch x := target.(type) {
	case *value.ListValue:
		e["i"] = o.i + 1
		switch o.op {
		case "Size":
			delete(e, "i")
			e["r"] = x.Size()
		case "Get":
			e["r"] = child(x.Get(o.i))
		case "GetString":
			e["r"] = core.Str(x.GetString(o.i))
		case "GetBool":
			e["r"] = x.GetBool(o.i)
		default:
			return nil, bad
		}
	case *value.MapValue:
		e["k"] = core.Str(o.k)
		switch o.op {
		case "Size":
			delete(e, "k")
			e["r"] = x.Size()
		case "IsEmpty":
			delete(e, "k")
			e["r"] = x.IsEmpty()
		case "Keys":
			delete(e, "k")
			ks := []interface{}{}
			for en := x.Keys(); en.HasMoreElements(); {
				ks = append(ks, core.Str(en.NextString()))
			}
			e["r"] = ks
		case "ContainsKey":
			e["r"] = x.ContainsKey(o.k)
		case "Get":
			e["r"] = child(x.Get(o.k))
		case "GetString":
			e["r"] = core.Str(x.GetString(o.k))
		case "GetBool":
			e["r"] = x.GetBool(o.k)
		case "GetLong":
			e["r"] = core.W8(x.GetLong(o.k))
		case "GetFloat":
			e["r"] = core.W4(math.Float32bits(x.GetFloat(o.k)))
		case "Other":
			delete(e, "k")
			e["name"] = o.name
			if o.name == "ToString" {
				e["len"] = len(x.ToString())
			} else {
				e["len"] = len(x.String())
			}
		default:
			return nil, bad
		}
	case *value.IntMapValue:
		e["k"] = core.W8(int64(o.n))
		switch o.op {
		case "Size":
			delete(e, "k")
			e["r"] = x.Size()
		case "Keys":
			delete(e, "k")
			ks := []interface{}{}
			for en := x.Keys(); en.HasMoreElements(); {
				ks = append(ks, core.W8(int64(en.NextInt())))
			}
			e["r"] = ks
		case "Get":
			e["r"] = child(x.Get(o.n))
		case "GetString":
			e["r"] = core.Str(x.GetString(o.n))
		case "GetBool":
			e["r"] = x.GetBool(o.n)
		default:
			return nil, bad
		}
	case value.SummaryValue:
		_, isLong := target.(*value.LongSummary)
		num := func(l int64, d float64) core.Bytes {
			if isLong {
				return core.W8(l)
			}
			return core.W8(int64(math.Float64bits(d)))
		}
		switch o.op {
		case "GetCount":
			e["r"] = core.W8(int64(x.GetCount()))
		case "Sum":
			e["r"] = num(x.LongSum(), x.DoubleSum())
		case "Min":
			e["r"] = num(x.LongMin(), x.DoubleMin())
		case "Max":
			e["r"] = num(x.LongMax(), x.DoubleMax())
		case "Other": // conversions and averages: not defined by the value model, only called
			e["name"] = o.name
			switch o.name {
			case "LongAvg":
				x.LongAvg()
			case "DoubleAvg":
				x.DoubleAvg()
			case "Cross":
				if isLong {
					x.DoubleSum()
					x.DoubleMin()
					x.DoubleMax()
				} else {
					x.LongSum()
					x.LongMin()
					x.LongMax()
				}
			case "ToString":
				if ls, ok := target.(*value.LongSummary); ok {
					e["len"] = len(ls.ToString())
				} else {
					e["len"] = len(target.(*value.DoubleSummary).ToString())
				}
			default:
				return nil, bad
			}
		default:
			return nil, bad
		}
	default:
		return nil, bad
	}
	return e, ""
}

// look makes one read-only call on the node at path and reports it.
func (h *objHist) look(path []pstep, o *lop) {
	if h.dead {
		return
	}
	var target value.Value
	if msg := core.Guard(func() { target = resolve(h.live, path) }); msg != "" {
		h.panicEv("getters", msg)
		return
	}
	if target == nil {
		h.t.Emit(core.Ev{"ev": "Lost", "path": projPath(path)})
		h.dead = true
		return
	}
	var rec core.Ev
	var why string
	if msg := core.Guard(func() { rec, why = doLook(h.live, target, o) }); msg != "" {
		h.panicEv(o.op+"/"+o.name+"/"+o.with, msg)
		return
	}
	if why != "" {
		panic("c02 harness: " + why)
	}
	ev := core.Ev{"ev": "Look", "path": projPath(path), "o": rec}
	if res, has := rec["r"]; has { // the result is a field of the event itself
		ev["r"] = res
		delete(rec, "r")
	}
	h.t.Emit(ev)
	h.ops = append(h.ops, fmt.Sprintf("%d.%s%s", len(path), o.op, o.with))
}

// allPaths: the path of every node of the live object (root first), by the public getters.
func allPaths(v value.Value, prefix []pstep, out *[][]pstep, budget *int) {
	*out = append(*out, append([]pstep{}, prefix...))
	for _, s := range kidsOf(v) {
		if *budget <= 0 {
			return
		}
		*budget--
		if next := resolve(v, []pstep{s}); next != nil {
			allPaths(next, append(prefix, s), out, budget)
		}
	}
}

// looksOf: one instance of every read-only method the node has (keys / indexes present and
// absent; comparisons against every kind of partner).
func looksOf(r *rand.Rand, root, v value.Value, e *objEnv) []*lop {
	ops := []*lop{{op: "GetValueType"}, {op: "Write"}, {op: "WriteValue"}}
	kids := kidsOf(v)
	switch x := v.(type) {
	case *value.ListValue:
		ops = append(ops, &lop{op: "Size"})
		if x.Size() > 0 {
			for _, g := range []string{"Get", "GetString", "GetBool"} {
				ops = append(ops, &lop{op: g, i: r.Intn(x.Size())})
			}
			ops = append(ops, &lop{op: "Get", i: x.Size() - 1})
		}
	case *value.MapValue:
		ops = append(ops, &lop{op: "Size"}, &lop{op: "IsEmpty"}, &lop{op: "Keys"}, &lop{op: "Other", name: "ToString"}, &lop{op: "Other", name: "String"})
		for _, g := range []string{"ContainsKey", "Get", "GetString", "GetBool", "GetLong", "GetFloat"} {
			if len(kids) > 0 {
				ops = append(ops, &lop{op: g, k: kids[r.Intn(len(kids))].k})
			}
			if g == "ContainsKey" || g == "Get" || r.Intn(3) == 0 { // a key that may be absent (incl. one colliding with a present one)
				ops = append(ops, &lop{op: g, k: e.keys[r.Intn(len(e.keys))]})
			}
		}
	case *value.IntMapValue:
		ops = append(ops, &lop{op: "Size"}, &lop{op: "Keys"}, &lop{op: "WriteValue", name: "IntMapValue.WriteValue"})
		for _, g := range []string{"Get", "GetString", "GetBool"} {
			if len(kids) > 0 {
				ops = append(ops, &lop{op: g, n: kids[r.Intn(len(kids))].n})
			}
			if g == "Get" || r.Intn(3) == 0 {
				ops = append(ops, &lop{op: g, n: e.ikeys[r.Intn(len(e.ikeys))]})
			}
		}
	case value.SummaryValue:
		for _, g := range []string{"GetCount", "Sum", "Min", "Max"} {
			ops = append(ops, &lop{op: g})
		}
		for _, g := range []string{"LongAvg", "DoubleAvg", "Cross", "ToString"} {
			ops = append(ops, &lop{op: "Other", name: g})
		}
	}
	// comparisons: itself, another node of the object, a copy, a copy in the opposite order, another value of the type
	var paths [][]pstep
	budget := 40
	allPaths(root, nil, &paths, &budget)
	for _, c := range []string{"Equals", "CompareTo"} {
		*e.o.Budget = 6
		ops = append(ops, &lop{op: c, with: "self"}, &lop{op: c, with: "copy"}, &lop{op: c, with: "reversed"},
			&lop{op: c, with: "node", p2: paths[r.Intn(len(paths))]},
			&lop{op: c, with: "value", v: valgen.RandOf(r, v.GetValueType(), 1, e.o)})
	}
	return ops
}

// chainLook: like chainOf, but every container has entries BEFORE and BEHIND the descending
// one, inserted in an order that is neither ascending nor descending in the keys.
func chainLook(kinds []byte, leaf *valgen.Node, e *objEnv) (*valgen.Node, [][]pstep) {
	n := leaf
	steps := make([]pstep, len(kinds))
	for lv := len(kinds) - 1; lv >= 0; lv-- {
		switch kinds[lv] {
		case valgen.TList:
			n = valgen.List(valgen.Text([]byte("m")), valgen.Decimal(9), n, valgen.Text([]byte("a")), valgen.Decimal(-1))
			steps[lv] = pstep{kind: valgen.TList, i: 2}
		case valgen.TMap:
			k := e.keys[(lv+3)%len(e.keys)]
			m := valgen.Map()
			for _, f := range []string{"m7", "z"} {
				if f != k {
					m.Put([]byte(f), valgen.Decimal(int64(lv)))
				}
			}
			m.Put([]byte(k), n)
			for _, f := range []string{e.keys[(lv+4)%len(e.keys)], "a0", "p"} {
				if !hasKey(m, f) {
					m.Put([]byte(f), valgen.Bool(true))
				}
			}
			n = m
			steps[lv] = pstep{kind: valgen.TMap, k: k}
		default:
			n = valgen.IntMap().IPut(207, valgen.Bool(true)).IPut(math.MaxInt32, valgen.Text([]byte("x"))).IPut(106, n).
				IPut(-1, valgen.Decimal(3)).IPut(5, valgen.Text([]byte("five"))).IPut(math.MinInt32, valgen.Null())
			steps[lv] = pstep{kind: valgen.TIntMap, n: 106}
		}
	}
	paths := make([][]pstep, len(kinds)+1)
	for lv := 0; lv <= len(kinds); lv++ {
		paths[lv] = steps[:lv]
	}
	return n, paths
}

// lookEnum: chain x level (x kind of leaf at the bottom); every history is: build, write, then
// for EVERY read-only method the node has: the call, a write.  Below chains of one container
// the quick tier takes three kinds of leaf per chain (rotating), the thorough tier all.
func lookEnum(c *core.Ctx, t *core.Trace) {
	maxd := c.Pick(2, 3)
	kindsAll := []byte{valgen.TList, valgen.TMap, valgen.TIntMap}
	var chains [][]byte
	for d := 1; d <= maxd; d++ {
		n := 1
		for i := 0; i < d; i++ {
			n *= 3
		}
		for x := 0; x < n; x++ {
			ks := make([]byte, d)
			for i, y := 0, x; i < d; i, y = i+1, y/3 {
				ks[i] = kindsAll[y%3]
			}
			chains = append(chains, ks)
		}
	}
	for ci, ks := range chains {
		for lv := 0; lv <= len(ks); lv++ {
			leaves := []int{0}
			if lv == len(ks) {
				leaves = nil
				for li := range leafTypes {
					if len(ks) == 1 || (c.Thorough() && len(ks) == 2) || (li+ci*5)%6 == 0 {
						leaves = append(leaves, li)
					}
				}
			}
			for _, li := range leaves {
				cas := (ci*4+lv)*len(leafTypes) + li
				if !c.Want("lookenum", cas) {
					continue
				}
				r := c.Rng("lookenum", cas)
				e := newEnv(r)
				*e.o.Budget = 5
				leaf := valgen.RandOf(r, leafTypes[li], 0, e.o)
				root, paths := chainLook(ks, leaf, e)
				h := &objHist{t: t}
				t.Reset("lookenum", cas, nil)
				h.create(root)
				if h.dead {
					continue
				}
				ops := looksOf(r, h.live, resolve(h.live, paths[lv]), e)
				if cas%2 == 0 { // the first call comes before or after the first write
					h.write()
				}
				for _, o := range ops {
					h.look(paths[lv], o)
					h.write()
					c.Count(fmt.Sprintf("lookenum|%v|%d|%d|%s|%s|%s", ks, lv, leafTypes[li], o.op, o.name, o.with), true)
				}
				t.Emit(core.Ev{"ev": "End"})
				if cas%97 == 0 {
					c.Sample(core.Ev{"gen": "lookenum", "case": cas, "chain": fmt.Sprint(ks), "level": lv, "calls": len(ops)})
				}
			}
		}
	}
}
