// Package c02 drives the real tagged value codec (value.WriteValue / value.ReadValue)
// and records what every call did, for Trace_Value.tla / Trace_ValueEnum.tla to
// judge against the reference format of spec/Value.tla.
//
// Generators:
//
//	enum   every value of the specification's small-scope enumeration
//	       (spec/ValueEnum.tla, transliterated in harness/valgen and checked by TLC
//	       index by index), one complete history per value; 64 values per trace history
//	each   every type code with boundary-biased random payloads, one value per history
//	shape  hand-picked shapes at the boundaries of the count and length fields, wide
//	       maps whose keys collide in the backing hash table, deep chains
//	counts every counted type (arrays, list, maps) with its count at and around every power
//	       of two up to the count cell's maximum (counts.go)
//	deep   chains of 64 .. 20000 containers, logged by their spine (deep.go)
//	rand   random streams of 1..3 values of depth <= 8
//	mutenum, mut   ONE value object written, changed through the public mutators (on
//	       itself or on a child obtained from it) and written again (obj.go)
//	lookenum       the same object with every public READ-ONLY method called between the
//	       writes (look.go); gen mut mixes such calls with the mutators
package c02

import (
	"fmt"
	"math"

	gio "github.com/whatap/golib/io"
	"github.com/whatap/golib/lang/value"

	"verifharness/core"
	"verifharness/valgen"
)

func init() { core.Register("c02", Run) }

// oneValue runs WriteValue, ReadValue and WriteValue again on the real code and
// returns the event describing what happened (kind "RT"/"RTi", or "Panic").
func oneValue(kind string, n *valgen.Node) core.Ev {
	ev := core.Ev{"ev": kind, "v": valgen.Proj(n)}
	var out []byte
	if msg := core.Guard(func() {
		v := valgen.Build(n)
		o := gio.NewDataOutputX()
		value.WriteValue(o, v)
		out = core.Cp(o.ToByteArray())
	}); msg != "" {
		return core.Ev{"ev": "Panic", "at": "WriteValue", "v": ev["v"], "msg": msg}
	}
	ev["out"] = core.Bytes(out)
	var back value.Value
	var in *gio.DataInputX
	if msg := core.Guard(func() {
		in = gio.NewDataInputX(core.Cp(out))
		back = value.ReadValue(in)
		ev["ret"] = valgen.ProjReal(back)
		ev["avail"] = int(in.Available())
	}); msg != "" {
		return core.Ev{"ev": "Panic", "at": "ReadValue", "v": ev["v"], "out": ev["out"], "msg": msg}
	}
	if msg := core.Guard(func() {
		o := gio.NewDataOutputX()
		value.WriteValue(o, back)
		ev["again"] = core.Cp(o.ToByteArray())
	}); msg != "" {
		return core.Ev{"ev": "Panic", "at": "WriteValue(decoded)", "v": ev["v"], "out": ev["out"], "msg": msg}
	}
	return ev
}

func nontrivial(n *valgen.Node) bool { return n.T != valgen.TNull }

func count(c *core.Ctx, n *valgen.Node, ev core.Ev) {
	l := 0
	if b, ok := ev["out"].(core.Bytes); ok {
		l = len(b)
	}
	c.Count(fmt.Sprintf("%s|%d", n.Sig(8), l), nontrivial(n))
}

// stream writes several values to one output, reads them back one by one and
// re-encodes each (events W, Open, R, ReEnc, End).
func stream(c *core.Ctx, t *core.Trace, gen string, cas int, nodes []*valgen.Node) {
	t.Reset(gen, cas, nil)
	out := gio.NewDataOutputX()
	prev := 0
	key := ""
	for _, n := range nodes {
		msg := core.Guard(func() { value.WriteValue(out, valgen.Build(n)) })
		all := out.ToByteArray()
		if msg != "" {
			t.Emit(core.Ev{"ev": "Panic", "at": "WriteValue", "v": valgen.Proj(n), "msg": msg})
			return
		}
		t.Emit(core.Ev{"ev": "W", "v": valgen.Proj(n), "out": core.Cp(all[prev:])})
		key += fmt.Sprintf("%s|%d;", n.Sig(8), len(all)-prev)
		prev = len(all)
	}
	t.Emit(core.Ev{"ev": "Open"})
	in := gio.NewDataInputX(core.Cp(out.ToByteArray()))
	for range nodes {
		var back value.Value
		ev := core.Ev{"ev": "R"}
		if msg := core.Guard(func() {
			back = value.ReadValue(in)
			ev["ret"] = valgen.ProjReal(back)
			ev["avail"] = int(in.Available())
		}); msg != "" {
			t.Emit(core.Ev{"ev": "Panic", "at": "ReadValue", "msg": msg})
			return
		}
		t.Emit(ev)
		ev2 := core.Ev{"ev": "ReEnc"}
		if msg := core.Guard(func() {
			o := gio.NewDataOutputX()
			value.WriteValue(o, back)
			ev2["out"] = core.Cp(o.ToByteArray())
		}); msg != "" {
			t.Emit(core.Ev{"ev": "Panic", "at": "WriteValue(decoded)", "msg": msg})
			return
		}
		t.Emit(ev2)
	}
	t.Emit(core.Ev{"ev": "End"})
	nt := false
	for _, n := range nodes {
		nt = nt || nontrivial(n)
	}
	c.Count(key, nt)
}

func nulls(n int) *valgen.Node {
	l := valgen.List()
	for i := 0; i < n; i++ {
		l.Items = append(l.Items, valgen.Null())
	}
	return l
}

// shapes at the boundaries of the embedded count / length fields and of the hash tables
func shapes(c *core.Ctx, cas int) *valgen.Node {
	r := c.Rng("shape", cas)
	o := &valgen.Opts{MaxWidth: 8, MaxBlob: 300, Budget: new(int)}
	*o.Budget = 40
	small := func() *valgen.Node { *o.Budget = 6; return valgen.Rand(r, 1, o) }
	switch cas {
	case 0:
		return nulls(127) // decimal count: 1 byte
	case 1:
		return nulls(128) // 2 bytes
	case 2:
		return nulls(32767)
	case 3:
		return nulls(32768) // 3 bytes
	case 4:
		return nulls(40000)
	case 5, 6, 7: // wide string map: keys of one bucket first, then enough keys to rehash several times
		m := valgen.Map()
		n := []int{76, 160, 300}[cas-5]
		seen := map[string]bool{}
		for i := 0; len(m.Keys) < n; i++ {
			var k []byte
			if i%3 == 0 {
				k = valgen.RandText(r, 1+r.Intn(6))
			} else {
				k = []byte(fmt.Sprintf("k%d", i*7))
			}
			if seen[string(k)] {
				continue
			}
			seen[string(k)] = true
			m.Put(k, small())
		}
		return m
	case 8, 9, 10: // wide int map: k, k+101, ... collide in the initial table; negative keys
		m := valgen.IntMap()
		n := []int{76, 160, 300}[cas-8]
		for i := 0; i < n; i++ {
			k := int32(7 + 101*i)
			if i%5 == 4 {
				k = -k
			}
			m.IPut(k, small())
		}
		return m
	case 11: // extreme int keys
		m := valgen.IntMap()
		for _, k := range []int32{0, -1, math.MaxInt32, math.MinInt32, 101, -101, 1 << 30} {
			m.IPut(k, valgen.Int(k))
		}
		return m
	case 12: // int map keys differing only in the sign bit (same slot of the table)
		m := valgen.IntMap()
		for i := int32(1); i < 40; i++ {
			m.IPut(-i, valgen.Decimal(int64(-i)))
			m.IPut(int32(uint32(-i)&0x7fffffff), valgen.Decimal(int64(i)))
		}
		return m
	case 13, 14, 15, 16: // blobs / texts at the length thresholds inside containers
		n := []int{253, 254, 65535, 65536}[cas-13]
		return valgen.Map().Put([]byte("b"), valgen.Blob(valgen.RandBytes(r, n))).Put([]byte("t"), valgen.Text(valgen.RandText(r, n))).
			Put(valgen.RandText(r, n), valgen.List(valgen.Blob(valgen.RandBytes(r, n))))
	case 17, 18: // arrays at the 16-bit count boundary
		n := []int{255, 32767}[cas-17]
		ia, la, fa, ta := valgen.IntArray(), valgen.LongArray(), valgen.FloatArray(), valgen.TextArray()
		for i := 0; i < n; i++ {
			ia.Ints = append(ia.Ints, int64(int32(valgen.RandInt64(r))))
			la.Ints = append(la.Ints, valgen.RandInt64(r))
			fa.Fs = append(fa.Fs, valgen.RandF32(r, false))
			if i < 3000 {
				ta.Texts = append(ta.Texts, valgen.RandText(r, r.Intn(4)))
			}
		}
		return valgen.List(ia, la, fa, ta)
	case 19, 20, 21, 22: // deep chains: depth 8 and beyond
		d := []int{8, 8, 16, 40}[cas-19]
		*o.Budget = 30
		return valgen.Chain(r, d, valgen.Rand(r, 1, o))
	case 23: // every type code as list items and as map values, in one value
		l := valgen.List()
		m := valgen.Map()
		im := valgen.IntMap()
		for i, t := range valgen.AllTypes {
			*o.Budget = 6
			l.Items = append(l.Items, valgen.RandOf(r, t, 1, o))
			m.Put([]byte(fmt.Sprintf("t%d", t)), valgen.RandOf(r, t, 1, o))
			im.IPut(int32(t)-40, valgen.RandOf(r, t, 1, o))
			_ = i
		}
		return valgen.List(l, m, im)
	case 24: // the same scalar object shape repeated (no aliasing between items)
		x := valgen.Text([]byte("same"))
		return valgen.List(x, x, valgen.Map().Put([]byte("x"), x).Put([]byte("y"), x))
	case 25: // empty payloads built from nil slices
		return valgen.List(&valgen.Node{T: valgen.TBlob, Nil: true}, &valgen.Node{T: valgen.TIntArray, Nil: true},
			&valgen.Node{T: valgen.TLongArray, Nil: true}, &valgen.Node{T: valgen.TFloatArray, Nil: true},
			&valgen.Node{T: valgen.TTextArray, Nil: true}, &valgen.Node{T: valgen.TList, Nil: true}, valgen.Text(nil))
	case 26: // keys whose FULL 32-bit hashes are identical: every group as a map of its own, in both orders
		l := valgen.List()
		for _, g := range valgen.FullHashGroups() {
			m, rv := valgen.Map(), valgen.Map()
			for i, k := range g {
				m.Put([]byte(k), valgen.Decimal(int64(i)))
				rv.Put([]byte(g[len(g)-1-i]), valgen.Text([]byte(k)))
			}
			l.Items = append(l.Items, m, rv)
		}
		return l
	case 27, 28: // the same groups scattered over a wide map: they stay in one chain through every growth of the table
		m := valgen.Map()
		gs := valgen.FullHashGroups()
		var ks []string
		for _, g := range gs {
			ks = append(ks, g...)
		}
		r.Shuffle(len(ks), func(i, j int) { ks[i], ks[j] = ks[j], ks[i] })
		n := []int{120, 420}[cas-27]
		for i := 0; len(m.Keys) < n; i++ {
			if len(ks) > 0 && (i%3 == 0 || n-len(m.Keys) <= len(ks)) {
				m.Put([]byte(ks[0]), small())
				ks = ks[1:]
			} else {
				m.Put([]byte(fmt.Sprintf("w%d", i*13)), small())
			}
		}
		return m
	case 29: // nested: equal-hash keys at two levels, the inner maps under equal-hash keys of the outer one
		gs := valgen.FullHashGroups()
		m := valgen.Map()
		for gi := 0; gi < 3 && gi < len(gs); gi++ {
			g := gs[(gi*5+r.Intn(5))%len(gs)]
			for i, k := range g {
				in := valgen.Map()
				h := gs[r.Intn(len(gs))]
				for j, k2 := range h {
					in.Put([]byte(k2), valgen.List(valgen.Int(int32(i*10+j))))
				}
				if !hasKey(m, k) {
					m.Put([]byte(k), in)
				}
			}
		}
		return m
	}
	return nil
}

func hasKey(m *valgen.Node, k string) bool {
	for _, x := range m.Keys {
		if string(x) == k {
			return true
		}
	}
	return false
}

const nShapes = 30

func Run(c *core.Ctx) error {
	c.Rule = "tagged values built through the public constructors, written with value.WriteValue, read back with value.ReadValue and written again; " +
		"a case is non-trivial unless it is a lone null value; distinct by (structural signature: type codes, nesting, sizes; encoded length)"

	// ---- enum: the specification's small-scope enumeration, by index ----------
	if c.WantGen("enum") {
		smallN := c.Pick(2, 3)
		spec := "Trace_ValueEnum"
		if c.Thorough() {
			spec = "Trace_ValueEnumT"
		}
		t := c.Trace("c02_enum", spec)
		all := valgen.Enumeration(smallN)
		const block = 64
		for b := 0; b*block < len(all); b++ {
			if !c.Want("enum", b) {
				continue
			}
			t.Reset("enum", b, nil)
			t.Emit(core.Ev{"ev": "EnumSize", "n": len(all), "smalln": smallN, "block": b, "per": block})
			for i := b * block; i < (b+1)*block && i < len(all); i++ {
				ev := oneValue("RTi", all[i])
				ev["i"] = i + 1
				t.Emit(ev)
				count(c, all[i], ev)
				if i%4001 == 7 {
					c.Sample(core.Ev{"gen": "enum", "index": i + 1, "value": ev["v"], "bytes": ev["out"]})
				}
			}
			t.Emit(core.Ev{"ev": "EnumEnd"})
		}
		c.SetExtra("enumerated_values", len(all))
	}

	t := c.Trace("c02_values", "Trace_Value")

	// ---- each: every type code, boundary-biased payloads ------------------------
	if c.WantGen("each") {
		per := c.Pick(6, 60)
		for ti, ty := range valgen.AllTypes {
			for k := 0; k < per; k++ {
				cas := ti*1000 + k
				if !c.Want("each", cas) {
					continue
				}
				r := c.Rng("each", cas)
				o := &valgen.Opts{MaxWidth: 12, MaxBlob: 70000, Budget: new(int), FullHash: true}
				*o.Budget = 30
				n := valgen.RandOf(r, ty, 1, o)
				t.Reset("each", cas, nil)
				ev := oneValue("RT", n)
				t.Emit(ev)
				count(c, n, ev)
				if k == 0 && ti%5 == 0 {
					c.Sample(core.Ev{"gen": "each", "case": cas, "value": trunc(ev["v"]), "bytes": truncB(ev["out"])})
				}
			}
		}
	}

	// ---- shape: boundaries of counts, lengths, hash tables, depth --------------
	if c.WantGen("shape") {
		for cas := 0; cas < nShapes; cas++ {
			if !c.Want("shape", cas) {
				continue
			}
			if !c.Thorough() && (cas == 2 || cas == 3 || cas == 18) { // the 32767/32768 shapes cost seconds each; 40000 stays
				continue
			}
			n := shapes(c, cas)
			t.Reset("shape", cas, nil)
			ev := oneValue("RT", n)
			t.Emit(ev)
			count(c, n, ev)
		}
	}

	// ---- counts: element counts at every power of two up to the count cell's maximum (counts.go)
	runCounts(c)

	// ---- deep: chains of 64 .. 20000 containers ---------------------------------
	if c.WantGen("deep") {
		td := c.Trace("c02_deep", "Trace_Value") // a trace (and a TLC) of its own: the spines are long
		for cas, dc := range deepCases(c.Thorough()) {
			if c.Want("deep", cas) {
				deepValue(c, td, cas, dc, c.Pick(130, 300))
			}
		}
	}

	// ---- rand: random streams --------------------------------------------------
	if c.WantGen("rand") {
		nh := c.Pick(120, 2200)
		tr := t
		if c.Thorough() { // hundreds of MB of events: a trace (and a TLC) of its own
			tr = c.Trace("c02_rand", "Trace_Value")
		}
		for cas := 0; cas < nh; cas++ {
			if !c.Want("rand", cas) {
				continue
			}
			r := c.Rng("rand", cas)
			k := 1 + r.Intn(3)
			var nodes []*valgen.Node
			for i := 0; i < k; i++ {
				o := &valgen.Opts{MaxWidth: 40, MaxBlob: 300, Budget: new(int), FullHash: true}
				*o.Budget = 30 + r.Intn(120)
				depth := 1 + r.Intn(8)
				if cas%40 == 39 { // a few wide ones
					o.MaxWidth = 300
					o.MaxBlob = 70000
					*o.Budget = 900
					depth = 2
				}
				n := valgen.Rand(r, depth, o)
				if r.Intn(4) == 0 {
					n = valgen.Chain(r, 1+r.Intn(7), n)
				}
				nodes = append(nodes, n)
			}
			stream(c, tr, "rand", cas, nodes)
			if cas < 2 {
				c.Sample(core.Ev{"gen": "rand", "case": cas, "values": len(nodes), "first": trunc(valgen.Proj(nodes[0]))})
			}
		}
	}
	// ---- mutenum, mut: one object written, changed and written again ------------
	if c.WantGen("mutenum") || c.WantGen("mut") {
		to := c.Trace("c02_obj", "Trace_ValueObj")
		if c.WantGen("mutenum") {
			mutEnum(c, to)
		}
		if c.WantGen("mut") {
			mutRand(c, to)
		}
	}
	// ---- lookenum: one object written, ONE read-only call, written again (look.go) ----
	if c.WantGen("lookenum") {
		lookEnum(c, c.Trace("c02_look", "Trace_ValueObj"))
	}
	return nil
}

func trunc(v interface{}) interface{} {
	s := fmt.Sprint(v)
	if len(s) > 400 {
		return s[:400] + "..."
	}
	return v
}

func truncB(v interface{}) interface{} {
	if b, ok := v.(core.Bytes); ok && len(b) > 64 {
		return core.Ev{"len": len(b), "head": b[:64]}
	}
	return v
}
