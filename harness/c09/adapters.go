package c09

import (
	"encoding/binary"
	"fmt"
	"math"

	"github.com/whatap/golib/util/hmap"

	"verifharness/core"
	"verifharness/hmapx"
)

type Ev = core.Ev
type Op = hmapx.Op

// Bad marks a result that is neither a value of the expected kind nor one of
// the "absent" answers; it never equals anything the specification expects.
const Bad = -999999

const enumLimit = 1 << 20 // an enumeration longer than this is cut (a corrupted ring would never end)

// pObj projects the result of an interface{}-valued map call: a stored value
// (the harness stores Go ints >= 1) is <<v>>; nil, "" and the untyped 0 the
// types answer for "no entry" are <<>>.
func pObj(x interface{}) []int {
	switch v := x.(type) {
	case nil:
		return []int{}
	case string:
		if v == "" {
			return []int{}
		}
	case int:
		if v == 0 {
			return []int{}
		}
		return []int{v}
	}
	return []int{Bad}
}

func pObj1(x interface{}) int {
	if p := pObj(x); len(p) == 1 {
		return p[0]
	}
	return Bad
}

type num interface{ ~int32 | ~int64 | ~float32 }

// pNum projects a typed numeric result (always a number: the absent answer is NONE = 0).
func pNum[V num](v V) []int { return []int{n2i(v)} }

func n2i[V num](v V) int {
	f := float64(v)
	if f != math.Trunc(f) || math.Abs(f) > 1e9 {
		return Bad
	}
	return int(f)
}

// pNumI projects an interface{} that should hold a V.
func pNumI[V num](x interface{}) []int {
	if v, ok := x.(V); ok {
		return pNum(v)
	}
	return []int{Bad}
}

func less[K comparable](p *hmapx.Pool[K], dir string) func(a, b K) bool {
	return func(a, b K) bool { return hmapx.Less(dir, p.Rank(a), p.Rank(b)) }
}

// ------------------------------------------------- interface{}-valued maps

type objMap[K any] interface {
	Put(K, interface{}) interface{}
	PutFirst(K, interface{}) interface{}
	PutLast(K, interface{}) interface{}
	Get(K) interface{}
	ContainsKey(K) bool
	Remove(K) interface{}
	RemoveFirst() interface{}
	RemoveLast() interface{}
	Clear()
	Size() int
	GetFirstKey() K
	GetLastKey() K
	GetFirstValue() interface{}
	GetLastValue() interface{}
	IsEmpty() bool
	IsFull() bool
	ToString() string
	KeyArray() []K
	Sort(func(K, K) bool)
	Values() hmap.Enumeration
	Entries() hmap.Enumeration
}

type kvEntry[K any, V any] interface {
	GetKey() K
	GetValue() V
}

func drain(en hmap.Enumeration, f func(interface{})) {
	for i := 0; en.HasMoreElements() && i < enumLimit; i++ {
		f(en.NextElement())
	}
}

// buildObjMap adapts LinkedMap, IntKeyLinkedMap, LongKeyLinkedMap, StringKeyLinkedMap.
// rank projects a key; keys enumerates Keys(); setMax calls SetMax.
func buildObjMap[K comparable, M objMap[K]](typ string, m M, p *hmapx.Pool[K], rank func(K) int, keys func() []int, setMax func(int)) *hmapx.Obj {
	o := &hmapx.Obj{Type: typ, N: p.N(), Ops: map[string]func(Op) Ev{},
		Hdr: Ev{"set": false, "none": []int{}, "rej": false, "ek": 0}}
	o.Raw = m
	o.Ops["Put"] = func(op Op) Ev { return Ev{"ret": pObj(m.Put(p.Key(op.K), op.V))} }
	o.Ops["PutFirst"] = func(op Op) Ev { return Ev{"ret": pObj(m.PutFirst(p.Key(op.K), op.V))} }
	o.Ops["PutLast"] = func(op Op) Ev { return Ev{"ret": pObj(m.PutLast(p.Key(op.K), op.V))} }
	o.Ops["Get"] = func(op Op) Ev { return Ev{"ret": pObj(m.Get(p.Key(op.K)))} }
	o.Ops["ContainsKey"] = func(op Op) Ev { return Ev{"b": m.ContainsKey(p.Key(op.K))} }
	o.Ops["Remove"] = func(op Op) Ev { return Ev{"ret": pObj(m.Remove(p.Key(op.K)))} }
	o.Ops["RemoveFirst"] = func(op Op) Ev { return Ev{"ret": pObj(m.RemoveFirst())} }
	o.Ops["RemoveLast"] = func(op Op) Ev { return Ev{"ret": pObj(m.RemoveLast())} }
	o.Ops["Clear"] = func(op Op) Ev { m.Clear(); return Ev{} }
	o.Ops["GetFirstKey"] = func(op Op) Ev { return Ev{"rk": rank(m.GetFirstKey())} }
	o.Ops["GetLastKey"] = func(op Op) Ev { return Ev{"rk": rank(m.GetLastKey())} }
	o.Ops["GetFirstValue"] = func(op Op) Ev { return Ev{"ret": pObj(m.GetFirstValue())} }
	o.Ops["GetLastValue"] = func(op Op) Ev { return Ev{"ret": pObj(m.GetLastValue())} }
	o.Ops["IsEmpty"] = func(op Op) Ev { return Ev{"b": m.IsEmpty()} }
	o.Ops["IsFull"] = func(op Op) Ev { return Ev{"b": m.IsFull()} }
	o.Ops["ToString"] = func(op Op) Ev { return Ev{"len": len(m.ToString())} }
	o.Ops["KeyArray"] = func(op Op) Ev {
		ks := m.KeyArray()
		out := make([]int, len(ks))
		for i, k := range ks {
			out[i] = rank(k)
		}
		return Ev{"seq": out}
	}
	o.Ops["Sort"] = func(op Op) Ev { m.Sort(less(p, op.Dir)); return Ev{} }
	o.Ops["SetMax"] = func(op Op) Ev { setMax(op.V); return Ev{} }
	o.Ops["Keys"] = func(op Op) Ev { return Ev{"seq": keys()} }
	values := func() []int {
		out := []int{}
		drain(m.Values(), func(x interface{}) { out = append(out, pObj1(x)) })
		return out
	}
	o.Ops["Values"] = func(op Op) Ev { return Ev{"seq": values()} }
	o.Ops["Entries"] = func(op Op) Ev {
		out := [][]int{}
		drain(m.Entries(), func(x interface{}) {
			if e, ok := x.(kvEntry[K, interface{}]); ok {
				out = append(out, []int{rank(e.GetKey()), pObj1(e.GetValue())})
			} else {
				out = append(out, []int{0, Bad})
			}
		})
		return Ev{"pairs": out}
	}
	o.Obs = func() Ev { return Ev{"size": m.Size(), "first": rank(m.GetFirstKey()), "last": rank(m.GetLastKey())} }
	o.Proj = func() Ev { return Ev{"keys": keys(), "vals": values()} }
	return o
}

// ------------------------------------------------------ number-valued maps

type numMap[K any, V num] interface {
	Put(K, V) V
	PutFirst(K, V) V
	PutLast(K, V) V
	Add(K, V) V
	AddFirst(K, V) V
	AddLast(K, V) V
	Get(K) V
	ContainsKey(K) bool
	ContainsValue(V) bool
	Remove(K) V
	RemoveFirst() V
	RemoveLast() V
	Clear()
	Size() int
	GetFirstKey() K
	GetLastKey() K
	GetFirstValue() V
	GetLastValue() V
	IsEmpty() bool
	IsFull() bool
	ToString() string
	KeyArray() []K
	Sort(func(K, K) bool)
	Entries() hmap.Enumeration
}

// buildNumMap adapts IntIntLinkedMap, IntFloatLinkedMap, LongFloatLinkedMap, LongLongLinkedMap.
func buildNumMap[K comparable, V num, M numMap[K, V]](typ string, m M, p *hmapx.Pool[K], keys func() []int, values func() []int, setMax func(int)) *hmapx.Obj {
	rank := p.Rank
	o := &hmapx.Obj{Type: typ, N: p.N(), Ops: map[string]func(Op) Ev{},
		Hdr: Ev{"set": false, "none": []int{0}, "rej": false, "ek": 0}}
	o.Raw = m
	o.Ops["Put"] = func(op Op) Ev { return Ev{"ret": pNum(m.Put(p.Key(op.K), V(op.V)))} }
	o.Ops["PutFirst"] = func(op Op) Ev { return Ev{"ret": pNum(m.PutFirst(p.Key(op.K), V(op.V)))} }
	o.Ops["PutLast"] = func(op Op) Ev { return Ev{"ret": pNum(m.PutLast(p.Key(op.K), V(op.V)))} }
	o.Ops["Add"] = func(op Op) Ev { return Ev{"ret": pNum(m.Add(p.Key(op.K), V(op.V)))} }
	o.Ops["AddFirst"] = func(op Op) Ev { return Ev{"ret": pNum(m.AddFirst(p.Key(op.K), V(op.V)))} }
	o.Ops["AddLast"] = func(op Op) Ev { return Ev{"ret": pNum(m.AddLast(p.Key(op.K), V(op.V)))} }
	o.Ops["Get"] = func(op Op) Ev { return Ev{"ret": pNum(m.Get(p.Key(op.K)))} }
	o.Ops["ContainsKey"] = func(op Op) Ev { return Ev{"b": m.ContainsKey(p.Key(op.K))} }
	o.Ops["ContainsValue"] = func(op Op) Ev { return Ev{"b": m.ContainsValue(V(op.V))} }
	o.Ops["Remove"] = func(op Op) Ev { return Ev{"ret": pNum(m.Remove(p.Key(op.K)))} }
	o.Ops["RemoveFirst"] = func(op Op) Ev { return Ev{"ret": pNum(m.RemoveFirst())} }
	o.Ops["RemoveLast"] = func(op Op) Ev { return Ev{"ret": pNum(m.RemoveLast())} }
	o.Ops["Clear"] = func(op Op) Ev { m.Clear(); return Ev{} }
	o.Ops["GetFirstKey"] = func(op Op) Ev { return Ev{"rk": rank(m.GetFirstKey())} }
	o.Ops["GetLastKey"] = func(op Op) Ev { return Ev{"rk": rank(m.GetLastKey())} }
	o.Ops["GetFirstValue"] = func(op Op) Ev { return Ev{"ret": pNum(m.GetFirstValue())} }
	o.Ops["GetLastValue"] = func(op Op) Ev { return Ev{"ret": pNum(m.GetLastValue())} }
	o.Ops["IsEmpty"] = func(op Op) Ev { return Ev{"b": m.IsEmpty()} }
	o.Ops["IsFull"] = func(op Op) Ev { return Ev{"b": m.IsFull()} }
	o.Ops["ToString"] = func(op Op) Ev { return Ev{"len": len(m.ToString())} }
	o.Ops["KeyArray"] = func(op Op) Ev { return Ev{"seq": p.Ranks(m.KeyArray())} }
	o.Ops["Sort"] = func(op Op) Ev { m.Sort(less(p, op.Dir)); return Ev{} }
	o.Ops["SetMax"] = func(op Op) Ev { setMax(op.V); return Ev{} }
	o.Ops["Keys"] = func(op Op) Ev { return Ev{"seq": keys()} }
	o.Ops["Values"] = func(op Op) Ev { return Ev{"seq": values()} }
	o.Ops["Entries"] = func(op Op) Ev { return Ev{"pairs": numPairs[K, V](m.Entries(), rank)} }
	o.Obs = func() Ev { return Ev{"size": m.Size(), "first": rank(m.GetFirstKey()), "last": rank(m.GetLastKey())} }
	o.Proj = func() Ev { return Ev{"keys": keys(), "vals": values()} }
	return o
}

// numPairs projects an entry enumeration of a number-valued map.
func numPairs[K any, V num](en hmap.Enumeration, rank func(K) int) [][]int {
	out := [][]int{}
	drain(en, func(x interface{}) {
		if e, ok := x.(kvEntry[K, V]); ok {
			out = append(out, []int{rank(e.GetKey()), n2i(e.GetValue())})
		} else {
			out = append(out, []int{0, Bad})
		}
	})
	return out
}

// wire decodes what ToBytes of the number-valued maps writes, with the standard
// library only: a count, then per entry the key and the value.  An integer is a
// length tag (0, 1, 2, 3, 4, 5 or 8) followed by that many bytes, big-endian
// two's complement; a float is four bytes, the IEEE bit pattern.
type wire struct {
	b   []byte
	bad bool
}

func (w *wire) take(n int) []byte {
	if w.bad || n > len(w.b) {
		w.bad = true
		return make([]byte, n)
	}
	x := w.b[:n]
	w.b = w.b[n:]
	return x
}

func (w *wire) decimal() int64 {
	n := int(w.take(1)[0])
	switch n {
	case 0:
		return 0
	case 1, 2, 3, 4, 5, 8:
		var v int64
		x := w.take(n)
		if x[0]&0x80 != 0 {
			v = -1
		}
		for _, c := range x {
			v = v<<8 | int64(c)
		}
		return v
	}
	w.bad = true
	return 0
}

func (w *wire) f32() float32 { return math.Float32frombits(binary.BigEndian.Uint32(w.take(4))) }

// wirePairs decodes a whole ToBytes image: entries as (rank of key, value).
func wirePairs(b []byte, key func(int64) int, float bool) [][]int {
	w := &wire{b: b}
	out := [][]int{}
	n := w.decimal()
	for i := int64(0); i < n && !w.bad && i < enumLimit; i++ {
		k := key(w.decimal())
		v := Bad
		if float {
			v = n2i(w.f32())
		} else if x := w.decimal(); x > -1e9 && x < 1e9 {
			v = int(x)
		}
		out = append(out, []int{k, v})
	}
	if w.bad || len(w.b) != 0 {
		out = append(out, []int{0, Bad})
	}
	return out
}

// ------------------------------------- string-keyed, number-valued maps

type strNumMap[V num] interface {
	Put(string, V) V
	PutFirst(string, V) V
	PutLast(string, V) V
	Add(string, V) V
	AddFirst(string, V) V
	AddLast(string, V) V
	Get(string) V
	ContainsKey(string) bool
	ContainsValue(V) bool
	Remove(string) interface{}
	RemoveFirst() interface{}
	RemoveLast() interface{}
	Clear()
	Size() int
	GetFirstKey() string
	GetLastKey() string
	GetFirstValue() interface{}
	GetLastValue() interface{}
	IsEmpty() bool
	IsFull() bool
	ToString() string
	KeyArray() []string
	Sort(func(string, string) bool)
	Keys() hmap.StringEnumer
	Values() hmap.Enumeration
	Entries() hmap.Enumeration
}

// buildStrNumMap adapts StringIntLinkedMap and StringLongLinkedMap (they refuse the empty key).
func buildStrNumMap[V num, M strNumMap[V]](typ string, m M, p *hmapx.Pool[string], setMax func(int)) *hmapx.Obj {
	rank := p.Rank
	o := &hmapx.Obj{Type: typ, N: p.N(), Ops: map[string]func(Op) Ev{},
		Hdr: Ev{"set": false, "none": []int{0}, "rej": true, "ek": p.Rank("")}}
	o.Raw = m
	o.Ops["Put"] = func(op Op) Ev { return Ev{"ret": pNum(m.Put(p.Key(op.K), V(op.V)))} }
	o.Ops["PutFirst"] = func(op Op) Ev { return Ev{"ret": pNum(m.PutFirst(p.Key(op.K), V(op.V)))} }
	o.Ops["PutLast"] = func(op Op) Ev { return Ev{"ret": pNum(m.PutLast(p.Key(op.K), V(op.V)))} }
	o.Ops["Add"] = func(op Op) Ev { return Ev{"ret": pNum(m.Add(p.Key(op.K), V(op.V)))} }
	o.Ops["AddFirst"] = func(op Op) Ev { return Ev{"ret": pNum(m.AddFirst(p.Key(op.K), V(op.V)))} }
	o.Ops["AddLast"] = func(op Op) Ev { return Ev{"ret": pNum(m.AddLast(p.Key(op.K), V(op.V)))} }
	o.Ops["Get"] = func(op Op) Ev { return Ev{"ret": pNum(m.Get(p.Key(op.K)))} }
	o.Ops["ContainsKey"] = func(op Op) Ev { return Ev{"b": m.ContainsKey(p.Key(op.K))} }
	o.Ops["ContainsValue"] = func(op Op) Ev { return Ev{"b": m.ContainsValue(V(op.V))} }
	o.Ops["Remove"] = func(op Op) Ev { return Ev{"ret": pNumI[V](m.Remove(p.Key(op.K)))} }
	o.Ops["RemoveFirst"] = func(op Op) Ev { return Ev{"ret": pNumI[V](m.RemoveFirst())} }
	o.Ops["RemoveLast"] = func(op Op) Ev { return Ev{"ret": pNumI[V](m.RemoveLast())} }
	o.Ops["Clear"] = func(op Op) Ev { m.Clear(); return Ev{} }
	o.Ops["GetFirstKey"] = func(op Op) Ev { return Ev{"rk": rank(m.GetFirstKey())} }
	o.Ops["GetLastKey"] = func(op Op) Ev { return Ev{"rk": rank(m.GetLastKey())} }
	o.Ops["GetFirstValue"] = func(op Op) Ev { return Ev{"ret": pNumI[V](m.GetFirstValue())} }
	o.Ops["GetLastValue"] = func(op Op) Ev { return Ev{"ret": pNumI[V](m.GetLastValue())} }
	o.Ops["IsEmpty"] = func(op Op) Ev { return Ev{"b": m.IsEmpty()} }
	o.Ops["IsFull"] = func(op Op) Ev { return Ev{"b": m.IsFull()} }
	o.Ops["ToString"] = func(op Op) Ev { return Ev{"len": len(m.ToString())} }
	o.Ops["KeyArray"] = func(op Op) Ev { return Ev{"seq": p.Ranks(m.KeyArray())} }
	o.Ops["Sort"] = func(op Op) Ev { m.Sort(less(p, op.Dir)); return Ev{} }
	o.Ops["SetMax"] = func(op Op) Ev { setMax(op.V); return Ev{} }
	keys := func() []int {
		out := []int{}
		en := m.Keys()
		for i := 0; en.HasMoreElements() && i < enumLimit; i++ {
			out = append(out, rank(en.NextString()))
		}
		return out
	}
	values := func() []int {
		out := []int{}
		drain(m.Values(), func(x interface{}) {
			if v, ok := x.(V); ok {
				out = append(out, n2i(v))
			} else {
				out = append(out, Bad)
			}
		})
		return out
	}
	o.Ops["Keys"] = func(op Op) Ev { return Ev{"seq": keys()} }
	o.Ops["Values"] = func(op Op) Ev { return Ev{"seq": values()} }
	o.Ops["Entries"] = func(op Op) Ev {
		out := [][]int{}
		drain(m.Entries(), func(x interface{}) {
			if e, ok := x.(kvEntry[string, V]); ok {
				out = append(out, []int{rank(e.GetKey()), n2i(e.GetValue())})
			} else {
				out = append(out, []int{0, Bad})
			}
		})
		return Ev{"pairs": out}
	}
	o.Obs = func() Ev { return Ev{"size": m.Size(), "first": rank(m.GetFirstKey()), "last": rank(m.GetLastKey())} }
	o.Proj = func() Ev { return Ev{"keys": keys(), "vals": values()} }
	return o
}

// --------------------------------------------------------------- linked sets

type linkedSet[K any] interface {
	Put(K) interface{}
	PutFirst(K) interface{}
	PutLast(K) interface{}
	Contains(K) bool
	Remove(K) interface{}
	RemoveFirst() interface{}
	RemoveLast() interface{}
	Clear()
	Size() int
	GetFirst() K
	GetLast() K
	IsEmpty() bool
	IsFull() bool
	ToString() string
	Sort(func(K, K) bool)
}

// buildSet adapts LinkedSet, IntLinkedSet, StringLinkedSet.  A set is the
// dictionary whose value under k is k: Put/Remove answer the key or "absent".
// pk projects such an answer: the key's rank as <<r>>, nil / untyped 0 as <<>>.
func buildSet[K comparable, M linkedSet[K]](typ string, m M, p *hmapx.Pool[K], rank func(K) int, pk func(interface{}) []int, keys func() []int, keyArray func() []int, setMax func(int), hdr Ev) *hmapx.Obj {
	o := &hmapx.Obj{Type: typ, N: p.N(), Ops: map[string]func(Op) Ev{}, Hdr: hdr}
	o.Raw = m
	o.Ops["Put"] = func(op Op) Ev { return Ev{"ret": pk(m.Put(p.Key(op.K)))} }
	o.Ops["PutFirst"] = func(op Op) Ev { return Ev{"ret": pk(m.PutFirst(p.Key(op.K)))} }
	o.Ops["PutLast"] = func(op Op) Ev { return Ev{"ret": pk(m.PutLast(p.Key(op.K)))} }
	o.Ops["ContainsKey"] = func(op Op) Ev { return Ev{"b": m.Contains(p.Key(op.K))} }
	o.Ops["Remove"] = func(op Op) Ev { return Ev{"ret": pk(m.Remove(p.Key(op.K)))} }
	o.Ops["RemoveFirst"] = func(op Op) Ev { return Ev{"ret": pk(m.RemoveFirst())} }
	o.Ops["RemoveLast"] = func(op Op) Ev { return Ev{"ret": pk(m.RemoveLast())} }
	o.Ops["Clear"] = func(op Op) Ev { m.Clear(); return Ev{} }
	o.Ops["GetFirstKey"] = func(op Op) Ev { return Ev{"rk": rank(m.GetFirst())} }
	o.Ops["GetLastKey"] = func(op Op) Ev { return Ev{"rk": rank(m.GetLast())} }
	o.Ops["IsEmpty"] = func(op Op) Ev { return Ev{"b": m.IsEmpty()} }
	o.Ops["IsFull"] = func(op Op) Ev { return Ev{"b": m.IsFull()} }
	o.Ops["ToString"] = func(op Op) Ev { return Ev{"len": len(m.ToString())} }
	o.Ops["KeyArray"] = func(op Op) Ev { return Ev{"seq": keyArray()} }
	o.Ops["Sort"] = func(op Op) Ev { m.Sort(less(p, op.Dir)); return Ev{} }
	o.Ops["SetMax"] = func(op Op) Ev { setMax(op.V); return Ev{} }
	o.Ops["Keys"] = func(op Op) Ev { return Ev{"seq": keys()} }
	o.Obs = func() Ev { return Ev{"size": m.Size(), "first": rank(m.GetFirst()), "last": rank(m.GetLast())} }
	o.Proj = func() Ev { k := keys(); return Ev{"keys": k, "vals": k} }
	return o
}

func describe(o *hmapx.Obj) string { return fmt.Sprintf("%s(%s)", o.Type, o.Ctor) }
