// Package c09 drives the thirteen real linked hash maps / linked sets of golib
// util/hmap through generated call histories and records every call with its
// arguments, result, Size(), first/last key and (periodically) the complete
// enumeration, for Trace_LinkedDict.tla to judge against the reference
// dictionary.  The harness only records.
package c09

import (
	"fmt"

	"verifharness/core"
	"verifharness/hmapx"
)

func init() { core.Register("c09", Run) }

var quickCtors = []Ctor{{Default: true}, {Cap: 1, LF: 0.75}, {Cap: 2, LF: 1}, {Cap: 0, LF: 0.75}, {Cap: 7, LF: 0.01}, {Cap: 1, LF: 4}}
var moreCtors = []Ctor{{Cap: 3, LF: 0.5}, {Cap: 101, LF: 0.02}, {Cap: 50, LF: 2.5}, {Cap: 0, LF: 1}, {Cap: 203, LF: 0.75}, {Cap: 11, LF: 0.1}}

func ctorsOf(td TypeDef, thorough bool) []Ctor {
	if !td.HasCtor {
		return []Ctor{{Default: true}}
	}
	if thorough {
		return append(append([]Ctor(nil), quickCtors...), moreCtors...)
	}
	return quickCtors
}

// GraphScope is the small scope of the exhaustive traversal; it must equal the
// constants of spec/MC_LinkedDict.cfg (maps) and MC_LinkedDict_set.cfg (sets).
var GraphScope = hmapx.Scope{NKeys: 3, Vals: []int{1, 2}, Maxes: []int{0, 1, 2, 3}, MaxVal: 2, CVals: []int{1, 2, 3}}
var GraphScopeSet = hmapx.Scope{NKeys: 3, Vals: []int{0}, Maxes: []int{0, 1, 2, 3}, MaxVal: 3, CVals: []int{1}}

var addOps = map[string]bool{"Add": true, "AddFirst": true, "AddLast": true, "AddNoOver": true}

func Run(c *core.Ctx) error {
	c.Rule = "C09: random call histories on each of the 13 linked types (all public operations, collision-chain / extreme / empty-string key pools, growth through several rehashes, bounds set to 0 or >= size) plus the complete small-scope state graph (3 keys x 2 values x bounds 0..3) walked on every type; a history is non-trivial if it has at least one insertion; distinct by type, constructor, profile and first 12 calls"
	t := c.Trace("c09_linked", "Trace_LinkedDict")

	// ---- gen "self": one fixed straight-line history (binding self-test) ----
	if c.Want("self", 0) {
		r := c.Rng("self", 0)
		obj := Types[4].New(r, 12, Ctor{Default: true}, false)()
		obj.Ctor = "default"
		s := hmapx.Start(t, "self", 0, obj, false, nil)
		for _, op := range []Op{{Name: "Put", K: 1, V: 5}, {Name: "Put", K: 2, V: 6}, {Name: "PutFirst", K: 3, V: 7}, {Name: "Add", K: 1, V: 2},
			{Name: "Get", K: 1}, {Name: "Keys"}, {Name: "Remove", K: 2}, {Name: "SetMax", V: 2}, {Name: "PutLast", K: 4, V: 1}, {Name: "Entries"}} {
			s.Do(op)
		}
		s.ProjNow()
		c.Count("self", true)
	}

	// ---- gen "rand": long random histories ------------------------------
	if c.WantGen("rand") {
		per := c.Pick(20, 60)
		nops := c.Pick(300, 1200)
		for ti, td := range Types {
			ctors := ctorsOf(td, c.Thorough())
			for j := 0; j < per; j++ {
				cas := ti*1000 + j
				if !c.Want("rand", cas) {
					continue
				}
				r := c.Rng("rand", cas)
				ctor := ctors[j%len(ctors)]
				pr := hmapx.Profiles[(j/len(ctors)+j)%len(hmapx.Profiles)]
				n := 12 + r.Intn(100)
				ops := nops
				if pr.Name == "grow" { // cross the default threshold (75 entries) and the next ones
					n = 170 + r.Intn(200)
					ops = nops * 3 / 2
				}
				if ctor.LF < 0.05 && !ctor.Default && n > 150 {
					n = 150 // a tiny load factor multiplies the table: keep it in memory
				}
				obj := td.New(r, n, ctor, false)()
				obj.Ctor = ctor.String()
				s := hmapx.Start(t, "rand", cas, obj, false, core.Ev{"profile": pr.Name})
				sig := hmapx.RandomHistory(r, s, pr, ops, td.VLo, td.VHi)
				c.Count(fmt.Sprintf("%s|%s|%s|%s", td.Name, ctor, pr.Name, sig), s.Events > 3)
				if j == 0 && ti < 3 {
					c.Sample(map[string]interface{}{"gen": "rand", "case": cas, "type": td.Name, "ctor": ctor.String(), "profile": pr.Name, "pool": n, "events": s.Events, "first_calls": sig})
				}
			}
		}
	}

	// ---- gen "graph": every call from every state of the small scope ------
	if c.WantGen("graph") {
		tot := map[string]interface{}{}
		for ti, td := range Types {
			ctors := []Ctor{{Default: true}}
			if td.HasCtor {
				ctors = append(ctors, Ctor{Cap: 1, LF: 0.75})
				if c.Thorough() {
					ctors = append(ctors, Ctor{Cap: 2, LF: 4}, Ctor{Cap: 0, LF: 1})
				}
			}
			for ci, ctor := range ctors {
				cas := ti*10 + ci
				if !c.Want("graph", cas) {
					continue
				}
				r := c.Rng("graph", cas)
				mk := td.New(r, 3, ctor, true)
				fresh := func() *hmapx.Obj { o := mk(); o.Ctor = ctor.String(); return o }
				sc := GraphScope
				probe := fresh()
				if probe.Hdr["set"] == true {
					sc = GraphScopeSet
				}
				sc.NKeys = probe.N
				states, trans, events, dead := hmapx.Explore(t, "graph", cas, fresh, sc, addOps, 4000, core.Ev{"scope": "small"})
				c.Count(fmt.Sprintf("graph|%s|%s", td.Name, ctor), true)
				tot[fmt.Sprintf("%s/%s", td.Name, ctor)] = map[string]interface{}{"states": states, "transitions": trans, "events": events, "aborted": dead,
					"refuses_empty": probe.Hdr["rej"] == true && probe.Hdr["ek"] != 0, "set": probe.Hdr["set"]}
			}
		}
		c.SetExtra("graph", tot)
	}
	return nil
}
