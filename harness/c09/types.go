package c09

import (
	"fmt"
	"math"
	"math/rand"
	"strconv"
	"strings"

	"github.com/whatap/golib/io"
	"github.com/whatap/golib/util/hash"
	"github.com/whatap/golib/util/hmap"
	"github.com/whatap/golib/util/stringutil"

	"verifharness/hmapx"
)

// Ctor is one way of constructing a type: the default constructor, or an
// explicit initial capacity and load factor where the type offers them.
type Ctor struct {
	Default bool
	Cap     int
	LF      float32
}

func (c Ctor) String() string {
	if c.Default {
		return "default"
	}
	return fmt.Sprintf("cap=%d,lf=%g", c.Cap, c.LF)
}

// Caps lists the first bucket counts the table goes through (n -> 2n+1).
func (c Ctor) Caps() []uint {
	n := uint(hmap.DEFAULT_CAPACITY)
	if !c.Default {
		n = uint(c.Cap)
		if n == 0 {
			n = 1
		}
	}
	out := []uint{n}
	for i := 0; i < 3; i++ {
		n = 2*n + 1
		out = append(out, n)
	}
	return out
}

// TypeDef describes one of the thirteen linked types.
type TypeDef struct {
	Name    string
	HasCtor bool // offers (initCapacity, loadFactor)
	// New builds a fresh object over a pool of about n keys chosen by r for ctor.
	New func(r *rand.Rand, n int, ctor Ctor, small bool) func() *hmapx.Obj
	// value range used in random histories
	VLo, VHi int
}

// --------------------------------------------------------------- key kinds

// lcm(101, 203, 407): keys that differ by a multiple collide in the default
// table and after its first two growths
const lcm3 = 101 * 203 * 407

func int32Cands(i int) int32 {
	switch i % 6 {
	case 0:
		return int32(5 + 101*(i/6)) // same bucket modulo 101
	case 1:
		return int32(5 + lcm3*((i/6)%250)) // same bucket modulo 101, 203 and 407
	case 2:
		return -int32(1 + 101*(i/6))
	case 3:
		return int32(lcm3 * ((i / 6) % 250)) // bucket 0 at every early capacity
	case 4:
		return int32(uint32(i) * 2654435761)
	default:
		return int32(i / 6)
	}
}

var int32Special = []int32{0, 1, -1, math.MaxInt32, math.MinInt32, math.MinInt32 + 1, math.MaxInt32 - 1, 101, 203, 407, -101, 100, 102, 1 << 16, -(1 << 16)}

func int64Cands(i int) int64 {
	switch i % 7 {
	case 0:
		return int64(5 + 101*(i/7))
	case 1:
		return int64(5) + int64(lcm3)*int64(i/7)
	case 2:
		return -int64(1 + 101*(i/7))
	case 3:
		return int64(lcm3) * int64(i/7)
	case 4:
		return int64(uint64(i) * 0x9E3779B97F4A7C15)
	case 5:
		return (int64(i/7) << 32) | 5 // differ only in the high word
	default:
		return int64(i / 7)
	}
}

var int64Special = []int64{0, 1, -1, math.MaxInt64, math.MinInt64, math.MinInt64 + 1, math.MaxInt32, math.MinInt32, 1 << 32, (1 << 32) + 1, -(1 << 32), 1 << 62, 101, 203, -101}

func strCands(i int) string {
	switch i % 4 {
	case 0:
		return "k" + strconv.Itoa(i/4)
	case 1:
		return "/url/path/" + strconv.Itoa(i/4) + "/x"
	case 2:
		return strings.Repeat("z", 1+(i/4)%7) + strconv.Itoa(i/4)
	default:
		return strconv.Itoa(i / 4)
	}
}

var strSpecial = []string{"", " ", "a", "A", "aa", "\x00", "a\x00b", "한글", "é", strings.Repeat("long", 300), "0", "-1", "\t", "a ", " a"}

func lessOrd[K int32 | int64 | string](a, b K) bool { return a < b }

func i32s(k int32) string  { return strconv.FormatInt(int64(k), 10) }
func i64s(k int64) string  { return strconv.FormatInt(k, 10) }
func strs(k string) string { return strconv.Quote(k) }

// hash replicas (steering only: they decide which keys are LIKELY to collide)
func hIdent32(k int32) uint { return uint(k) }
func hMask32(k int32) uint  { return uint(k & math.MaxInt32) }
func hIdent64(k int64) uint { return uint(k) }
func hFold64(k int64) uint  { return uint(k ^ k>>32) }
func hCrc(k string) uint    { return uint(hash.HashStr(k)) }
func hJava(k string) uint   { return uint(stringutil.HashCode(k)) }

func poolSize(n int, small bool) int {
	if small {
		return 3
	}
	return n
}

func pool32(r *rand.Rand, n int, h func(int32) uint, caps []uint, small bool) *hmapx.Pool[int32] {
	if small { // three keys in one bucket of the first capacity, two of them also after growth
		b := int32(5 + r.Intn(90))
		ks := []int32{b, b + int32(caps[0]), b + int32(caps[0]*caps[1]*uint(1+r.Intn(3)))}
		if r.Intn(2) == 0 {
			ks[0] = -ks[1] // a negative key in the mix
		}
		return hmapx.NewPool(ks, lessOrd[int32], i32s)
	}
	return hmapx.NewPool(hmapx.PickKeys(r, n, 6000, int32Cands, int32Special, h, caps), lessOrd[int32], i32s)
}

func pool64(r *rand.Rand, n int, h func(int64) uint, caps []uint, small bool) *hmapx.Pool[int64] {
	if small {
		b := int64(5 + r.Intn(90))
		ks := []int64{b, b + int64(caps[0]), b + int64(caps[0]*caps[1])*int64(1+r.Intn(1000))}
		switch r.Intn(3) {
		case 0:
			ks[0] = math.MinInt64
		case 1:
			ks[2] = (int64(1+r.Intn(1000)) << 32) | b
		}
		return hmapx.NewPool(ks, lessOrd[int64], i64s)
	}
	return hmapx.NewPool(hmapx.PickKeys(r, n, 7000, int64Cands, int64Special, h, caps), lessOrd[int64], i64s)
}

// nsmall is the size of the small pool: 3, or 4 for the types that refuse the
// empty string (the refused key plus three usable ones, as MC_LinkedDict_*rej.cfg)
func poolStr(r *rand.Rand, n int, h func(string) uint, caps []uint, small bool, withEmpty bool, nsmall int) *hmapx.Pool[string] {
	if small { // the empty string (where it matters) and keys sharing a bucket
		var ks []string
		if withEmpty {
			ks = append(ks, "")
		}
		t := h(strCands(r.Intn(4000))) % caps[0]
		for i := 0; len(ks) < nsmall && i < 400000; i++ {
			if k := strCands(i); h(k)%caps[0] == t {
				ks = append(ks, k)
			}
		}
		return hmapx.NewPool(ks, lessOrd[string], strs)
	}
	sp := strSpecial
	if !withEmpty {
		sp = sp[1:]
	}
	return hmapx.NewPool(hmapx.PickKeys(r, n, 40000, strCands, sp, h, caps), lessOrd[string], strs)
}

// lk is the LinkedKey of the generic LinkedMap / LinkedSet histories: identity
// id, hash chosen by the harness (collisions of the full hash, extreme hashes).
type lk struct {
	id int
	h  uint
}

func (a lk) Hash() uint { return a.h }
func (a lk) Equals(o hmap.LinkedKey) bool {
	b, ok := o.(lk)
	return ok && b.id == a.id
}
func (a lk) String() string { return fmt.Sprintf("lk%d#%d", a.id, a.h) }

func poolLK(r *rand.Rand, n int, caps []uint, small bool) *hmapx.Pool[hmap.LinkedKey] {
	if small {
		n = 3
	}
	ks := make([]hmap.LinkedKey, 0, n)
	t := uint(r.Intn(int(caps[0])))
	for id := 1; id <= n; id++ {
		var h uint
		switch r.Intn(8) {
		case 0:
			h = 7 // equal full hashes
		case 1:
			h = t + caps[0]*uint(r.Intn(1000)) // same first bucket
		case 2:
			h = t + caps[0]*caps[1]*caps[2]*uint(r.Intn(1000)) // same bucket through two growths
		case 3:
			h = []uint{0, math.MaxUint64, math.MaxInt64, 1 << 63, math.MaxUint32}[r.Intn(5)]
		case 4:
			h = caps[0] * caps[1] * uint(r.Intn(50)) // bucket 0
		default:
			h = uint(r.Uint64())
		}
		if small {
			h = t + caps[0]*uint(id*(1+r.Intn(5)))
		}
		ks = append(ks, lk{id: id, h: h})
	}
	less := func(a, b hmap.LinkedKey) bool { return a.(lk).id < b.(lk).id }
	str := func(k hmap.LinkedKey) string { return k.(lk).String() }
	return hmapx.NewPool(ks, less, str)
}

func rankLK(p *hmapx.Pool[hmap.LinkedKey]) func(hmap.LinkedKey) int {
	return func(k hmap.LinkedKey) int {
		if k == nil {
			return 0
		}
		return p.Rank(k)
	}
}

// ------------------------------------------------------------- the 13 types

func intEnum(en hmap.IntEnumer, rank func(int32) int) []int {
	out := []int{}
	for i := 0; en.HasMoreElements() && i < enumLimit; i++ {
		out = append(out, rank(en.NextInt()))
	}
	return out
}
func longEnum(en hmap.LongEnumer, rank func(int64) int) []int {
	out := []int{}
	for i := 0; en.HasMoreElements() && i < enumLimit; i++ {
		out = append(out, rank(en.NextLong()))
	}
	return out
}
func strEnum(en hmap.StringEnumer, rank func(string) int) []int {
	out := []int{}
	for i := 0; en.HasMoreElements() && i < enumLimit; i++ {
		out = append(out, rank(en.NextString()))
	}
	return out
}

// image runs a ToBytes and returns what it wrote.
func image(write func(*io.DataOutputX)) []byte {
	d := io.NewDataOutputX()
	write(d)
	return d.ToByteArray()
}

// key32 maps a decoded integer back to the rank of an int32 key (0: no such key).
func key32(p *hmapx.Pool[int32]) func(int64) int {
	return func(k int64) int {
		if k != int64(int32(k)) {
			return 0
		}
		return p.Rank(int32(k))
	}
}

func idInt32(v int32) int { return n2i(v) }
func idInt64(v int64) int { return n2i(v) }

var Types = []TypeDef{
	{Name: "LinkedMap", HasCtor: true, VLo: 1, VHi: 9, New: func(r *rand.Rand, n int, c Ctor, small bool) func() *hmapx.Obj {
		p := poolLK(r, n, c.Caps(), small)
		return func() *hmapx.Obj {
			var m *hmap.LinkedMap
			if c.Default {
				m = hmap.NewLinkedMapDefault()
			} else {
				m = hmap.NewLinkedMap(c.Cap, c.LF)
			}
			rk := rankLK(p)
			keys := func() []int {
				out := []int{}
				drain(m.Keys(), func(x interface{}) {
					k, _ := x.(hmap.LinkedKey)
					out = append(out, rk(k))
				})
				return out
			}
			return buildObjMap[hmap.LinkedKey]("LinkedMap", m, p, rk, keys, func(n int) { m.SetMax(n) })
		}
	}},
	{Name: "IntKeyLinkedMap", HasCtor: true, VLo: 1, VHi: 9, New: func(r *rand.Rand, n int, c Ctor, small bool) func() *hmapx.Obj {
		p := pool32(r, n, hMask32, c.Caps(), small)
		return func() *hmapx.Obj {
			var m *hmap.IntKeyLinkedMap
			if c.Default {
				m = hmap.NewIntKeyLinkedMapDefault()
			} else {
				m = hmap.NewIntKeyLinkedMap(c.Cap, c.LF)
			}
			keys := func() []int { return intEnum(m.Keys(), p.Rank) }
			o := buildObjMap[int32]("IntKeyLinkedMap", m, p, p.Rank, keys, func(n int) { m.SetMax(n) })
			o.Ops["GetLRU"] = func(op Op) Ev { return Ev{"ret": pObj(m.GetLRU(p.Key(op.K)))} }
			o.Ops["ContainsValue"] = func(op Op) Ev { return Ev{"b": m.ContainsValue(op.V)} }
			o.Ops["ToFormatString"] = func(op Op) Ev { return Ev{"len": len(m.ToFormatString())} }
			o.Ops["ValueIterator"] = func(op Op) Ev {
				out := []int{}
				if en, ok := m.ValueIterator().(hmap.Enumeration); ok {
					drain(en, func(x interface{}) { out = append(out, pObj1(x)) })
				} else {
					out = append(out, Bad)
				}
				return Ev{"seq": out}
			}
			o.Ops["GetKeySet"] = func(op Op) Ev { return Ev{"seq": intEnum(m.GetKeySet().Keys(), p.Rank)} }
			o.Ops["ToKeySet"] = func(op Op) Ev { // a list standing for an unordered Java set: compared as a set
				out := []int{}
				for e := m.ToKeySet().Front(); e != nil && len(out) < enumLimit; e = e.Next() {
					if k, ok := e.Value.(int32); ok {
						out = append(out, p.Rank(k))
					} else {
						out = append(out, Bad)
					}
				}
				return Ev{"seq": out}
			}
			return o
		}
	}},
	{Name: "LongKeyLinkedMap", HasCtor: true, VLo: 1, VHi: 9, New: func(r *rand.Rand, n int, c Ctor, small bool) func() *hmapx.Obj {
		p := pool64(r, n, hFold64, c.Caps(), small)
		return func() *hmapx.Obj {
			var m *hmap.LongKeyLinkedMap
			if c.Default {
				m = hmap.NewLongKeyLinkedMapDefault()
			} else {
				m = hmap.NewLongKeyLinkedMap(c.Cap, c.LF)
			}
			keys := func() []int { return longEnum(m.Keys(), p.Rank) }
			return buildObjMap[int64]("LongKeyLinkedMap", m, p, p.Rank, keys, func(n int) { m.SetMax(n) })
		}
	}},
	{Name: "StringKeyLinkedMap", VLo: 1, VHi: 9, New: func(r *rand.Rand, n int, c Ctor, small bool) func() *hmapx.Obj {
		p := poolStr(r, n, hCrc, c.Caps(), small, true, 3)
		return func() *hmapx.Obj {
			m := hmap.NewStringKeyLinkedMap()
			keys := func() []int { return strEnum(m.Keys(), p.Rank) }
			return buildObjMap[string]("StringKeyLinkedMap", m, p, p.Rank, keys, func(n int) { m.SetMax(n) })
		}
	}},
	{Name: "IntIntLinkedMap", VLo: -3, VHi: 9, New: func(r *rand.Rand, n int, c Ctor, small bool) func() *hmapx.Obj {
		p := pool32(r, n, hIdent32, c.Caps(), small)
		return func() *hmapx.Obj {
			m := hmap.NewIntIntLinkedMap()
			keys := func() []int { return intEnum(m.Keys(), p.Rank) }
			values := func() []int { return intEnum(m.Values(), idInt32) }
			o := buildNumMap[int32, int32]("IntIntLinkedMap", m, p, keys, values, func(n int) { m.SetMax(n) })
			o.Ops["AddNoOver"] = func(op Op) Ev { return Ev{"ret": pNum(m.AddNoOver(p.Key(op.K), int32(op.V)))} }
			o.Ops["ToBytes"] = func(op Op) Ev {
				b := image(func(d *io.DataOutputX) { m.ToBytes(d) })
				m2 := hmap.NewIntIntLinkedMap().ToObject(io.NewDataInputX(b))
				return Ev{"pairs": wirePairs(b, key32(p), false), "copy": numPairs[int32, int32](m2.Entries(), p.Rank)}
			}
			return o
		}
	}},
	{Name: "IntFloatLinkedMap", VLo: -3, VHi: 9, New: func(r *rand.Rand, n int, c Ctor, small bool) func() *hmapx.Obj {
		p := pool32(r, n, hIdent32, c.Caps(), small)
		return func() *hmapx.Obj {
			m := hmap.NewIntFloatLinkedMap()
			keys := func() []int { return intEnum(m.Keys(), p.Rank) }
			values := func() []int {
				out := []int{}
				en := m.Values()
				for i := 0; en.HasMoreElements() && i < enumLimit; i++ {
					out = append(out, n2i(en.NextFloat()))
				}
				return out
			}
			o := buildNumMap[int32, float32]("IntFloatLinkedMap", m, p, keys, values, func(n int) { m.SetMax(n) })
			o.Ops["ToBytes"] = func(op Op) Ev {
				b := image(func(d *io.DataOutputX) { m.ToBytes(d) })
				m2 := hmap.NewIntFloatLinkedMap().ToObject(io.NewDataInputX(b))
				return Ev{"pairs": wirePairs(b, key32(p), true), "copy": numPairs[int32, float32](m2.Entries(), p.Rank)}
			}
			return o
		}
	}},
	{Name: "LongFloatLinkedMap", VLo: -3, VHi: 9, New: func(r *rand.Rand, n int, c Ctor, small bool) func() *hmapx.Obj {
		p := pool64(r, n, hIdent64, c.Caps(), small)
		return func() *hmapx.Obj {
			m := hmap.NewLongFloatLinkedMap()
			keys := func() []int { return longEnum(m.Keys(), p.Rank) }
			values := func() []int {
				out := []int{}
				en := m.Values()
				for i := 0; en.HasMoreElements() && i < enumLimit; i++ {
					out = append(out, n2i(en.NextFloat()))
				}
				return out
			}
			o := buildNumMap[int64, float32]("LongFloatLinkedMap", m, p, keys, values, func(n int) { m.SetMax(n) })
			o.Ops["ToBytes"] = func(op Op) Ev {
				b := image(func(d *io.DataOutputX) { m.ToBytes(d) })
				m2 := hmap.NewLongFloatLinkedMap().ToObject(io.NewDataInputX(b))
				return Ev{"pairs": wirePairs(b, p.Rank, true), "copy": numPairs[int64, float32](m2.Entries(), p.Rank)}
			}
			return o
		}
	}},
	{Name: "LongLongLinkedMap", HasCtor: true, VLo: -3, VHi: 9, New: func(r *rand.Rand, n int, c Ctor, small bool) func() *hmapx.Obj {
		p := pool64(r, n, hIdent64, c.Caps(), small)
		return func() *hmapx.Obj {
			var m *hmap.LongLongLinkedMap
			if c.Default {
				m = hmap.NewLongLongLinkedMapDefault()
			} else {
				m = hmap.NewLongLongLinkedMap(c.Cap, c.LF)
			}
			keys := func() []int { return longEnum(m.Keys(), p.Rank) }
			values := func() []int { return longEnum(m.Values(), idInt64) }
			o := buildNumMap[int64, int64]("LongLongLinkedMap", m, p, keys, values, func(n int) { m.SetMax(n) })
			o.Ops["ToBytes"] = func(op Op) Ev {
				b := image(func(d *io.DataOutputX) { m.ToBytes(d) })
				m2 := hmap.NewLongLongLinkedMapDefault().ToObject(io.NewDataInputX(b))
				return Ev{"pairs": wirePairs(b, p.Rank, false), "copy": numPairs[int64, int64](m2.Entries(), p.Rank)}
			}
			o.Ops["SetNullValue"] = func(op Op) Ev { m.SetNullValue(int64(op.V)); return Ev{} }
			return o
		}
	}},
	{Name: "StringIntLinkedMap", VLo: -3, VHi: 9, New: func(r *rand.Rand, n int, c Ctor, small bool) func() *hmapx.Obj {
		p := poolStr(r, n, hCrc, c.Caps(), small, true, 4)
		return func() *hmapx.Obj {
			m := hmap.NewStringIntLinkedMap()
			o := buildStrNumMap[int32]("StringIntLinkedMap", m, p, func(n int) { m.SetMax(n) })
			o.Ops["SetNullValue"] = func(op Op) Ev { m.SetNullValue(int32(op.V)); return Ev{} }
			return o
		}
	}},
	{Name: "StringLongLinkedMap", VLo: -3, VHi: 9, New: func(r *rand.Rand, n int, c Ctor, small bool) func() *hmapx.Obj {
		p := poolStr(r, n, hCrc, c.Caps(), small, true, 4)
		return func() *hmapx.Obj {
			m := hmap.NewStringLongLinkedMap()
			o := buildStrNumMap[int64]("StringLongLinkedMap", m, p, func(n int) { m.SetMax(n) })
			o.Ops["SetNullValue"] = func(op Op) Ev { m.SetNullValue(int64(op.V)); return Ev{} }
			return o
		}
	}},
	{Name: "LinkedSet", VLo: 0, VHi: 0, New: func(r *rand.Rand, n int, c Ctor, small bool) func() *hmapx.Obj {
		p := poolLK(r, n, c.Caps(), small)
		return func() *hmapx.Obj {
			m := hmap.NewLinkedSet()
			rk := rankLK(p)
			pk := func(x interface{}) []int {
				switch v := x.(type) {
				case nil:
					return []int{}
				case int:
					if v == 0 {
						return []int{}
					}
				case hmap.LinkedKey:
					return []int{rk(v)}
				}
				return []int{Bad}
			}
			keys := func() []int {
				out := []int{}
				drain(m.Keys(), func(x interface{}) {
					k, _ := x.(hmap.LinkedKey)
					out = append(out, rk(k))
				})
				return out
			}
			keyArray := func() []int {
				ks := m.KeyArray()
				out := make([]int, len(ks))
				for i, k := range ks {
					out[i] = rk(k)
				}
				return out
			}
			return buildSet[hmap.LinkedKey]("LinkedSet", m, p, rk, pk, keys, keyArray, func(n int) { m.SetMax(n) },
				Ev{"set": true, "none": []int{}, "rej": false, "ek": 0})
		}
	}},
	{Name: "IntLinkedSet", VLo: 0, VHi: 0, New: func(r *rand.Rand, n int, c Ctor, small bool) func() *hmapx.Obj {
		p := pool32(r, n, hIdent32, c.Caps(), small)
		return func() *hmapx.Obj {
			m := hmap.NewIntLinkedSet()
			pk := func(x interface{}) []int {
				switch v := x.(type) {
				case nil:
					return []int{}
				case int: // the untyped 0 of remove-first/last on an empty set
					if v == 0 {
						return []int{}
					}
				case int32:
					return []int{p.Rank(v)}
				}
				return []int{Bad}
			}
			keys := func() []int { return intEnum(m.Keys(), p.Rank) }
			keyArray := func() []int { return p.Ranks(m.KeyArray()) }
			return buildSet[int32]("IntLinkedSet", m, p, p.Rank, pk, keys, keyArray, func(n int) { m.SetMax(n) },
				Ev{"set": true, "none": []int{}, "rej": false, "ek": 0})
		}
	}},
	{Name: "StringLinkedSet", VLo: 0, VHi: 0, New: func(r *rand.Rand, n int, c Ctor, small bool) func() *hmapx.Obj {
		p := poolStr(r, n, hJava, c.Caps(), small, true, 4)
		return func() *hmapx.Obj {
			m := hmap.NewStringLinkedSet()
			pk := func(x interface{}) []int {
				switch v := x.(type) {
				case nil:
					return []int{}
				case int:
					if v == 0 {
						return []int{}
					}
				case string:
					if r := p.Rank(v); r > 0 {
						return []int{r}
					}
				}
				return []int{Bad}
			}
			keys := func() []int { return strEnum(m.Keys(), p.Rank) }
			keyArray := func() []int { return p.Ranks(m.GetArray()) }
			o := buildSet[string]("StringLinkedSet", m, p, p.Rank, pk, keys, keyArray, func(n int) { m.SetMax(n) },
				Ev{"set": true, "none": []int{}, "rej": true, "ek": p.Rank("")})
			o.Ops["Unipoint"] = func(op Op) Ev { return Ev{"rk": p.Rank(m.Unipoint(p.Key(op.K)))} }
			return o
		}
	}},
}
