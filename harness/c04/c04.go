// Package c04 drives golib's decoders on truncated and hostile inputs.
//
// The parent generates valid encodings (values, steps, records, packs - factory
// made and decoded through their own Read -, UDP packs, primitive streams read
// from a buffer and from a connection) and hands them to a child process (the
// same binary, run under an address-space limit) that decodes every strict
// prefix and every hostile overwrite, so that a fatal out-of-memory or a hang is
// attributed to the input being decoded.  Whenever a decode returns an object the
// child also runs the SECOND stage on it: every public accessor of the object is
// called twice, the object is written and the written bytes are decoded and
// accessed again (sequences of calls on one object, same allocation accounting).
// At every position that holds a type tag by construction all codes are tried.
// The child only measures; Trace_FailClosed.tla judges.
package c04

import (
	"bufio"
	"bytes"
	"encoding/hex"
	"encoding/json"
	"errors"
	"fmt"
	stdio "io"
	"math/rand"
	"net"
	"os"
	"os/exec"
	"reflect"
	"runtime"
	"runtime/metrics"
	"sort"
	"strconv"
	"strings"
	"time"

	gio "github.com/whatap/golib/io"
	"github.com/whatap/golib/lang/pack"
	"github.com/whatap/golib/lang/pack/udp"
	"github.com/whatap/golib/lang/service"
	"github.com/whatap/golib/lang/step"
	"github.com/whatap/golib/lang/value"

	"verifharness/core"
	"verifharness/gen"
)

func init() { core.Register("c04", Run) }

// tagpos is a position of a valid encoding that holds a type tag BY CONSTRUCTION
// (the generator knows it from how the encoding was put together, never from the decoder).
type tagpos struct {
	Pos  int    `json:"pos"`
	W    int    `json:"w"`             // width of the tag in bytes
	Kind string `json:"kind"`          // registry the tag selects from: value | step | pack | service
	Nest string `json:"nest"`          // "" = the object's own tag, else where the nested object sits
	Acc  string `json:"acc,omitempty"` // the tag lies in a lazily decoded blob: the accessor that decodes it
}

// item is one valid encoding plus how to decode it.
type item struct {
	Kind string   `json:"kind"` // decoder selector
	Sub  string   `json:"sub"`  // type within the kind (for the evidence)
	Hex  string   `json:"hex"`
	Ver  int32    `json:"ver,omitempty"`
	T    int      `json:"t,omitempty"`
	Gen  string   `json:"gen"`
	Case int      `json:"case"`
	Var  string   `json:"var,omitempty"` // layout variant: the one field changed on the populated object, and its value
	Tags []tagpos `json:"tags,omitempty"`
	// Framed: the length of the object is carried outside the encoding (the reader is told how much to take by
	// the frame around it), so the writer's output alone is not a self-delimiting encoding
	Framed bool `json:"framed,omitempty"`
	// NoHostile: the allocation of this decoder is by design not bounded by the input (reads from a connection)
	NoHostile bool `json:"nohostile,omitempty"`
}

// ---------------------------------------------------------------- connection

var errFault = errors.New("c04: injected connection fault")

// fakeConn delivers data in chunks and then ends the stream: "eof" = clean close,
// "err" = a read error, "eofdata" = the last chunk is returned together with io.EOF.
type fakeConn struct {
	data  []byte
	pos   int
	chunk int
	mode  string
}

func (c *fakeConn) Read(p []byte) (int, error) {
	if c.pos >= len(c.data) {
		if c.mode == "err" {
			return 0, errFault
		}
		return 0, stdio.EOF
	}
	n := len(c.data) - c.pos
	if c.chunk > 0 && n > c.chunk {
		n = c.chunk
	}
	if n > len(p) {
		n = len(p)
	}
	copy(p, c.data[c.pos:c.pos+n])
	c.pos += n
	if c.mode == "eofdata" && c.pos == len(c.data) {
		return n, stdio.EOF
	}
	return n, nil
}
func (c *fakeConn) Write(p []byte) (int, error)        { return len(p), nil }
func (c *fakeConn) Close() error                       { return nil }
func (c *fakeConn) LocalAddr() net.Addr                { return &net.TCPAddr{} }
func (c *fakeConn) RemoteAddr() net.Addr               { return &net.TCPAddr{} }
func (c *fakeConn) SetDeadline(t time.Time) error      { return nil }
func (c *fakeConn) SetReadDeadline(t time.Time) error  { return nil }
func (c *fakeConn) SetWriteDeadline(t time.Time) error { return nil }

const netLimit = 1 << 16

// ------------------------------------------------------------------- decoding

func directByName(n string) func() interface{} {
	for _, d := range gen.DirectTypes {
		if d.Name == n {
			return d.Mk
		}
	}
	panic("direct type " + n)
}

// decode runs the real decoder of kind over b; returns the object and the bytes consumed.
func decode(it *item, b []byte) (obj interface{}, consumed int) {
	din := gio.NewDataInputX(b)
	switch it.Kind {
	case "value":
		obj = value.ReadValue(din)
	case "step":
		obj = step.ReadStep(din)
	case "txrecord":
		obj = service.NewTxRecord().Read(din)
	case "service":
		obj = service.ToObject(din)
	case "pack":
		obj = pack.ReadPack(din)
	case "udp":
		obj = udp.ReadPack(uint8(it.T), it.Ver, din)
	case "direct":
		o := directByName(it.Sub)()
		reflect.ValueOf(o).MethodByName("Read").Call([]reflect.Value{reflect.ValueOf(din)})
		obj = o
	case "prim": // primitive stream: ops encoded in Sub, comma separated
		for _, op := range strings.Split(it.Sub, ",") {
			readPrim(din, op)
		}
	case "net":
		return decodeNet(it, b, "eof", 0)
	default:
		panic("kind")
	}
	return obj, len(b) - int(din.Available())
}

// decodeNet reads the primitive stream of it from a connection that delivers b and then ends.
func decodeNet(it *item, b []byte, mode string, chunk int) (obj interface{}, consumed int) {
	conn := &fakeConn{data: b, chunk: chunk, mode: mode}
	din := gio.NewDataInputNet(conn)
	for _, op := range strings.Split(it.Sub, ",") {
		readPrim(din, op)
	}
	return nil, conn.pos
}

// encode writes obj the way its kind is written (the inverse of decode).
func encode(it *item, obj interface{}) []byte {
	out := gio.NewDataOutputX()
	switch it.Kind {
	case "value":
		value.WriteValue(out, obj.(value.Value))
	case "step":
		step.WriteStep(out, obj.(step.Step))
	case "txrecord":
		obj.(*service.TxRecord).Write(out)
	case "service":
		service.ToBytes(obj.(service.Service), out)
	case "pack":
		pack.WritePack(out, obj.(pack.Pack))
	case "udp":
		obj.(udp.UdpPack).Write(out)
	case "direct":
		reflect.ValueOf(obj).MethodByName("Write").Call([]reflect.Value{reflect.ValueOf(out)})
	default:
		panic("kind")
	}
	return append([]byte(nil), out.ToByteArray()...)
}

func readPrim(din *gio.DataInputX, op string) {
	switch op {
	case "Bool":
		din.ReadBool()
	case "Byte":
		din.ReadByte()
	case "Short":
		din.ReadShort()
	case "Int3":
		din.ReadInt3()
	case "Int":
		din.ReadInt()
	case "Long5":
		din.ReadLong5()
	case "Long":
		din.ReadLong()
	case "Float":
		din.ReadFloat()
	case "Double":
		din.ReadDouble()
	case "Decimal":
		din.ReadDecimal()
	case "Blob":
		din.ReadBlob()
	case "Text":
		din.ReadText()
	case "ShortBytes":
		din.ReadShortBytes()
	case "IntBytes":
		din.ReadIntBytes()
	case "IntBytesLimit":
		din.ReadIntBytesLimit(netLimit)
	case "TextShort":
		din.ReadTextShortLength()
	case "ShortArr":
		din.ReadShortArray()
	case "IntArr":
		din.ReadIntArray()
	case "LongArr":
		din.ReadLongArray()
	case "FloatArr":
		din.ReadFloatArray()
	case "DoubleArr":
		din.ReadDoubleArray()
	case "TextArr":
		din.ReadTextArray()
	case "DecArr":
		din.ReadDecimalArray()
	case "DecArrInt":
		din.ReadDecimalArrayInt()
	}
}

var primOps = []string{"Bool", "Byte", "Short", "Int3", "Int", "Long5", "Long", "Float", "Double", "Decimal", "Blob", "Text",
	"ShortBytes", "IntBytes", "TextShort", "ShortArr", "IntArr", "LongArr", "FloatArr", "DoubleArr", "TextArr", "DecArr"}

// frameOps: reads whose allocation is bounded also when the input is a connection (fixed sizes and the limited frame read)
var frameOps = []string{"IntBytesLimit", "IntBytesLimit", "Byte", "Short", "Int", "Long", "Decimal"}

func writePrim(r *rand.Rand, out *gio.DataOutputX, op string) {
	switch op {
	case "Bool":
		out.WriteBool(r.Intn(2) == 1)
	case "Byte":
		out.WriteByte(byte(r.Intn(256)))
	case "Short":
		out.WriteShort(int16(gen.Int64(r)))
	case "Int3":
		out.WriteInt3(int32(gen.Int64(r)))
	case "Int":
		out.WriteInt(int32(gen.Int64(r)))
	case "Long5":
		out.WriteLong5(gen.Int64(r))
	case "Long":
		out.WriteLong(gen.Int64(r))
	case "Float":
		out.WriteFloat(gen.F32(r))
	case "Double":
		out.WriteDouble(gen.F64(r))
	case "Decimal":
		out.WriteDecimal(gen.Int64(r))
	case "Blob":
		out.WriteBlob(gen.Blob(r))
	case "Text":
		out.WriteText(gen.Text(r))
	case "ShortBytes":
		out.WriteShortBytes(gen.Blob(r))
	case "IntBytes", "IntBytesLimit":
		out.WriteIntBytes(gen.Blob(r))
	case "TextShort":
		out.WriteTextShortLength(gen.Text(r))
	case "ShortArr":
		out.WriteShortArray(make([]int16, r.Intn(4)))
	case "IntArr":
		out.WriteIntArray(make([]int32, r.Intn(4)))
	case "LongArr":
		out.WriteLongArray(make([]int64, r.Intn(4)))
	case "FloatArr":
		out.WriteFloatArray(make([]float32, r.Intn(4)))
	case "DoubleArr":
		out.WriteDoubleArray(make([]float64, r.Intn(4)))
	case "TextArr":
		out.WriteTextArray([]string{gen.Text(r), gen.Text(r)}[:r.Intn(3)])
	case "DecArr":
		n := r.Intn(4)
		out.WriteDecimal(int64(n))
		for i := 0; i < n; i++ {
			out.WriteDecimal(gen.Int64(r))
		}
	}
}

// ------------------------------------------------- nested type tags by construction

var tValue = reflect.TypeOf((*value.Value)(nil)).Elem()

// site is a live value object reachable from a generated object: its tagged encoding T
// (type code + body, as value.WriteValue emits it) and the path pattern it sits under.
type site struct {
	pat string
	t   []byte
}

// sites walks the exported state of x (fields, slices, and the children of value containers
// through their public Keys/Get or Size/Get) and returns every non-nil value.Value found.
func sites(x interface{}) []site {
	var out []site
	seen := map[uintptr]bool{}
	var walk func(v reflect.Value, pat string, depth int)
	asValue := func(v reflect.Value, pat string, depth int) bool {
		if !v.CanInterface() || !v.Type().Implements(tValue) {
			return false
		}
		val := v.Interface().(value.Value)
		b := gen.Encode(func(o *gio.DataOutputX) { value.WriteValue(o, val) })
		if b != nil && pat != "" {
			out = append(out, site{pat, b})
		}
		// children of containers
		core.Guard(func() {
			keys, get, size := v.MethodByName("Keys"), v.MethodByName("Get"), v.MethodByName("Size")
			if keys.IsValid() && get.IsValid() && keys.Type().NumIn() == 0 && get.Type().NumIn() == 1 {
				en := keys.Call(nil)[0]
				has := en.MethodByName("HasMoreElements")
				next := en.MethodByName("NextString")
				if !next.IsValid() {
					next = en.MethodByName("NextInt")
				}
				if !has.IsValid() || !next.IsValid() {
					return
				}
				for has.Call(nil)[0].Bool() {
					k := next.Call(nil)[0]
					walk(get.Call([]reflect.Value{k})[0], pat+"/*", depth+1)
				}
			} else if size.IsValid() && get.IsValid() && size.Type().NumIn() == 0 && get.Type().NumIn() == 1 && get.Type().In(0).Kind() == reflect.Int {
				n := int(size.Call(nil)[0].Int())
				for i := 0; i < n; i++ {
					walk(get.Call([]reflect.Value{reflect.ValueOf(i)})[0], pat+"/*", depth+1)
				}
			}
		})
		return true
	}
	walk = func(v reflect.Value, pat string, depth int) {
		if !v.IsValid() || depth > 6 {
			return
		}
		switch v.Kind() {
		case reflect.Interface:
			if !v.IsNil() {
				walk(v.Elem(), pat, depth)
			}
		case reflect.Ptr:
			if v.IsNil() || seen[v.Pointer()] {
				return
			}
			seen[v.Pointer()] = true
			if asValue(v, pat, depth) {
				return
			}
			walk(v.Elem(), pat, depth+1)
		case reflect.Struct:
			for i := 0; i < v.NumField(); i++ {
				f := v.Type().Field(i)
				if f.PkgPath != "" { // unexported
					continue
				}
				p := pat + "." + f.Name
				if f.Anonymous {
					p = pat
				}
				walk(v.Field(i), p, depth+1)
			}
		case reflect.Slice, reflect.Array:
			if v.Type().Elem().Kind() == reflect.Uint8 {
				return
			}
			for i := 0; i < v.Len(); i++ {
				walk(v.Index(i), pat+"[]", depth+1)
			}
		}
	}
	v := reflect.ValueOf(x)
	if v.Kind() == reflect.Ptr && !v.IsNil() && v.Type().Implements(tValue) {
		// a value: its own tag is position 0 (added by the caller); only the children are sites
		seen[v.Pointer()] = true
		asValue(v, "", 0)
		return out
	}
	walk(v, "", 0)
	return out
}

const minSite = 4 // a tagged encoding shorter than this is too short to be located reliably

type inst struct {
	obj interface{}
	enc []byte
}

// confirmed: the path patterns under which, in EVERY one of several independently generated
// instances, every located value sits in the encoding with its type code in front (0 missing,
// >= 3 instances with a uniquely located site).  A pattern whose values are written without a
// tag, transformed, or only sometimes written is not confirmed (and then not explored).
func confirmed(instances []inst) map[string]bool {
	good := map[string]int{}
	bad := map[string]bool{}
	for _, in := range instances {
		had := map[string]bool{}
		for _, s := range sites(in.obj) {
			if len(s.t) < minSite {
				continue
			}
			switch bytes.Count(in.enc, s.t) {
			case 0:
				bad[s.pat] = true
			case 1:
				had[s.pat] = true
			}
		}
		for p := range had {
			good[p]++
		}
	}
	out := map[string]bool{}
	for p, n := range good {
		if n >= 3 && !bad[p] {
			out[p] = true
		}
	}
	return out
}

// nestedTags: the tag positions of the values nested in obj, under confirmed patterns only.
func nestedTags(obj interface{}, enc []byte, conf map[string]bool) []tagpos {
	var out []tagpos
	used := map[int]bool{}
	for _, s := range sites(obj) {
		if len(s.t) < minSite || !conf[s.pat] || bytes.Count(enc, s.t) != 1 {
			continue
		}
		q := bytes.Index(enc, s.t)
		if q <= 0 || used[q] {
			continue
		}
		used[q] = true
		out = append(out, tagpos{Pos: q, W: 1, Kind: "value", Nest: s.pat})
	}
	sort.Slice(out, func(i, j int) bool { return out[i].Pos < out[j].Pos })
	if len(out) > 12 {
		out = out[:12]
	}
	return out
}

// ------------------------------------------------------------------ generation

const nConfirm = 5

// generate builds the items of this run (deterministic in seed, gen, case).
func generate(c *core.Ctx) []item {
	var items []item
	add := func(g string, cas int, it item, b []byte) {
		if b == nil || len(b) == 0 || len(b) > 6000 {
			return
		}
		it.Gen, it.Case, it.Hex = g, cas, hex.EncodeToString(b)
		if it.Kind == "udp" && uint8(it.T) == udp.RELAY_PACK {
			it.Framed = true // UdpRelayPack.Read takes Len bytes, Len being set from the datagram header by the receiver
		}
		items = append(items, it)
	}
	// the confirmed nested-tag patterns of one type: from nConfirm instances of their own
	confFor := func(name string, mk func(r *rand.Rand) (interface{}, []byte)) map[string]bool {
		var ins []inst
		for j := 0; j < nConfirm; j++ {
			var o interface{}
			var b []byte
			core.Guard(func() { o, b = mk(c.Rng("tagmap/"+name, j)) })
			if o != nil && b != nil {
				ins = append(ins, inst{o, b})
			}
		}
		return confirmed(ins)
	}
	per := c.Pick(2, 12)
	// Layout variants.  The random fill above draws every field from one wide distribution, so the few values
	// of a version byte, flag byte or optional group that select ANOTHER layout of the same type are hardly ever
	// hit.  variants() takes one populated object, changes ONE field at a time to each of its candidate values
	// (gen.Mutate: all 256 values of a byte-wide field, both of a bool, 0/1/2/3/-1 of a wider integer,
	// empty/non-empty of strings, slices, maps, nested values) and keeps one encoding per distinct layout
	// signature the writer produces (the length of its output; at equal length, more than the one byte changed).
	// Every kept encoding is an item like any other: full decode, every prefix, hostile overwrites, tags.
	maxVar := c.Pick(10, 40)
	layoutSig := func(b, b0 []byte) string {
		if len(b) != len(b0) {
			return fmt.Sprint(len(b))
		}
		d := 0
		for i := range b {
			if b[i] != b0[i] {
				d++
			}
		}
		if d <= 1 {
			return ""
		}
		return fmt.Sprint(len(b), "/d")
	}
	variants := func(g string, base int, r *rand.Rand, obj interface{}, enc func() []byte, mk func(b []byte) item) {
		b0 := enc()
		if b0 == nil {
			return
		}
		seen := map[string]bool{}
		k := 0
		abs := func(x int) int {
			if x < 0 {
				return -x
			}
			return x
		}
		curPath, l1 := "", 0 // the integer field being varied and the length of the encoding with 1 in it
		core.Guard(func() {
			gen.Mutate(r, obj, func(path, kind, val string, n int) bool {
				b := enc()
				if kind == "int" && path != curPath {
					curPath, l1 = path, len(b0)
					if val == "1" && b != nil {
						l1 = len(b)
					}
				}
				if b == nil || len(b) > 6000 {
					return true
				}
				// a change of the written WIDTH of the one field is not another layout: a number written as a
				// decimal takes 1 byte for 0 and 2 for 1, 2, 3, -1 (fixed widths take the same for all), a text or
				// blob its length plus a 1- or 3-byte header
				switch kind {
				case "int":
					if val == "1" {
						if abs(len(b)-len(b0)) <= 8 {
							return true
						}
					} else if len(b) == l1 || len(b) == l1-1 {
						return true
					}
				case "text":
					if d := len(b0) - len(b); val == "empty" && (d == n || d == n+2) || val == "set" && d == -1 {
						return true
					}
				}
				sg := layoutSig(b, b0)
				if sg == "" || seen[sg] {
					return true
				}
				seen[sg] = true
				k++
				if c.Want(g, base+k) {
					it := mk(b)
					it.Var = path + "=" + val
					add(g, base+k, it, b)
				}
				return k < maxVar
			})
		})
	}
	nBase := c.Pick(1, 3) // populated objects per type whose variants are explored
	// values: every type code x per instances
	cas := 0
	for _, t := range gen.ValueTypes {
		t := t
		mk := func(r *rand.Rand) (interface{}, []byte) {
			v := gen.ValueOf(r, t, 2)
			return v, gen.Encode(func(o *gio.DataOutputX) { value.WriteValue(o, v) })
		}
		var conf map[string]bool
		for i := 0; i < per; i++ {
			if c.Want("value", cas) {
				if conf == nil {
					conf = confFor(fmt.Sprint("value/", t), mk)
				}
				v, b := mk(c.Rng("value", cas))
				tags := append([]tagpos{{Pos: 0, W: 1, Kind: "value"}}, nestedTags(v, b, conf)...)
				add("value", cas, item{Kind: "value", Sub: fmt.Sprint(t), Tags: tags}, b)
			}
			cas++
		}
	}
	cas = 0
	for _, t := range gen.StepTypes {
		t := t
		mk := func(r *rand.Rand) (interface{}, []byte) {
			s := gen.Step(r, t)
			return s, gen.Encode(func(o *gio.DataOutputX) { step.WriteStep(o, s) })
		}
		var conf map[string]bool
		for i := 0; i < per; i++ {
			if c.Want("step", cas) {
				if conf == nil {
					conf = confFor(fmt.Sprint("step/", t), mk)
				}
				s, b := mk(c.Rng("step", cas))
				tags := append([]tagpos{{Pos: 0, W: 1, Kind: "step"}}, nestedTags(s, b, conf)...)
				add("step", cas, item{Kind: "step", Sub: fmt.Sprint(t), Tags: tags}, b)
			}
			cas++
		}
	}
	for ti, t := range gen.StepTypes {
		for bi := 0; bi < nBase; bi++ {
			base := ti*1000 + bi*100
			if !c.WantGen("stepv") {
				continue
			}
			r := c.Rng("stepv", base)
			t := t
			core.Guard(func() {
				st := gen.Step(r, t)
				variants("stepv", base, r, st, func() []byte { return gen.Encode(func(o *gio.DataOutputX) { step.WriteStep(o, st) }) },
					func(b []byte) item {
						return item{Kind: "step", Sub: fmt.Sprint(t), Tags: []tagpos{{Pos: 0, W: 1, Kind: "step"}}}
					})
			})
		}
	}
	// (streams of several steps are not a unit of this property: a stream cut at a step
	// boundary is a valid shorter stream; C08 covers streams)
	{
		mk := func(r *rand.Rand) (interface{}, []byte) {
			t := gen.TxRecord(r)
			return t, gen.Encode(func(o *gio.DataOutputX) { t.Write(o) })
		}
		var conf map[string]bool
		for cas = 0; cas < per*3; cas++ {
			if c.Want("txrecord", cas) {
				if conf == nil {
					conf = confFor("txrecord", mk)
				}
				t, b := mk(c.Rng("txrecord", cas))
				add("txrecord", cas, item{Kind: "txrecord", Tags: nestedTags(t, b, conf)}, b)
			}
		}
	}
	for bi := 0; bi < nBase && c.WantGen("txrecordv"); bi++ {
		base := bi * 100
		r := c.Rng("txrecordv", base)
		core.Guard(func() {
			t := gen.TxRecord(r)
			variants("txrecordv", base, r, t, func() []byte { return gen.Encode(func(o *gio.DataOutputX) { t.Write(o) }) },
				func(b []byte) item { return item{Kind: "txrecord"} })
		})
	}
	for ti, st := range []byte{service.SERVICE_WAS, service.SERVICE_APP, service.SERVICE_WAS_2} {
		for bi := 0; bi < nBase && c.WantGen("servicev"); bi++ {
			base := ti*1000 + bi*100
			r := c.Rng("servicev", base)
			st := st
			core.Guard(func() {
				sv := service.CreateService(st)
				gen.Fill(r, sv, 1)
				variants("servicev", base, r, sv, func() []byte { return gen.Encode(func(o *gio.DataOutputX) { service.ToBytes(sv, o) }) },
					func(b []byte) item {
						return item{Kind: "service", Sub: fmt.Sprint(st), Tags: []tagpos{{Pos: 0, W: 1, Kind: "service"}}}
					})
			})
		}
	}
	cas = 0
	for _, st := range []byte{service.SERVICE_WAS, service.SERVICE_APP, service.SERVICE_WAS_2} {
		st := st
		mk := func(r *rand.Rand) (interface{}, []byte) {
			s := service.CreateService(st)
			gen.Fill(r, s, 1)
			return s, gen.Encode(func(o *gio.DataOutputX) { service.ToBytes(s, o) })
		}
		var conf map[string]bool
		for i := 0; i < per; i++ {
			if c.Want("service", cas) {
				if conf == nil {
					conf = confFor(fmt.Sprint("service/", st), mk)
				}
				s, b := mk(c.Rng("service", cas))
				tags := append([]tagpos{{Pos: 0, W: 1, Kind: "service"}}, nestedTags(s, b, conf)...)
				add("service", cas, item{Kind: "service", Sub: fmt.Sprint(st), Tags: tags}, b)
			}
			cas++
		}
	}
	// packs of the factory: Pack = exported fields only, PackDeep = with the lazily decoded second stage filled
	for _, g := range []string{"pack", "packdeep"} {
		g := g
		cas = 0
		for _, t := range gen.PackTypes {
			t := t
			mk := func(r *rand.Rand) (interface{}, []byte) {
				var p pack.Pack
				if g == "pack" {
					p = gen.Pack(r, t)
				} else {
					p = gen.PackDeep(r, t)
				}
				if p == nil {
					return nil, nil
				}
				return p, gen.Encode(func(o *gio.DataOutputX) { pack.WritePack(o, p) })
			}
			var conf map[string]bool
			for i := 0; i < per; i++ {
				if c.Want(g, cas) {
					if conf == nil {
						conf = confFor(fmt.Sprint(g, "/", t), mk)
					}
					var p interface{}
					var b []byte
					core.Guard(func() { p, b = mk(c.Rng(g, cas)) })
					if p != nil {
						tags := append([]tagpos{{Pos: 0, W: 2, Kind: "pack"}}, nestedTags(p, b, conf)...)
						add(g, cas, item{Kind: "pack", Sub: fmt.Sprint(t), Tags: tags}, b)
					}
				}
				cas++
			}
		}
	}
	for ti, t := range gen.PackTypes {
		for bi := 0; bi < nBase && c.WantGen("packv"); bi++ {
			base := ti*1000 + bi*100
			r := c.Rng("packv", base)
			t := t
			core.Guard(func() {
				p := gen.PackDeep(r, t)
				if p == nil {
					return
				}
				variants("packv", base, r, p, func() []byte { return gen.Encode(func(o *gio.DataOutputX) { pack.WritePack(o, p) }) },
					func(b []byte) item {
						return item{Kind: "pack", Sub: fmt.Sprint(t), Tags: []tagpos{{Pos: 0, W: 2, Kind: "pack"}}}
					})
			})
		}
	}
	// containers put together by construction, so that the tags of the nested packs are known:
	// a composite pack (decoded at once) and zip packs (record stream decoded by GetRecords)
	for cas = 0; cas < per*3; cas++ {
		if c.Want("nest", cas) {
			r := c.Rng("nest", cas)
			cas := cas
			core.Guard(func() {
				var recs [][]byte
				for i, n := 0, 1+r.Intn(3); i < n; i++ {
					p := gen.Pack(r, []int16{pack.PACK_TEXT, pack.PACK_PARAMETER, pack.TAG_COUNT, pack.PACK_LOGSINK, pack.PACK_EVENT}[r.Intn(5)])
					recs = append(recs, gen.Encode(func(o *gio.DataOutputX) { pack.WritePack(o, p) }))
				}
				var b []byte
				var tags []tagpos
				it := item{Kind: "pack"}
				switch cas % 3 {
				case 0: // composite: header, 16-bit count, the packs
					base := gen.Encode(func(o *gio.DataOutputX) { pack.WritePack(o, gen.Pack(r, pack.PACK_COMPOSITE)) })
					b = append([]byte(nil), base[:len(base)-2]...)
					b = append(b, byte(len(recs)>>8), byte(len(recs)))
					tags = []tagpos{{Pos: 0, W: 2, Kind: "pack"}}
					for _, x := range recs {
						tags = append(tags, tagpos{Pos: len(b), W: 2, Kind: "pack", Nest: "composite[]"})
						b = append(b, x...)
					}
					it.Sub = fmt.Sprint(pack.PACK_COMPOSITE)
				default: // zip / log-sink zip, records not compressed: the record stream is the trailing blob
					var z pack.Pack
					if cas%3 == 1 {
						q := gen.Pack(r, pack.PACK_ZIP).(*pack.ZipPack)
						q.Status, q.RecordCount, q.Records = 0, len(recs), bytes.Join(recs, nil)
						z = q
					} else {
						recs = recs[:0]
						for i, n := 0, 1+r.Intn(3); i < n; i++ {
							p := gen.Pack(r, pack.PACK_LOGSINK)
							recs = append(recs, gen.Encode(func(o *gio.DataOutputX) { pack.WritePack(o, p) }))
						}
						q := gen.Pack(r, pack.PACK_LOGSINK_ZIP).(*pack.LogSinkZipPack)
						q.Status, q.RecordCount, q.Records = 0, len(recs), bytes.Join(recs, nil)
						z = q
					}
					stream := bytes.Join(recs, nil)
					b = gen.Encode(func(o *gio.DataOutputX) { pack.WritePack(o, z) })
					if !bytes.HasSuffix(b, stream) {
						return
					}
					tags = []tagpos{{Pos: 0, W: 2, Kind: "pack"}}
					off := len(b) - len(stream)
					for _, x := range recs {
						tags = append(tags, tagpos{Pos: off, W: 2, Kind: "pack", Nest: "records[]", Acc: "GetRecords"})
						off += len(x)
					}
					it.Sub = fmt.Sprint(z.GetPackType())
				}
				it.Tags = tags
				add("nest", cas, it, b)
			})
		}
	}
	// packs and records no factory creates: decoded through their own Read
	cas = 0
	for di := range gen.DirectTypes {
		di := di
		mk := func(r *rand.Rand) (interface{}, []byte) {
			p := gen.Direct(r, di)
			return p, gen.Encode(func(o *gio.DataOutputX) {
				reflect.ValueOf(p).MethodByName("Write").Call([]reflect.Value{reflect.ValueOf(o)})
			})
		}
		var conf map[string]bool
		for i := 0; i < per; i++ {
			if c.Want("direct", cas) {
				if conf == nil {
					conf = confFor("direct/"+gen.DirectTypes[di].Name, mk)
				}
				var p interface{}
				var b []byte
				core.Guard(func() { p, b = mk(c.Rng("direct", cas)) })
				if p != nil {
					add("direct", cas, item{Kind: "direct", Sub: gen.DirectTypes[di].Name, Tags: nestedTags(p, b, conf)}, b)
				}
			}
			cas++
		}
	}
	for di := range gen.DirectTypes {
		for bi := 0; bi < nBase && c.WantGen("directv"); bi++ {
			base := di*1000 + bi*100
			r := c.Rng("directv", base)
			di := di
			core.Guard(func() {
				p := gen.Direct(r, di)
				variants("directv", base, r, p, func() []byte {
					return gen.Encode(func(o *gio.DataOutputX) {
						reflect.ValueOf(p).MethodByName("Write").Call([]reflect.Value{reflect.ValueOf(o)})
					})
				}, func(b []byte) item { return item{Kind: "direct", Sub: gen.DirectTypes[di].Name} })
			})
		}
	}
	// UDP packs: the layout is selected by the protocol version the datagram header announces.  One fill per type,
	// written under every version at and next to a threshold of the five agent families; one item per distinct
	// length; and the single-field variants of the fill under the newest version of each family.
	for ti, t := range gen.UdpTypes {
		for bi := 0; bi < nBase && c.WantGen("udpv"); bi++ {
			base := ti*1000 + bi*100
			t := t
			seen := map[int]bool{}
			k := 0
			for _, ver := range gen.UdpVersionsAll {
				var b []byte
				ver := ver
				core.Guard(func() {
					p := gen.Udp(c.Rng("udpv", base), t, ver)
					if p != nil {
						b = gen.Encode(func(o *gio.DataOutputX) { p.Write(o) })
					}
				})
				if b == nil || seen[len(b)] || k >= c.Pick(6, 31) {
					continue
				}
				seen[len(b)] = true
				k++
				if c.Want("udpv", base+k) {
					add("udpv", base+k, item{Kind: "udp", Sub: fmt.Sprint(t), T: int(t), Ver: ver, Var: fmt.Sprint("version=", ver)}, b)
				}
			}
			{
				fi := (ti + bi) % 5
				ver := []int32{10111, 20105, 30104, 40101, 50102}[fi]
				vb := base + 50
				core.Guard(func() {
					r := c.Rng("udpv", vb)
					p := gen.Udp(r, t, ver)
					if p == nil {
						return
					}
					saveMax := maxVar
					maxVar = c.Pick(4, 10)
					variants("udpv", vb, r, p, func() []byte {
						p.SetVersion(ver)
						return gen.Encode(func(o *gio.DataOutputX) { p.Write(o) })
					}, func(b []byte) item { return item{Kind: "udp", Sub: fmt.Sprint(t), T: int(t), Ver: ver} })
					maxVar = saveMax
				})
			}
		}
	}
	cas = 0
	for _, t := range gen.UdpTypes {
		for i := 0; i < c.Pick(1, 4); i++ {
			if c.Want("udp", cas) {
				r := c.Rng("udp", cas)
				ver := gen.UdpVersions[r.Intn(len(gen.UdpVersions))]
				var p udp.UdpPack
				core.Guard(func() { p = gen.Udp(r, t, ver) })
				if p != nil {
					add("udp", cas, item{Kind: "udp", Sub: fmt.Sprint(t), T: int(t), Ver: ver}, gen.Encode(func(o *gio.DataOutputX) { p.Write(o) }))
				}
			}
			cas++
		}
	}
	stream := func(r *rand.Rand, pool []string) (string, []byte) {
		var ops []string
		out := gio.NewDataOutputX()
		for i, n := 0, 1+r.Intn(5); i < n; i++ {
			op := pool[r.Intn(len(pool))]
			ops = append(ops, op)
			writePrim(r, out, op)
		}
		return strings.Join(ops, ","), append([]byte(nil), out.ToByteArray()...)
	}
	for cas = 0; cas < per*6; cas++ {
		if c.Want("prim", cas) {
			ops, b := stream(c.Rng("prim", cas), primOps)
			add("prim", cas, item{Kind: "prim", Sub: ops}, b)
		}
	}
	// the same reads from a connection (DataInputX over a net.Conn): truncation = the peer ends the stream early
	for cas = 0; cas < per*4; cas++ {
		if c.Want("net", cas) {
			ops, b := stream(c.Rng("net", cas), primOps)
			add("net", cas, item{Kind: "net", Sub: ops, NoHostile: true}, b)
		}
	}
	for cas = 0; cas < per*3; cas++ {
		if c.Want("netframe", cas) {
			ops, b := stream(c.Rng("netframe", cas), frameOps)
			add("netframe", cas, item{Kind: "net", Sub: ops}, b)
		}
	}
	return items
}

// patches are the hostile overwrites tried at every offset ("rel": computed from the byte found there).
var patches = []struct {
	name string
	b    []byte
}{
	{"b255", []byte{255}}, {"b254", []byte{254}}, {"b127", []byte{127}}, {"b128", []byte{128}}, {"b0", []byte{0}}, {"b9", []byte{9}},
	{"b1", []byte{1}}, {"b2", []byte{2}}, {"rel-1", []byte{0}}, {"rel+1", []byte{0}}, {"relhalf", []byte{0}},
	{"s7fff", []byte{0x7f, 0xff}}, {"sffff", []byte{0xff, 0xff}},
	{"i7fffffff", []byte{0x7f, 0xff, 0xff, 0xff}}, {"i80000000", []byte{0x80, 0, 0, 0}}, {"iffffffff", []byte{0xff, 0xff, 0xff, 0xff}},
	{"i00ffffff", []byte{0, 0xff, 0xff, 0xff}}, {"i0000ffff", []byte{0, 0, 0xff, 0xff}},
	{"blob254", []byte{254, 0x7f, 0xff, 0xff, 0xff}}, {"blob254m", []byte{254, 0x01, 0, 0, 0}}, {"blob255", []byte{255, 0xff, 0xff}},
	{"dec4", []byte{4, 0x7f, 0xff, 0xff, 0xff}}, {"dec4m", []byte{4, 0x01, 0, 0, 0}}, {"dec3", []byte{3, 0x7f, 0xff, 0xff}}, {"dec2", []byte{2, 0x7f, 0xff}},
	{"dec8", []byte{8, 0, 0, 0, 0, 0x10, 0, 0, 0}}, {"dec8neg", []byte{8, 0xff, 0xff, 0xff, 0xff, 0xff, 0xff, 0xff, 0xff}},
	{"dec5", []byte{5, 0x7f, 0xff, 0xff, 0xff, 0xff}},
}

func patchBytes(name string, fixed []byte, at byte) []byte {
	switch name {
	case "rel-1":
		return []byte{at - 1}
	case "rel+1":
		return []byte{at + 1}
	case "relhalf":
		return []byte{at >> 1}
	}
	return fixed
}

const allocCap = 1 << 30

type result struct {
	Idx      int    `json:"idx"`
	Full     string `json:"full"`
	Consumed int    `json:"consumed"`
	OkCuts   []int  `json:"okcuts"`
	Overrun  int    `json:"overrun"` // max over ok cuts of consumed - cut
	Hostile  []hres `json:"hostile"`
	Lazy     *lazy  `json:"lazy,omitempty"`
	Tags     []tres `json:"tags,omitempty"`
	Net      []nres `json:"net,omitempty"`
}
type hres struct {
	Patch    string   `json:"patch"`
	N        int      `json:"n"`
	Outcomes []string `json:"outcomes"`
	MaxAlloc int      `json:"maxalloc"`
	AtPos    int      `json:"atpos"`
	Overrun  int      `json:"overrun"`
	MaxLen   int      `json:"len"`
}

// lazy: the second-stage call sequences run on the objects this item's inputs decoded to.
type lazy struct {
	N0       int       `json:"n0"`   // objects of hostile inputs on which every accessor was called once
	N        int       `json:"n"`    // sequences run
	Accs     []string  `json:"accs"` // the accessors of the object
	Seqs     []lazySeq `json:"seqs"` // every distinct (accessor, outcomes) observed, with the first input showing it
	MaxAlloc int       `json:"maxalloc"` // largest allocation of one whole sequence
	At       string    `json:"at"`
	AccAlloc int       `json:"accalloc"` // largest allocation of one accessor call (first call on a fresh object)
	AccAt    string    `json:"accat"`
	seen     map[string]bool
	done     map[string]bool
}
type lazySeq struct {
	Acc string   `json:"acc"`
	R   []string `json:"r"` // first call, second call, write, the same call on the decoded written bytes
	In  string   `json:"in"`
}

// tres: all codes tried at one tag position.
type tres struct {
	tagpos
	N       int   `json:"n"`
	OkCodes []int `json:"okcodes"`
}

// nres: the truncation run of a connection-read stream under one way of ending the stream.
type nres struct {
	Mode     string `json:"mode"`
	Chunk    int    `json:"chunk"`
	Full     string `json:"full"`
	Consumed int    `json:"consumed"`
	OkCuts   []int  `json:"okcuts"`
	Overrun  int    `json:"overrun"`
}

func try(it *item, b []byte) (out string, consumed int) {
	msg := core.Guard(func() { _, consumed = decode(it, b) })
	if msg != "" {
		return "failed", 0
	}
	return "ok", consumed
}

func allocOf(f func()) int {
	var m0, m1 runtime.MemStats
	runtime.ReadMemStats(&m0)
	f()
	runtime.ReadMemStats(&m1)
	d := m1.TotalAlloc - m0.TotalAlloc
	if d > allocCap {
		d = allocCap
	}
	return int(d)
}

// ----------------------------------------------------------------- second stage

// mutators are not accessors: they are meant to change the object.
var mutators = []string{"Set", "Put", "Add", "Read", "Write", "Clear", "Merge", "Reset", "Transfer", "Sort", "Remove", "Init",
	"Process", "Close", "Append", "Insert", "Delete", "Update", "Copy"}

// accessorsOf: every exported method of obj that is not a mutator and whose arguments can be
// made up (strings = the first table column key, numbers = 0, callbacks = no-ops, interfaces = nil).
func accessorsOf(obj interface{}) []string {
	if obj == nil {
		return nil
	}
	t := reflect.TypeOf(obj)
	var out []string
next:
	for i := 0; i < t.NumMethod(); i++ {
		m := t.Method(i)
		for _, p := range mutators {
			if strings.HasPrefix(m.Name, p) {
				continue next
			}
		}
		if m.Type.IsVariadic() {
			continue
		}
		for j := 1; j < m.Type.NumIn(); j++ {
			switch m.Type.In(j).Kind() {
			case reflect.String, reflect.Bool, reflect.Int, reflect.Int8, reflect.Int16, reflect.Int32, reflect.Int64,
				reflect.Uint, reflect.Uint8, reflect.Uint16, reflect.Uint32, reflect.Uint64, reflect.Float32, reflect.Float64,
				reflect.Func, reflect.Interface:
			default:
				continue next
			}
		}
		out = append(out, m.Name)
	}
	return out
}

// callAcc calls accessor name on obj with made-up arguments.
func callAcc(obj interface{}, name string) string {
	msg := core.Guard(func() {
		m := reflect.ValueOf(obj).MethodByName(name)
		mt := m.Type()
		args := make([]reflect.Value, mt.NumIn())
		for j := range args {
			at := mt.In(j)
			switch at.Kind() {
			case reflect.String:
				args[j] = reflect.ValueOf(gen.ColumnKey(0)).Convert(at)
			case reflect.Func:
				args[j] = reflect.MakeFunc(at, func([]reflect.Value) []reflect.Value {
					outs := make([]reflect.Value, at.NumOut())
					for k := range outs {
						outs[k] = reflect.Zero(at.Out(k))
					}
					return outs
				})
			default:
				args[j] = reflect.Zero(at)
			}
		}
		m.Call(args)
	})
	if msg != "" {
		return "failed"
	}
	return "ok"
}

var heapSample = []metrics.Sample{{Name: "/gc/heap/allocs:bytes"}}

// cheapAlloc reads the allocation counter without stopping the world; small allocations show up
// late in it, so it only serves to pick the calls that are measured again exactly.
func cheapAlloc() uint64 {
	metrics.Read(heapSample)
	return heapSample[0].Value.Uint64()
}

const screen = 256 << 10

// firstCalls calls every accessor of obj once and returns the accessors, which of them failed,
// and which of them seem to have allocated a lot (to be measured exactly on a fresh object).
func firstCalls(obj interface{}) (accs []string, failed map[string]bool, big []string) {
	if obj == nil {
		return nil, nil, nil
	}
	if v := reflect.ValueOf(obj); v.Kind() == reflect.Ptr && v.IsNil() {
		return nil, nil, nil
	}
	accs = accessorsOf(obj)
	failed = map[string]bool{}
	for _, a := range accs {
		a0 := cheapAlloc()
		if callAcc(obj, a) == "failed" {
			failed[a] = true
		}
		if cheapAlloc()-a0 > screen {
			big = append(big, a)
		}
	}
	return accs, failed, big
}

// exactCalls measures the first call of each accessor in big on a fresh object of its own.
func exactCalls(it *item, b []byte, big []string, in string, lz *lazy) {
	for _, a := range big {
		var obj interface{}
		if core.Guard(func() { obj, _ = decode(it, b) }) != "" {
			continue
		}
		if al := allocOf(func() { callAcc(obj, a) }); al > lz.AccAlloc {
			lz.AccAlloc, lz.AccAt = al, in+" "+a
		}
	}
}

// sequences runs, for every accessor A of the object b decodes to, on a fresh object of its own
// (so that no other accessor's side effects stand between the calls) the sequence
//
//	decode(b); A; A; Write -> w; decode(w); A
//
// and adds every distinct outcome to lz.
func sequences(it *item, b []byte, accs []string, in string, lz *lazy) {
	if lz.Accs == nil {
		lz.Accs = accs
	}
	for _, a := range accs {
		r := []string{"none", "none", "none", "none"}
		al := allocOf(func() {
			var obj interface{}
			if core.Guard(func() { obj, _ = decode(it, b) }) != "" {
				return
			}
			r[0] = callAcc(obj, a)
			r[1] = callAcc(obj, a)
			var w []byte
			if core.Guard(func() { w = encode(it, obj) }) != "" {
				r[2] = "failed"
				return
			}
			r[2] = "ok"
			var obj2 interface{}
			if core.Guard(func() { obj2, _ = decode(it, w) }) != "" || obj2 == nil || reflect.TypeOf(obj2) != reflect.TypeOf(obj) {
				r[3] = "undecodable"
				return
			}
			r[3] = callAcc(obj2, a)
		})
		lz.N++
		if al > lz.MaxAlloc {
			lz.MaxAlloc, lz.At = al, in+" "+a
		}
		k := a + "|" + strings.Join(r, ",")
		if !lz.seen[k] {
			lz.seen[k] = true
			lz.Seqs = append(lz.Seqs, lazySeq{Acc: a, R: r, In: in})
		}
	}
}

// sweepCodes: the codes tried at a tag position: all 256 of a one-byte tag; of a 16-bit
// tag every code that keeps one of its two bytes, the neighbours of the registered codes
// and some far ones (all 65536 when `all`).
func sweepCodes(tp tagpos, orig []byte, all bool) []int {
	if tp.W == 1 {
		out := make([]int, 256)
		for i := range out {
			out[i] = i
		}
		return out
	}
	if all {
		out := make([]int, 65536)
		for i := range out {
			out[i] = i
		}
		return out
	}
	seen := map[int]bool{}
	var out []int
	addc := func(c int) {
		c &= 0xffff
		if !seen[c] {
			seen[c] = true
			out = append(out, c)
		}
	}
	for x := 0; x < 256; x++ {
		addc(x<<8 | int(orig[1]))
		addc(int(orig[0])<<8 | x)
	}
	for _, c := range []int{0, 1, 0xffff, 0x7fff, 0x8000, 0x7f7f, 0x0701, 0x0702, 0x3003, 0x1601, 0x1701, 0x0100, 0x0200} {
		addc(c)
	}
	for _, t := range gen.PackTypes {
		for d := -2; d <= 2; d++ {
			addc(int(t) + d)
		}
	}
	return out
}

// child: decode everything in the work file from index `from`, one JSON line per item.
func child(work string, from int, hostile bool, thorough bool) {
	f, err := os.Open(work)
	if err != nil {
		panic(err)
	}
	var items []item
	if err := json.NewDecoder(f).Decode(&items); err != nil {
		panic(err)
	}
	w := bufio.NewWriter(os.Stdout)
	for i := from; i < len(items); i++ {
		it := &items[i]
		b, _ := hex.DecodeString(it.Hex)
		fmt.Fprintf(w, "BEGIN %d\n", i)
		w.Flush()
		res := result{Idx: i, OkCuts: []int{}, Overrun: -1 << 20}
		lz := &lazy{seen: map[string]bool{}, done: map[string]bool{}, Seqs: []lazySeq{}}
		objKind := it.Kind != "net" && it.Kind != "prim"
		var base map[string]bool // accessors failing on the object of the valid encoding (nil: it did not decode)
		res.Full, res.Consumed = try(it, b)
		if res.Full == "ok" && objKind {
			fmt.Fprintf(w, "AT %d full 0\n", i)
			w.Flush()
			var accs, big []string
			core.Guard(func() {
				obj, _ := decode(it, b)
				accs, base, big = firstCalls(obj)
			})
			exactCalls(it, b, big, "full", lz)
			if accs != nil {
				sequences(it, b, accs, "full", lz)
			}
			if base == nil {
				base = map[string]bool{}
			}
		}
		for cut := 0; cut < len(b); cut++ {
			o, cons := try(it, b[:cut:cut])
			if o == "ok" {
				res.OkCuts = append(res.OkCuts, cut)
				if cons-cut > res.Overrun {
					res.Overrun = cons - cut
				}
			}
		}
		if it.Kind == "net" { // every way the peer can end the stream, delivered whole and in small pieces
			for _, mode := range []string{"eof", "err", "eofdata"} {
				for _, chunk := range []int{0, 1, 3} {
					nr := nres{Mode: mode, Chunk: chunk, OkCuts: []int{}, Overrun: -1 << 20}
					nr.Full = "ok"
					if core.Guard(func() { _, nr.Consumed = decodeNet(it, b, mode, chunk) }) != "" {
						nr.Full, nr.Consumed = "failed", 0
					}
					for cut := 0; cut < len(b); cut++ {
						cons := 0
						if core.Guard(func() { _, cons = decodeNet(it, b[:cut:cut], mode, chunk) }) == "" {
							nr.OkCuts = append(nr.OkCuts, cut)
							if cons-cut > nr.Overrun {
								nr.Overrun = cons - cut
							}
						}
					}
					res.Net = append(res.Net, nr)
				}
			}
		}
		if hostile && !it.NoHostile {
			for _, p := range patches {
				h := hres{Patch: p.name, Overrun: -1 << 20, AtPos: -1, MaxLen: len(b)}
				seen := map[string]bool{}
				for pos := 0; pos+len(p.b) <= len(b) && pos < 400; pos++ {
					pb := patchBytes(p.name, p.b, b[pos])
					hb := append([]byte(nil), b...)
					copy(hb[pos:], pb)
					fmt.Fprintf(w, "AT %d %s %d\n", i, p.name, pos)
					w.Flush()
					var o string
					var cons int
					var obj interface{}
					first := func() {
						if core.Guard(func() { obj, cons = decode(it, hb) }) != "" {
							o, cons, obj = "failed", 0, nil
							return
						}
						o = "ok"
					}
					// the allocation counter that needs no stop-the-world picks the decodes worth measuring
					// exactly (it shows large allocations at once and small ones a little late)
					a0 := cheapAlloc()
					first()
					a := int(cheapAlloc() - a0)
					switch {
					case a < 0 || a >= allocCap:
						a = allocCap
					case a > screen:
						a = allocOf(first)
					}
					// on the object the first stage returned: every accessor once
					var accs, big []string
					var failed map[string]bool
					if o == "ok" && objKind {
						k := cons
						if k < 0 || k > len(hb) {
							k = len(hb)
						}
						if key := string(hb[:k]); !lz.done[key] { // the decoder is a function of the bytes it reads
							lz.done[key] = true
							accs, failed, big = firstCalls(obj)
							lz.N0++
							exactCalls(it, hb, big, fmt.Sprintf("%s@%d", p.name, pos), lz)
						}
					}
					h.N++
					seen[o] = true
					if a > h.MaxAlloc {
						h.MaxAlloc, h.AtPos = a, pos
					}
					if o == "ok" && cons-len(hb) > h.Overrun {
						h.Overrun = cons - len(hb)
					}
					// an accessor fails that does not fail on the object of the valid encoding: the call sequences
					alone := base == nil && accs != nil
					for a := range failed {
						if !base[a] {
							alone = true
						}
					}
					if alone {
						sequences(it, hb, accs, fmt.Sprintf("%s@%d", p.name, pos), lz)
					}
				}
				for k := range seen {
					h.Outcomes = append(h.Outcomes, k)
				}
				sort.Strings(h.Outcomes)
				if h.N > 0 {
					res.Hostile = append(res.Hostile, h)
				}
			}
		}
		if hostile {
			for ti, tp := range it.Tags {
				if tp.Pos+tp.W > len(b) {
					continue
				}
				tr := tres{tagpos: tp, OkCodes: []int{}}
				for _, code := range sweepCodes(tp, b[tp.Pos:tp.Pos+tp.W], thorough && ti == 0 && i%8 == 0) {
					hb := append([]byte(nil), b...)
					if tp.W == 1 {
						hb[tp.Pos] = byte(code)
					} else {
						hb[tp.Pos], hb[tp.Pos+1] = byte(code>>8), byte(code)
					}
					if code&0xff == 0 {
						fmt.Fprintf(w, "AT %d tag@%d %d\n", i, tp.Pos, code)
						w.Flush()
					}
					msg := core.Guard(func() {
						obj, _ := decode(it, hb)
						if tp.Acc != "" {
							if callAcc(obj, tp.Acc) != "ok" {
								panic("accessor failed")
							}
						}
					})
					tr.N++
					if msg == "" {
						tr.OkCodes = append(tr.OkCodes, code)
					}
				}
				res.Tags = append(res.Tags, tr)
			}
		}
		if lz.N > 0 || lz.N0 > 0 {
			res.Lazy = lz
		}
		j, _ := json.Marshal(res)
		fmt.Fprintf(w, "RES %s\n", j)
		w.Flush()
	}
	fmt.Fprintln(w, "DONE")
	w.Flush()
}

func Run(c *core.Ctx) error {
	if c.Args["mode"] == "child" {
		from, _ := strconv.Atoi(c.Args["from"])
		child(c.Args["work"], from, c.Args["hostile"] != "0", c.Thorough())
		os.Exit(0)
	}
	c.Rule = "valid encodings of values (20 type codes), steps (10 types), transaction/service records, packs (24 factory types, plain and with the lazily decoded second stage filled: tables, record blobs plain and compressed, profiles), containers put together by construction (composite, zip, log-sink zip), 29 packs/records/steps decoded through their own Read, steps and sub-records no factory reaches (SqlStep_3, cpu/memory/process sub-records), UDP packs and primitive streams read from a buffer and from a connection, built through golib's constructors with random field values, PLUS the layout variants of one populated object per type (one field at a time set to all 256 values of a byte-wide field, both of a bool, 0/1/2/3/-1 of a wider integer, empty/non-empty of texts, slices, maps, nested values; UDP packs under every protocol version at and next to a threshold; one encoding kept per distinct layout the writer produces); for each: the full decode, EVERY strict prefix (connection: every point and way the peer ends the stream), hostile overwrites (28 length/count/tag patterns at every offset < 400), every code at every position holding a type tag by construction, and on every returned object each public accessor twice + write + re-decode + accessor, in a child process under an address-space limit; non-trivial = encoding of >= 2 bytes; distinct by (kind, type, bytes)"
	items := generate(c)
	work := c.OutDir + "/work.json"
	wb, _ := json.Marshal(items)
	if err := os.WriteFile(work, wb, 0o644); err != nil {
		return err
	}
	results := make([]*result, len(items))
	fatal := map[int]string{}
	from := 0
	self, _ := os.Executable()
	for from < len(items) {
		cmd := exec.Command("prlimit", "--as=8589934592", self, "-tier", c.Tier, "-out", c.OutDir, "-args",
			fmt.Sprintf("mode=child,work=%s,from=%d", work, from), "c04")
		cmd.Env = append(os.Environ(), "GOMAXPROCS=2")
		stdout, _ := cmd.StdoutPipe()
		cmd.Stderr = nil
		if err := cmd.Start(); err != nil {
			return err
		}
		cur, at := -1, ""
		done := false
		lines := make(chan string, 1024)
		go func() {
			sc := bufio.NewScanner(stdout)
			sc.Buffer(make([]byte, 1<<20), 64<<20)
			for sc.Scan() {
				lines <- sc.Text()
			}
			close(lines)
		}()
		const patience = 120 * time.Second // without any progress line
		timer := time.NewTimer(patience)
	loop:
		for {
			select {
			case ln, ok := <-lines:
				if !ok {
					break loop
				}
				if !timer.Stop() {
					select {
					case <-timer.C:
					default:
					}
				}
				timer.Reset(patience)
				switch {
				case strings.HasPrefix(ln, "BEGIN "):
					cur, _ = strconv.Atoi(ln[6:])
					at = ""
				case strings.HasPrefix(ln, "AT "):
					at = ln[3:]
				case strings.HasPrefix(ln, "RES "):
					var r result
					if err := json.Unmarshal([]byte(ln[4:]), &r); err == nil {
						results[r.Idx] = &r
					}
				case ln == "DONE":
					done = true
				}
			case <-timer.C:
				cmd.Process.Kill()
				fatal[cur] = "timeout at " + at
				break loop
			}
		}
		cmd.Process.Kill()
		cmd.Wait()
		if done {
			break
		}
		if cur < 0 {
			return fmt.Errorf("child died before the first item")
		}
		if _, ok := fatal[cur]; !ok {
			fatal[cur] = "fatal at " + at
		}
		from = cur + 1
	}

	t := c.Trace("c04_decode", "Trace_FailClosed")
	byGen := map[string]int{}
	fullFailed, lazySeqs, lazyFirst, tagPositions, nestedTagPositions := 0, 0, 0, 0, 0
	accNames := map[string]bool{}
	nestPats := map[string]bool{}
	for i := range items {
		it := &items[i]
		n := len(it.Hex) / 2
		t.Reset(it.Gen, it.Case, core.Ev{"kind": it.Kind, "sub": it.Sub, "var": it.Var})
		c.Count(it.Kind+it.Sub+it.Hex, n >= 2)
		byGen[it.Gen]++
		if msg, bad := fatal[i]; bad {
			parts := strings.SplitN(msg, " ", 2)
			t.Emit(core.Ev{"ev": "Died", "how": parts[0], "at": msg, "len": n})
			continue
		}
		r := results[i]
		if r == nil {
			return fmt.Errorf("no result for item %d", i)
		}
		if r.Full != "ok" {
			fullFailed++
		}
		via := "buffer"
		if it.Kind == "net" {
			via = "conn/eof/0"
		}
		t.Emit(core.Ev{"ev": "Obj", "via": via, "len": n, "full": r.Full, "consumed": r.Consumed, "okcuts": r.OkCuts, "overrun": r.Overrun, "whole": !it.Framed})
		for _, nr := range r.Net {
			if nr.Mode == "eof" && nr.Chunk == 0 {
				continue // the history's first Obj event
			}
			t.Emit(core.Ev{"ev": "Obj", "via": fmt.Sprintf("conn/%s/%d", nr.Mode, nr.Chunk), "len": n, "full": nr.Full, "consumed": nr.Consumed,
				"okcuts": nr.OkCuts, "overrun": nr.Overrun, "whole": !it.Framed})
		}
		for _, h := range r.Hostile {
			t.Emit(core.Ev{"ev": "Hostile", "len": h.MaxLen, "patch": h.Patch, "n": h.N, "outcomes": h.Outcomes,
				"maxalloc": h.MaxAlloc, "atpos": h.AtPos, "overrun": h.Overrun})
		}
		if r.Lazy != nil {
			lazySeqs += r.Lazy.N
			lazyFirst += r.Lazy.N0
			for _, a := range r.Lazy.Accs {
				accNames[it.Kind+"/"+it.Sub+"."+a] = true
			}
			t.Emit(core.Ev{"ev": "Lazy", "len": n, "n0": r.Lazy.N0, "n": r.Lazy.N, "seqs": r.Lazy.Seqs, "maxalloc": r.Lazy.MaxAlloc, "at": r.Lazy.At,
				"accalloc": r.Lazy.AccAlloc, "accat": r.Lazy.AccAt})
		}
		for _, tr := range r.Tags {
			tagPositions++
			if tr.Nest != "" {
				nestedTagPositions++
				nestPats[it.Kind+"/"+it.Sub+tr.Nest] = true
			}
			t.Emit(core.Ev{"ev": "Tag", "reg": tr.Kind, "pos": tr.Pos, "w": tr.W, "nest": tr.Nest, "acc": tr.Acc, "n": tr.N, "okcodes": tr.OkCodes})
		}
		if i < 3 {
			c.Sample(map[string]interface{}{"kind": it.Kind, "type": it.Sub, "encoding_hex": it.Hex, "consumed": r.Consumed, "ok_cuts": r.OkCuts})
		}
	}
	var pats []string
	for p := range nestPats {
		pats = append(pats, p)
	}
	sort.Strings(pats)
	c.SetExtra("objects_by_gen", byGen)
	c.SetExtra("full_decode_failed", fullFailed)
	c.SetExtra("hostile_patches", len(patches))
	c.SetExtra("second_stage_sequences", lazySeqs)
	c.SetExtra("second_stage_objects_accessed", lazyFirst)
	c.SetExtra("second_stage_accessors", len(accNames))
	c.SetExtra("tag_positions", tagPositions)
	c.SetExtra("tag_positions_nested", nestedTagPositions)
	c.SetExtra("nested_tag_sites", pats)
	return nil
}
