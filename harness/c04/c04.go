// Package c04 drives golib's decoders on truncated and hostile inputs.
//
// The parent generates valid encodings (values, steps, records, packs, UDP packs,
// primitive streams) and hands them to a child process (the same binary, run
// under an address-space limit) that decodes every strict prefix and every
// hostile overwrite, so that a fatal out-of-memory or a hang is attributed to
// the input being decoded.  The child only measures; Trace_FailClosed.tla judges.
package c04

import (
	"bufio"
	"encoding/hex"
	"encoding/json"
	"fmt"
	"math/rand"
	"os"
	"os/exec"
	"runtime"
	"strconv"
	"strings"
	"time"

	gio "github.com/whatap/golib/io"
	"github.com/whatap/golib/lang/pack"
	"github.com/whatap/golib/lang/pack/udp"
	"github.com/whatap/golib/lang/service"
	"github.com/whatap/golib/lang/step"
	"github.com/whatap/golib/lang/value"

	"verifharness/core"
	"verifharness/gen"
)

func init() { core.Register("c04", Run) }

// item is one valid encoding plus how to decode it.
type item struct {
	Kind string `json:"kind"` // decoder selector
	Sub  string `json:"sub"`  // type within the kind (for the evidence)
	Hex  string `json:"hex"`
	Ver  int32  `json:"ver,omitempty"`
	T    int    `json:"t,omitempty"`
	Gen  string `json:"gen"`
	Case int    `json:"case"`
}

// decode runs the real decoder of kind over b; returns bytes consumed.
func decode(it *item, b []byte) (consumed int) {
	din := gio.NewDataInputX(b)
	switch it.Kind {
	case "value":
		value.ReadValue(din)
	case "step":
		step.ReadStep(din)
	case "steps": // a profile: concatenated steps until the input is exhausted
		for din.Available() > 0 {
			step.ReadStep(din)
		}
	case "txrecord":
		service.NewTxRecord().Read(din)
	case "service":
		service.ToObject(din)
	case "pack":
		pack.ReadPack(din)
	case "udp":
		udp.ReadPack(uint8(it.T), it.Ver, din)
	case "prim": // primitive stream: ops encoded in Sub, comma separated
		for _, op := range strings.Split(it.Sub, ",") {
			readPrim(din, op)
		}
	default:
		panic("kind")
	}
	return len(b) - int(din.Available())
}

func readPrim(din *gio.DataInputX, op string) {
	switch op {
	case "Bool":
		din.ReadBool()
	case "Byte":
		din.ReadByte()
	case "Short":
		din.ReadShort()
	case "Int3":
		din.ReadInt3()
	case "Int":
		din.ReadInt()
	case "Long5":
		din.ReadLong5()
	case "Long":
		din.ReadLong()
	case "Float":
		din.ReadFloat()
	case "Double":
		din.ReadDouble()
	case "Decimal":
		din.ReadDecimal()
	case "Blob":
		din.ReadBlob()
	case "Text":
		din.ReadText()
	case "ShortBytes":
		din.ReadShortBytes()
	case "IntBytes":
		din.ReadIntBytes()
	case "TextShort":
		din.ReadTextShortLength()
	case "ShortArr":
		din.ReadShortArray()
	case "IntArr":
		din.ReadIntArray()
	case "LongArr":
		din.ReadLongArray()
	case "FloatArr":
		din.ReadFloatArray()
	case "DoubleArr":
		din.ReadDoubleArray()
	case "TextArr":
		din.ReadTextArray()
	case "DecArr":
		din.ReadDecimalArray()
	case "DecArrInt":
		din.ReadDecimalArrayInt()
	}
}

var primOps = []string{"Bool", "Byte", "Short", "Int3", "Int", "Long5", "Long", "Float", "Double", "Decimal", "Blob", "Text",
	"ShortBytes", "IntBytes", "TextShort", "ShortArr", "IntArr", "LongArr", "FloatArr", "DoubleArr", "TextArr", "DecArr"}

func writePrim(r *rand.Rand, out *gio.DataOutputX, op string) {
	switch op {
	case "Bool":
		out.WriteBool(r.Intn(2) == 1)
	case "Byte":
		out.WriteByte(byte(r.Intn(256)))
	case "Short":
		out.WriteShort(int16(gen.Int64(r)))
	case "Int3":
		out.WriteInt3(int32(gen.Int64(r)))
	case "Int":
		out.WriteInt(int32(gen.Int64(r)))
	case "Long5":
		out.WriteLong5(gen.Int64(r))
	case "Long":
		out.WriteLong(gen.Int64(r))
	case "Float":
		out.WriteFloat(gen.F32(r))
	case "Double":
		out.WriteDouble(gen.F64(r))
	case "Decimal":
		out.WriteDecimal(gen.Int64(r))
	case "Blob":
		out.WriteBlob(gen.Blob(r))
	case "Text":
		out.WriteText(gen.Text(r))
	case "ShortBytes":
		out.WriteShortBytes(gen.Blob(r))
	case "IntBytes":
		out.WriteIntBytes(gen.Blob(r))
	case "TextShort":
		out.WriteTextShortLength(gen.Text(r))
	case "ShortArr":
		out.WriteShortArray(make([]int16, r.Intn(4)))
	case "IntArr":
		out.WriteIntArray(make([]int32, r.Intn(4)))
	case "LongArr":
		out.WriteLongArray(make([]int64, r.Intn(4)))
	case "FloatArr":
		out.WriteFloatArray(make([]float32, r.Intn(4)))
	case "DoubleArr":
		out.WriteDoubleArray(make([]float64, r.Intn(4)))
	case "TextArr":
		out.WriteTextArray([]string{gen.Text(r), gen.Text(r)}[:r.Intn(3)])
	case "DecArr":
		n := r.Intn(4)
		out.WriteDecimal(int64(n))
		for i := 0; i < n; i++ {
			out.WriteDecimal(gen.Int64(r))
		}
	}
}

// generate builds the items of this run (deterministic in seed, gen, case).
func generate(c *core.Ctx) []item {
	var items []item
	add := func(g string, cas int, it item, b []byte) {
		if b == nil || len(b) == 0 || len(b) > 6000 {
			return
		}
		it.Gen, it.Case, it.Hex = g, cas, hex.EncodeToString(b)
		items = append(items, it)
	}
	per := c.Pick(2, 12)
	// values: every type code x per instances
	cas := 0
	for _, t := range gen.ValueTypes {
		for i := 0; i < per; i++ {
			if c.Want("value", cas) {
				r := c.Rng("value", cas)
				v := gen.ValueOf(r, t, 2)
				add("value", cas, item{Kind: "value", Sub: fmt.Sprint(t)}, gen.Encode(func(o *gio.DataOutputX) { value.WriteValue(o, v) }))
			}
			cas++
		}
	}
	cas = 0
	for _, t := range gen.StepTypes {
		for i := 0; i < per; i++ {
			if c.Want("step", cas) {
				r := c.Rng("step", cas)
				s := gen.Step(r, t)
				add("step", cas, item{Kind: "step", Sub: fmt.Sprint(t)}, gen.Encode(func(o *gio.DataOutputX) { step.WriteStep(o, s) }))
			}
			cas++
		}
	}
	// (streams of several steps are not a unit of this property: a stream cut at a step
	// boundary is a valid shorter stream; C08 covers streams)
	for cas = 0; cas < per*3; cas++ {
		if c.Want("txrecord", cas) {
			r := c.Rng("txrecord", cas)
			t := gen.TxRecord(r)
			add("txrecord", cas, item{Kind: "txrecord"}, gen.Encode(func(o *gio.DataOutputX) { t.Write(o) }))
		}
	}
	cas = 0
	for _, st := range []byte{service.SERVICE_WAS, service.SERVICE_APP, service.SERVICE_WAS_2} {
		for i := 0; i < per; i++ {
			if c.Want("service", cas) {
				r := c.Rng("service", cas)
				s := service.CreateService(st)
				gen.Fill(r, s, 1)
				add("service", cas, item{Kind: "service", Sub: fmt.Sprint(st)}, gen.Encode(func(o *gio.DataOutputX) { service.ToBytes(s, o) }))
			}
			cas++
		}
	}
	cas = 0
	for _, t := range gen.PackTypes {
		for i := 0; i < per; i++ {
			if c.Want("pack", cas) {
				r := c.Rng("pack", cas)
				var p pack.Pack
				core.Guard(func() { p = gen.Pack(r, t) })
				if p != nil {
					add("pack", cas, item{Kind: "pack", Sub: fmt.Sprint(t)}, gen.Encode(func(o *gio.DataOutputX) { pack.WritePack(o, p) }))
				}
			}
			cas++
		}
	}
	cas = 0
	for _, t := range gen.UdpTypes {
		for i := 0; i < c.Pick(1, 4); i++ {
			if c.Want("udp", cas) {
				r := c.Rng("udp", cas)
				ver := gen.UdpVersions[r.Intn(len(gen.UdpVersions))]
				var p udp.UdpPack
				core.Guard(func() { p = gen.Udp(r, t, ver) })
				if p != nil {
					add("udp", cas, item{Kind: "udp", Sub: fmt.Sprint(t), T: int(t), Ver: ver}, gen.Encode(func(o *gio.DataOutputX) { p.Write(o) }))
				}
			}
			cas++
		}
	}
	for cas = 0; cas < per*6; cas++ {
		if c.Want("prim", cas) {
			r := c.Rng("prim", cas)
			var ops []string
			out := gio.NewDataOutputX()
			for i, n := 0, 1+r.Intn(5); i < n; i++ {
				op := primOps[r.Intn(len(primOps))]
				ops = append(ops, op)
				writePrim(r, out, op)
			}
			add("prim", cas, item{Kind: "prim", Sub: strings.Join(ops, ",")}, append([]byte(nil), out.ToByteArray()...))
		}
	}
	return items
}

// patches are the hostile overwrites tried at every offset.
var patches = []struct {
	name string
	b    []byte
}{
	{"b255", []byte{255}}, {"b254", []byte{254}}, {"b127", []byte{127}}, {"b128", []byte{128}}, {"b0", []byte{0}}, {"b9", []byte{9}},
	{"s7fff", []byte{0x7f, 0xff}}, {"sffff", []byte{0xff, 0xff}},
	{"i7fffffff", []byte{0x7f, 0xff, 0xff, 0xff}}, {"i80000000", []byte{0x80, 0, 0, 0}}, {"iffffffff", []byte{0xff, 0xff, 0xff, 0xff}},
	{"i00ffffff", []byte{0, 0xff, 0xff, 0xff}}, {"i0000ffff", []byte{0, 0, 0xff, 0xff}},
	{"blob254", []byte{254, 0x7f, 0xff, 0xff, 0xff}}, {"blob254m", []byte{254, 0x01, 0, 0, 0}}, {"blob255", []byte{255, 0xff, 0xff}},
	{"dec4", []byte{4, 0x7f, 0xff, 0xff, 0xff}}, {"dec4m", []byte{4, 0x01, 0, 0, 0}}, {"dec3", []byte{3, 0x7f, 0xff, 0xff}}, {"dec2", []byte{2, 0x7f, 0xff}},
	{"dec8", []byte{8, 0, 0, 0, 0, 0x10, 0, 0, 0}}, {"dec8neg", []byte{8, 0xff, 0xff, 0xff, 0xff, 0xff, 0xff, 0xff, 0xff}},
	{"dec5", []byte{5, 0x7f, 0xff, 0xff, 0xff, 0xff}},
}

const allocCap = 1 << 30

type result struct {
	Idx      int    `json:"idx"`
	Full     string `json:"full"`
	Consumed int    `json:"consumed"`
	OkCuts   []int  `json:"okcuts"`
	Overrun  int    `json:"overrun"` // max over ok cuts of consumed - cut
	Hostile  []hres `json:"hostile"`
}
type hres struct {
	Patch    string   `json:"patch"`
	N        int      `json:"n"`
	Outcomes []string `json:"outcomes"`
	MaxAlloc int      `json:"maxalloc"`
	AtPos    int      `json:"atpos"`
	Overrun  int      `json:"overrun"`
	MaxLen   int      `json:"len"`
}

func try(it *item, b []byte) (out string, consumed int) {
	msg := core.Guard(func() { consumed = decode(it, b) })
	if msg != "" {
		return "failed", 0
	}
	return "ok", consumed
}

func allocOf(f func()) int {
	var m0, m1 runtime.MemStats
	runtime.ReadMemStats(&m0)
	f()
	runtime.ReadMemStats(&m1)
	d := m1.TotalAlloc - m0.TotalAlloc
	if d > allocCap {
		d = allocCap
	}
	return int(d)
}

// child: decode everything in the work file from index `from`, one JSON line per item.
func child(work string, from int, hostile bool) {
	f, err := os.Open(work)
	if err != nil {
		panic(err)
	}
	var items []item
	if err := json.NewDecoder(f).Decode(&items); err != nil {
		panic(err)
	}
	w := bufio.NewWriter(os.Stdout)
	for i := from; i < len(items); i++ {
		it := &items[i]
		b, _ := hex.DecodeString(it.Hex)
		fmt.Fprintf(w, "BEGIN %d\n", i)
		w.Flush()
		res := result{Idx: i, OkCuts: []int{}, Overrun: -1 << 20}
		res.Full, res.Consumed = try(it, b)
		for cut := 0; cut < len(b); cut++ {
			o, cons := try(it, b[:cut:cut])
			if o == "ok" {
				res.OkCuts = append(res.OkCuts, cut)
				if cons-cut > res.Overrun {
					res.Overrun = cons - cut
				}
			}
		}
		if hostile {
			for _, p := range patches {
				h := hres{Patch: p.name, Overrun: -1 << 20, AtPos: -1, MaxLen: len(b)}
				seen := map[string]bool{}
				for pos := 0; pos+len(p.b) <= len(b) && pos < 400; pos++ {
					hb := append([]byte(nil), b...)
					copy(hb[pos:], p.b)
					fmt.Fprintf(w, "AT %d %s %d\n", i, p.name, pos)
					w.Flush()
					var o string
					var cons int
					a := allocOf(func() { o, cons = try(it, hb) })
					h.N++
					seen[o] = true
					if a > h.MaxAlloc {
						h.MaxAlloc, h.AtPos = a, pos
					}
					if o == "ok" && cons-len(hb) > h.Overrun {
						h.Overrun = cons - len(hb)
					}
				}
				for k := range seen {
					h.Outcomes = append(h.Outcomes, k)
				}
				if h.N > 0 {
					res.Hostile = append(res.Hostile, h)
				}
			}
		}
		j, _ := json.Marshal(res)
		fmt.Fprintf(w, "RES %s\n", j)
		w.Flush()
	}
	fmt.Fprintln(w, "DONE")
	w.Flush()
}

func Run(c *core.Ctx) error {
	if c.Args["mode"] == "child" {
		from, _ := strconv.Atoi(c.Args["from"])
		child(c.Args["work"], from, c.Args["hostile"] != "0")
		os.Exit(0)
	}
	c.Rule = "valid encodings of values (20 type codes), steps (9 types) and step streams, transaction/service records, packs (24 factory types), UDP packs and primitive streams, built through golib's constructors with random field values; for each: the full decode, EVERY strict prefix, and hostile overwrites (23 length/count/tag patterns at every offset < 400) decoded in a child process under an address-space limit; non-trivial = encoding of >= 2 bytes; distinct by (kind, type, bytes)"
	items := generate(c)
	work := c.OutDir + "/work.json"
	wb, _ := json.Marshal(items)
	if err := os.WriteFile(work, wb, 0o644); err != nil {
		return err
	}
	results := make([]*result, len(items))
	fatal := map[int]string{}
	from := 0
	self, _ := os.Executable()
	for from < len(items) {
		cmd := exec.Command("prlimit", "--as=8589934592", self, "-out", c.OutDir, "-args",
			fmt.Sprintf("mode=child,work=%s,from=%d", work, from), "c04")
		cmd.Env = append(os.Environ(), "GOMAXPROCS=2")
		stdout, _ := cmd.StdoutPipe()
		cmd.Stderr = nil
		if err := cmd.Start(); err != nil {
			return err
		}
		cur, at := -1, ""
		done := false
		lines := make(chan string, 1024)
		go func() {
			sc := bufio.NewScanner(stdout)
			sc.Buffer(make([]byte, 1<<20), 64<<20)
			for sc.Scan() {
				lines <- sc.Text()
			}
			close(lines)
		}()
		timer := time.NewTimer(60 * time.Second)
	loop:
		for {
			select {
			case ln, ok := <-lines:
				if !ok {
					break loop
				}
				switch {
				case strings.HasPrefix(ln, "BEGIN "):
					cur, _ = strconv.Atoi(ln[6:])
					at = ""
					if !timer.Stop() {
						select {
						case <-timer.C:
						default:
						}
					}
					timer.Reset(60 * time.Second)
				case strings.HasPrefix(ln, "AT "):
					at = ln[3:]
				case strings.HasPrefix(ln, "RES "):
					var r result
					if err := json.Unmarshal([]byte(ln[4:]), &r); err == nil {
						results[r.Idx] = &r
					}
				case ln == "DONE":
					done = true
				}
			case <-timer.C:
				cmd.Process.Kill()
				fatal[cur] = "timeout at " + at
				break loop
			}
		}
		cmd.Process.Kill()
		cmd.Wait()
		if done {
			break
		}
		if cur < 0 {
			return fmt.Errorf("child died before the first item")
		}
		if _, ok := fatal[cur]; !ok {
			fatal[cur] = "fatal at " + at
		}
		from = cur + 1
	}

	t := c.Trace("c04_decode", "Trace_FailClosed")
	byKind := map[string]int{}
	fullFailed := 0
	for i := range items {
		it := &items[i]
		n := len(it.Hex) / 2
		t.Reset(it.Gen, it.Case, core.Ev{"kind": it.Kind, "sub": it.Sub})
		c.Count(it.Kind+it.Sub+it.Hex, n >= 2)
		byKind[it.Kind]++
		if msg, bad := fatal[i]; bad {
			parts := strings.SplitN(msg, " ", 2)
			t.Emit(core.Ev{"ev": "Died", "how": parts[0], "at": msg, "len": n})
			continue
		}
		r := results[i]
		if r == nil {
			return fmt.Errorf("no result for item %d", i)
		}
		if r.Full != "ok" {
			fullFailed++
		}
		t.Emit(core.Ev{"ev": "Obj", "len": n, "full": r.Full, "consumed": r.Consumed, "okcuts": r.OkCuts, "overrun": r.Overrun})
		for _, h := range r.Hostile {
			t.Emit(core.Ev{"ev": "Hostile", "len": h.MaxLen, "patch": h.Patch, "n": h.N, "outcomes": h.Outcomes,
				"maxalloc": h.MaxAlloc, "atpos": h.AtPos, "overrun": h.Overrun})
		}
		if i < 3 {
			c.Sample(map[string]interface{}{"kind": it.Kind, "type": it.Sub, "encoding_hex": it.Hex, "consumed": r.Consumed, "ok_cuts": r.OkCuts})
		}
	}
	c.SetExtra("objects_by_kind", byKind)
	c.SetExtra("full_decode_failed", fullFailed)
	c.SetExtra("hostile_patches", len(patches))
	return nil
}
