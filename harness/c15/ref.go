package c15

// Transliteration of the reference operators of spec/Hashes.tla, spec/Hexa32.tla and
// spec/BitIp.tla, written from the TLA+ (operator names kept) with the standard library only
// and sharing nothing with golib.  It is used by the sweeps (sweep.go) over spaces TLC cannot
// enumerate, and is itself bound to the specification: sampled events carry its outputs in the
// field `ref`, and Trace_Hashes requires them to equal the spec's.
//
// Words are native uint32/uint64 here (MulMod of the spec = Go's wrapping multiplication,
// XorB = ^, ShrBits = >>); byte tuples are []byte, most significant first.

import (
	"encoding/binary"
)

// ---- Hashes.tla --------------------------------------------------------------------------

// PolyExps: the exponents of the CRC-32 generator below x^32; Poly: bit e counted from the most
// significant end of the word
var polyExps = []uint{0, 1, 2, 4, 5, 7, 8, 10, 11, 12, 16, 22, 23, 26}

func poly() uint32 {
	var p uint32
	for _, e := range polyExps {
		p |= 1 << (31 - e)
	}
	return p
}

// CrcBits(c, n): n-fold "divide by x"
func crcBits(c uint32, n int) uint32 {
	p := poly()
	for ; n > 0; n-- {
		if c&1 == 1 {
			c = (c >> 1) ^ p
		} else {
			c >>= 1
		}
	}
	return c
}

// CrcTable == [n \in 0..255 |-> CrcBits(<<0,0,0,n>>, 8)]
var crcTable = func() (t [256]uint32) {
	for n := 0; n < 256; n++ {
		t[n] = crcBits(uint32(n), 8)
	}
	return
}()

// Crc32(bs) == NotB(CrcLoop(bs, 1, Ones(4))), CrcStep(crc, b) == (crc >> 8) xor CrcTable[low byte xor b]
func refCrc32(bs []byte) uint32 {
	crc := ^uint32(0)
	for _, b := range bs {
		crc = (crc >> 8) ^ crcTable[byte(crc)^b]
	}
	return ^crc
}

// Crc32Wide64: 64-bit register, table entry sign-extended
func refCrc32Wide64(bs []byte) uint64 {
	crc := ^uint64(0)
	for _, b := range bs {
		e := uint64(crcTable[byte(crc)^b])
		if e&0x80000000 != 0 { // SignExt(entry, 8)
			e |= 0xffffffff00000000
		}
		crc = (crc >> 8) ^ e
	}
	return ^crc
}

// Crc32Lanes: shift first, then each half XORed with the entry selected by its own low byte
func refCrc32Lanes(bs []byte) uint64 {
	crc := ^uint64(0)
	for _, b := range bs {
		s := crc >> 8
		hi := crcTable[byte(s>>32)^b] // s[4] of the spec: low byte of the upper half
		lo := crcTable[byte(s)^b]     // s[8]
		crc = s ^ (uint64(hi)<<32 | uint64(lo))
	}
	return ^crc
}

const m32 = 0x5bd1e995
const defaultSeed = 0xe17a1465
const m64 = 0xc6a4a7935bd1e995

func mix32(k uint32) uint32 { k *= m32; k ^= k >> 24; return k * m32 }
func avalanche32(h uint32) uint32 {
	h ^= h >> 13
	h *= m32
	return h ^ (h >> 15)
}

// Murmur32(bs, seed): body over little-endian words, TailPort, Avalanche32
func refMurmur32(bs []byte, seed uint32) uint32 {
	n := len(bs)
	h := seed ^ uint32(n)
	for i := 1; i <= n/4; i++ {
		p := 4*i - 4 // LE4(bs, 4i-3), 0-based here
		k := uint32(bs[p+3])<<24 | uint32(bs[p+2])<<16 | uint32(bs[p+1])<<8 | uint32(bs[p])
		h = (h * m32) ^ mix32(k)
	}
	left := n % 4
	if left != 0 {
		var tail uint32 // TailPort: <<0, bs[n-2], bs[n-1], bs[n]>> (1-based) as far as present
		if left >= 3 {
			tail |= uint32(bs[n-3]) << 16
		}
		if left >= 2 {
			tail |= uint32(bs[n-2]) << 8
		}
		tail |= uint32(bs[n-1])
		h = (h ^ tail) * m32
	}
	return avalanche32(h)
}

// MurmurLong(v) == Avalanche32(MulMod(Mix32(Low(v,4)), M32) xor Mix32(High(v,4)))
func refMurmurLong(v uint64) uint32 {
	h1 := mix32(uint32(v))
	return avalanche32((h1 * m32) ^ mix32(uint32(v>>32)))
}

func mix64(k uint64) uint64 { k *= m64; k ^= k >> 47; return k * m64 }

// Murmur64(bs, seed)
func refMurmur64(bs []byte, seed uint32) uint64 {
	n := len(bs)
	h := uint64(seed) ^ (uint64(n) * m64)
	for i := 1; i <= n/8; i++ {
		k := binary.LittleEndian.Uint64(bs[8*i-8:]) // LE8(bs, 8i-7)
		h = (h ^ mix64(k)) * m64
	}
	left := n % 8
	if left != 0 {
		var tail uint64 // Tail64: little-endian partial word
		base := n - left
		for j := 0; j < left; j++ {
			tail |= uint64(bs[base+j]) << (8 * uint(j))
		}
		h = (h ^ tail) * m64
	}
	h ^= h >> 47
	h *= m64
	return h ^ (h >> 47)
}

// Poly31(bs): h := 31*h + b in a 64-bit register
func refPoly31(bs []byte) uint64 {
	var h uint64
	for _, b := range bs {
		h = h*31 + uint64(b)
	}
	return h
}

// ---- Hexa32.tla --------------------------------------------------------------------------

// Magnitude(v): |v| as an unsigned 64-bit word (NegW = two's complement negation; 2^63 for the
// most negative number)
func magnitude(v int64) uint64 {
	if v < 0 {
		return ^uint64(v) + 1
	}
	return uint64(v)
}

// Group5(w, g): the g-th 5-bit group (0 = least significant; bits beyond 64 are 0)
func group5(w uint64, g int) int { return int(w>>(5*uint(g))) & 31 }

// NGroups(w): number of significant groups, at least 1
func nGroups(w uint64) int {
	for g := 12; g >= 0; g-- {
		if group5(w, g) != 0 {
			return g + 1
		}
	}
	return 1
}

func digitChar(d int) byte {
	if d < 10 {
		return byte(48 + d)
	}
	return byte(87 + d)
}

func digitVal(c byte) int {
	if c <= 57 {
		return int(c) - 48
	}
	return int(c) - 87
}

// Digits32(w): most significant digit first
func digits32(o []byte, w uint64) []byte {
	n := nGroups(w)
	for i := 1; i <= n; i++ {
		o = append(o, digitChar(group5(w, n-i)))
	}
	return o
}

// H32Enc(v)
func refH32Enc(v int64) []byte {
	o := make([]byte, 0, 14)
	if v < 0 {
		return digits32(append(o, 'z'), magnitude(v))
	}
	if v < 10 {
		return append(o, byte(48+v))
	}
	return digits32(append(o, 'x'), uint64(v))
}

// FromDigits(ds): the word whose 5-bit groups are the digits
func fromDigits(ds []byte) uint64 {
	var w uint64
	for _, c := range ds {
		w = w<<5 | uint64(digitVal(c))
	}
	return w
}

// H32Dec(t), t readable
func refH32Dec(t []byte) int64 {
	if len(t) == 1 {
		return int64(t[0] - 48)
	}
	if t[0] == 'x' {
		return int64(fromDigits(t[1:]))
	}
	return int64(^fromDigits(t[1:]) + 1) // NegW
}

// ---- BitIp.tla ---------------------------------------------------------------------------

func octetText(b byte) []byte {
	switch {
	case b < 10:
		return []byte{48 + b}
	case b < 100:
		return []byte{48 + b/10, 48 + b%10}
	}
	return []byte{48 + b/100, 48 + (b/10)%10, 48 + b%10}
}

func refIpText(a []byte) []byte {
	o := make([]byte, 0, 15)
	for i := 0; i < 4; i++ {
		if i > 0 {
			o = append(o, '.')
		}
		o = append(o, octetText(a[i])...)
	}
	return o
}

// IpParse(t), t readable: Fields at the three dots, DecVal of each
func refIpParse(t []byte) []byte {
	o := make([]byte, 0, 4)
	v := 0
	for _, c := range t {
		if c == '.' {
			o = append(o, byte(v))
			v = 0
			continue
		}
		v = v*10 + int(c-48)
	}
	return append(o, byte(v))
}
