// Package c15 drives the real hash functions (util/hash, util/hll murmur, stringutil.HashCode),
// util/hexa32, util/bitutil and util/iputil and records, per input, the record of what every
// entry point returned -- for Trace_Hashes.tla to judge against the reference operators.
// The harness only records: every value is projected to byte tuples with the standard library.
package c15

import (
	"bytes"
	"fmt"
	"math"
	"math/rand"
	"sync"

	"github.com/whatap/golib/util/bitutil"
	"github.com/whatap/golib/util/hash"
	"github.com/whatap/golib/util/hexa32"
	"github.com/whatap/golib/util/hll"
	"github.com/whatap/golib/util/iputil"
	"github.com/whatap/golib/util/stringutil"

	"verifharness/core"
)

func init() { core.Register("c15", Run) }

type outs map[string]core.Bytes

// call is one input of one function family.
type call struct {
	ev      string      // event name = family
	fields  core.Ev     // the arguments as logged
	eval    func() outs // evaluates every golib entry point of the family on the input
	ref     func() outs // the transliteration (sweep binding), may be nil
	key     string      // identity of the input for the evidence counters
	nontriv bool        // counts under the stated rule
	intact  func() bool // the input was not modified by the calls
	// live (alias.go): evaluates like eval but hands over the slices themselves -- the ones golib
	// returned, by field of the record, and the ones golib was passed -- instead of overwriting them;
	// nil for the families that neither take nor return a slice
	live func() (o outs, returned map[string][]byte, passed []byte)
	// fresh builds the same input again with slices of its own
	fresh func() call
	// onSlice builds the call that passes b itself (the input is what b holds now)
	onSlice func(b []byte) call
}

// scribble overwrites a slice in place (every byte changes): what a caller that owns the slice may do
func scribble(b []byte) {
	for i := range b {
		b[i] ^= 0xa5
	}
}

// ---- the real functions, one family per constructor ----------------------------------------

func w4i(v int32) core.Bytes { return core.W4(uint32(v)) }

func bytesCall(arg []byte, seed uint32, plen int) call {
	pristine := core.Cp(arg)
	c := call{
		ev:     "Bytes",
		fields: core.Ev{"arg": pristine, "seed": core.W4(seed), "plen": plen},
		eval: func() outs {
			s := string(arg)
			return outs{
				"hash":        w4i(hash.Hash(arg)),
				"hashstr":     w4i(hash.HashStr(s)),
				"hash64":      core.W8(hash.Hash64(arg)),
				"hash64str":   core.W8(hash.Hash64Str(s)),
				"hash64v2":    core.W8(hash.Hash64v2(arg)),
				"hash64V2":    core.W8(hash.Hash64V2(arg)),
				"hash64strv2": core.W8(hash.Hash64StrV2(s)),
				"longhash":    core.W8(hash.GetLongHash(s)),
				"murmur":      core.W4(hll.MurmurHashByte(arg)),
				"murmurseed":  core.W4(hll.MurmurHashByteSeed(arg, seed)),
				"murmur64":    core.U8(hll.MurmurHashLongByte(arg, int32(len(arg)))),
				"murmur64p":   core.U8(hll.MurmurHashLongByte(arg, int32(plen))),
				"hashcode":    core.W8(int64(stringutil.HashCode(s))),
			}
		},
		ref: func() outs {
			c, w, n := refCrc32(pristine), refCrc32Wide64(pristine), refCrc32Lanes(pristine)
			return outs{
				"hash": core.W4(c), "hashstr": core.W4(c),
				"hash64": core.U8(w), "hash64str": core.U8(w),
				"hash64v2": core.U8(n), "hash64V2": core.U8(n), "hash64strv2": core.U8(n), "longhash": core.U8(n),
				"murmur":     core.W4(refMurmur32(pristine, defaultSeed)),
				"murmurseed": core.W4(refMurmur32(pristine, seed)),
				"murmur64":   core.U8(refMurmur64(pristine, defaultSeed)),
				"murmur64p":  core.U8(refMurmur64(pristine[:plen], defaultSeed)),
				"hashcode":   core.U8(refPoly31(pristine)),
			}
		},
		key:     fmt.Sprintf("bytes:%x:%x:%d", arg, seed, plen),
		nontriv: len(arg) > 0,
		intact:  func() bool { return bytes.Equal(arg, pristine) },
		fresh: func() call {
			if arg == nil {
				return bytesCall(nil, seed, plen)
			}
			return bytesCall(core.Cp(pristine), seed, plen)
		},
	}
	c.live = func() (outs, map[string][]byte, []byte) { return c.eval(), nil, arg }
	c.onSlice = func(b []byte) call {
		p := plen
		if p > len(b) {
			p = len(b)
		}
		return bytesCall(b, seed, p)
	}
	return c
}

func longCall(v uint64) call {
	return call{
		ev: "Long", fields: core.Ev{"v": core.U8(v)},
		eval: func() outs { return outs{"murmurlong": core.W4(hll.MurmurHashLong(v))} },
		ref:  func() outs { return outs{"murmurlong": core.W4(refMurmurLong(v))} },
		key:  fmt.Sprintf("long:%x", v), nontriv: v != 0,
	}
}

func intCall(v uint32) call {
	return call{
		ev: "Int", fields: core.Ev{"v": core.W4(v)},
		eval: func() outs { return outs{"murmurint": core.W4(hll.MurmurHash(v))} },
		ref:  func() outs { return outs{"murmurint": core.W4(refMurmurLong(uint64(v)))} },
		key:  fmt.Sprintf("int:%x", v), nontriv: v != 0,
	}
}

func hexaCall(v int64) call {
	return call{
		ev: "Hexa", fields: core.Ev{"v": core.W8(v)},
		eval: func() outs {
			s := hexa32.ToString32(v)
			return outs{"text": core.Str(s), "back": core.W8(hexa32.ToLong32(s))}
		},
		ref: func() outs {
			t := refH32Enc(v)
			return outs{"text": core.Cp(t), "back": core.W8(refH32Dec(t))}
		},
		key: fmt.Sprintf("hexa:%x", v), nontriv: v < 0 || v >= 10,
	}
}

func hexaDecCall(text string) call {
	return call{
		ev: "HexaDec", fields: core.Ev{"t": core.Str(text)},
		eval: func() outs { return outs{"value": core.W8(hexa32.ToLong32(text))} },
		ref:  func() outs { return outs{"value": core.W8(refH32Dec([]byte(text)))} },
		key:  "hexadec:" + text, nontriv: len(text) > 1,
	}
}

// bitCall: width in bytes of a half (1, 2, 4); hi, lo the halves, src a key, as unsigned patterns
func bitCall(half int, hi, lo uint32, src uint64) call {
	cut := func(v uint64, n int) core.Bytes { return core.Cp(core.U8(v)[8-n:]) }
	h, l, s := cut(uint64(hi), half), cut(uint64(lo), half), cut(src, 2*half)
	c := call{
		ev: "Bit", fields: core.Ev{"hi": h, "lo": l, "src": s},
		key: fmt.Sprintf("bit:%d:%x:%x:%x", half, h, l, s), nontriv: true,
		ref: func() outs {
			o := outs{"comp": append(core.Cp(h), l...), "high": core.Cp(s[:half]), "low": core.Cp(s[half:])}
			if half == 4 {
				o["sethigh"] = append(core.Cp(h), s[half:]...)
				o["setlow"] = append(core.Cp(s[:half]), l...)
			}
			return o
		},
	}
	switch half {
	case 4:
		c.eval = func() outs {
			k := int64(src)
			return outs{
				"comp":    core.W8(bitutil.Composite64(int32(hi), int32(lo))),
				"high":    w4i(bitutil.GetHigh64(k)),
				"low":     w4i(bitutil.GetLow64(k)),
				"sethigh": core.W8(bitutil.SetHigh64(k, int32(hi))),
				"setlow":  core.W8(bitutil.SetLow64(k, int32(lo))),
			}
		}
	case 2:
		c.eval = func() outs {
			k := int32(uint32(src))
			w2 := func(v int16) core.Bytes { return core.Bytes{byte(uint16(v) >> 8), byte(v)} }
			return outs{
				"comp": w4i(bitutil.Composite32(int16(uint16(hi)), int16(uint16(lo)))),
				"high": w2(bitutil.GetHigh32(k)),
				"low":  w2(bitutil.GetLow32(k)),
			}
		}
	default:
		c.eval = func() outs {
			k := int16(uint16(src))
			r := bitutil.Composite16(byte(hi), byte(lo))
			return outs{
				"comp": core.Bytes{byte(uint16(r) >> 8), byte(r)},
				"high": core.Bytes{bitutil.GetHigh16(k)},
				"low":  core.Bytes{bitutil.GetLow16(k)},
			}
		}
	}
	return c
}

func ipCall(a uint32) call {
	return ipCallOn([]byte{byte(a >> 24), byte(a >> 16), byte(a >> 8), byte(a)})
}

// ipCallOn: the address is what the 4-byte slice addr holds now; addr itself is passed to golib
func ipCallOn(addr []byte) call {
	a := uint32(addr[0])<<24 | uint32(addr[1])<<16 | uint32(addr[2])<<8 | uint32(addr[3])
	pristine := core.Cp(addr)
	// every slice golib returns is the caller's: after projecting it the harness overwrites it
	// (keep: hands it over untouched instead)
	do := func(keep bool) (outs, map[string][]byte) {
		text := iputil.ToString(addr)
		n := iputil.ToInt(addr)
		p := iputil.ToBytes(text)
		f := iputil.ToBytesFrInt(n)
		o := outs{
			"text":      core.Str(text),
			"textint":   core.Str(iputil.ToStringInt(int32(a))),
			"textfrint": core.Str(iputil.ToStringFrInt(int32(a))),
			"parsed":    core.Cp(p),
			"int":       w4i(n),
			"frint":     core.Cp(f),
		}
		if keep {
			return o, map[string][]byte{"parsed": p, "frint": f}
		}
		scribble(p)
		scribble(f)
		return o, nil
	}
	return call{
		ev: "Ip", fields: core.Ev{"a": pristine},
		eval: func() outs { o, _ := do(false); return o },
		ref: func() outs {
			t := refIpText(pristine)
			return outs{"text": core.Cp(t), "textint": core.Cp(t), "textfrint": core.Cp(t),
				"parsed": core.Cp(refIpParse(t)), "int": core.Cp(pristine), "frint": core.Cp(pristine)}
		},
		key: fmt.Sprintf("ip:%x", a), nontriv: true,
		intact:  func() bool { return bytes.Equal(addr, pristine) },
		live:    func() (outs, map[string][]byte, []byte) { o, h := do(true); return o, h, addr },
		fresh:   func() call { return ipCall(a) },
		onSlice: ipCallOn,
	}
}

func ipParseCall(text string) call {
	do := func(keep bool) (outs, map[string][]byte) {
		p := iputil.ToBytes(text)
		o := outs{"parsed": core.Cp(p)}
		if keep {
			return o, map[string][]byte{"parsed": p}
		}
		scribble(p)
		return o, nil
	}
	return call{
		ev: "IpParse", fields: core.Ev{"t": core.Str(text)},
		eval: func() outs { o, _ := do(false); return o },
		ref:  func() outs { return outs{"parsed": core.Cp(refIpParse([]byte(text)))} },
		key:  "ipparse:" + text, nontriv: true,
		live:  func() (outs, map[string][]byte, []byte) { o, h := do(true); return o, h, nil },
		fresh: func() call { return ipParseCall(text) },
	}
}

// ---- running a history -------------------------------------------------------------------------

func guarded(f func() outs) (o outs, msg string) {
	msg = core.Guard(func() { o = f() })
	return
}

// runHistory evaluates every call of the history: once, then again on the same goroutine while two
// other goroutines evaluate the same inputs concurrently (one of them in reverse order); the
// records of the repetitions are logged in `rep`.  A panic is an event the spec has no action for.
func runHistory(c *core.Ctx, t *core.Trace, gen string, cas int, calls []call, withRef bool) {
	t.Reset(gen, cas, nil)
	n := len(calls)
	first := make([]outs, n)
	msgs := make([]string, n)
	for i := range calls {
		first[i], msgs[i] = guarded(calls[i].eval)
	}
	reps := [3][]outs{make([]outs, n), make([]outs, n), make([]outs, n)}
	rmsg := [3][]string{make([]string, n), make([]string, n), make([]string, n)}
	var wg sync.WaitGroup
	start := make(chan struct{})
	for g := 1; g <= 2; g++ {
		wg.Add(1)
		go func(g int) {
			defer wg.Done()
			<-start
			for j := 0; j < n; j++ {
				i := j
				if g == 2 {
					i = n - 1 - j
				}
				reps[g][i], rmsg[g][i] = guarded(calls[i].eval)
			}
		}(g)
	}
	close(start)
	for i := range calls {
		reps[0][i], rmsg[0][i] = guarded(calls[i].eval)
	}
	wg.Wait()
	for i, cl := range calls {
		ev := core.Ev{"ev": cl.ev, "i": i + 1} // position in the history: the record is complete
		for k, v := range cl.fields {
			ev[k] = v
		}
		for _, m := range []string{msgs[i], rmsg[0][i], rmsg[1][i], rmsg[2][i]} {
			if m != "" {
				ev["ev"], ev["fn"], ev["msg"] = "Panic", cl.ev, m
			}
		}
		if cl.intact != nil && !cl.intact() {
			ev["ev"], ev["fn"] = "Mutated", cl.ev
		}
		if first[i] == nil {
			first[i] = outs{}
		}
		ev["outs"] = first[i]
		ev["rep"] = []outs{reps[0][i], reps[1][i], reps[2][i]}
		if withRef && cl.ref != nil {
			ev["ref"] = cl.ref()
		}
		t.Emit(ev)
		c.Count(cl.key, cl.nontriv)
	}
}

// histories cuts a list of calls into histories of at most `size` inputs; the last tenth of each
// history repeats earlier inputs of the same history (the memo of the spec must still agree).
func histories(c *core.Ctx, ts []*core.Trace, gen string, calls []call, size int, withRef bool) {
	cas := 0
	for lo := 0; lo < len(calls); lo += size {
		hi := lo + size
		if hi > len(calls) {
			hi = len(calls)
		}
		if c.Want(gen, cas) {
			h := append([]call{}, calls[lo:hi]...)
			r := c.Rng(gen, cas)
			for k := 0; k < 1+(hi-lo)/10; k++ {
				h = append(h, h[r.Intn(hi-lo)])
			}
			if cas == 1 || len(calls) <= size {
				k := (hi - lo) / 2
				c.Sample(map[string]interface{}{"gen": gen, "case": cas, "input": h[k].fields, "returned": func() interface{} { o, _ := guarded(h[k].eval); return o }()})
			}
			runHistory(c, ts[cas%len(ts)], gen, cas, h, withRef)
		}
		cas++
	}
}

// ---- input generators --------------------------------------------------------------------------

func mix(i uint64) uint64 { // splitmix64
	z := i + 0x9e3779b97f4a7c15
	z = (z ^ (z >> 30)) * 0xbf58476d1ce4e5b9
	z = (z ^ (z >> 27)) * 0x94d049bb133111eb
	return z ^ (z >> 31)
}

func seedFor(r *rand.Rand) uint32 {
	switch r.Intn(4) {
	case 0:
		return defaultSeed
	case 1:
		return []uint32{0, 1, 0x80000000, 0xffffffff}[r.Intn(4)]
	}
	return r.Uint32()
}

var edgeBytes = []byte{0, 1, 0x7f, 0x80, 0xff}

// genShort: every byte string of length <= 2 (thorough); quick: all of length <= 1 and, for every
// first byte, the second byte over 4 values (edge values and random ones)
func genShort(c *core.Ctx) []call {
	r := c.Rng("short", 0)
	var cs []call
	cs = append(cs, bytesCall(nil, defaultSeed, 0), bytesCall([]byte{}, seedFor(r), 0))
	for a := 0; a < 256; a++ {
		cs = append(cs, bytesCall([]byte{byte(a)}, seedFor(r), r.Intn(2)))
	}
	for a := 0; a < 256; a++ {
		if c.Thorough() {
			for b := 0; b < 256; b++ {
				cs = append(cs, bytesCall([]byte{byte(a), byte(b)}, seedFor(r), r.Intn(3)))
			}
			continue
		}
		for k := 0; k < 4; k++ {
			b := byte(r.Intn(256))
			if k == 0 {
				b = edgeBytes[(a+r.Intn(5))%5]
			}
			cs = append(cs, bytesCall([]byte{byte(a), b}, seedFor(r), r.Intn(3)))
		}
	}
	return cs
}

func randContent(r *rand.Rand, n int) []byte {
	b := make([]byte, n)
	switch r.Intn(6) {
	case 0: // high bit set everywhere (sign extension of bytes)
		for i := range b {
			b[i] = 0x80 | byte(r.Intn(128))
		}
	case 1: // text
		const alpha = "abcxyzXYZ019 _-./:한é"
		for i := range b {
			b[i] = alpha[r.Intn(len(alpha))]
		}
	case 2: // edge bytes
		for i := range b {
			b[i] = edgeBytes[r.Intn(len(edgeBytes))]
		}
	default:
		r.Read(b)
	}
	return b
}

// genRand: every length 0..40 (all tail classes of both murmur variants, twice), then random
// lengths up to 300 (longer strings: the sweep's space of one string of every length)
func genRand(c *core.Ctx) []call {
	r := c.Rng("rand", 0)
	var cs []call
	add := func(n int) {
		b := randContent(r, n)
		cs = append(cs, bytesCall(b, seedFor(r), r.Intn(n+1)))
	}
	for n := 0; n <= 40; n++ {
		add(n)
	}
	for k := 0; k < c.Pick(120, 1500); k++ {
		switch r.Intn(4) {
		case 0:
			add(r.Intn(41))
		case 1:
			add([]int{63, 64, 65, 127, 128, 129, 255, 256, 257, 299, 300}[r.Intn(11)])
		default:
			add(r.Intn(301))
		}
	}
	return cs
}

func rand64(r *rand.Rand) uint64 {
	switch r.Intn(8) {
	case 0:
		return []uint64{0, 1, 0xffffffffffffffff, 1 << 63, 1<<63 - 1, 1 << 31, 1 << 32, 0xffffffff, 0xffffffff00000000, 0x80000000}[r.Intn(10)] + uint64(r.Intn(3)) - 1
	case 1:
		return uint64(1) << uint(r.Intn(64))
	case 2, 3:
		return r.Uint64() >> uint(r.Intn(64))
	case 4: // sparse: many zero 5-bit groups
		return r.Uint64() & r.Uint64() & r.Uint64()
	}
	return r.Uint64()
}

func genLong(c *core.Ctx) []call {
	r := c.Rng("long", 0)
	var cs []call
	for k := 0; k < c.Pick(200, 2000); k++ {
		v := rand64(r)
		cs = append(cs, longCall(v))
		if k%2 == 0 {
			cs = append(cs, intCall(uint32(v>>uint(r.Intn(33)))))
		}
	}
	for _, v := range []uint32{0, 1, 0x7fffffff, 0x80000000, 0xffffffff} {
		cs = append(cs, intCall(v), longCall(uint64(v)), longCall(uint64(v)<<32))
	}
	return cs
}

// genHexa: all integers within +-40 of every power of 32 (both signs), of the extremes, random
// 64-bit values, values whose numeral has zero digits; then readable non-canonical numerals
func genHexa(c *core.Ctx) []call {
	r := c.Rng("hexa", 0)
	var cs []call
	seen := map[int64]bool{}
	add := func(v int64) {
		if !seen[v] {
			seen[v] = true
			cs = append(cs, hexaCall(v))
		}
	}
	for k := uint(0); k <= 12; k++ {
		p := int64(1) << (5 * k)
		for d := int64(-40); d <= 40; d++ {
			add(p + d)
			add(-(p + d))
		}
	}
	for d := int64(0); d <= 40; d++ {
		add(math.MaxInt64 - d)
		add(math.MinInt64 + d)
	}
	for k := 0; k < c.Pick(400, 4000); k++ {
		v := int64(rand64(r))
		if k%3 == 0 { // zero out random 5-bit groups of the magnitude
			m := uint64(v) &^ (1 << 63)
			for j := 0; j < 1+r.Intn(6); j++ {
				m &^= uint64(31) << (5 * uint(r.Intn(13)))
			}
			v = int64(m)
			if r.Intn(2) == 0 {
				v = -v
			}
		}
		add(v)
	}
	// readable numerals that are not the encoder's: leading zeros, x-form of a one-digit number, z0
	texts := []string{"x0", "z0", "x5", "x9", "x00", "z00000000000000"[:14], "x0000000000000", "x7vvvvvvvvvvvv", "z7vvvvvvvvvvvv", "z8000000000000", "x000000000000v", "z0000000000010"}
	for k := 0; k < c.Pick(120, 1200); k++ {
		t := string(refH32Enc(int64(rand64(r)) >> uint(r.Intn(60))))
		if len(t) > 1 && len(t) < 14 && r.Intn(2) == 0 {
			z := 1 + r.Intn(14-len(t))
			t = t[:1] + "0000000000000"[:z] + t[1:]
		}
		texts = append(texts, t)
	}
	for _, t := range texts {
		cs = append(cs, hexaDecCall(t))
	}
	return cs
}

var half32 = []uint32{0, 1, 0xffffffff, 0x80000000, 0x7fffffff, 0x80, 0xff, 0x100, 0xffff, 0x10000, 0xffff0000, 0x7fff, 0x8000, 0x12345678, 0xedcba987}
var half16 = []uint32{0, 1, 0xffff, 0x8000, 0x7fff, 0x80, 0xff, 0x100, 0x1234, 0xedcb}
var half8 = []uint32{0, 1, 0x7f, 0x80, 0xff, 0x0f, 0xf0, 0x55, 0xaa, 0x12, 0xed, 0xfe}

// genBit: all pairs of boundary halves at each width; the key the getters/setters work on is the
// composite of the pair taken the other way round, or random
func genBit(c *core.Ctx) []call {
	r := c.Rng("bit", 0)
	var cs []call
	srcFor := func(half int, hi, lo uint32) uint64 {
		switch r.Intn(3) {
		case 0:
			return uint64(lo)<<(8*uint(half)) | uint64(hi)
		case 1:
			return ^(uint64(hi)<<(8*uint(half)) | uint64(lo))
		}
		return r.Uint64()
	}
	for _, h := range half32 {
		for _, l := range half32 {
			cs = append(cs, bitCall(4, h, l, srcFor(4, h, l)))
		}
	}
	for _, h := range half16 {
		for _, l := range half16 {
			cs = append(cs, bitCall(2, h, l, srcFor(2, h, l)))
		}
	}
	if c.Thorough() {
		for h := uint32(0); h < 256; h++ {
			for l := uint32(0); l < 256; l++ {
				cs = append(cs, bitCall(1, h, l, srcFor(1, h, l)))
			}
		}
	} else {
		for _, h := range half8 {
			for _, l := range half8 {
				cs = append(cs, bitCall(1, h, l, srcFor(1, h, l)))
			}
		}
	}
	for k := 0; k < c.Pick(200, 2000); k++ {
		half := []int{1, 2, 4}[r.Intn(3)]
		cs = append(cs, bitCall(half, r.Uint32(), r.Uint32(), r.Uint64()))
	}
	return cs
}

// genIp: every octet value in every position (the other octets random), random addresses, then
// readable texts with leading zeros
func genIp(c *core.Ctx) []call {
	r := c.Rng("ip", 0)
	var cs []call
	for pos := uint(0); pos < 4; pos++ {
		for v := uint32(0); v < 256; v++ {
			a := r.Uint32()
			if v%4 == 0 {
				a = []uint32{0, 0xffffffff, 0x80808080, 0x7f000001}[r.Intn(4)]
			}
			sh := 8 * (3 - pos)
			cs = append(cs, ipCall(a&^(0xff<<sh)|v<<sh))
		}
	}
	for k := 0; k < c.Pick(300, 5000); k++ {
		cs = append(cs, ipCall(r.Uint32()))
	}
	for k := 0; k < c.Pick(100, 1000); k++ {
		t := ""
		for i := 0; i < 4; i++ {
			o := byte(r.Intn(256))
			if r.Intn(3) == 0 {
				o = edgeBytes[r.Intn(5)]
			}
			f := string(octetText(o))
			if len(f) < 3 && r.Intn(2) == 0 {
				f = "00"[:1+r.Intn(3-len(f))] + f
			}
			if i > 0 {
				t += "."
			}
			t += f
		}
		cs = append(cs, ipParseCall(t))
	}
	return cs
}

// Run is the driver.
func Run(c *core.Ctx) error {
	c.Rule = "one evaluation = one input of one function family pushed through every golib entry point of the family (4 times: twice sequentially, twice from concurrent goroutines; gen conc: once per goroutine and round; gen alias/churn: once per visit); distinct counts distinct (family, input) pairs; non-trivial = non-empty byte string / non-zero word / number outside 0..9 / any pair of halves / any address"
	shards := func(name string, n int) []*core.Trace {
		ts := make([]*core.Trace, n)
		for i := range ts {
			ts[i] = c.Trace(fmt.Sprintf("c15_%s_%d", name, i), "Trace_Hashes")
		}
		return ts
	}
	tShort := shards("short", c.Pick(2, 8))
	tRand := shards("rand", c.Pick(3, 6))
	tIds := shards("ids", c.Pick(2, 4))
	tSweep := shards("sweep", 1)
	tAlias := shards("alias", c.Pick(1, 2))
	tChurn := shards("churn", c.Pick(1, 2))
	nConc := c.Pick(3, 6)
	tConc := shards("conc", nConc)
	nAlias := c.Pick(6, 24)

	// state carried across calls / aliasing: the first half of the cases in a process that has not
	// evaluated anything yet, the second half at the very end (every cache warm or full)
	alias := func(lo, hi int) {
		for cas := lo; cas < hi; cas++ {
			if c.Want("alias", cas) {
				runAlias(c, tAlias[cas%len(tAlias)], "alias", cas, aliasInputs(c, "alias", cas))
			}
		}
	}
	alias(0, nAlias/2)
	if c.WantGen("short") {
		histories(c, tShort, "short", genShort(c), 64, false)
	}
	if c.WantGen("rand") {
		histories(c, tRand, "rand", genRand(c), 16, false)
	}
	if c.WantGen("long") {
		histories(c, tIds, "long", genLong(c), 64, false)
	}
	if c.WantGen("hexa") {
		histories(c, tIds, "hexa", genHexa(c), 64, false)
	}
	if c.WantGen("bit") {
		histories(c, tIds, "bit", genBit(c), 64, false)
	}
	if c.WantGen("ip") {
		histories(c, tIds, "ip", genIp(c), 64, false)
	}
	for cas := 0; cas < nConc; cas++ {
		if c.Want("conc", cas) {
			// the last case (thorough: the last two): inputs with short evaluations only
			small := cas >= nConc-c.Pick(1, 2)
			runConc(c, tConc[cas], "conc", cas, concInputs(c, "conc", cas, small), c.Pick(100, 150))
		}
	}
	// quick: one of the two cases (by the seed), thorough: both
	for cas := 0; cas < 2; cas++ {
		if (c.Thorough() || int(c.Seed&1) == cas) && c.Want("churn", cas) {
			runChurn(c, tChurn[cas%len(tChurn)], "churn", cas, c.Pick(2200, 3500))
		}
	}
	if c.OnlyGen == "" || c.OnlyGen == "sweepref" || c.OnlyGen == "sweepfail" {
		runSweep(c, tSweep[0])
	}
	alias(nAlias/2, nAlias)
	return nil
}
