package c15

// Histories of gen "alias" and "churn": purity against STATE CARRIED ACROSS CALLS and against
// ALIASING.  The property says the values for given inputs never change; an implementation with a
// cache, a memo table or a reused buffer keeps state between calls, and an entry point that takes
// or returns a slice can share that state with its caller.  What the other generators do not do:
//   - write into a slice golib returned (a caller owns what it is handed) and into the slice it
//     passed, and then ask again -- with that very slice (another input now), with the same input
//     built afresh, and after other inputs;
//   - keep a returned slice untouched while other inputs are evaluated, and read it again later;
//   - evaluate more distinct inputs of one family than a bounded cache would hold, coming back to
//     earlier ones (churn).
// Every step is an event judged by the memo state machine of Hashes.tla: the family events as
// everywhere (the value must be the reference value and the memorised one), and two new ones:
//   Scribble fam <key fields> f before after   the caller overwrote slice f ("input" = the slice it
//            passed, otherwise the field of the record golib returned it in); before = what it held
//   Held     fam <key fields> outs             slices handed over earlier and not touched by the caller
//            since, read again now: outs[f] = content of slice f
// Only the families with slices have such steps: Ip (passes the address; ToBytes and ToBytesFrInt
// return slices), IpParse (ToBytes returns a slice), Bytes (passes the byte string to 8 entry points).

import (
	"math/rand"
	"sort"
	"strings"

	"verifharness/core"
)

type heldRes struct {
	cl       call
	returned map[string][]byte
	passed   []byte
}

type aliasRun struct {
	c    *core.Ctx
	t    *core.Trace
	pos  int
	held map[string]*heldRes // by call key
}

func (a *aliasRun) emit(cl call, kind string, extra core.Ev) {
	a.pos++
	ev := core.Ev{"ev": kind, "i": a.pos}
	for k, v := range cl.fields {
		ev[k] = v
	}
	for k, v := range extra {
		ev[k] = v
	}
	a.t.Emit(ev)
}

func fam(cl call) string { return strings.ToLower(cl.ev) }

const (
	keepLive  = iota // hand the slices over and keep them untouched
	overwrite        // overwrite the returned and the passed slices afterwards, one Scribble event each
	plain            // the ordinary evaluation (eval: returned slices overwritten after projection)
)

// visit evaluates the input of cl, built afresh, and logs the family event.
func (a *aliasRun) visit(cl call, mode int) { a.visitOn(cl.fresh(), mode) }

// visitOn evaluates x as it is (with the slices it was built on).
func (a *aliasRun) visitOn(x call, mode int) {
	var o outs
	var ret map[string][]byte
	var passed []byte
	msg := core.Guard(func() {
		if mode == plain || x.live == nil {
			o = x.eval()
		} else {
			o, ret, passed = x.live()
		}
	})
	if o == nil {
		o = outs{}
	}
	ev := core.Ev{"outs": o, "rep": []outs{}}
	kind := x.ev
	if msg != "" {
		kind, ev["fn"], ev["msg"] = "Panic", x.ev, msg
	}
	a.emit(x, kind, ev)
	a.c.Count(x.key, x.nontriv)
	if msg != "" || mode == plain {
		return
	}
	if mode == keepLive {
		if _, ok := a.held[x.key]; !ok && (len(ret) > 0 || len(passed) > 0) {
			a.held[x.key] = &heldRes{x, ret, passed}
		}
		return
	}
	names := make([]string, 0, len(ret))
	for f := range ret {
		names = append(names, f)
	}
	sort.Strings(names)
	for _, f := range names {
		if s := ret[f]; len(s) > 0 {
			before := core.Cp(s)
			scribble(s)
			a.emit(x, "Scribble", core.Ev{"fam": fam(x), "f": f, "before": before, "after": core.Cp(s)})
		}
	}
	if len(passed) > 0 {
		before := core.Cp(passed)
		scribble(passed)
		a.emit(x, "Scribble", core.Ev{"fam": fam(x), "f": "input", "before": before, "after": core.Cp(passed)})
		// the same slice, passed again: it is another input now
		if x.onSlice != nil {
			a.visitOn(x.onSlice(passed), plain)
		}
	}
}

// heldCheck reads the slices kept from the first evaluation of cl's input again.
func (a *aliasRun) heldCheck(cl call) {
	h := a.held[cl.key]
	if h == nil {
		return
	}
	o := outs{}
	for f, s := range h.returned {
		o[f] = core.Cp(s)
	}
	if len(h.passed) > 0 {
		o["input"] = core.Cp(h.passed)
	}
	if len(o) == 0 {
		return
	}
	a.emit(h.cl, "Held", core.Ev{"fam": fam(h.cl), "outs": o})
}

// runAlias: every input is evaluated three times in a row (slices kept / overwritten / overwritten),
// earlier inputs are come back to in between, and at the end every kept slice is read again and its
// input evaluated once more.
func runAlias(c *core.Ctx, t *core.Trace, gen string, cas int, inputs []call) {
	r := c.Rng(gen, cas)
	t.Reset(gen, cas, nil)
	a := &aliasRun{c: c, t: t, held: map[string]*heldRes{}}
	for j, x := range inputs {
		a.visit(x, keepLive)
		a.visit(x, overwrite)
		a.visit(x, overwrite)
		if j > 0 && r.Intn(2) == 0 {
			y := inputs[r.Intn(j)]
			a.heldCheck(y)
			a.visit(y, []int{overwrite, plain}[r.Intn(2)])
		}
	}
	for _, x := range inputs {
		a.heldCheck(x)
		a.visit(x, plain)
	}
}

func leadingZeros(r *rand.Rand, a uint32) string {
	t := ""
	for i := 0; i < 4; i++ {
		f := string(octetText(byte(a >> (8 * uint(3-i)))))
		if len(f) < 3 && r.Intn(2) == 0 {
			f = "00"[:1+r.Intn(3-len(f))] + f
		}
		if i > 0 {
			t += "."
		}
		t += f
	}
	return t
}

func canonText(a uint32) string {
	return string(refIpText([]byte{byte(a >> 24), byte(a >> 16), byte(a >> 8), byte(a)}))
}

// aliasInputs: addresses (as bytes, as their own text, as a text with leading zeros: three keys of
// the specification, possibly one entry of a cache), and byte strings short and long
func aliasInputs(c *core.Ctx, gen string, cas int) []call {
	r := c.Rng(gen+"/in", cas)
	var cs []call
	addr := func() uint32 {
		a := r.Uint32()
		if r.Intn(3) == 0 {
			a = a&^0xff | uint32(edgeBytes[r.Intn(5)])
		}
		if r.Intn(4) == 0 {
			a = []uint32{0, 0xffffffff, 0x7f000001, 0x0a141e28, 0x80808080}[r.Intn(5)]
		}
		return a
	}
	for k := 0; k < 3; k++ {
		a := addr()
		cs = append(cs, ipCall(a))
		switch r.Intn(3) {
		case 0:
			cs = append(cs, ipParseCall(canonText(a)))
		case 1:
			cs = append(cs, ipParseCall(leadingZeros(r, a)), ipParseCall(canonText(a)))
		default:
			cs = append(cs, ipParseCall(canonText(addr())))
		}
	}
	for k := 0; k < 3; k++ {
		n := []int{1 + r.Intn(8), 9 + r.Intn(40), 64 + r.Intn(100)}[k]
		b := randContent(r, n)
		cs = append(cs, bytesCall(b, seedFor(r), r.Intn(n+1)))
	}
	r.Shuffle(len(cs), func(i, j int) { cs[i], cs[j] = cs[j], cs[i] })
	return cs
}

// runChurn: n distinct addresses of one family after another (more than a bounded cache would
// hold), every tenth step comes back to an earlier one -- recent, old or the very first ones.
func runChurn(c *core.Ctx, t *core.Trace, gen string, cas int, n int) {
	r := c.Rng(gen, cas)
	t.Reset(gen, cas, nil)
	a := &aliasRun{c: c, t: t, held: map[string]*heldRes{}}
	seen := map[uint32]bool{}
	var order []uint32
	mk := func(v uint32) call {
		if cas%2 == 0 {
			return ipParseCall(canonText(v))
		}
		return ipCall(v)
	}
	base := r.Uint32()
	for len(order) < n {
		// neighbouring addresses (a subnet being scanned) and scattered ones
		v := base + uint32(len(order))
		if r.Intn(3) == 0 {
			v = r.Uint32()
		}
		if seen[v] {
			continue
		}
		seen[v] = true
		order = append(order, v)
		a.visit(mk(v), plain)
		if len(order)%10 == 0 {
			var w uint32
			switch r.Intn(3) {
			case 0:
				w = order[len(order)-1-r.Intn(10)]
			case 1:
				w = order[r.Intn(len(order))]
			default:
				w = order[r.Intn(10)]
			}
			a.visit(mk(w), plain)
		}
	}
}
