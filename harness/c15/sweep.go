package c15

// (S) of DESIGN 3/C15: the input spaces TLC cannot enumerate (all 2^32 IPv4 addresses, 2^32
// stratified 64-bit identifiers, every byte string of length <= 3, all 2^32 arguments of
// MurmurHash(uint32), all 2^32 pairs of 16-bit halves) are swept by comparing the real functions
// with the transliteration of the reference operators in ref.go.  The transliteration is itself
// bound to the specification: a stratified sample of every swept space is emitted as ordinary
// events carrying the transliteration's record in the field `ref`, and Trace_Hashes requires it
// to agree with the spec's.  A sweep never decides anything: each disagreement (the smallest
// indices per space, so the choice is deterministic) is emitted as a one-event history of gen
// "sweepfail" that TLC judges like any other.

import (
	"bytes"
	"fmt"
	"math"
	"runtime"
	"sort"
	"sync"
	"time"

	"github.com/whatap/golib/util/bitutil"
	"github.com/whatap/golib/util/hash"
	"github.com/whatap/golib/util/hexa32"
	"github.com/whatap/golib/util/hll"
	"github.com/whatap/golib/util/iputil"
	"github.com/whatap/golib/util/stringutil"

	"verifharness/core"
)

// a space is n indexed inputs; mk(i) builds the call (real functions + transliteration)
type space struct {
	fam  string
	name string
	n    uint64
	mk   func(i uint64) call
	// fast, when set, is an allocation-light equivalent of agree(mk(i)) for the 2^32 spaces; it only
	// filters (a disagreement is re-evaluated through mk and judged by TLC), and it is cross-checked
	// against agree(mk(i)) on every sampled index
	fast func(i uint64) bool
}

// ---- allocation-light comparisons of the 2^32 spaces ----------------------------------------

func ipFast(a uint32) bool {
	addr := [4]byte{byte(a >> 24), byte(a >> 16), byte(a >> 8), byte(a)}
	var buf [15]byte
	want := buf[:0]
	for i := 0; i < 4; i++ {
		if i > 0 {
			want = append(want, '.')
		}
		want = append(want, octetText(addr[i])...)
	}
	text := iputil.ToString(addr[:])
	if text != string(want) {
		return false
	}
	// the two int32 entry points are one-line wrappers of ToString: every 16th address (and the
	// sampled events, always)
	if a%16 == 5 && (iputil.ToStringInt(int32(a)) != text || iputil.ToStringFrInt(int32(a)) != text) {
		return false
	}
	back := iputil.ToBytes(text)
	n := iputil.ToInt(addr[:])
	fr := iputil.ToBytesFrInt(n)
	p := refIpParse(want)
	ok := bytes.Equal(back, addr[:]) && bytes.Equal(p, addr[:]) && uint32(n) == a && bytes.Equal(fr, addr[:]) &&
		addr == [4]byte{byte(a >> 24), byte(a >> 16), byte(a >> 8), byte(a)}
	scribble(back) // the returned slices are the caller's (as in ipCall)
	scribble(fr)
	return ok
}

func bytesFast(b []byte, seed uint32, plen int) bool {
	str := string(b)
	c, w, n := refCrc32(b), refCrc32Wide64(b), refCrc32Lanes(b)
	return uint32(hash.Hash(b)) == c && uint32(hash.HashStr(str)) == c &&
		uint64(hash.Hash64(b)) == w && uint64(hash.Hash64Str(str)) == w &&
		uint64(hash.Hash64v2(b)) == n && uint64(hash.Hash64V2(b)) == n && uint64(hash.Hash64StrV2(str)) == n && uint64(hash.GetLongHash(str)) == n &&
		hll.MurmurHashByte(b) == refMurmur32(b, defaultSeed) && hll.MurmurHashByteSeed(b, seed) == refMurmur32(b, seed) &&
		hll.MurmurHashLongByte(b, int32(len(b))) == refMurmur64(b, defaultSeed) &&
		hll.MurmurHashLongByte(b, int32(plen)) == refMurmur64(b[:plen], defaultSeed) &&
		uint64(stringutil.HashCode(str)) == refPoly31(b) && string(b) == str
}

func hexaFast(v int64) bool {
	t := refH32Enc(v)
	s := hexa32.ToString32(v)
	return s == string(t) && hexa32.ToLong32(s) == v && refH32Dec(t) == v
}

func bit4Fast(hi, lo uint32, src uint64) bool {
	k := int64(src)
	return uint64(bitutil.Composite64(int32(hi), int32(lo))) == uint64(hi)<<32|uint64(lo) &&
		uint32(bitutil.GetHigh64(k)) == uint32(src>>32) && uint32(bitutil.GetLow64(k)) == uint32(src) &&
		uint64(bitutil.SetHigh64(k, int32(hi))) == uint64(hi)<<32|src&0xffffffff &&
		uint64(bitutil.SetLow64(k, int32(lo))) == src&^0xffffffff|uint64(lo)
}

func bit2Fast(hi, lo uint16, src uint32) bool {
	return uint32(bitutil.Composite32(int16(hi), int16(lo))) == uint32(hi)<<16|uint32(lo) &&
		uint16(bitutil.GetHigh32(int32(src))) == uint16(src>>16) && uint16(bitutil.GetLow32(int32(src))) == uint16(src)
}

func sameOuts(a, b outs) bool {
	if len(a) != len(b) {
		return false
	}
	for k, v := range a {
		w, ok := b[k]
		if !ok || !bytes.Equal(v, w) {
			return false
		}
	}
	return true
}

// agree: the real functions return the transliteration's record (and do not panic)
func agree(cl call) bool {
	o, msg := guarded(cl.eval)
	return msg == "" && sameOuts(o, cl.ref()) && (cl.intact == nil || cl.intact())
}

// strided: n inputs spread over a 2^bits space (index in the high bits, mixed low bits)
func strided(bits uint, n uint64, seed uint64) func(i uint64) uint64 {
	return func(i uint64) uint64 {
		if bits == 64 {
			step := (^uint64(0))/n + 1
			return i*step + mix(i^seed)%step
		}
		step := (uint64(1) << bits) / n
		return i*step + mix(i^seed)%step
	}
}

// the byte strings of length <= 3 in length-lexicographic order
const nStr3 = 1 + 256 + 65536 + 1<<24

func str3(i uint64) []byte {
	switch {
	case i == 0:
		return []byte{}
	case i < 1+256:
		return []byte{byte(i - 1)}
	case i < 1+256+65536:
		j := i - 257
		return []byte{byte(j >> 8), byte(j)}
	}
	j := i - 257 - 65536
	return []byte{byte(j >> 16), byte(j >> 8), byte(j)}
}

func sweepSpaces(thorough bool, seed uint64) []space {
	full32 := uint64(1) << 32
	n := uint64(1) << 24
	if thorough {
		n = full32
	}
	pick32 := func(s uint64) func(i uint64) uint64 { // all of 2^32 or n strided over it
		if thorough {
			return func(i uint64) uint64 { return i }
		}
		return strided(32, n, seed+s)
	}
	ip32, int32s, bit32 := pick32(1), pick32(2), pick32(3)
	uni64 := strided(64, n/2, seed+4)
	long64 := strided(64, n/16, seed+5)
	name32 := "all 2^32"
	if !thorough {
		name32 = "2^24 strided over 2^32"
	}
	rad := int64(1) << 12
	nLen := uint64(1)<<15 + 2
	if thorough {
		rad = 1 << 18
		nLen = 1<<16 + 2
	}
	per := uint64(2*rad + 1)
	hexaMag := func(i uint64) int64 {
		v := int64(mix(i^(seed+6)<<40) >> (i % 64))
		if (i/64)%2 == 1 {
			v = -v
		}
		return v
	}
	hexaNear := func(i uint64) int64 {
		k := i / (2 * per)
		r := i % (2 * per)
		d := int64(r%per) - rad
		var v int64
		if k <= 12 {
			v = int64(1)<<(5*k) + d
		} else { // the neighbourhood of 2^63: MaxInt64 - j / MinInt64 + j
			v = math.MaxInt64 - (d + rad)
		}
		if r >= per {
			v = -v
			if k > 12 {
				v-- // -(Max - j) - 1 = Min + j
			}
		}
		return v
	}
	bitPair := func(i uint64) (uint16, uint16, uint32) {
		p := bit32(i)
		return uint16(p >> 16), uint16(p), uint32(p<<16 | p>>16)
	}
	return []space{
		{"ip", name32 + " IPv4 addresses", n, func(i uint64) call { return ipCall(uint32(ip32(i))) },
			func(i uint64) bool { return ipFast(uint32(ip32(i))) }},
		{"hexa", fmt.Sprintf("%d identifiers strided uniformly over all 2^64 values", n/2), n / 2,
			func(i uint64) call { return hexaCall(int64(uni64(i))) },
			func(i uint64) bool { return hexaFast(int64(uni64(i))) }},
		{"hexa", fmt.Sprintf("%d identifiers of every magnitude (random word shifted right by 0..63 bits, both signs)", n/4), n / 4,
			func(i uint64) call { return hexaCall(hexaMag(i)) },
			func(i uint64) bool { return hexaFast(hexaMag(i)) }},
		{"hexa", fmt.Sprintf("+-(32^k + d), k <= 12, |d| <= %d, and the extremes", rad), 14 * 2 * per,
			func(i uint64) call { return hexaCall(hexaNear(i)) },
			func(i uint64) bool { return hexaFast(hexaNear(i)) }},
		{"bytes", "every byte string of length <= 3", nStr3,
			func(i uint64) call { b := str3(i); return bytesCall(b, uint32(mix(i^seed)), int(i%uint64(len(b)+1))) },
			func(i uint64) bool { b := str3(i); return bytesFast(b, uint32(mix(i^seed)), int(i%uint64(len(b)+1))) }},
		{"bytes", fmt.Sprintf("one byte string of every length 0..%d (content pseudo-random per length and seed)", nLen-1), nLen,
			func(i uint64) call { b := strLen(i, seed); return bytesCall(b, uint32(mix(i^seed)), int(mix(i+seed)%uint64(len(b)+1))) },
			func(i uint64) bool { b := strLen(i, seed); return bytesFast(b, uint32(mix(i^seed)), int(mix(i+seed)%uint64(len(b)+1))) }},
		{"long", fmt.Sprintf("%d 64-bit words strided uniformly over 2^64", n/16), n / 16,
			func(i uint64) call { return longCall(long64(i)) },
			func(i uint64) bool { v := long64(i); return hll.MurmurHashLong(v) == refMurmurLong(v) }},
		{"int", name32 + " arguments of MurmurHash(uint32)", n, func(i uint64) call { return intCall(uint32(int32s(i))) },
			func(i uint64) bool { v := uint32(int32s(i)); return hll.MurmurHash(v) == refMurmurLong(uint64(v)) }},
		{"bit", name32 + " pairs of 16-bit halves (keys: the pair reversed)", n,
			func(i uint64) call { h, l, k := bitPair(i); return bitCall(2, uint32(h), uint32(l), uint64(k)) },
			func(i uint64) bool { return bit2Fast(bitPair(i)) }},
		{"bit", "all 2^16 pairs of 8-bit halves", 1 << 16,
			func(i uint64) call { return bitCall(1, uint32(i>>8), uint32(i&0xff), uint64((i&0xff)<<8|i>>8)) }, nil},
		{"bit", fmt.Sprintf("%d pseudo-random pairs of 32-bit halves and keys", n/16), n / 16,
			func(i uint64) call {
				p := mix(i ^ (seed+7)<<40)
				return bitCall(4, uint32(p>>32), uint32(p), mix(p))
			},
			func(i uint64) bool {
				p := mix(i ^ (seed+7)<<40)
				return bit4Fast(uint32(p>>32), uint32(p), mix(p))
			}},
	}
}

// strLen: the byte string of length n of this run (an implementation may treat long inputs
// differently from short ones -- a block path, a vectorised path, a cache keyed by length --
// at a threshold nobody announced: every length is tried)
func strLen(n, seed uint64) []byte {
	b := make([]byte, n)
	x := mix(n ^ seed<<20)
	for i := range b {
		if i%8 == 0 {
			x = mix(x)
		}
		b[i] = byte(x >> (8 * uint(i%8)))
	}
	return b
}

type mismatch struct {
	space int
	idx   uint64
}

const sweepBlock = 8192

func runSweep(c *core.Ctx, t *core.Trace) {
	spaces := sweepSpaces(c.Thorough(), uint64(c.Seed))
	workers := runtime.NumCPU()
	var fails []mismatch
	var totalM float64
	report := []map[string]interface{}{}
	sweepOn := c.OnlyGen == "" || c.OnlyGen == "sweepfail"
	for si, s := range spaces {
		var bad []uint64
		t0 := time.Now()
		if sweepOn {
			var mu sync.Mutex
			nblk := (s.n + sweepBlock - 1) / sweepBlock
			var next uint64
			var wg sync.WaitGroup
			for w := 0; w < workers; w++ {
				wg.Add(1)
				go func() {
					defer wg.Done()
					for {
						mu.Lock()
						b := next
						next++
						mu.Unlock()
						if b >= nblk {
							return
						}
						lo, hi := b*sweepBlock, (b+1)*sweepBlock
						if hi > s.n {
							hi = s.n
						}
						var r []uint64
						for i := lo; i < hi; i++ {
							ok := false
							if s.fast != nil {
								if core.Guard(func() { ok = s.fast(i) }) != "" {
									ok = false
								}
							} else {
								ok = agree(s.mk(i))
							}
							if !ok {
								r = append(r, i)
							}
						}
						if len(r) > 0 {
							mu.Lock()
							if len(bad) < 1<<16 {
								bad = append(bad, r...)
							}
							mu.Unlock()
						}
					}
				}()
			}
			wg.Wait()
			sort.Slice(bad, func(i, j int) bool { return bad[i] < bad[j] })
			// the smallest two indices of each space: deterministic whatever the goroutine schedule
			// was, unless more than 2^16 inputs disagree (then any will do: the tree is badly broken)
			for i := 0; i < len(bad) && i < 2; i++ {
				fails = append(fails, mismatch{si, bad[i]})
			}
			totalM += float64(s.n) / 1e6
			report = append(report, map[string]interface{}{"family": s.fam, "space": s.name, "inputs_millions": math.Round(float64(s.n)/1e4) / 100, "disagreements": len(bad), "wall_s": math.Round(time.Since(t0).Seconds()*10) / 10})
			c.Count(fmt.Sprintf("sweep:%s:%s", s.fam, s.name), true)
		}
	}
	if sweepOn {
		c.SetExtra("sweep", report)
		c.SetExtra("sweep_inputs_millions", math.Round(totalM*100)/100)
		c.SetExtra("sweep_disagreements", len(fails))
	}

	// the sample that binds the transliteration to the specification: one history per space
	if c.WantGen("sweepref") {
		for si, s := range spaces {
			if !c.Want("sweepref", si) {
				continue
			}
			n := uint64(c.Pick(48, 400))
			sn := s.n
			if s.fam == "bytes" && sn > 640 && sn < nStr3 {
				// the space of one string per length: TLC judges the sample among the lengths up to 640
				// (its evaluation of the operators on strings of tens of kilobytes takes minutes each)
				sn = 640
			}
			if n > sn {
				n = sn
			}
			var cs []call
			for j := uint64(0); j < n; j++ {
				i := (sn / n) * j
				if j%2 == 1 {
					i += mix(j^uint64(c.Seed)) % (sn / n)
				}
				cs = append(cs, s.mk(i))
				if s.fast != nil && s.fast(i) != agree(s.mk(i)) {
					panic(fmt.Sprintf("sweep machinery: fast and full comparison differ on %s index %d", s.name, i))
				}
			}
			cs = append(cs, s.mk(sn-1))
			runHistory(c, t, "sweepref", si, cs, true)
		}
	}
	// disagreements: judged by TLC
	for k, m := range fails {
		if k >= 12 || !c.Want("sweepfail", k) {
			continue
		}
		runHistory(c, t, "sweepfail", k, []call{spaces[m.space].mk(m.idx)}, false)
	}
}
