package c15

// Histories of gen "conc": purity under CONCURRENT USE ON DIFFERENT INPUTS.  runHistory has three
// goroutines walk the same short list; a function that keeps scratch state between or during calls
// (a pooled or package-level buffer, a lazily built table, an unguarded cache) goes wrong only when
// many callers are inside it at the same moment with inputs of their own -- and, for a buffer,
// only if the inputs are long enough for one caller to be descheduled half way through.  Here
// 8 x GOMAXPROCS goroutines evaluate every entry point of every family on a list of inputs (long
// and short byte strings -- several long ones of equal and of different lengths --, identifiers,
// numerals, halves, addresses), each goroutine in an order of its own, for several rounds, while one
// more goroutine forces collections (each stops the world: every running goroutine is descheduled
// wherever it is and resumes on whatever processor is free).  Recorded per input: the record
// returned before the goroutines started (`outs`) and EVERY DISTINCT record any evaluation returned
// during and after the concurrent phase (`rep`, at most 8; `nrep` evaluations in all); TLC
// recomputes `outs` and requires every element of `rep` to equal it.
// How many evaluations overlap depends on the scheduler: load can only lose detection.

import (
	"math/rand"
	"runtime"
	"sync"
	"sync/atomic"
	"time"

	"verifharness/core"
)

const maxDistinct = 8

type seenRec struct {
	recs []outs
	msg  string
	n    int
}

func (s *seenRec) add(o outs, msg string) {
	s.n++
	if msg != "" {
		s.msg = msg
		return
	}
	for _, r := range s.recs {
		if sameOuts(r, o) {
			return
		}
	}
	if len(s.recs) < maxDistinct {
		s.recs = append(s.recs, o)
	}
}

func runConc(c *core.Ctx, t *core.Trace, gen string, cas int, calls []call, rounds int) {
	G := 8 * runtime.GOMAXPROCS(0)
	if G < 32 {
		G = 32
	}
	t.Reset(gen, cas, core.Ev{"goroutines": G, "rounds": rounds})
	n := len(calls)
	first := make([]outs, n)
	msgs := make([]string, n)
	for i := range calls {
		first[i], msgs[i] = guarded(calls[i].eval)
	}
	seen := make([][]seenRec, G)
	var wg sync.WaitGroup
	var done int32
	start := make(chan struct{})
	base := c.Rng(gen, cas).Int63()
	for g := 0; g < G; g++ {
		seen[g] = make([]seenRec, n)
		wg.Add(1)
		go func(g int) {
			defer wg.Done()
			r := rand.New(rand.NewSource(base + int64(g)))
			order := r.Perm(n)
			<-start
			for k := 0; k < rounds; k++ {
				for _, i := range order {
					o, m := guarded(calls[i].eval)
					seen[g][i].add(o, m)
				}
				r.Shuffle(n, func(a, b int) { order[a], order[b] = order[b], order[a] })
			}
		}(g)
	}
	var pre sync.WaitGroup
	pre.Add(1)
	go func() {
		defer pre.Done()
		<-start
		for atomic.LoadInt32(&done) == 0 {
			runtime.GC()
			time.Sleep(300 * time.Microsecond)
		}
	}()
	close(start)
	wg.Wait()
	atomic.StoreInt32(&done, 1)
	pre.Wait()
	for i, cl := range calls {
		all := seenRec{}
		for g := 0; g < G; g++ {
			s := &seen[g][i]
			for _, o := range s.recs {
				all.add(o, "")
			}
			if s.msg != "" {
				all.msg = s.msg
			}
			all.n += s.n - len(s.recs)
		}
		o, m := guarded(cl.eval) // and once more when everything is quiet again
		all.add(o, m)
		ev := core.Ev{"ev": cl.ev, "i": i + 1}
		for k, v := range cl.fields {
			ev[k] = v
		}
		for _, m := range []string{msgs[i], all.msg} {
			if m != "" {
				ev["ev"], ev["fn"], ev["msg"] = "Panic", cl.ev, m
			}
		}
		if cl.intact != nil && !cl.intact() {
			ev["ev"], ev["fn"] = "Mutated", cl.ev
		}
		if first[i] == nil {
			first[i] = outs{}
		}
		ev["outs"] = first[i]
		ev["rep"] = all.recs
		ev["nrep"] = all.n
		t.Emit(ev)
		c.Count(cl.key, cl.nontriv)
	}
}

// concInputs: the long byte strings come in groups of equal length (a reused buffer is shared by
// strings that fit into it) with different contents, then lengths in between and short ones; a few
// inputs of every other family run along.  small: no long strings, many inputs of the other
// families instead (their calls are short: they overlap only if there is nothing long in between).
func concInputs(c *core.Ctx, gen string, cas int, small bool) []call {
	r := c.Rng(gen+"/in", cas)
	var cs []call
	str := func(n int) {
		b := randContent(r, n)
		cs = append(cs, bytesCall(b, seedFor(r), r.Intn(n+1)))
	}
	others := 2
	if small {
		others = 6
		for k := 0; k < 8; k++ {
			str([]int{r.Intn(4), 4 + r.Intn(8), 12 + r.Intn(20), 32 + r.Intn(32)}[k%4])
		}
	} else {
		long := c.Pick(512, 1024) + 8*r.Intn(16) + r.Intn(8)
		for k := 0; k < c.Pick(4, 6); k++ {
			str(long)
		}
		str(long / 2)
		str(long/4 + r.Intn(8))
		for k := 0; k < 4; k++ {
			str([]int{r.Intn(8), 8 + r.Intn(24), 32 + r.Intn(96), 128 + r.Intn(128)}[k])
		}
	}
	for k := 0; k < others; k++ {
		a := r.Uint32()
		cs = append(cs, ipCall(a), ipParseCall(leadingZeros(r, r.Uint32())), hexaCall(int64(rand64(r))),
			hexaDecCall(string(refH32Enc(int64(rand64(r))))), longCall(rand64(r)), intCall(r.Uint32()),
			bitCall([]int{1, 2, 4}[r.Intn(3)], r.Uint32(), r.Uint32(), r.Uint64()))
		if k%2 == 0 {
			cs = append(cs, ipParseCall(canonText(a)))
		}
	}
	r.Shuffle(len(cs), func(i, j int) { cs[i], cs[j] = cs[j], cs[i] })
	return cs
}
