// Package core is the shared plumbing of the conformance harness: the ndjson
// trace writer, the projection helpers that turn Go values into the byte-tuple
// representation the TLA+ specifications use (standard library only, never
// golib), per-case deterministic random sources, and the driver registry.
package core

import (
	"bufio"
	"encoding/binary"
	"encoding/json"
	"fmt"
	"hash/fnv"
	"math"
	"math/rand"
	"os"
	"path/filepath"
	"sort"
	"strconv"
	"sync"
)

// Bytes marshals as a JSON array of numbers (a TLA+ tuple of 0..255).
type Bytes []byte

func (b Bytes) MarshalJSON() ([]byte, error) {
	out := make([]byte, 0, len(b)*4+2)
	out = append(out, '[')
	for i, x := range b {
		if i > 0 {
			out = append(out, ',')
		}
		out = strconv.AppendInt(out, int64(x), 10)
	}
	out = append(out, ']')
	return out, nil
}

// W8 is the canonical 8-byte big-endian two's complement form of v.
func W8(v int64) Bytes {
	b := make([]byte, 8)
	binary.BigEndian.PutUint64(b, uint64(v))
	return b
}

// U8 is the 8-byte form of an unsigned 64-bit value.
func U8(v uint64) Bytes {
	b := make([]byte, 8)
	binary.BigEndian.PutUint64(b, v)
	return b
}

// W4 is the 4-byte big-endian form of v.
func W4(v uint32) Bytes {
	b := make([]byte, 4)
	binary.BigEndian.PutUint32(b, v)
	return b
}

func F32(f float32) Bytes { return W4(math.Float32bits(f)) }
func F64(f float64) Bytes { return U8(math.Float64bits(f)) }
func Str(s string) Bytes  { return Bytes([]byte(s)) }
func Cp(b []byte) Bytes   { c := make([]byte, len(b)); copy(c, b); return c }

// Ev is one trace event.
type Ev map[string]interface{}

// Trace writes one ndjson file.
type Trace struct {
	Name      string
	Spec      string
	path      string
	f         *os.File
	w         *bufio.Writer
	mu        sync.Mutex
	Events    int
	Histories int
	seed      int64
	tier      string
}

func (t *Trace) Emit(ev Ev) {
	b, err := json.Marshal(ev)
	if err != nil {
		panic(err)
	}
	t.mu.Lock()
	defer t.mu.Unlock()
	if ev["ev"] == "Reset" {
		t.Histories++
	}
	t.Events++
	t.w.Write(b)
	t.w.WriteByte('\n')
}

// Reset starts a new history; gen/case identify it for replay.
func (t *Trace) Reset(gen string, cas int, extra Ev) {
	ev := Ev{"ev": "Reset", "gen": gen, "case": cas, "seed": t.seed, "tier": t.tier}
	for k, v := range extra {
		ev[k] = v
	}
	t.Emit(ev)
}

func (t *Trace) Close() { t.w.Flush(); t.f.Close() }

// Ctx is what a driver gets.
type Ctx struct {
	Tier   string
	Seed   int64
	OutDir string
	// OnlyGen/OnlyCase restrict the run to one history (replay); OnlyCase < 0 = all.
	OnlyGen  string
	OnlyCase int
	Args     map[string]string

	mu       sync.Mutex
	traces   []*Trace
	evals    int
	distinct map[uint64]struct{}
	samples  []interface{}
	Rule     string
	Extra    map[string]interface{}
}

func (c *Ctx) Thorough() bool { return c.Tier == "thorough" }

// Pick returns q in the quick tier and t in the thorough tier.
func (c *Ctx) Pick(q, t int) int {
	if c.Thorough() {
		return t
	}
	return q
}

// Want reports whether history (gen, cas) is to be generated in this run.
func (c *Ctx) Want(gen string, cas int) bool {
	if c.OnlyGen == "" {
		return true
	}
	return c.OnlyGen == gen && (c.OnlyCase < 0 || c.OnlyCase == cas)
}

// WantGen reports whether any history of gen is to be generated.
func (c *Ctx) WantGen(gen string) bool { return c.OnlyGen == "" || c.OnlyGen == gen }

// Rng is the deterministic source of history (gen, cas) under the run's seed.
func (c *Ctx) Rng(gen string, cas int) *rand.Rand {
	h := fnv.New64a()
	fmt.Fprintf(h, "%d|%s|%d", c.Seed, gen, cas)
	return rand.New(rand.NewSource(int64(h.Sum64())))
}

// Trace opens trace file <name>.ndjson judged by TLA+ module spec.
func (c *Ctx) Trace(name, spec string) *Trace {
	p := filepath.Join(c.OutDir, name+".ndjson")
	f, err := os.Create(p)
	if err != nil {
		panic(err)
	}
	t := &Trace{Name: name, Spec: spec, path: p, f: f, w: bufio.NewWriterSize(f, 1<<20), seed: c.Seed, tier: c.Tier}
	c.mu.Lock()
	c.traces = append(c.traces, t)
	c.mu.Unlock()
	return t
}

// Count records one evaluated case; key identifies it for the distinct count;
// nontrivial says whether it counts under the driver's stated rule.
func (c *Ctx) Count(key string, nontrivial bool) {
	c.mu.Lock()
	defer c.mu.Unlock()
	c.evals++
	if nontrivial {
		h := fnv.New64a()
		h.Write([]byte(key))
		c.distinct[h.Sum64()] = struct{}{}
	}
}

// Sample keeps up to 6 written-out cases for the evidence file.
func (c *Ctx) Sample(s interface{}) {
	c.mu.Lock()
	defer c.mu.Unlock()
	if len(c.samples) < 6 {
		c.samples = append(c.samples, s)
	}
}

func (c *Ctx) SetExtra(k string, v interface{}) {
	c.mu.Lock()
	defer c.mu.Unlock()
	c.Extra[k] = v
}

func (c *Ctx) Finish() error {
	type job struct {
		Trace     string `json:"trace"`
		Spec      string `json:"spec"`
		Events    int    `json:"events"`
		Histories int    `json:"histories"`
	}
	var jobs []job
	for _, t := range c.traces {
		t.Close()
		jobs = append(jobs, job{t.Name + ".ndjson", t.Spec, t.Events, t.Histories})
	}
	meta := map[string]interface{}{
		"jobs":                jobs,
		"evaluations":         c.evals,
		"distinct_nontrivial": len(c.distinct),
		"rule":                c.Rule,
		"samples":             c.samples,
		"extra":               c.Extra,
	}
	b, _ := json.MarshalIndent(meta, "", " ")
	return os.WriteFile(filepath.Join(c.OutDir, "meta.json"), b, 0o644)
}

type Driver func(c *Ctx) error

var drivers = map[string]Driver{}

func Register(id string, d Driver) { drivers[id] = d }

func Lookup(id string) Driver { return drivers[id] }

func IDs() []string {
	var s []string
	for k := range drivers {
		s = append(s, k)
	}
	sort.Strings(s)
	return s
}

func NewCtx(tier string, seed int64, out string) *Ctx {
	return &Ctx{Tier: tier, Seed: seed, OutDir: out, OnlyCase: -1, Args: map[string]string{},
		distinct: map[uint64]struct{}{}, Extra: map[string]interface{}{}}
}

// Guard runs f and reports a recovered panic as a string ("" = returned normally).
func Guard(f func()) (msg string) {
	defer func() {
		if r := recover(); r != nil {
			msg = fmt.Sprint(r)
			if msg == "" {
				msg = "panic"
			}
		}
	}()
	f()
	return ""
}
