// Package c11 drives the real request queues of golib util/queue
// (RequestQueue, RequestDoubleQueue) and records every call with its
// arguments, result and callback arguments for Trace_ReqQueue.tla to judge.
//
//	self    one fixed sequential history (binding self-test)
//	seq     random single-goroutine histories over the whole API
//	conc    P producers x C consumers on one queue, invocation/response events
//	strand  consumers parked in Get BEFORE the producer runs; a Get that does
//	        not come back is a watchdog "Timeout" event the spec cannot explain
//	held    callback-held schedules: a Failed/Overflowed callback (which the
//	        queue runs inside its critical section) blocks until the other
//	        goroutines of the schedule have been invoked and have returned, or a
//	        bounded wait is over: every (operation holding the lock in a
//	        callback) x (every other operation) overlaps deterministically
//
// The harness only records.  Elements are [producer, seq] pairs; the VALUE put
// into the queue is an elem struct, a pointer to one, or a "nothing-like" value
// (nil interface, typed nil pointer, empty struct, zero int, "", nil slice,
// false) logged as [producer, seq, tag]; what comes out is logged as the value
// seen ([producer, seq], [tag], [] for nil).  The order of
// the Inv/Ret events is the order of appends to one mutex-protected log (an
// atomic stamp taken before the call and after the return), never wall-clock
// order across goroutines.
package c11

import (
	"fmt"
	"math/rand"
	"reflect"
	"runtime"
	"strings"
	"sync"
	"sync/atomic"
	"time"
	"unsafe"

	"github.com/whatap/golib/util/dateutil"
	"github.com/whatap/golib/util/queue"

	"verifharness/core"
)

func init() { core.Register("c11", Run) }

// a call that has not returned after this long is reported as "Timeout"
const watchdog = 10 * time.Second

type elem struct{ P, S int }

// kinds of value an element is put as (call.V).  vPlain and vPtr carry the
// element's identity; the others are "nothing-like" values the API accepts as
// interface{} like any other: tag = kind - vNil (0 = the nil interface value).
const (
	vPlain = iota
	vPtr
	vNil
	vNilPtr
	vEmptyStruct
	vZeroInt
	vEmptyStr
	vNilSlice
	vFalse
	nKinds
)

func value(e elem, kind int) interface{} {
	switch kind {
	case vPtr:
		return &elem{e.P, e.S}
	case vNil:
		return nil
	case vNilPtr:
		return (*elem)(nil)
	case vEmptyStruct:
		return struct{}{}
	case vZeroInt:
		return 0
	case vEmptyStr:
		return ""
	case vNilSlice:
		return []int(nil)
	case vFalse:
		return false
	}
	return e
}

// identity as the specification knows the element: [p, s] or [p, s, tag]
func ident(e elem, kind int) []int {
	if kind >= vNil {
		return []int{e.P, e.S, kind - vNil}
	}
	return []int{e.P, e.S}
}

// the value as seen by whoever receives it from the queue
func proj(v interface{}) []int {
	switch x := v.(type) {
	case nil:
		return []int{}
	case elem:
		return []int{x.P, x.S}
	case *elem:
		if x == nil {
			return []int{vNilPtr - vNil}
		}
		return []int{x.P, x.S}
	case struct{}:
		return []int{vEmptyStruct - vNil}
	case int:
		if x == 0 {
			return []int{vZeroInt - vNil}
		}
	case string:
		if x == "" {
			return []int{vEmptyStr - vNil}
		}
	case []int:
		if x == nil {
			return []int{vNilSlice - vNil}
		}
	case bool:
		if !x {
			return []int{vFalse - vNil}
		}
	}
	return []int{-1, -1} // something that was never put
}

func identOf(v interface{}) (elem, bool) {
	switch x := v.(type) {
	case elem:
		return x, true
	case *elem:
		if x != nil {
			return *x, true
		}
	}
	return elem{}, false
}

// ---------------------------------------------------------------- callbacks

type cbLog struct {
	mu       sync.Mutex
	failed   []interface{} // [lane, value] in callback order
	overflow []interface{}
	fset     map[elem]bool
	hold     *holdCtl      // armed: one callback invocation blocks (gen "held")
	slow     time.Duration // every callback lingers this long under the queue's lock (gen "conc")
}

// holdCtl makes the at-th invocation (counted from arming) of the failure
// (over=false) or overflow (over=true) callback of lane k block until release
// is closed.  The callback runs inside the queue's critical section, so the
// queue's lock is held for that long.
type holdCtl struct {
	over     bool
	k, at    int
	seen     int
	entered  chan struct{}
	release  chan struct{}
	maxBlock time.Duration
}

func (c *cbLog) gate(over bool, k int) {
	c.mu.Lock()
	h, slow := c.hold, c.slow
	hit := false
	if h != nil && h.over == over && h.k == k {
		h.seen++
		hit = h.seen == h.at
	}
	c.mu.Unlock()
	if hit {
		close(h.entered)
		select {
		case <-h.release:
		case <-time.After(h.maxBlock): // never hold the queue for ever, whatever the orchestrator does
		}
	} else if slow > 0 {
		time.Sleep(slow)
	}
}

// a queue that keeps calling a callback (an eviction loop that never makes
// room) must not exhaust memory before the watchdog reports the call as
// Timeout: beyond this many recorded calls the callback parks for good.
const cbLimit = 1 << 16

func (c *cbLog) runaway() {
	if len(c.failed)+len(c.overflow) > cbLimit {
		c.mu.Unlock()
		select {}
	}
}

func (c *cbLog) fail(k int) func(interface{}) {
	return func(v interface{}) {
		c.mu.Lock()
		c.runaway()
		c.failed = append(c.failed, []interface{}{k, proj(v)})
		if e, ok := identOf(v); ok {
			c.fset[e] = true
		}
		c.mu.Unlock()
		c.gate(false, k)
	}
}
func (c *cbLog) over(k int) func(interface{}) {
	return func(v interface{}) {
		c.mu.Lock()
		c.runaway()
		c.overflow = append(c.overflow, []interface{}{k, proj(v)})
		c.mu.Unlock()
		c.gate(true, k)
	}
}
func (c *cbLog) lens() (int, int) {
	c.mu.Lock()
	defer c.mu.Unlock()
	return len(c.failed), len(c.overflow)
}

// elements handed to callbacks since (f0, o0): failed ones then evicted ones
// (one call feeds only one of the two)
func (c *cbLog) since(f0, o0 int) [][]int {
	c.mu.Lock()
	defer c.mu.Unlock()
	out := [][]int{}
	for _, x := range c.failed[f0:] {
		out = append(out, x.([]interface{})[1].([]int))
	}
	for _, x := range c.overflow[o0:] {
		out = append(out, x.([]interface{})[1].([]int))
	}
	return out
}
func (c *cbLog) wasFailed(e elem) bool {
	c.mu.Lock()
	defer c.mu.Unlock()
	return c.fset[e]
}
func (c *cbLog) snapshot() (f, o []interface{}) {
	c.mu.Lock()
	defer c.mu.Unlock()
	f = append([]interface{}{}, c.failed...)
	o = append([]interface{}{}, c.overflow...)
	return
}

// ---------------------------------------------------------------- the two real queues behind one face

type realQ interface {
	Put(k int, v interface{}) bool
	PutForce(k int, v interface{}) bool
	Get() interface{}
	GetNoWait() interface{}
	GetTimeout(t int) interface{}
	Clear()
	SetCap(c1, c2 int)
	Sizes() []int
	SizeOf(k int) int    // one locked size read: k=0 Size(), 1 Size1(), 2 Size2()
	Parked() (int, bool) // goroutines inside Cond.Wait right now (ok=false: not observable)
}

type single struct {
	q    *queue.RequestQueue
	cond *sync.Cond
}

func (s *single) Put(k int, v interface{}) bool      { return s.q.Put(v) }
func (s *single) PutForce(k int, v interface{}) bool { return s.q.PutForce(v) }
func (s *single) Get() interface{}                   { return s.q.Get() }
func (s *single) GetNoWait() interface{}             { return s.q.GetNoWait() }
func (s *single) GetTimeout(t int) interface{}       { return s.q.GetTimeout(t) }
func (s *single) Clear()                             { s.q.Clear() }
func (s *single) SetCap(c1, c2 int)                  { s.q.SetCapacity(c1) }
func (s *single) Sizes() []int                       { return []int{s.q.Size(), 0} }
func (s *single) Parked() (int, bool)                { return condWaiters(s.cond) }
func (s *single) SizeOf(k int) int {
	if k == 2 {
		return 0
	}
	return s.q.Size()
}

type double struct {
	q    *queue.RequestDoubleQueue
	cond *sync.Cond
}

func (d *double) Put(k int, v interface{}) bool {
	if k == 2 {
		return d.q.Put2(v)
	}
	return d.q.Put1(v)
}
func (d *double) PutForce(k int, v interface{}) bool {
	if k == 2 {
		return d.q.PutForce2(v)
	}
	return d.q.PutForce1(v)
}
func (d *double) Get() interface{}             { return d.q.Get() }
func (d *double) GetNoWait() interface{}       { return d.q.GetNoWait() }
func (d *double) GetTimeout(t int) interface{} { return d.q.GetTimeout(t) }
func (d *double) Clear()                       { d.q.Clear() }
func (d *double) SetCap(c1, c2 int)            { d.q.SetCapacity(c1, c2) }
func (d *double) Sizes() []int                 { return []int{d.q.Size1(), d.q.Size2()} }
func (d *double) Parked() (int, bool)          { return condWaiters(d.cond) }
func (d *double) SizeOf(k int) int {
	switch k {
	case 1:
		return d.q.Size1()
	case 2:
		return d.q.Size2()
	}
	return d.q.Size()
}

// field of a struct by name, writable although unexported (the double queue has
// callback fields but no way to install them; the condition variable of both
// queues is private)
func field(obj interface{}, name string) (reflect.Value, bool) {
	f := reflect.ValueOf(obj).Elem().FieldByName(name)
	if !f.IsValid() || !f.CanAddr() {
		return f, false
	}
	return reflect.NewAt(f.Type(), unsafe.Pointer(f.UnsafeAddr())).Elem(), true
}

func condOf(obj interface{}) *sync.Cond {
	f, ok := field(obj, "lock")
	if !ok {
		return nil
	}
	c, _ := f.Interface().(*sync.Cond)
	return c
}

// number of goroutines currently inside c.Wait(): sync.Cond's notify list keeps
// the next ticket to hand out (wait) and the next ticket to wake (notify); a
// waiter takes its ticket BEFORE it releases the lock, so once it is counted
// here every later Broadcast/Signal concerns it.
func condWaiters(c *sync.Cond) (n int, ok bool) {
	if c == nil {
		return 0, false
	}
	defer func() {
		if recover() != nil {
			n, ok = 0, false
		}
	}()
	nl := reflect.ValueOf(c).Elem().FieldByName("notify")
	if !nl.IsValid() {
		return 0, false
	}
	w, nt := nl.FieldByName("wait"), nl.FieldByName("notify")
	if !w.IsValid() || !nt.IsValid() || w.Type().Size() != 4 || nt.Type().Size() != 4 {
		return 0, false
	}
	a := atomic.LoadUint32((*uint32)(unsafe.Pointer(w.UnsafeAddr())))
	b := atomic.LoadUint32((*uint32)(unsafe.Pointer(nt.UnsafeAddr())))
	return int(a - b), true
}

type setup struct {
	Double bool
	Cap    [2]int
	CB     bool
}

func (s setup) String() string {
	k := "single"
	if s.Double {
		k = "double"
	}
	return fmt.Sprintf("%s/cap=%d,%d/cb=%v", k, s.Cap[0], s.Cap[1], s.CB)
}

func build(s setup) (realQ, *cbLog, error) {
	cb := &cbLog{fset: map[elem]bool{}}
	if !s.Double {
		q := queue.NewRequestQueue(s.Cap[0])
		if s.CB {
			q.Failed = cb.fail(1)
			q.Overflowed = cb.over(1)
		}
		return &single{q, condOf(q)}, cb, nil
	}
	q := queue.NewRequestDoubleQueue(s.Cap[0], s.Cap[1])
	if s.CB {
		for name, fn := range map[string]func(interface{}){"failed1": cb.fail(1), "overflowed1": cb.over(1), "failed2": cb.fail(2), "overflowed2": cb.over(2)} {
			f, ok := field(q, name)
			if !ok || f.Kind() != reflect.Func {
				return nil, nil, fmt.Errorf("RequestDoubleQueue has no callback field %s", name)
			}
			f.Set(reflect.ValueOf(fn))
		}
	}
	return &double{q, condOf(q)}, cb, nil
}

// ---------------------------------------------------------------- one history

type call struct {
	O    string
	K    int
	E    elem
	V    int // kind of value E is put as (vPlain ...)
	T    int
	C    [2]int
	Wait int           // microseconds to idle before the call (concurrent plans); -1 = Gosched
	Sig  chan struct{} // closed once the invocation is logged (held schedules)
}

type hist struct {
	t   *core.Trace
	q   realQ
	cb  *cbLog
	set setup

	mu       sync.Mutex
	evs      []core.Ev
	progress int64 // consumer calls completed
	timeouts int
	panics   int
	gotElem  bool
	accepted bool
}

// calls reported as Timeout so far in this process: each may have left a
// goroutine spinning inside the queue, so after a few of them no further
// history is generated (the run is failing anyway; every rejection is
// re-generated on its own for confirmation)
var stuckCalls int64

const stuckLimit = 3

func tooManyStuck() bool { return atomic.LoadInt64(&stuckCalls) >= stuckLimit }

func (h *hist) log(ev core.Ev) {
	if ev["ev"] == "Timeout" {
		atomic.AddInt64(&stuckCalls, 1)
	}
	h.mu.Lock()
	h.evs = append(h.evs, ev)
	h.mu.Unlock()
}

func (h *hist) flush() {
	for _, e := range h.evs {
		h.t.Emit(e)
	}
	h.evs = nil
}

func (c call) args(p int, ev string) core.Ev {
	e := core.Ev{"ev": ev, "p": p, "o": c.O}
	switch c.O {
	case "Put", "PutForce":
		e["k"], e["e"] = c.K, ident(c.E, c.V)
	case "Size":
		e["k"] = c.K
	case "GetTimeout":
		e["T"] = c.T
	case "SetCap":
		e["c"] = []int{c.C[0], c.C[1]}
	}
	return e
}

type result struct {
	ok  bool
	out []int
	el  int64
	n   int
}

func (h *hist) exec(c call) (r result) {
	switch c.O {
	case "Put":
		r.ok = h.q.Put(c.K, value(c.E, c.V))
	case "PutForce":
		r.ok = h.q.PutForce(c.K, value(c.E, c.V))
	case "Size":
		r.n = h.q.SizeOf(c.K)
	case "Get":
		r.out = proj(h.q.Get())
	case "GetNoWait":
		r.out = proj(h.q.GetNoWait())
	case "GetTimeout":
		// the same millisecond wall clock the queue reads (dateutil.SystemNow =
		// time.Now().UnixMilli()), before the call and after the return
		start := time.Now().UnixMilli()
		r.out = proj(h.q.GetTimeout(c.T))
		r.el = time.Now().UnixMilli() - start
		if r.el > 1000000000 {
			r.el = 1000000000
		}
	case "Clear":
		h.q.Clear()
	case "SetCap":
		h.q.SetCap(c.C[0], c.C[1])
	}
	return
}

func (h *hist) fill(e core.Ev, c call, r result) {
	switch c.O {
	case "Put", "PutForce":
		e["ok"] = r.ok
		if r.ok {
			h.accepted = true
		}
	case "Size":
		e["n"] = r.n
	case "Get", "GetNoWait", "GetTimeout":
		e["out"] = r.out
		if len(r.out) > 0 {
			h.gotElem = true
		}
		if c.O == "GetTimeout" {
			e["el"] = r.el
		}
	}
}

// seqCall: a call made while nothing else runs -> one "Call" event with the
// callback arguments of exactly this call and the sizes after it.  A blocking
// Get runs under the watchdog.
//
// A timed get is a polling loop, not one critical section (a nil-valued element
// it draws looks like "nothing yet" to it): it is logged as Inv + Ret, the Ret
// carrying the sizes.
func (h *hist) seqCall(c call) bool {
	e := c.args(0, "Call")
	if c.O == "GetTimeout" {
		h.log(c.args(0, "Inv"))
		e = core.Ev{"ev": "Ret", "p": 0, "o": c.O, "T": c.T}
	}
	f0, o0 := h.cb.lens()
	var r result
	done := make(chan string, 1)
	go func() { done <- core.Guard(func() { r = h.exec(c) }) }()
	select {
	case msg := <-done:
		if msg != "" {
			h.panics++
			h.log(core.Ev{"ev": "Panic", "p": 0, "o": c.O, "msg": msg})
			return false
		}
	case <-time.After(watchdog):
		h.timeouts++
		h.log(core.Ev{"ev": "Timeout", "p": 0, "o": c.O})
		return false
	}
	h.fill(e, c, r)
	if c.O == "Put" || c.O == "PutForce" {
		e["cb"] = h.cb.since(f0, o0)
	}
	e["size"] = h.q.Sizes()
	h.log(e)
	return true
}

// conCall: a call that may overlap others -> "Inv" before, "Ret" after
func (h *hist) conCall(p int, c call, consumer bool) bool {
	if c.Wait > 0 {
		time.Sleep(time.Duration(c.Wait) * time.Microsecond)
	} else if c.Wait < 0 {
		runtime.Gosched()
	}
	h.log(c.args(p, "Inv"))
	if c.Sig != nil {
		close(c.Sig)
	}
	var r result
	msg := core.Guard(func() { r = h.exec(c) })
	if msg != "" {
		h.mu.Lock()
		h.panics++
		h.mu.Unlock()
		h.log(core.Ev{"ev": "Panic", "p": p, "o": c.O, "msg": msg})
		return false
	}
	e := core.Ev{"ev": "Ret", "p": p, "o": c.O}
	if c.O == "GetTimeout" {
		e["T"] = c.T
	}
	h.mu.Lock()
	h.fill(e, c, r)
	h.mu.Unlock()
	if c.O == "Put" && c.V < vNil {
		// the failure callback receives the very element of this call (a
		// nothing-like value has no identity to attribute: the complete
		// callback logs are compared at the end of the history)
		if h.cb.wasFailed(c.E) {
			e["cb"] = [][]int{{c.E.P, c.E.S}}
		} else {
			e["cb"] = [][]int{}
		}
	}
	h.log(e)
	if consumer {
		atomic.AddInt64(&h.progress, 1)
	}
	return true
}

func (h *hist) size() { h.log(core.Ev{"ev": "Size", "size": h.q.Sizes()}) }

// closing observations of a quiescent queue: callback logs, sizes, and the
// complete remaining content in order (drained with GetNoWait)
func (h *hist) finish() {
	if h.timeouts > 0 || h.panics > 0 {
		return
	}
	if h.set.CB {
		f, o := h.cb.snapshot()
		h.log(core.Ev{"ev": "Logs", "failed": f, "overflow": o})
	}
	h.size()
	h.drain()
}

// drain empties the queue with GetNoWait calls until it reports size 0 (a nil
// answer alone does not mean empty: a nil-valued element answers nil too), plus
// one call on the empty queue
func (h *hist) drain() {
	for i := 0; i < 10000; i++ {
		sz := h.q.Sizes()
		if !h.seqCall(call{O: "GetNoWait"}) {
			return
		}
		if sz[0]+sz[1] <= 0 {
			return
		}
	}
}

func start(t *core.Trace, gen string, cas int, s setup, extra core.Ev) (*hist, error) {
	q, cb, err := build(s)
	if err != nil {
		return nil, err
	}
	h := &hist{t: t, q: q, cb: cb, set: s}
	// the server-time correction of golib's clock (dateutil.Now = SystemNow + delta) has no bearing on how
	// long a timed get lasts: every history runs under one of four corrections (histories run one at a time)
	d := clockDeltas[cas%len(clockDeltas)]
	dateutil.SetDelta(d)
	hd := core.Ev{"cap": []int{s.Cap[0], s.Cap[1]}, "cb": s.CB, "double": s.Double, "clockdelta_s": int(d / 1000)}
	for k, v := range extra {
		hd[k] = v
	}
	t.Reset(gen, cas, hd)
	return h, nil
}

var clockDeltas = []int64{0, 5000, -5000, 86400000}

// waitParked waits until n goroutines sit in Cond.Wait (bounded; if the
// condition variable is not observable it just gives them time to get there)
func (h *hist) waitParked(n int) {
	if _, ok := h.q.Parked(); !ok {
		time.Sleep(30 * time.Millisecond)
		return
	}
	dl := time.Now().Add(2 * time.Second)
	for time.Now().Before(dl) {
		if k, _ := h.q.Parked(); k >= n {
			return
		}
		time.Sleep(20 * time.Microsecond)
	}
}

// ---------------------------------------------------------------- generators

type seqGen struct {
	next    map[int]int
	nothing int // percentage of elements put as a nothing-like value (half of them the nil interface)
}

// kind of value the next element is put as
func (g *seqGen) kind(r *rand.Rand) int {
	if g.nothing > 0 && r.Intn(100) < g.nothing {
		if r.Intn(2) == 0 {
			return vNil
		}
		return vNilPtr + r.Intn(nKinds-vNilPtr)
	}
	if r.Intn(4) == 0 {
		return vPtr
	}
	return vPlain
}

func (g *seqGen) elem(p int) elem {
	g.next[p]++
	return elem{p, g.next[p]}
}

var capPool = []int{-3, -1, 0, 0, 1, 1, 2, 2, 3, 5, 8}
var boundedPool = []int{1, 1, 2, 2, 3, 4}
var tPool = []int{0, 1, 2, 3, 5, 8, 12}

func lane(r *rand.Rand, double bool) int {
	if double && r.Intn(2) == 0 {
		return 2
	}
	return 1
}

var seqProfiles = []string{"mixed", "full", "capchange", "unbounded", "nocb", "drain", "nothing"}

// share of nothing-like values in the histories of the other profiles
var nothingRates = []int{0, 15, 0, 35}

func runSeq(c *core.Ctx, t *core.Trace, cas int) error {
	r := c.Rng("seq", cas)
	prof := seqProfiles[cas%len(seqProfiles)]
	s := setup{Double: (cas/len(seqProfiles))%2 == 1, CB: prof != "nocb"}
	pick := func(pool []int) int { return pool[r.Intn(len(pool))] }
	switch prof {
	case "unbounded":
		s.Cap = [2]int{pick([]int{0, -1, -7}), pick([]int{0, -2})}
	case "capchange":
		s.Cap = [2]int{pick(capPool), pick(capPool)}
	default:
		s.Cap = [2]int{pick(boundedPool), pick(boundedPool)}
	}
	g := &seqGen{next: map[int]int{}, nothing: nothingRates[(cas/(2*len(seqProfiles)))%len(nothingRates)]}
	if prof == "nothing" {
		g.nothing = 50
	}
	h, err := start(t, "seq", cas, s, core.Ev{"profile": prof, "nothing_pct": g.nothing})
	if err != nil {
		return err
	}
	nops := 25 + r.Intn(c.Pick(60, 120))
	emptyTimed := 0
	sig := []string{}
	// weights: Put PutForce GetNoWait Get GetTimeout Clear SetCap
	w := map[string][]int{
		"mixed":     {25, 20, 15, 15, 12, 3, 4},
		"full":      {38, 32, 8, 8, 6, 2, 2},
		"capchange": {25, 22, 10, 10, 8, 3, 20},
		"unbounded": {35, 25, 12, 14, 8, 2, 2},
		"nocb":      {32, 28, 12, 12, 8, 3, 5},
		"drain":     {18, 14, 25, 22, 14, 3, 4},
		"nothing":   {26, 16, 22, 10, 18, 3, 5},
	}[prof]
	tot := 0
	for _, x := range w {
		tot += x
	}
	names := []string{"Put", "PutForce", "GetNoWait", "Get", "GetTimeout", "Clear", "SetCap"}
	for i := 0; i < nops; i++ {
		x := r.Intn(tot)
		o := ""
		for j, wj := range w {
			if x < wj {
				o = names[j]
				break
			}
			x -= wj
		}
		cl := call{O: o}
		sz := h.q.Sizes()
		switch o {
		case "Put", "PutForce":
			cl.K = lane(r, s.Double)
			cl.E = g.elem(1 + r.Intn(3))
			cl.V = g.kind(r)
		case "Get":
			if sz[0]+sz[1] <= 0 { // would block for ever in a single goroutine
				cl.O = "GetNoWait"
			}
		case "GetTimeout":
			cl.T = pick(tPool)
			if sz[0]+sz[1] <= 0 {
				if emptyTimed >= 3 {
					cl.T = r.Intn(2)
				}
				emptyTimed++
			}
		case "SetCap":
			if prof == "capchange" || prof == "unbounded" {
				cl.C = [2]int{pick(capPool), pick(capPool)}
			} else {
				cl.C = [2]int{pick(boundedPool), pick(boundedPool)}
			}
		}
		if len(sig) < 12 {
			sig = append(sig, fmt.Sprintf("%s%d", cl.O, cl.K))
		}
		if !h.seqCall(cl) {
			break
		}
	}
	h.finish()
	h.flush()
	c.Count(fmt.Sprintf("seq|%s|%s", s, strings.Join(sig, ",")), h.accepted && h.gotElem)
	if cas < 2 {
		c.Sample(map[string]interface{}{"gen": "seq", "case": cas, "setup": s.String(), "profile": prof, "first_calls": sig})
	}
	return nil
}

// fillUntil keeps the consumers supplied: while some consumer goroutine has not
// finished and nothing completed for a little while, process 0 puts one more
// filler element (forced, so it always enters; the pause doubles each time).
// No progress for `watchdog` although fillers keep coming => every consumer
// still inside a call becomes a "Timeout" event.
func (h *hist) fillUntil(g *seqGen, r *rand.Rand, done chan int, inflight []int32, nCons int) {
	finished := 0
	pause := 2 * time.Millisecond
	last := time.Now()
	lastProg := atomic.LoadInt64(&h.progress)
	for finished < nCons {
		select {
		case <-done:
			finished++
			last = time.Now()
			continue
		case <-time.After(pause):
		}
		if p := atomic.LoadInt64(&h.progress); p != lastProg {
			lastProg, last = p, time.Now()
			pause = 2 * time.Millisecond
			continue
		}
		if time.Since(last) > watchdog {
			for i := range inflight {
				if atomic.LoadInt32(&inflight[i]) != 0 {
					h.timeouts++
					h.log(core.Ev{"ev": "Timeout", "p": i})
				}
			}
			if h.timeouts == 0 {
				h.timeouts++
				h.log(core.Ev{"ev": "Timeout", "p": -1})
			}
			return
		}
		h.conCall(0, call{O: "PutForce", K: lane(r, h.set.Double), E: g.elem(0)}, false)
		if pause < 200*time.Millisecond {
			pause *= 2
		}
	}
}

func runConc(c *core.Ctx, t *core.Trace, cas int) (int, error) {
	r := c.Rng("conc", cas)
	s := setup{Double: r.Intn(2) == 1, CB: r.Intn(8) != 0}
	capChoice := []int{0, 1, 1, 2, 2, 3}
	s.Cap = [2]int{capChoice[r.Intn(len(capChoice))], capChoice[r.Intn(len(capChoice))]}
	nP, nC := 1+r.Intn(3), 1+r.Intn(3)
	consFirst := r.Intn(3) == 0
	delay := func() int {
		switch r.Intn(6) {
		case 0:
			return -1
		case 1:
			return 20 + r.Intn(400)
		}
		return 0
	}
	plans := make([][]call, 1+nP+nC)
	g := &seqGen{next: map[int]int{}, nothing: []int{0, 0, 25}[r.Intn(3)]}
	// callbacks that linger inside the queue's critical section widen every overlap with the lock holder
	slow := 0
	if r.Intn(3) == 0 {
		slow = 100 + r.Intn(1400)
	}
	consOps := 0
	for p := 1; p <= nP; p++ {
		n := 1 + r.Intn(4)
		for i := 0; i < n; i++ {
			o := "Put"
			if r.Intn(2) == 0 {
				o = "PutForce"
			}
			plans[p] = append(plans[p], call{O: o, K: lane(r, s.Double), E: g.elem(p), V: g.kind(r), Wait: delay()})
			if r.Intn(25) == 0 {
				plans[p] = append(plans[p], call{O: "Clear", Wait: delay()})
			}
		}
	}
	for p := nP + 1; p <= nP+nC; p++ {
		n := 1 + r.Intn(4)
		for i := 0; i < n; i++ {
			cl := call{Wait: delay()}
			switch x := r.Intn(11); {
			case x < 5:
				cl.O = "Get"
			case x < 7:
				cl.O = "GetNoWait"
			case x == 10:
				cl.O = "Size" // a locked size read overlapping the others
				if s.Double {
					cl.K = r.Intn(3)
				}
			default:
				cl.O, cl.T = "GetTimeout", []int{0, 1, 2, 3, 5, 8, 15}[r.Intn(7)]
			}
			plans[p] = append(plans[p], cl)
			consOps++
		}
	}
	h, err := start(t, "conc", cas, s, core.Ev{"producers": nP, "consumers": nC, "consumers_first": consFirst, "nondet": true, "nothing_pct": g.nothing, "cb_linger_us": slow})
	if err != nil {
		return 0, err
	}
	h.cb.slow = time.Duration(slow) * time.Microsecond
	inflight := make([]int32, 1+nP+nC)
	done := make(chan int, nC)
	var pw sync.WaitGroup
	startCons := func() {
		for p := nP + 1; p <= nP+nC; p++ {
			go func(p int) {
				atomic.StoreInt32(&inflight[p], 1)
				for _, cl := range plans[p] {
					if !h.conCall(p, cl, true) {
						break
					}
				}
				atomic.StoreInt32(&inflight[p], 0)
				done <- p
			}(p)
		}
	}
	startProd := func() {
		for p := 1; p <= nP; p++ {
			pw.Add(1)
			go func(p int) {
				defer pw.Done()
				for _, cl := range plans[p] {
					if !h.conCall(p, cl, false) {
						break
					}
				}
			}(p)
		}
	}
	if consFirst {
		startCons()
		// every consumer whose first call is a blocking Get is parked before the first producer exists
		n := 0
		for p := nP + 1; p <= nP+nC; p++ {
			if plans[p][0].O == "Get" {
				n++
			}
		}
		h.waitParked(n)
		startProd()
	} else {
		startProd()
		startCons()
	}
	pw.Wait()
	h.fillUntil(g, r, done, inflight, nC)
	h.finish()
	h.flush()
	sig := []string{}
	for p := 1; p < len(plans); p++ {
		x := ""
		for _, cl := range plans[p] {
			x += cl.O[:1] + cl.O[len(cl.O)-1:]
		}
		sig = append(sig, x)
	}
	c.Count(fmt.Sprintf("conc|%s|%v|%s", s, consFirst, strings.Join(sig, "/")), h.accepted && h.gotElem && nP+nC >= 2)
	if cas < 2 {
		c.Sample(map[string]interface{}{"gen": "conc", "case": cas, "setup": s.String(), "producers": nP, "consumers": nC, "consumers_first": consFirst, "plans": sig})
	}
	return h.timeouts, nil
}

// strand schedules: nC consumers each make nG blocking Gets and are PARKED
// (observed in the condition variable's wait list) before the producer's put.
//
//	variant 0  one put at a time; after each put exactly one Get must come back
//	variant 1  all puts back to back, then every Get must come back
//	variant 2  as 0, with an extra goroutine polling with GetNoWait/GetTimeout
var strandCaps = []int{0, 1, 2}

func strandCases() []([7]int) {
	var out [][7]int
	for dbl := 0; dbl < 2; dbl++ {
		for _, cp := range strandCaps {
			for nC := 1; nC <= 3; nC++ {
				for force := 0; force < 2; force++ {
					for variant := 0; variant < 3; variant++ {
						for nG := 1; nG <= 2; nG++ {
							if nG == 2 && variant == 1 {
								continue
							}
							out = append(out, [7]int{dbl, cp, nC, force, variant, nG, 0})
						}
					}
				}
			}
		}
	}
	return out
}

func runStrand(c *core.Ctx, t *core.Trace, cas int, sc [7]int) (int, error) {
	r := c.Rng("strand", cas)
	dbl, cp, nC, force, variant, nG := sc[0] == 1, sc[1], sc[2], sc[3] == 1, sc[4], sc[5]
	s := setup{Double: dbl, Cap: [2]int{cp, cp}, CB: true}
	h, err := start(t, "strand", cas, s, core.Ev{"consumers": nC, "gets": nG, "variant": variant, "nondet": variant == 2})
	if err != nil {
		return 0, err
	}
	g := &seqGen{next: map[int]int{}}
	// the queue has been through non-empty -> empty before anybody parks
	if r.Intn(2) == 0 {
		for i := 0; i < 1+r.Intn(2); i++ {
			h.seqCall(call{O: "Put", K: lane(r, dbl), E: g.elem(1)})
		}
		if r.Intn(2) == 0 {
			h.seqCall(call{O: "Clear"})
		}
		h.drain()
	}
	put := "Put"
	if force {
		put = "PutForce"
	}
	inflight := make([]int32, 2+nC+1)
	done := make(chan int, nC*nG+1)
	for p := 2; p < 2+nC; p++ {
		go func(p int) {
			atomic.StoreInt32(&inflight[p], 1)
			for i := 0; i < nG; i++ {
				if !h.conCall(p, call{O: "Get"}, true) {
					break
				}
				done <- p
			}
			atomic.StoreInt32(&inflight[p], 0)
		}(p)
	}
	h.waitParked(nC)
	h.size() // nothing queued, everybody parked
	stop := make(chan struct{})
	var pollw sync.WaitGroup
	if variant == 2 {
		pollw.Add(1)
		go func() {
			defer pollw.Done()
			pp := 2 + nC
			for i := 0; ; i++ {
				select {
				case <-stop:
					return
				default:
				}
				if i%2 == 0 {
					h.conCall(pp, call{O: "GetNoWait", Wait: 100}, false)
				} else {
					h.conCall(pp, call{O: "GetTimeout", T: 1 + i%3, Wait: -1}, false)
				}
				if i > 200 {
					return
				}
			}
		}()
	}
	total := nC * nG
	got := 0
	remaining := map[int]int{}
	for p := 2; p < 2+nC; p++ {
		remaining[p] = nG
	}
	busy := func() int { // consumers that still have a Get to make (they park)
		n := 0
		for _, k := range remaining {
			if k > 0 {
				n++
			}
		}
		return n
	}
	strandedAt := func() {
		for p := 2; p < 2+nC; p++ {
			if atomic.LoadInt32(&inflight[p]) != 0 {
				h.timeouts++
				h.log(core.Ev{"ev": "Timeout", "p": p, "o": "Get"})
			}
		}
		if h.timeouts == 0 {
			h.timeouts++
			h.log(core.Ev{"ev": "Timeout", "p": -1})
		}
	}
	await := func(n int) bool { // n more Gets must come back
		for i := 0; i < n; i++ {
			select {
			case p := <-done:
				got++
				remaining[p]--
			case <-time.After(watchdog):
				return false
			}
		}
		return true
	}
	ok := true
	switch variant {
	case 0:
		for i := 0; i < total && ok; i++ {
			h.conCall(1, call{O: put, K: lane(r, dbl), E: g.elem(1)}, false)
			ok = await(1)
			if ok && i+1 < total {
				// whoever is left (or came back for its second Get) parks again
				h.waitParked(busy())
			}
		}
	case 1:
		for i := 0; i < total; i++ {
			// with a bounded lane a burst would be refused/evict: spread it over what fits
			h.conCall(1, call{O: put, K: lane(r, dbl), E: g.elem(1)}, false)
			if cp > 0 && (i+1)%cp == 0 {
				if ok = await(min(cp, total-got)); !ok {
					break
				}
			}
		}
		if ok {
			ok = await(total - got)
		}
	case 2:
		// the poller may steal elements: keep supplying until every Get is back
		last := time.Now()
		for got < total && ok {
			h.conCall(1, call{O: put, K: lane(r, dbl), E: g.elem(1)}, false)
			select {
			case p := <-done:
				got++
				remaining[p]--
				last = time.Now()
			case <-time.After(3 * time.Millisecond):
				if time.Since(last) > watchdog {
					ok = false
				}
			}
		}
	}
	close(stop)
	pollw.Wait()
	if !ok {
		strandedAt()
	}
	h.finish()
	h.flush()
	c.Count(fmt.Sprintf("strand|%v", sc), true)
	if cas < 1 {
		c.Sample(map[string]interface{}{"gen": "strand", "case": cas, "setup": s.String(), "parked_consumers": nC, "gets_each": nG, "variant": variant, "put": put})
	}
	return h.timeouts, nil
}

// ---------------------------------------------------------------- callback-held schedules
//
// The queue runs its Failed/Overflowed callbacks inside its critical section:
// a callback that blocks is a lock holder the harness controls.  One goroutine
// (the holder) makes a call whose callback blocks; while it is blocked the
// other goroutines of the schedule are started; the callback is released when
// all of them have returned or a bounded wait is over (on a queue whose
// operations all take the lock they simply block until then).  Invocations and
// responses are logged as always and TLC looks for linearization points.
//
//	holder 0  a plain put on a full lane: refused, the failure callback blocks
//	holder 1  a forced put on a full lane: the overflow callback blocks
//	holder 2  a forced put on a lane whose capacity was lowered under its content:
//	          several evictions, the callback blocks at one of them (mid-loop)
var heldOthers = []string{"GetNoWait", "GetTimeout0", "GetTimeoutShort", "GetTimeoutLong", "Get", "Size0", "Size1", "Size2", "Put", "PutOther", "PutForce", "Clear"}

type heldCase struct{ dbl, holder, lane, other int }

func heldCases() []heldCase {
	var out []heldCase
	for dbl := 0; dbl < 2; dbl++ {
		for holder := 0; holder < 3; holder++ {
			for ln := 1; ln <= 1+dbl; ln++ {
				for o, name := range heldOthers {
					if dbl == 0 && (name == "Size1" || name == "Size2" || name == "PutOther") {
						continue
					}
					out = append(out, heldCase{dbl, holder, ln, o})
				}
			}
		}
	}
	return out
}

func (h *hist) heldOther(name string, k int, g *seqGen, r *rand.Rand, p int, holdMs int) call {
	ok := 3 - k // the other lane
	if !h.set.Double {
		ok = 1
	}
	switch name {
	case "GetTimeout0":
		return call{O: "GetTimeout", T: 0}
	case "GetTimeoutShort":
		return call{O: "GetTimeout", T: 1 + r.Intn(4)}
	case "GetTimeoutLong":
		return call{O: "GetTimeout", T: holdMs + 15}
	case "Size0":
		return call{O: "Size", K: 0}
	case "Size1":
		return call{O: "Size", K: 1}
	case "Size2":
		return call{O: "Size", K: 2}
	case "Put":
		return call{O: "Put", K: k, E: g.elem(p), V: g.kind(r)}
	case "PutOther":
		return call{O: "Put", K: ok, E: g.elem(p), V: g.kind(r)}
	case "PutForce":
		return call{O: "PutForce", K: k, E: g.elem(p), V: g.kind(r)}
	}
	return call{O: name} // GetNoWait, Get, Clear
}

func runHeld(c *core.Ctx, t *core.Trace, cas int, hc heldCase) (int, error) {
	r := c.Rng("held", cas)
	dbl, k := hc.dbl == 1, hc.lane
	capK := 1 + r.Intn(3)
	extra := 0
	if hc.holder == 2 {
		extra = 1 + r.Intn(2)
	}
	s := setup{Double: dbl, CB: true}
	s.Cap[k-1] = capK + extra
	if dbl {
		s.Cap[2-k] = []int{0, 1, 2, 3}[r.Intn(4)]
	}
	g := &seqGen{next: map[int]int{}, nothing: []int{0, 30, 0, 60}[(cas/7)%4]}
	holdMs := c.Pick(12, 20)
	names := []string{heldOthers[hc.other]}
	if r.Intn(2) == 0 {
		for {
			n := heldOthers[r.Intn(len(heldOthers))]
			if dbl || (n != "Size1" && n != "Size2" && n != "PutOther") {
				names = append(names, n)
				break
			}
		}
	}
	h, err := start(t, "held", cas, s, core.Ev{"holder": hc.holder, "lane": k, "others": names, "nothing_pct": g.nothing, "nondet": true})
	if err != nil {
		return 0, err
	}
	// fill lane k to its capacity; something in the other lane too
	for i := 0; i < capK+extra; i++ {
		h.seqCall(call{O: "Put", K: k, E: g.elem(4), V: g.kind(r)})
	}
	if dbl {
		for i := r.Intn(3); i > 0; i-- {
			h.seqCall(call{O: "Put", K: 3 - k, E: g.elem(4), V: g.kind(r)})
		}
	}
	at := 1
	if extra > 0 {
		cp := [2]int{s.Cap[0], s.Cap[1]}
		cp[k-1] = capK
		h.seqCall(call{O: "SetCap", C: cp})
		at = 1 + r.Intn(extra+1) // evictions to come: extra+1
	}
	ctl := &holdCtl{over: hc.holder != 0, k: k, at: at, entered: make(chan struct{}), release: make(chan struct{}), maxBlock: 5 * time.Second}
	h.cb.mu.Lock()
	h.cb.hold = ctl
	h.cb.mu.Unlock()

	others := make([]call, len(names))
	for i, n := range names {
		others[i] = h.heldOther(n, k, g, r, 2+i, holdMs)
		others[i].Sig = make(chan struct{})
		if others[i].O == "GetTimeout" && others[i].T+12 > holdMs && n != "GetTimeoutLong" {
			holdMs = others[i].T + 12
		}
	}
	nG := 1 + len(others)
	inflight := make([]int32, 1+nG)
	done := make(chan int, nG)
	run := func(p int, cl call) {
		atomic.StoreInt32(&inflight[p], 1)
		go func() {
			h.conCall(p, cl, true)
			atomic.StoreInt32(&inflight[p], 0)
			done <- p
		}()
	}
	hop := "Put"
	if hc.holder != 0 {
		hop = "PutForce"
	}
	run(1, call{O: hop, K: k, E: g.elem(1), V: g.kind(r)})
	finished := 0
	holderDone := false
	entered := false
	select {
	case <-ctl.entered:
		entered = true
	case <-done: // the call came back without its callback having been reached
		finished++
		holderDone = true
	case <-time.After(2 * time.Second):
	}
	for i, cl := range others {
		run(2+i, cl)
	}
	// the callback stays blocked until every other goroutine has been invoked and has returned, or the wait is over
	for _, cl := range others {
		select {
		case <-cl.Sig:
		case <-time.After(2 * time.Second):
		}
	}
	dl := time.After(time.Duration(holdMs) * time.Millisecond)
	returned := 0
wait:
	for returned < len(others) {
		select {
		case p := <-done:
			finished++
			if p == 1 {
				holderDone = true
			} else {
				returned++
			}
		case <-dl:
			break wait
		}
	}
	close(ctl.release)
	// everybody must come back now; a blocking Get may find the queue drained by the others: keep it supplied
	pause := 5 * time.Millisecond
	last := time.Now()
	for finished < nG {
		select {
		case p := <-done:
			finished++
			if p == 1 {
				holderDone = true
			}
			last = time.Now()
			continue
		case <-time.After(pause):
		}
		if time.Since(last) > watchdog {
			for p := 1; p <= nG; p++ {
				if atomic.LoadInt32(&inflight[p]) != 0 {
					h.timeouts++
					h.log(core.Ev{"ev": "Timeout", "p": p})
				}
			}
			break
		}
		if holderDone {
			h.conCall(0, call{O: "PutForce", K: lane(r, dbl), E: g.elem(0)}, false)
		}
		if pause < 200*time.Millisecond {
			pause *= 2
		}
	}
	h.cb.mu.Lock()
	h.cb.hold = nil
	h.cb.mu.Unlock()
	h.finish()
	h.flush()
	c.Count(fmt.Sprintf("held|%v|%v|%s|%d", hc, s, strings.Join(names, "+"), at), entered)
	if cas < 1 {
		c.Sample(map[string]interface{}{"gen": "held", "case": cas, "setup": s.String(), "holder": hop, "blocked_callback_invocation": at, "others": names, "hold_ms": holdMs})
	}
	return h.timeouts, nil
}

func min(a, b int) int {
	if a < b {
		return a
	}
	return b
}

func runSelf(c *core.Ctx, t *core.Trace) error {
	h, err := start(t, "self", 0, setup{Cap: [2]int{2, 0}, CB: true}, nil)
	if err != nil {
		return err
	}
	for _, cl := range []call{
		{O: "Put", K: 1, E: elem{1, 1}}, {O: "Put", K: 1, E: elem{1, 2}}, {O: "Put", K: 1, E: elem{2, 1}},
		{O: "PutForce", K: 1, E: elem{2, 2}}, {O: "GetNoWait"}, {O: "SetCap", C: [2]int{1, 0}}, {O: "PutForce", K: 1, E: elem{1, 3}},
		{O: "Get"}, {O: "GetTimeout", T: 3}, {O: "Put", K: 1, E: elem{1, 4}}, {O: "Clear"}, {O: "GetNoWait"},
	} {
		if !h.seqCall(cl) {
			break
		}
	}
	h.finish()
	h.flush()
	c.Count("self", true)
	return nil
}

func Run(c *core.Ctx) error {
	c.Rule = "C11: sequential histories over the whole API of RequestQueue and RequestDoubleQueue (profiles mixed/full/capchange/unbounded/nocb/drain), concurrent histories of 1-3 producers x 1-3 consumers (blocking, no-wait and timed gets, consumers optionally parked before the first producer), and stranded-consumer schedules (1-3 consumers observed parked in Get before each put), callback-held schedules (a Failed/Overflowed callback blocks inside the queue's critical section while every other operation is invoked: holder refused-Put / evicting PutForce / mid-loop eviction x GetNoWait, GetTimeout, Get, Size, Put, PutForce, Clear); elements are put as struct values, pointers and nothing-like values (nil interface, typed nil pointer, empty struct, zero int, empty string, nil slice, false); a history is non-trivial if an element was accepted and an element was delivered; distinct by setup and call plan"
	if _, ok := condWaiters(sync.NewCond(new(sync.Mutex))); !ok {
		c.SetExtra("parked_observable", false)
	} else {
		c.SetExtra("parked_observable", true)
	}
	t := c.Trace("c11_queue", "Trace_ReqQueue")
	if c.Want("self", 0) {
		if err := runSelf(c, t); err != nil {
			return err
		}
	}
	if c.WantGen("seq") {
		n := c.Pick(150, 1500)
		for cas := 0; cas < n; cas++ {
			if c.Want("seq", cas) && !tooManyStuck() {
				if err := runSeq(c, t, cas); err != nil {
					return err
				}
			}
		}
	}
	// after a few stranded calls the remaining schedules would each cost a
	// watchdog period: stop generating (the run is failing anyway)
	timeouts := 0
	if c.WantGen("strand") {
		cases := strandCases()
		rounds := c.Pick(1, 4)
		for round := 0; round < rounds; round++ {
			for i, sc := range cases {
				cas := round*1000 + i
				if !c.Want("strand", cas) || timeouts >= 3 || tooManyStuck() {
					continue
				}
				n, err := runStrand(c, t, cas, sc)
				if err != nil {
					return err
				}
				timeouts += n
			}
		}
	}
	if c.WantGen("held") {
		cases := heldCases()
		rounds := c.Pick(1, 4)
		single := c.OnlyGen == "held" && c.OnlyCase >= 0
		for round := 0; round < rounds; round++ {
			for i, hc := range cases {
				cas := round*1000 + i
				if !c.Want("held", cas) || timeouts >= 3 || tooManyStuck() {
					continue
				}
				// reproduction of one rejected schedule: the overlap needs the other goroutine to reach the
				// lock within the bounded wait; run the schedule a few times, every run is judged
				reps := 1
				if single {
					reps = 10
				}
				for j := 0; j < reps && timeouts < 3 && !tooManyStuck(); j++ {
					n, err := runHeld(c, t, cas, hc)
					if err != nil {
						return err
					}
					timeouts += n
				}
			}
		}
	}
	if c.WantGen("conc") {
		n := c.Pick(250, 3000)
		single := c.OnlyGen == "conc" && c.OnlyCase >= 0
		for cas := 0; cas < n; cas++ {
			if !c.Want("conc", cas) || timeouts >= 3 || tooManyStuck() {
				continue
			}
			// a single requested case (reproduction of a rejection) is a schedule-dependent
			// history: run the same plan many times, every run is judged
			reps := 1
			if single {
				reps = 40
			}
			for i := 0; i < reps && timeouts < 3 && !tooManyStuck(); i++ {
				k, err := runConc(c, t, cas)
				if err != nil {
					return err
				}
				timeouts += k
			}
		}
	}
	c.SetExtra("stranded_calls", timeouts)
	return nil
}
